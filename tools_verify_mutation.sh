#!/bin/sh
# tools_verify_mutation.sh <mutation dir with patch.diff, demo/> — confirm a seeded change independently:
# (1) patch applies and compiles, (2) the existing tests still pass with it, (3) the demo passes without
# and fails with it.  Works in a scratch worktree under /tmp; cleans up.  Prints a summary line.
M=$(readlink -f "$1"); TAG=$$
WT=/tmp/vm_$TAG; TD=/tmp/vm_${TAG}_target
git -C /repo worktree add --detach -q $WT ${MUT_BASE:-HEAD}
[ -d /repo/target ] && cp -r --reflink=auto /repo/target $TD   # warm dependency artefacts
cleanup() { git -C /repo worktree remove --force $WT 2>/dev/null; rm -rf $TD /tmp/vm_${TAG}_demo; }
trap cleanup EXIT
run_demo() {  # run the demo against tree $WT
  rm -rf /tmp/vm_${TAG}_demo; cp -r "$M/demo" /tmp/vm_${TAG}_demo; cd /tmp/vm_${TAG}_demo
  # demos refer to the agent's worktree path: rewrite it to ours
  ORIG=$(grep -rhoE "/tmp/mut_C[0-9]+[a-z]?" . 2>/dev/null | grep -v _target | sort | head -1)
  [ -n "$ORIG" ] && grep -rlE "$ORIG" . | xargs sed -i "s#$ORIG#$WT#g"
  if [ -f Cargo.toml ]; then cp $WT/Cargo.lock . 2>/dev/null; CARGO_NET_OFFLINE=true timeout 1500 cargo run --offline --quiet --target-dir $TD/demo >/tmp/vm_${TAG}_demo.log 2>&1; echo $?
  else (cd $WT && CARGO_NET_OFFLINE=true cargo build --offline -q -p portable-network-archive --target-dir $TD >/dev/null 2>&1)   # a demo that finds a binary does not rebuild it
    SH=$(ls *.sh | head -1); INTERP=sh; head -1 $SH | grep -q bash && INTERP=bash; PNA_TARGET_DIR=$TD CARGO_TARGET_DIR=$TD timeout 1500 $INTERP ./$SH >/tmp/vm_${TAG}_demo.log 2>&1; echo $?; fi
}
D0=$(run_demo)
cd $WT && git apply "$M/patch.diff" || { echo "RESULT $M: patch does not apply"; exit 2; }
CLI=$(grep -c "^+++ b/cli" "$M/patch.diff")
cd $WT && CARGO_NET_OFFLINE=true timeout 3000 cargo test --offline --no-fail-fast -p libpna --target-dir $TD > /tmp/vm_${TAG}_test.log 2>&1
[ "$CLI" -gt 0 ] && { cd $WT && CARGO_NET_OFFLINE=true timeout 3000 cargo test --offline --no-fail-fast -p portable-network-archive --target-dir $TD >> /tmp/vm_${TAG}_test.log 2>&1; }
T=$(python3 /verif/tools_baseline_compare.py /tmp/vm_${TAG}_test.log --subset 2>&1 | head -1)
D1=$(run_demo)
echo "RESULT $M: demo_without_patch_exit=$D0 demo_with_patch_exit=$D1 tests: $T"
rm -f /tmp/vm_${TAG}_*.log
