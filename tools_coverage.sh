#!/bin/sh
# tools_coverage.sh [Cxx ...]  — how far do the checks reach into the Rust code the model mirrors?
# Runs the quick tier of the named checks (default: all) with VERIF_COV (vlib/core.py): harness and pna built by the
# nightly toolchain with -C instrument-coverage into /verif/.build/cov, then merges the counters and prints line
# coverage per file of /repo/lib/src, /repo/cli/src, /repo/pna/src with the uncovered line ranges
# (/verif/.build/cov/report.txt, summary table in /verif/coverage.md).  Not a registered check; evidence files are kept aside.
set -e
cd /verif
COVDIR=/verif/.build/cov
PROPS="$@"; [ -z "$PROPS" ] && PROPS="C01 C02 C03 C04 C05 C06 C07 C08 C09 C10 C11 C12 C13 C14 C15 C16 C17 C18 C19 C20"
mkdir -p $COVDIR/keep /verif/.work/mutlogs
for P in $PROPS; do
  cp evidence/$P.json $COVDIR/keep/$P.json 2>/dev/null || true
  RC=0; VERIF_COV=$COVDIR ./check $P --tier quick > $COVDIR/run_$P.log 2>&1 || RC=$?
  cp $COVDIR/keep/$P.json evidence/$P.json 2>/dev/null || true
  echo "$P exit=$RC $(tail -1 $COVDIR/run_$P.log)"
done
python3 /verif/tools_coverage_report.py $COVDIR
