//! refdec: the INDEPENDENT strict reference reader of the PNA format (C14).
//!
//! Written from the format description only; shares no code with libpna (no `use libpna`,
//! none of the helpers of arch.rs).  Primitives used: crc32fast, aes / camellia single-block
//! calls, pbkdf2 / argon2 raw KDF functions, flate2 / zstd / liblzma raw stream decoders.
//! CBC, CTR (128-bit big-endian counter), PKCS#7, PHC-string parsing, base64 and all of the
//! container grammar are implemented here.
//!
//! Structure check in two phases, mirrored by coq/Model/Wf.v (same order of checks, same
//! reason words):
//!   phase 1 (per part): signature `sig`; chunk framing `chunk` (input ends inside a chunk) /
//!     `noend` (input ends at a chunk boundary before AEND); CRC `crc`; chunk type = 4 ASCII
//!     letters with the reserved bit clear `type`; nothing after AEND `trailing`; first chunk
//!     AHED of 8 bytes, version 0.0, reserved bytes zero `ahed`; part number = position
//!     `number`; AEND / ANXT payload empty `marker`; a second AHED or an ANXT that is not the
//!     last chunk before AEND `order`; the part chain (ANXT exactly on all parts but the last)
//!     `parts`.
//!   phase 2 (concatenated bodies of all parts): only complete entries FHED..FEND /
//!     SHED..SEND `order`; unknown critical chunk `critical`; header fields `header`; entry
//!     name `name`; PHSF rules `phsf`; data-stream length rules `data`; ancillary payloads
//!     `meta`; FEND/SEND payload empty `marker`; plain solid stream = complete inner entries
//!     `inner`.
use aes::cipher::{generic_array::GenericArray, BlockDecrypt, BlockEncrypt, KeyInit};
use std::fmt::Write as _;

pub const SIG: [u8; 8] = [0x89, b'P', b'N', b'A', 0x0d, 0x0a, 0x1a, 0x0a];

#[derive(Clone, Debug, PartialEq)]
pub struct Chunk {
    pub ty: [u8; 4],
    pub data: Vec<u8>,
}

#[derive(Clone, Debug, PartialEq)]
pub struct Perm {
    pub uid: u64,
    pub uname: Vec<u8>,
    pub gid: u64,
    pub gname: Vec<u8>,
    pub mode: u16,
}

#[derive(Clone, Debug, Default)]
pub struct NEntry {
    pub kind: u8,
    pub comp: u8,
    pub enc: u8,
    pub mode: u8,
    pub name: Vec<u8>,
    pub phsf: Option<Vec<u8>>,
    pub extras: Vec<Chunk>,
    pub data: Vec<Vec<u8>>,
    pub size: Option<u128>,
    pub ctime: Option<u64>,
    pub mtime: Option<u64>,
    pub atime: Option<u64>,
    pub perm: Option<Perm>,
    pub xattrs: Vec<(Vec<u8>, Vec<u8>)>,
}

#[derive(Clone, Debug, Default)]
pub struct SEntry {
    pub comp: u8,
    pub enc: u8,
    pub mode: u8,
    pub phsf: Option<Vec<u8>>,
    pub extras: Vec<Chunk>,
    pub data: Vec<Vec<u8>>,
}

#[derive(Clone, Debug)]
pub enum REntry {
    N(NEntry),
    S(SEntry),
}

/// (reason word, human detail)
pub type Why = (&'static str, String);
fn why<T>(w: &'static str, d: impl Into<String>) -> Result<T, Why> {
    Err((w, d.into()))
}

pub fn hex(b: &[u8]) -> String {
    let mut s = String::with_capacity(b.len() * 2);
    for x in b {
        write!(s, "{:02x}", x).unwrap();
    }
    s
}

// ------------------------------------------------------------------------------- CRC-32
pub fn crc32(ty: &[u8], data: &[u8]) -> u32 {
    let mut h = crc32fast::Hasher::new();
    h.update(ty);
    h.update(data);
    h.finalize()
}

// ------------------------------------------------------------------------ phase 1: chunks
fn be32(b: &[u8]) -> u32 {
    u32::from_be_bytes([b[0], b[1], b[2], b[3]])
}

/// one chunk at `pos`; framing, then CRC
fn read_chunk(bs: &[u8], pos: usize) -> Result<(Chunk, usize), Why> {
    let left = bs.len() - pos;
    if left == 0 {
        return why("noend", "input ends before AEND");
    }
    if left < 8 {
        return why("chunk", format!("{} bytes left at offset {}: no room for length and type", left, pos));
    }
    let l = be32(&bs[pos..]) as usize;
    let ty: [u8; 4] = bs[pos + 4..pos + 8].try_into().unwrap();
    if left - 8 < l || left - 8 - l < 4 {
        return why("chunk", format!("chunk at offset {} announces {} bytes, input too short", pos, l));
    }
    let data = &bs[pos + 8..pos + 8 + l];
    let c = be32(&bs[pos + 8 + l..]);
    if c != crc32(&ty, data) {
        return why("crc", format!("bad CRC on chunk at offset {}", pos));
    }
    Ok((Chunk { ty, data: data.to_vec() }, pos + 12 + l))
}

pub fn valid_type(ty: &[u8; 4]) -> bool {
    ty.iter().all(|c| c.is_ascii_alphabetic()) && ty[2] & 0x20 == 0
}

/// all chunks of one part, AHED first and AEND last, nothing after AEND
pub fn part_chunks(bs: &[u8]) -> Result<Vec<Chunk>, Why> {
    if bs.len() < 8 || bs[..8] != SIG {
        return why("sig", "signature missing");
    }
    let mut pos = 8;
    let mut out = Vec::new();
    loop {
        let (c, p) = read_chunk(bs, pos)?;
        if !valid_type(&c.ty) {
            return why("type", format!("invalid chunk type {:02x?} at offset {}", c.ty, pos));
        }
        pos = p;
        let end = &c.ty == b"AEND";
        out.push(c);
        if end {
            break;
        }
    }
    if pos != bs.len() {
        return why("trailing", format!("{} bytes after AEND", bs.len() - pos));
    }
    Ok(out)
}

/// the body of part `index` (chunks between AHED and AEND, ANXT removed) and whether a
/// continuation is announced
pub fn part_body(bs: &[u8], index: usize) -> Result<(Vec<Chunk>, bool), Why> {
    let cs = part_chunks(bs)?;
    let h = &cs[0];
    if &h.ty != b"AHED" || h.data.len() != 8 || h.data[..4] != [0, 0, 0, 0] {
        return why("ahed", "first chunk is not an 8-byte AHED of version 0.0");
    }
    if be32(&h.data[4..]) as u64 != index as u64 {
        return why("number", format!("part number {} at position {}", be32(&h.data[4..]), index));
    }
    let body = &cs[1..cs.len() - 1];
    let mut next = false;
    let mut out = Vec::new();
    for (i, c) in body.iter().enumerate() {
        if &c.ty == b"AHED" {
            return why("order", "AHED inside the archive");
        }
        if &c.ty == b"ANXT" {
            if i + 1 != body.len() {
                return why("order", "ANXT not directly before AEND");
            }
            if !c.data.is_empty() {
                return why("marker", "ANXT with payload");
            }
            next = true;
        } else {
            out.push(c.clone());
        }
    }
    if !cs[cs.len() - 1].data.is_empty() {
        return why("marker", "AEND with payload");
    }
    Ok((out, next))
}

pub fn all_bodies(parts: &[Vec<u8>]) -> Result<Vec<Chunk>, Why> {
    if parts.is_empty() {
        return why("parts", "no part");
    }
    let mut all = Vec::new();
    for (i, p) in parts.iter().enumerate() {
        let (b, next) = part_body(p, i)?;
        if next != (i + 1 < parts.len()) {
            return why("parts", if next { "continuation announced but no further part" } else { "part after the final part" });
        }
        all.extend(b);
    }
    Ok(all)
}

// ----------------------------------------------------------------------- phase 2: grammar
const KNOWN_CRITICAL: [&[u8; 4]; 10] = [b"AHED", b"AEND", b"ANXT", b"FHED", b"PHSF", b"FDAT", b"FEND", b"SHED", b"SDAT", b"SEND"];
fn is_critical(ty: &[u8; 4]) -> bool {
    ty[0] & 0x20 == 0
}
fn known_critical(ty: &[u8; 4]) -> bool {
    KNOWN_CRITICAL.iter().any(|k| *k == ty)
}

fn valid_comp(b: u8) -> bool {
    matches!(b, 0 | 1 | 2 | 4)
}

/// relative, UTF-8, every `/`-separated component non-empty and neither `.` nor `..`
pub fn valid_name(n: &[u8]) -> bool {
    std::str::from_utf8(n).is_ok() && n.split(|b| *b == b'/').all(|c| !c.is_empty() && c != b"." && c != b"..")
}

fn b64_char(b: u8) -> bool {
    b.is_ascii_alphanumeric() || b == b'+' || b == b'/'
}
/// PHC string WITHOUT hash: `$id[$v=N][$k=v,...]$salt`
pub fn phsf_shape(s: &[u8]) -> bool {
    if !s.iter().all(|b| (33..=126).contains(b)) {
        return false;
    }
    let f: Vec<&[u8]> = s.split(|b| *b == b'$').collect();
    if f.len() < 3 || !f[0].is_empty() {
        return false;
    }
    let id = f[1];
    if id.is_empty() || !id.iter().all(|b| b.is_ascii_lowercase() || b.is_ascii_digit() || *b == b'-') {
        return false;
    }
    let mut i = 2;
    if f[i].starts_with(b"v=") {
        if f[i].len() == 2 || !f[i][2..].iter().all(|b| b.is_ascii_digit()) {
            return false;
        }
        i += 1;
    }
    if i < f.len() && f[i].contains(&b'=') {
        if !f[i].iter().all(|b| b64_char(*b) || matches!(*b, b'.' | b',' | b'=' | b'-')) {
            return false;
        }
        i += 1;
    }
    // the salt, and nothing after it
    i + 1 == f.len() && !f[i].is_empty() && f[i].iter().all(|b| b64_char(*b))
}

fn parse_perm(d: &[u8]) -> Option<Perm> {
    let mut p = 0usize;
    let take = |p: &mut usize, n: usize| -> Option<&[u8]> {
        if d.len() - *p < n {
            return None;
        }
        let s = &d[*p..*p + n];
        *p += n;
        Some(s)
    };
    let uid = u64::from_be_bytes(take(&mut p, 8)?.try_into().unwrap());
    let ul = take(&mut p, 1)?[0] as usize;
    let uname = take(&mut p, ul)?.to_vec();
    let gid = u64::from_be_bytes(take(&mut p, 8)?.try_into().unwrap());
    let gl = take(&mut p, 1)?[0] as usize;
    let gname = take(&mut p, gl)?.to_vec();
    let mode = u16::from_be_bytes(take(&mut p, 2)?.try_into().unwrap());
    if p != d.len() || std::str::from_utf8(&uname).is_err() || std::str::from_utf8(&gname).is_err() {
        return None;
    }
    Some(Perm { uid, uname, gid, gname, mode })
}
fn parse_xattr(d: &[u8]) -> Option<(Vec<u8>, Vec<u8>)> {
    if d.len() < 4 {
        return None;
    }
    let nl = be32(d) as usize;
    if d.len() - 4 < nl || d.len() - 4 - nl < 4 {
        return None;
    }
    let name = d[4..4 + nl].to_vec();
    let vl = be32(&d[4 + nl..]) as usize;
    if d.len() - 8 - nl != vl || std::str::from_utf8(&name).is_err() {
        return None;
    }
    Some((name, d[8 + nl..].to_vec()))
}

/// data-stream length rule of an encrypted entry: IV, then for CBC a positive number of blocks
fn data_len_ok(enc: u8, mode: u8, total: u64) -> bool {
    enc == 0 || (total >= 16 && (mode != 0 || (total > 16 && total % 16 == 0)))
}

fn phsf_step(enc: u8, have: &Option<Vec<u8>>, data_seen: bool, d: &[u8]) -> Result<(), Why> {
    if enc == 0 {
        return why("phsf", "PHSF in an entry that is not encrypted");
    }
    if have.is_some() {
        return why("phsf", "second PHSF");
    }
    if data_seen {
        return why("phsf", "PHSF after the data stream began");
    }
    if !phsf_shape(d) {
        return why("phsf", "PHSF is not a PHC string without hash");
    }
    Ok(())
}

/// one file entry: cs[0] is FHED, the last chunk is FEND
fn normal_entry(cs: &[Chunk]) -> Result<NEntry, Why> {
    let h = &cs[0].data;
    if h.len() < 6 || h[0] != 0 || h[1] != 0 || h[2] > 3 || !valid_comp(h[3]) || h[4] > 2 || h[5] > 1 {
        return why("header", "bad FHED");
    }
    if !valid_name(&h[6..]) {
        return why("name", format!("bad entry name {:?}", String::from_utf8_lossy(&h[6..])));
    }
    let mut e = NEntry { kind: h[2], comp: h[3], enc: h[4], mode: h[5], name: h[6..].to_vec(), ..Default::default() };
    for c in &cs[1..cs.len() - 1] {
        let d = &c.data;
        match &c.ty {
            b"PHSF" => {
                phsf_step(e.enc, &e.phsf, !e.data.is_empty(), d)?;
                e.phsf = Some(d.clone());
            }
            b"FDAT" => {
                if e.enc != 0 && e.phsf.is_none() {
                    return why("phsf", "encrypted data without PHSF before it");
                }
                e.data.push(d.clone());
            }
            b"fSIZ" => {
                if e.size.is_some() || d.len() > 16 || (!d.is_empty() && d[0] == 0) {
                    return why("meta", "bad or repeated fSIZ");
                }
                e.size = Some(d.iter().fold(0u128, |a, b| (a << 8) | *b as u128));
            }
            b"cTIM" | b"mTIM" | b"aTIM" => {
                let slot = match &c.ty {
                    b"cTIM" => &mut e.ctime,
                    b"mTIM" => &mut e.mtime,
                    _ => &mut e.atime,
                };
                if slot.is_some() || d.len() != 8 {
                    return why("meta", "bad or repeated timestamp");
                }
                *slot = Some(u64::from_be_bytes(d[..].try_into().unwrap()));
            }
            b"fPRM" => {
                if e.perm.is_some() {
                    return why("meta", "repeated fPRM");
                }
                e.perm = Some(parse_perm(d).ok_or(("meta", "bad fPRM".to_string()))?);
            }
            b"xATR" => e.xattrs.push(parse_xattr(d).ok_or(("meta", "bad xATR".to_string()))?),
            t if is_critical(t) => {
                return if known_critical(t) { why("order", format!("{} inside a file entry", String::from_utf8_lossy(t))) } else { why("critical", format!("unknown critical chunk {}", String::from_utf8_lossy(t))) }
            }
            _ => e.extras.push(c.clone()),
        }
    }
    if !cs[cs.len() - 1].data.is_empty() {
        return why("marker", "FEND with payload");
    }
    if e.enc != 0 && e.phsf.is_none() {
        return why("phsf", "encrypted entry without PHSF");
    }
    if !data_len_ok(e.enc, e.mode, e.data.iter().map(|d| d.len() as u64).sum()) {
        return why("data", "encrypted data stream: IV / block structure missing");
    }
    Ok(e)
}

fn solid_entry(cs: &[Chunk]) -> Result<SEntry, Why> {
    let h = &cs[0].data;
    if h.len() != 5 || h[0] != 0 || h[1] != 0 || !valid_comp(h[2]) || h[3] > 2 || h[4] > 1 {
        return why("header", "bad SHED");
    }
    let mut e = SEntry { comp: h[2], enc: h[3], mode: h[4], ..Default::default() };
    for c in &cs[1..cs.len() - 1] {
        let d = &c.data;
        match &c.ty {
            b"PHSF" => {
                phsf_step(e.enc, &e.phsf, !e.data.is_empty(), d)?;
                e.phsf = Some(d.clone());
            }
            b"SDAT" => {
                if e.enc != 0 && e.phsf.is_none() {
                    return why("phsf", "encrypted data without PHSF before it");
                }
                e.data.push(d.clone());
            }
            t if is_critical(t) => {
                return if known_critical(t) { why("order", format!("{} inside a solid entry", String::from_utf8_lossy(t))) } else { why("critical", format!("unknown critical chunk {}", String::from_utf8_lossy(t))) }
            }
            _ => e.extras.push(c.clone()),
        }
    }
    if !cs[cs.len() - 1].data.is_empty() {
        return why("marker", "SEND with payload");
    }
    if e.enc != 0 && e.phsf.is_none() {
        return why("phsf", "encrypted solid entry without PHSF");
    }
    if !data_len_ok(e.enc, e.mode, e.data.iter().map(|d| d.len() as u64).sum()) {
        return why("data", "encrypted solid stream: IV / block structure missing");
    }
    if e.comp == 0 && e.enc == 0 && inner_entries(&e.data.concat()).is_err() {
        return why("inner", "solid stream is not a sequence of complete entries");
    }
    Ok(e)
}

/// split a chunk sequence into entries (FHED..first FEND, SHED..first SEND); `solid_ok`: SHED allowed
fn entries_of(cs: &[Chunk], solid_ok: bool) -> Result<Vec<REntry>, Why> {
    let mut out = Vec::new();
    let mut i = 0;
    while i < cs.len() {
        let t = &cs[i].ty;
        let end: &[u8; 4] = if t == b"FHED" {
            b"FEND"
        } else if t == b"SHED" && solid_ok {
            b"SEND"
        } else if is_critical(t) && !known_critical(t) {
            return why("critical", format!("unknown critical chunk {}", String::from_utf8_lossy(t)));
        } else {
            return why("order", format!("{} outside an entry", String::from_utf8_lossy(t)));
        };
        let j = match cs[i + 1..].iter().position(|c| &c.ty == end) {
            Some(k) => i + 1 + k,
            None => return why("order", format!("entry without {}", String::from_utf8_lossy(end))),
        };
        out.push(if end == b"FEND" { REntry::N(normal_entry(&cs[i..=j])?) } else { REntry::S(solid_entry(&cs[i..=j])?) });
        i = j + 1;
    }
    Ok(out)
}

/// the decoded solid stream: chunks back to back (no signature, no AHED/AEND), complete file entries only
pub fn inner_entries(stream: &[u8]) -> Result<Vec<NEntry>, Why> {
    let mut cs = Vec::new();
    let mut pos = 0;
    while pos < stream.len() {
        let (c, p) = read_chunk(stream, pos)?;
        if !valid_type(&c.ty) {
            return why("type", "invalid chunk type in the solid stream");
        }
        cs.push(c);
        pos = p;
    }
    Ok(entries_of(&cs, false)?.into_iter().map(|e| match e { REntry::N(n) => n, REntry::S(_) => unreachable!() }).collect())
}

/// the strict structural reading of a part sequence
pub fn strict_decode(parts: &[Vec<u8>]) -> Result<Vec<REntry>, Why> {
    entries_of(&all_bodies(parts)?, true)
}

pub fn verdict(r: &Result<Vec<REntry>, Why>) -> String {
    match r {
        Ok(_) => "1".into(),
        Err((w, _)) => format!("0 {}", w),
    }
}

// ---- canonical rendering, the format of coq/Model/ArchiveRun.v show_entry ------------------
fn opt<T>(o: &Option<T>, f: impl Fn(&T) -> String) -> String {
    o.as_ref().map(f).unwrap_or("-".into())
}
fn show_chunks(cs: &[Chunk]) -> String {
    cs.iter().map(|c| format!("{}:{}", hex(&c.ty), hex(&c.data))).collect::<Vec<_>>().join(",")
}
pub fn show_entry(e: &REntry) -> String {
    match e {
        REntry::N(e) => format!(
            "N/0.0.{}.{}.{}.{}.{}/{}/{}/{}/{}.{}.{}.{}.{}/{}/{}",
            e.kind,
            e.comp,
            e.enc,
            e.mode,
            hex(&e.name),
            opt(&e.phsf, |s| hex(s)),
            show_chunks(&e.extras),
            e.data.iter().map(|d| hex(d)).collect::<Vec<_>>().join("."),
            opt(&e.size, |v| v.to_string()),
            e.data.iter().map(|d| d.len()).sum::<usize>(),
            opt(&e.ctime, |v| v.to_string()),
            opt(&e.mtime, |v| v.to_string()),
            opt(&e.atime, |v| v.to_string()),
            opt(&e.perm, |p| format!("{}.{}.{}.{}.{}", p.uid, hex(&p.uname), p.gid, hex(&p.gname), p.mode)),
            e.xattrs.iter().map(|(n, v)| format!("{}={}", hex(n), hex(v))).collect::<Vec<_>>().join(","),
        ),
        REntry::S(e) => format!(
            "S/0.0.{}.{}.{}/{}/{}/{}",
            e.comp,
            e.enc,
            e.mode,
            opt(&e.phsf, |s| hex(s)),
            show_chunks(&e.extras),
            e.data.iter().map(|d| hex(d)).collect::<Vec<_>>().join("."),
        ),
    }
}

// ================================================================== decoding with primitives
pub fn b64_decode_nopad(s: &[u8]) -> Option<Vec<u8>> {
    let val = |c: u8| -> Option<u32> {
        Some(match c {
            b'A'..=b'Z' => c - b'A',
            b'a'..=b'z' => c - b'a' + 26,
            b'0'..=b'9' => c - b'0' + 52,
            b'+' => 62,
            b'/' => 63,
            _ => return None,
        } as u32)
    };
    if s.len() % 4 == 1 {
        return None;
    }
    let mut out = Vec::new();
    for q in s.chunks(4) {
        let mut acc = 0u32;
        for c in q {
            acc = (acc << 6) | val(*c)?;
        }
        match q.len() {
            4 => out.extend_from_slice(&[(acc >> 16) as u8, (acc >> 8) as u8, acc as u8]),
            3 => {
                if acc & 3 != 0 {
                    return None;
                }
                out.extend_from_slice(&[(acc >> 10) as u8, (acc >> 2) as u8])
            }
            _ => {
                if acc & 15 != 0 {
                    return None;
                }
                out.push((acc >> 4) as u8)
            }
        }
    }
    Some(out)
}
pub fn b64_encode(b: &[u8], alphabet_url: bool, pad: bool) -> String {
    let abc: &[u8; 64] = if alphabet_url { b"ABCDEFGHIJKLMNOPQRSTUVWXYZabcdefghijklmnopqrstuvwxyz0123456789-_" } else { b"ABCDEFGHIJKLMNOPQRSTUVWXYZabcdefghijklmnopqrstuvwxyz0123456789+/" };
    let mut s = String::new();
    for t in b.chunks(3) {
        let n = (t[0] as u32) << 16 | (*t.get(1).unwrap_or(&0) as u32) << 8 | *t.get(2).unwrap_or(&0) as u32;
        for i in 0..=t.len() {
            s.push(abc[(n >> (18 - 6 * i)) as usize & 63] as char);
        }
        if pad {
            for _ in t.len()..3 {
                s.push('=');
            }
        }
    }
    s
}

/// the fields of a PHC string: (id, version, [(key, value)], salt bytes, hash present?)
#[derive(Clone, Debug, PartialEq)]
pub struct Phc {
    pub id: String,
    pub version: Option<u32>,
    pub params: Vec<(String, String)>,
    pub salt: Vec<u8>,
    pub salt_b64: String,
    pub hash_b64: Option<String>,
}
/// PHC identifier (algorithm, parameter name): 1..=32 characters of a-z 0-9 '-'
fn phc_ident_ok(s: &str) -> bool {
    (1..=32).contains(&s.len()) && s.bytes().all(|c| c.is_ascii_lowercase() || c.is_ascii_digit() || c == b'-')
}
/// PHC value: at most 64 characters of A-Z a-z 0-9 '/' '+' '.' '-'
fn phc_value_ok(s: &str) -> bool {
    s.len() <= 64 && s.bytes().all(|c| c.is_ascii_alphanumeric() || matches!(c, b'/' | b'+' | b'.' | b'-'))
}
/// canonical decimal of a u32: digits only, no leading zero (except "0"), no sign
pub fn phc_decimal(s: &str) -> Option<u32> {
    if s.is_empty() || !s.bytes().all(|c| c.is_ascii_digit()) || (s.len() > 1 && s.starts_with('0')) {
        return None;
    }
    s.parse().ok()
}
/// A strict PHC string parser (the rules of the PHC string format as the password-hash crate applies them, written
/// independently of it): `$id[$v=N][$k=v,..][$salt[$hash]]`; identifiers and values have their alphabets and length
/// limits, the parameter string has at most 127 bytes, the version is a canonical u32 decimal, the salt has 4..=64
/// characters and must decode as unpadded canonical base64, the hash decodes to 10..=64 bytes.  None: no key can
/// be derived from the string.  (A repeated parameter name is not an error of the format.)
pub fn phc_parse(s: &[u8]) -> Option<Phc> {
    let s = std::str::from_utf8(s).ok()?;
    let f: Vec<&str> = s.split('$').collect();
    if f.len() < 2 || !f[0].is_empty() || !phc_ident_ok(f[1]) {
        return None;
    }
    let mut i = 2;
    let mut version = None;
    if i < f.len() && f[i].starts_with("v=") && !f[i].contains(',') {
        version = Some(phc_decimal(&f[i][2..])?);
        i += 1;
    }
    let mut params = Vec::new();
    if i < f.len() && f[i].contains('=') {
        if f[i].len() > 127 {
            return None;
        }
        for kv in f[i].split(',') {
            let parts: Vec<&str> = kv.split('=').collect();
            if parts.len() != 2 || !phc_ident_ok(parts[0]) || !phc_value_ok(parts[1]) {
                return None;
            }
            params.push((parts[0].to_string(), parts[1].to_string()));
        }
        i += 1;
    }
    if i >= f.len() {
        return None; // no salt: nothing to derive a key from
    }
    if !(4..=64).contains(&f[i].len()) || !phc_value_ok(f[i]) {
        return None;
    }
    let salt_b64 = f[i].to_string();
    let salt = b64_decode_nopad(f[i].as_bytes())?;
    i += 1;
    let hash_b64 = if i < f.len() {
        let h = b64_decode_nopad(f[i].as_bytes())?;
        if !(10..=64).contains(&h.len()) {
            return None;
        }
        Some(f[i].to_string())
    } else {
        None
    };
    if i + 1 < f.len() {
        return None;
    }
    Some(Phc { id: f[1].to_string(), version, params, salt, salt_b64, hash_b64 })
}

/// key = KDF(password; algorithm, version, parameters and salt of the PHC string), 32 bytes.
/// The parameter rules are those of the reference implementations: decimal m, t, p (argon2; also keyid of at most
/// 8 and data of at most 32 bytes in base64, the data enters the hash) or i, l (pbkdf2); of a repeated parameter
/// the last occurrence counts, but every occurrence must be well formed; a hash in the string fixes the output
/// length (argon2: its length; pbkdf2: must agree with l), and only a 32-byte output is a key.
pub fn derive_key(phc: &Phc, password: &[u8]) -> Result<Vec<u8>, String> {
    let last = |k: &str| -> Option<&str> { phc.params.iter().rev().find(|(a, _)| a == k).map(|(_, v)| v.as_str()) };
    let hash_len = phc.hash_b64.as_ref().map(|h| b64_decode_nopad(h.as_bytes()).map(|b| b.len()).unwrap_or(0));
    match phc.id.as_str() {
        "argon2id" | "argon2i" | "argon2d" => {
            for (k, v) in &phc.params {
                let ok = match k.as_str() {
                    "m" | "t" => phc_decimal(v).is_some(),
                    "p" => phc_decimal(v).map_or(false, |p| p <= 0xFF_FFFF),
                    "keyid" => b64_decode_nopad(v.as_bytes()).map_or(false, |b| b.len() <= 8),
                    "data" => b64_decode_nopad(v.as_bytes()).map_or(false, |b| b.len() <= 32),
                    _ => false,
                };
                if !ok {
                    return Err(format!("argon2 parameter {}={}", k, v));
                }
            }
            let alg = match phc.id.as_str() {
                "argon2id" => argon2::Algorithm::Argon2id,
                "argon2i" => argon2::Algorithm::Argon2i,
                _ => argon2::Algorithm::Argon2d,
            };
            let ver = match phc.version.unwrap_or(0x13) {
                0x10 => argon2::Version::V0x10,
                0x13 => argon2::Version::V0x13,
                v => return Err(format!("argon2 version {}", v)),
            };
            if hash_len.map_or(false, |l| l != 32) {
                return Err("the hash of the string is not 32 bytes long".into());
            }
            // a parameter that is not recorded has the default of the reference implementation
            let num = |k: &str, d: u32| last(k).and_then(phc_decimal).unwrap_or(d);
            let (m, t, p) = (num("m", 19456), num("t", 2), num("p", 1));
            let mut b = argon2::ParamsBuilder::new();
            b.m_cost(m).t_cost(t).p_cost(p).output_len(32);
            if let Some(d) = last("data") {
                let d = b64_decode_nopad(d.as_bytes()).unwrap_or_default();
                b.data(argon2::AssociatedData::new(&d).map_err(|e| e.to_string())?);
            }
            if let Some(d) = last("keyid") {
                let d = b64_decode_nopad(d.as_bytes()).unwrap_or_default();
                b.keyid(argon2::KeyId::new(&d).map_err(|e| e.to_string())?);
            }
            let params = b.build().map_err(|e| e.to_string())?;
            let mut out = vec![0u8; 32];
            argon2::Argon2::new(alg, ver, params).hash_password_into(password, &phc.salt, &mut out).map_err(|e| e.to_string())?;
            Ok(out)
        }
        "pbkdf2-sha256" | "pbkdf2-sha512" => {
            if phc.version.is_some() {
                return Err("pbkdf2 has no version".into());
            }
            for (k, v) in &phc.params {
                if !matches!(k.as_str(), "i" | "l") || phc_decimal(v).is_none() {
                    return Err(format!("pbkdf2 parameter {}={}", k, v));
                }
            }
            let rounds = last("i").and_then(phc_decimal).unwrap_or(600_000);
            if let Some(l) = last("l").and_then(phc_decimal) {
                if l != 32 {
                    return Err(format!("key length {} is not 32", l));
                }
                if hash_len.map_or(false, |h| h != 32) {
                    return Err("the hash of the string is not l bytes long".into());
                }
            }
            let mut out = vec![0u8; 32];
            if phc.id == "pbkdf2-sha256" {
                pbkdf2::pbkdf2_hmac::<sha2::Sha256>(password, &phc.salt, rounds, &mut out);
            } else {
                pbkdf2::pbkdf2_hmac::<sha2::Sha512>(password, &phc.salt, rounds, &mut out);
            }
            Ok(out)
        }
        a => Err(format!("unknown KDF {}", a)),
    }
}

pub enum Block {
    Aes(aes::Aes256),
    Cam(camellia::Camellia256),
}
impl Block {
    pub fn new(enc: u8, key: &[u8]) -> Result<Block, String> {
        if key.len() != 32 {
            return Err("key is not 32 bytes".into());
        }
        Ok(if enc == 1 { Block::Aes(aes::Aes256::new(GenericArray::from_slice(key))) } else { Block::Cam(camellia::Camellia256::new(GenericArray::from_slice(key))) })
    }
    pub fn enc(&self, b: &mut [u8; 16]) {
        let g = GenericArray::from_mut_slice(b);
        match self {
            Block::Aes(c) => c.encrypt_block(g),
            Block::Cam(c) => c.encrypt_block(g),
        }
    }
    pub fn dec(&self, b: &mut [u8; 16]) {
        let g = GenericArray::from_mut_slice(b);
        match self {
            Block::Aes(c) => c.decrypt_block(g),
            Block::Cam(c) => c.decrypt_block(g),
        }
    }
}

pub fn cbc_decrypt(c: &Block, iv: &[u8], ct: &[u8]) -> Result<Vec<u8>, String> {
    if ct.is_empty() || ct.len() % 16 != 0 {
        return Err("CBC ciphertext is not a positive number of blocks".into());
    }
    let mut prev: [u8; 16] = iv.try_into().unwrap();
    let mut out = Vec::with_capacity(ct.len());
    for blk in ct.chunks(16) {
        let mut b: [u8; 16] = blk.try_into().unwrap();
        c.dec(&mut b);
        for i in 0..16 {
            out.push(b[i] ^ prev[i]);
        }
        prev = blk.try_into().unwrap();
    }
    let n = *out.last().unwrap() as usize;
    if n == 0 || n > 16 || !out[out.len() - n..].iter().all(|x| *x as usize == n) {
        return Err("bad PKCS#7 padding".into());
    }
    out.truncate(out.len() - n);
    Ok(out)
}
pub fn cbc_encrypt(c: &Block, iv: &[u8], pt: &[u8]) -> Vec<u8> {
    let n = 16 - pt.len() % 16;
    let mut p = pt.to_vec();
    p.extend(std::iter::repeat(n as u8).take(n));
    let mut prev: [u8; 16] = iv.try_into().unwrap();
    let mut out = Vec::new();
    for blk in p.chunks(16) {
        let mut b = [0u8; 16];
        for i in 0..16 {
            b[i] = blk[i] ^ prev[i];
        }
        c.enc(&mut b);
        out.extend_from_slice(&b);
        prev = b;
    }
    out
}
/// CTR with a 128-bit big-endian counter starting at the IV (encryption = decryption)
pub fn ctr_xor(c: &Block, iv: &[u8], data: &[u8]) -> Vec<u8> {
    let mut ctr = u128::from_be_bytes(iv.try_into().unwrap());
    let mut out = Vec::with_capacity(data.len());
    for blk in data.chunks(16) {
        let mut ks = ctr.to_be_bytes();
        c.enc(&mut ks);
        for (i, x) in blk.iter().enumerate() {
            out.push(x ^ ks[i]);
        }
        ctr = ctr.wrapping_add(1);
    }
    out
}

pub fn decrypt_stream(enc: u8, mode: u8, phsf: &Option<Vec<u8>>, password: Option<&[u8]>, stream: &[u8]) -> Result<Vec<u8>, String> {
    if enc == 0 {
        return Ok(stream.to_vec());
    }
    let phc = phc_parse(phsf.as_ref().ok_or("no PHSF")?).ok_or("PHSF does not parse")?;
    if phc.hash_b64.is_some() {
        return Err("PHSF carries a hash".into());
    }
    let pw = password.ok_or("password needed")?;
    let key = derive_key(&phc, pw)?;
    let blk = Block::new(enc, &key)?;
    if stream.len() < 16 {
        return Err("no IV".into());
    }
    let (iv, ct) = stream.split_at(16);
    if mode == 0 {
        cbc_decrypt(&blk, iv, ct)
    } else {
        Ok(ctr_xor(&blk, iv, ct))
    }
}

/// one-shot decompression that must end exactly at the end of the input
pub fn decompress(comp: u8, input: &[u8]) -> Result<Vec<u8>, String> {
    match comp {
        0 => Ok(input.to_vec()),
        1 => {
            let mut d = flate2::Decompress::new(true);
            let mut out: Vec<u8> = Vec::with_capacity(input.len() * 4 + 1024);
            loop {
                let before = (d.total_in(), d.total_out());
                let st = d
                    .decompress_vec(&input[d.total_in() as usize..], &mut out, flate2::FlushDecompress::None)
                    .map_err(|e| format!("zlib: {}", e))?;
                match st {
                    flate2::Status::StreamEnd => break,
                    _ => {
                        if out.len() == out.capacity() {
                            out.reserve(out.capacity().max(4096));
                        } else if (d.total_in(), d.total_out()) == before {
                            return Err("zlib: stream is not terminated".into());
                        }
                    }
                }
            }
            if d.total_in() as usize != input.len() {
                return Err("zlib: bytes after the end of the stream".into());
            }
            Ok(out)
        }
        2 => {
            use std::io::Read;
            let mut dec = zstd::stream::read::Decoder::with_buffer(input).map_err(|e| e.to_string())?.single_frame();
            let mut out = Vec::new();
            dec.read_to_end(&mut out).map_err(|e| format!("zstd: {}", e))?;
            let rest = dec.finish();
            if !rest.is_empty() {
                return Err("zstd: bytes after the end of the frame".into());
            }
            if input.is_empty() {
                return Err("zstd: no frame".into());
            }
            Ok(out)
        }
        4 => {
            let mut s = liblzma::stream::Stream::new_stream_decoder(u64::MAX, 0).map_err(|e| e.to_string())?;
            let mut out: Vec<u8> = Vec::with_capacity(input.len() * 4 + 1024);
            loop {
                let before = (s.total_in(), s.total_out());
                let st = s
                    .process_vec(&input[s.total_in() as usize..], &mut out, liblzma::stream::Action::Finish)
                    .map_err(|e| format!("xz: {}", e))?;
                match st {
                    liblzma::stream::Status::StreamEnd => break,
                    _ => {
                        if out.len() == out.capacity() {
                            out.reserve(out.capacity().max(4096));
                        } else if (s.total_in(), s.total_out()) == before {
                            return Err("xz: stream is not terminated".into());
                        }
                    }
                }
            }
            if s.total_in() as usize != input.len() {
                return Err("xz: bytes after the end of the stream".into());
            }
            Ok(out)
        }
        _ => Err("unknown compression".into()),
    }
}

pub fn decode_stream(comp: u8, enc: u8, mode: u8, phsf: &Option<Vec<u8>>, password: Option<&[u8]>, data: &[Vec<u8>]) -> Result<Vec<u8>, String> {
    let stream = data.concat();
    let plain = decrypt_stream(enc, mode, phsf, password, &stream)?;
    decompress(comp, &plain)
}

// ------------------------------------------------------------------------ JSON (dump.rs format)
pub fn entry_json(e: &NEntry, solid: i64, content: &Result<Vec<u8>, String>) -> String {
    let (chex, clen) = match content {
        Ok(v) => (format!("\"{}\"", hex(v)), v.len() as i64),
        Err(_) => ("null".to_string(), -1),
    };
    let o = |x: Option<u64>| x.map(|v| v.to_string()).unwrap_or("null".into());
    format!(
        "{{\"name\":\"{}\",\"kind\":{},\"codec\":{},\"cipher\":{},\"mode\":{},\"solid\":{},\"content\":{},\"clen\":{},\"raw_size\":{},\"csize\":{},\"ctime\":{},\"mtime\":{},\"atime\":{},\"perm\":{},\"xattrs\":[{}],\"extras\":[{}]}}",
        hex(&e.name),
        e.kind,
        e.comp,
        e.enc,
        e.mode,
        solid,
        chex,
        clen,
        e.size.map(|v| v.to_string()).unwrap_or("null".into()),
        e.data.iter().map(|d| d.len()).sum::<usize>(),
        o(e.ctime),
        o(e.mtime),
        o(e.atime),
        e.perm.as_ref().map(|p| format!("[{},\"{}\",{},\"{}\",{}]", p.uid, hex(&p.uname), p.gid, hex(&p.gname), p.mode)).unwrap_or("null".into()),
        e.xattrs.iter().map(|(n, v)| format!("[\"{}\",\"{}\"]", hex(n), hex(v))).collect::<Vec<_>>().join(","),
        e.extras.iter().map(|c| format!("[\"{}\",\"{}\"]", hex(&c.ty), hex(&c.data))).collect::<Vec<_>>().join(","),
    )
}

/// full decode: JSON lines (dump.rs format), then the verdict.  Returns (lines, wf, why)
pub fn decode_all(parts: &[Vec<u8>], password: Option<&[u8]>) -> (Vec<String>, bool, String) {
    let mut lines = Vec::new();
    let es = match strict_decode(parts) {
        Ok(es) => es,
        Err((w, d)) => return (lines, false, format!("{}: {}", w, d)),
    };
    let mut bad: Option<String> = None;
    let mut solid_idx: i64 = -1;
    for e in &es {
        match e {
            REntry::N(n) => {
                let c = decode_stream(n.comp, n.enc, n.mode, &n.phsf, password, &n.data);
                if let Err(m) = &c {
                    bad.get_or_insert(format!("decode: entry {}: {}", String::from_utf8_lossy(&n.name), m));
                }
                lines.push(entry_json(n, -1, &c));
            }
            REntry::S(s) => {
                solid_idx += 1;
                lines.push(format!(
                    "{{\"solid_header\":{},\"codec\":{},\"cipher\":{},\"mode\":{},\"extras\":[{}]}}",
                    solid_idx,
                    s.comp,
                    s.enc,
                    s.mode,
                    s.extras.iter().map(|c| format!("[\"{}\",\"{}\"]", hex(&c.ty), hex(&c.data))).collect::<Vec<_>>().join(",")
                ));
                match decode_stream(s.comp, s.enc, s.mode, &s.phsf, password, &s.data) {
                    Err(m) => {
                        bad.get_or_insert(format!("decode: solid stream {}: {}", solid_idx, m));
                    }
                    Ok(stream) => match inner_entries(&stream) {
                        Err((w, d)) => {
                            bad.get_or_insert(format!("inner: solid stream {}: {}: {}", solid_idx, w, d));
                        }
                        Ok(inner) => {
                            for n in &inner {
                                let c = decode_stream(n.comp, n.enc, n.mode, &n.phsf, password, &n.data);
                                if let Err(m) = &c {
                                    bad.get_or_insert(format!("decode: inner entry {}: {}", String::from_utf8_lossy(&n.name), m));
                                }
                                lines.push(entry_json(n, solid_idx, &c));
                            }
                        }
                    },
                }
            }
        }
    }
    match bad {
        None => (lines, true, String::new()),
        Some(m) => (lines, false, m),
    }
}

pub fn json_str(s: &str) -> String {
    let mut o = String::from("\"");
    for c in s.chars() {
        match c {
            '"' => o.push_str("\\\""),
            '\\' => o.push_str("\\\\"),
            c if (c as u32) < 0x20 => write!(o, "\\u{:04x}", c as u32).unwrap(),
            c => o.push(c),
        }
    }
    o.push('"');
    o
}
