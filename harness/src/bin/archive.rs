//! archive area: chunk iterators, raw and structured entry readers (stream and slice),
//! byte alteration (C05), truncation (C06), hostile inputs (C07), pass-through and
//! re-serialisation (C13), returned byte counts (C18), stream/slice agreement (C03).
//! Output formats mirror coq/Model/ArchiveRun.v.
use libpna::prelude::*;
use libpna::*;
use pnaverif::arch::*;
use pnaverif::util::*;
use std::io;

type R<T> = Result<T, io::Error>;

fn entries_stream(bytes: &[u8]) -> String {
    match guard(|| -> R<(Vec<String>, R<()>)> {
        let mut a = Archive::read_header(bytes)?;
        let mut out = Vec::new();
        let mut fin = Ok(());
        for e in a.entries() {
            match e {
                Ok(e) => out.push(show_entry(&e)),
                Err(e) => {
                    fin = Err(e);
                    break;
                }
            }
        }
        Ok((out, fin))
    }) {
        Ok(Ok((es, f))) => format!("LIST {}|{}", es.join(";"), show_fin(&f)),
        Ok(Err(e)) => format!("ERR {}", ekind(&e)),
        Err(()) => "PANIC".into(),
    }
}
fn entries_slice(bytes: &[u8]) -> String {
    match guard(|| -> R<(Vec<String>, R<()>)> {
        let mut a = Archive::read_header_from_slice(bytes)?;
        let mut out = Vec::new();
        let mut fin = Ok(());
        for e in a.entries_slice() {
            match e {
                Ok(e) => out.push(show_entry(&e)),
                Err(e) => {
                    fin = Err(e);
                    break;
                }
            }
        }
        Ok((out, fin))
    }) {
        Ok(Ok((es, f))) => format!("LIST {}|{}", es.join(";"), show_fin(&f)),
        Ok(Err(e)) => format!("ERR {}", ekind(&e)),
        Err(()) => "PANIC".into(),
    }
}
/// the normal entries of an archive with solid blocks expanded (no password), up to and including the first error,
/// through the four ways the library offers: 0 = entries() + SolidEntry::entries by hand, 1 = entries().extract_solid_entries,
/// 2 = entries_with_password (NormalEntries), 3 = entries_slice().extract_solid_entries
fn flat(bytes: &[u8], how: u8) -> String {
    fn cut(items: Vec<R<String>>) -> String {
        let mut out = Vec::new();
        for i in items {
            match i {
                Ok(s) => out.push(s),
                Err(e) => {
                    out.push(format!("ERR {}", ekind(&e)));
                    break;
                }
            }
        }
        out.join(";")
    }
    match guard(|| -> R<String> {
        Ok(match how {
            0 => {
                let mut a = Archive::read_header(bytes)?;
                let mut v: Vec<R<String>> = Vec::new();
                'outer: for e in a.entries() {
                    match e {
                        Ok(ReadEntry::Normal(n)) => v.push(Ok(show_normal(&n))),
                        Ok(ReadEntry::Solid(s)) => match s.entries(None) {
                            Ok(it) => {
                                for ne in it {
                                    let bad = ne.is_err();
                                    v.push(ne.map(|n| show_normal(&n)));
                                    if bad {
                                        break 'outer;
                                    }
                                }
                            }
                            Err(e) => {
                                v.push(Err(e));
                                break;
                            }
                        },
                        Err(e) => {
                            v.push(Err(e));
                            break;
                        }
                    }
                }
                cut(v)
            }
            1 => {
                let mut a = Archive::read_header(bytes)?;
                let v: Vec<R<String>> = a.entries().extract_solid_entries(None).map(|r| r.map(|n| show_normal(&n))).take_while_inclusive_ok().collect();
                cut(v)
            }
            2 => {
                let mut a = Archive::read_header(bytes)?;
                let v: Vec<R<String>> = a.entries_with_password(None).map(|r| r.map(|n| show_normal(&n))).take_while_inclusive_ok().collect();
                cut(v)
            }
            _ => {
                let mut a = Archive::read_header_from_slice(bytes)?;
                let v: Vec<R<String>> = a.entries_slice().extract_solid_entries(None).map(|r| r.map(|n| show_normal(&n))).take_while_inclusive_ok().collect();
                cut(v)
            }
        })
    }) {
        Ok(Ok(s)) => format!("FLAT {}", s),
        Ok(Err(e)) => format!("ERR {}", ekind(&e)),
        Err(()) => "PANIC".into(),
    }
}
/// stop an iterator of results after its first error (an iterator that repeats an error forever must not hang the harness)
trait TakeWhileInclusiveOk: Iterator + Sized {
    fn take_while_inclusive_ok(self) -> InclusiveOk<Self> {
        InclusiveOk { it: self, done: false, left: 100_000 }
    }
}
impl<T, I: Iterator<Item = R<T>>> TakeWhileInclusiveOk for I {}
struct InclusiveOk<I> {
    it: I,
    done: bool,
    left: usize,
}
impl<T, I: Iterator<Item = R<T>>> Iterator for InclusiveOk<I> {
    type Item = R<T>;
    fn next(&mut self) -> Option<R<T>> {
        if self.done || self.left == 0 {
            return None;
        }
        self.left -= 1;
        let x = self.it.next()?;
        if x.is_err() {
            self.done = true;
        }
        Some(x)
    }
}
/// the copy of `reser` through the slice reader's entry types (Cow-backed): 0 = add_entry (write_in of the Cow variants),
/// 1 = EntryPart::from(entry) + add_entry_part (into_chunks of the Cow variants), 2 = converted to the owned variants first
fn reser_slice(bytes: &[u8], how: u8) -> Result<R<(Vec<u8>, usize)>, ()> {
    guard(|| -> R<(Vec<u8>, usize)> {
        let mut a = Archive::read_header_from_slice(bytes)?;
        let mut w = Archive::write_header(Vec::new())?;
        let mut n = 0;
        for e in a.entries_slice() {
            let e = e?;
            n += match how {
                0 => w.add_entry(e)?,
                1 => match e {
                    ReadEntry::Normal(x) => w.add_entry_part(EntryPart::from(x))?,
                    ReadEntry::Solid(x) => w.add_entry_part(EntryPart::from(x))?,
                },
                _ => match e {
                    ReadEntry::Normal(x) => w.add_entry(NormalEntry::<Vec<u8>>::from(x))?,
                    ReadEntry::Solid(x) => w.add_entry(SolidEntry::<Vec<u8>>::from(x))?,
                },
            };
        }
        Ok((w.finalize()?, n))
    })
}
fn chunks_stream(bytes: &[u8]) -> String {
    match guard(|| -> R<(Vec<String>, R<()>)> {
        let it = read_as_chunks(bytes)?;
        let mut out = Vec::new();
        let mut fin = Ok(());
        for c in it {
            match c {
                Ok(c) => out.push(show_chunk(&chunk_type_bytes(&c), c.data())),
                Err(e) => {
                    fin = Err(e);
                    break;
                }
            }
        }
        Ok((out, fin))
    }) {
        Ok(Ok((cs, f))) => format!("LIST {}|{}", cs.join(","), show_fin(&f)),
        Ok(Err(e)) => format!("ERR {}", ekind(&e)),
        Err(()) => "PANIC".into(),
    }
}
fn chunks_slice(bytes: &[u8]) -> String {
    match guard(|| -> R<(Vec<String>, R<()>)> {
        let it = read_chunks_from_slice(bytes)?;
        let mut out = Vec::new();
        let mut fin = Ok(());
        for c in it {
            match c {
                Ok(c) => out.push(show_chunk(&chunk_type_bytes(&c), c.data())),
                Err(e) => {
                    fin = Err(e);
                    break;
                }
            }
        }
        Ok((out, fin))
    }) {
        Ok(Ok((cs, f))) => format!("LIST {}|{}", cs.join(","), show_fin(&f)),
        Ok(Err(e)) => format!("ERR {}", ekind(&e)),
        Err(()) => "PANIC".into(),
    }
}
/// raw entries, rendered through a pass-through copy (the raw entry type is opaque): each raw
/// entry is written alone into a fresh archive and its chunks are scanned back
fn raw_items(bytes: &[u8], slice: bool) -> String {
    fn chunks_of(e: impl Entry) -> String {
        let mut w = Archive::write_header(Vec::new()).unwrap();
        w.add_entry(e).unwrap();
        let b = w.finalize().unwrap();
        let cs = scan(&b).expect("own output scans");
        cs[1..cs.len() - 1].iter().map(|(_, t, d)| show_chunk(t, d)).collect::<Vec<_>>().join(",")
    }
    match guard(|| -> R<(Vec<String>, R<()>, bool)> {
        let mut out = Vec::new();
        let mut fin = Ok(());
        let next;
        if slice {
            let mut a = Archive::read_header_from_slice(bytes)?;
            for e in a.raw_entries_slice() {
                match e {
                    Ok(e) => out.push(chunks_of(e)),
                    Err(e) => {
                        fin = Err(e);
                        break;
                    }
                }
            }
            next = a.has_next_archive();
        } else {
            let mut a = Archive::read_header(bytes)?;
            for e in a.raw_entries() {
                match e {
                    Ok(e) => out.push(chunks_of(e)),
                    Err(e) => {
                        fin = Err(e);
                        break;
                    }
                }
            }
            next = a.has_next_archive();
        }
        Ok((out, fin, next))
    }) {
        Ok(Ok((es, f, n))) => format!("LIST {}|{}|{}", es.join(";"), show_fin(&f), if f.is_ok() { (n as u8).to_string() } else { "-".into() }),
        Ok(Err(e)) => format!("ERR {}", ekind(&e)),
        Err(()) => "PANIC".into(),
    }
}
fn rawcopy(bytes: &[u8]) -> String {
    show_res(
        guard(|| -> R<(Vec<u8>, usize)> {
            let mut a = Archive::read_header(bytes)?;
            let mut w = Archive::write_header(Vec::new())?;
            let mut n = 0;
            for e in a.raw_entries() {
                n += w.add_entry(e?)?;
            }
            Ok((w.finalize()?, n))
        }),
        |(b, n)| format!("{} {}", hex(&b), n),
    )
}
fn reser(bytes: &[u8]) -> Result<R<(Vec<u8>, usize)>, ()> {
    guard(|| -> R<(Vec<u8>, usize)> {
        let mut a = Archive::read_header(bytes)?;
        let mut w = Archive::write_header(Vec::new())?;
        let mut n = 0;
        for e in a.entries() {
            n += w.add_entry(e?)?;
        }
        Ok((w.finalize()?, n))
    })
}
/// the same copy through the other serialisation path of the library: EntryPart::from(entry) (into_chunks, what
/// the split writer uses) followed by add_entry_part.  Must produce the bytes add_entry produces.
fn reser_parts(bytes: &[u8]) -> Result<R<(Vec<u8>, usize)>, ()> {
    guard(|| -> R<(Vec<u8>, usize)> {
        let mut a = Archive::read_header(bytes)?;
        let mut w = Archive::write_header(Vec::new())?;
        let mut n = 0;
        for e in a.entries() {
            n += match e? {
                ReadEntry::Normal(x) => w.add_entry_part(EntryPart::from(x))?,
                ReadEntry::Solid(x) => w.add_entry_part(EntryPart::from(x))?,
            };
        }
        Ok((w.finalize()?, n))
    })
}
/// every normal entry through NormalEntry::with_metadata (the path of strip / chmod / chown / migrate), then written
fn withmeta(bytes: &[u8], c: Option<u64>, m: Option<u64>, a: Option<u64>, mode: Option<u16>) -> Result<R<(Vec<u8>, usize)>, ()> {
    use std::time::Duration;
    guard(|| -> R<(Vec<u8>, usize)> {
        let mut ar = Archive::read_header(bytes)?;
        let mut w = Archive::write_header(Vec::new())?;
        let mut n = 0;
        for e in ar.entries() {
            n += match e? {
                ReadEntry::Normal(x) => {
                    let md = Metadata::new()
                        .with_created(c.map(Duration::from_secs))
                        .with_modified(m.map(Duration::from_secs))
                        .with_accessed(a.map(Duration::from_secs))
                        .with_permission(mode.map(|md| Permission::new(1, "u".into(), 2, "g".into(), md)));
                    w.add_entry(x.with_metadata(md))?
                }
                ReadEntry::Solid(x) => w.add_entry(x)?,
            };
        }
        Ok((w.finalize()?, n))
    })
}
/// (name, raw_file_size, compressed_size) of every normal entry
fn entry_sizes(bytes: &[u8]) -> Option<Vec<(String, Option<u128>, usize)>> {
    guard(|| -> R<Vec<(String, Option<u128>, usize)>> {
        let mut ar = Archive::read_header(bytes)?;
        let mut out = Vec::new();
        for e in ar.entries() {
            if let ReadEntry::Normal(x) = e? {
                out.push((x.header().path().to_string(), x.metadata().raw_file_size(), x.metadata().compressed_size()));
            }
        }
        Ok(out)
    }).ok().and_then(|r| r.ok())
}
fn solid(bytes: &[u8]) -> String {
    match guard(|| -> R<(Vec<String>, R<()>)> {
        let mut a = Archive::read_header(bytes)?;
        let mut out = Vec::new();
        let mut fin = Ok(());
        for e in a.entries() {
            match e {
                Ok(ReadEntry::Solid(s)) => {
                    let plain = s.header().compression() == Compression::No && s.header().encryption() == Encryption::No;
                    if !plain {
                        out.push("opaque".to_string());
                        continue;
                    }
                    let mut inner = Vec::new();
                    let mut ifin = Ok(());
                    match s.entries(None) {
                        Ok(it) => {
                            for ne in it {
                                match ne {
                                    Ok(ne) => inner.push(show_normal(&ne)),
                                    Err(e) => {
                                        ifin = Err(e);
                                        break;
                                    }
                                }
                            }
                        }
                        Err(e) => ifin = Err(e),
                    }
                    out.push(format!("{}|{}", inner.join(";"), show_fin(&ifin)));
                }
                Ok(_) => {}
                Err(e) => {
                    fin = Err(e);
                    break;
                }
            }
        }
        Ok((out, fin))
    }) {
        Ok(Ok((es, f))) => format!("LIST {}|{}", es.join("#"), show_fin(&f)),
        Ok(Err(e)) => format!("ERR {}", ekind(&e)),
        Err(()) => "PANIC".into(),
    }
}
/// parts chained the way callers do it: after a part ends Ok, continue while it announced a successor
fn parts(ps: &[Vec<u8>], slice: bool) -> String {
    fn chunks_of(e: impl Entry) -> String {
        let mut w = Archive::write_header(Vec::new()).unwrap();
        w.add_entry(e).unwrap();
        let b = w.finalize().unwrap();
        let cs = scan(&b).expect("own output scans");
        cs[1..cs.len() - 1].iter().map(|(_, t, d)| show_chunk(t, d)).collect::<Vec<_>>().join(",")
    }
    match guard(|| -> R<(Vec<String>, R<()>)> {
        if ps.is_empty() {
            return Err(io::Error::from(io::ErrorKind::NotFound));
        }
        let mut out = Vec::new();
        if slice {
            let mut a = Archive::read_header_from_slice(&ps[0][..])?;
            let mut i = 0;
            loop {
                for e in a.raw_entries_slice() {
                    match e {
                        Ok(e) => out.push(chunks_of(e)),
                        Err(e) => return Ok((out, Err(e))),
                    }
                }
                if !a.has_next_archive() {
                    return Ok((out, Ok(())));
                }
                i += 1;
                if i >= ps.len() {
                    return Ok((out, Err(io::Error::from(io::ErrorKind::NotFound))));
                }
                match a.read_next_archive_from_slice(&ps[i][..]) {
                    Ok(n) => a = n,
                    Err(e) => return Ok((out, Err(e))),
                }
            }
        } else {
            let mut a = Archive::read_header(&ps[0][..])?;
            let mut i = 0;
            loop {
                for e in a.raw_entries() {
                    match e {
                        Ok(e) => out.push(chunks_of(e)),
                        Err(e) => return Ok((out, Err(e))),
                    }
                }
                if !a.has_next_archive() {
                    return Ok((out, Ok(())));
                }
                i += 1;
                if i >= ps.len() {
                    return Ok((out, Err(io::Error::from(io::ErrorKind::NotFound))));
                }
                match a.read_next_archive(&ps[i][..]) {
                    Ok(n) => a = n,
                    Err(e) => return Ok((out, Err(e))),
                }
            }
        }
    }) {
        Ok(Ok((es, f))) => format!("LIST {}|{}", es.join(";"), show_fin(&f)),
        Ok(Err(e)) => format!("ERR {}", ekind(&e)),
        Err(()) => "PANIC".into(),
    }
}
fn seek(bytes: &[u8], oracle: &mut Vec<String>) -> String {
    let r = guard(|| -> R<(u64, bool)> {
        let mut a = Archive::read_header(io::Cursor::new(bytes.to_vec()))?;
        a.seek_to_end()?;
        let next = a.has_next_archive();
        // where the cursor stands: finalize() writes the 12-byte end marker at the current position and hands
        // the cursor back; the offset is counted from the end of the 28-byte header (as the model does)
        let cur = a.finalize()?;
        Ok((cur.position() - 12 - 28, next))
    });
    // independent of the library: in a scannable archive the position found must be that of the AEND chunk
    if let (Ok(Ok((off, _))), Some(cs)) = (&r, scan(bytes)) {
        let want = cs.iter().find(|(_, t, _)| t == b"AEND").map(|(o, _, _)| *o as u64 - 28);
        if want != Some(*off) {
            oracle.push(format!("seek_to_end stopped at offset {} but the AEND chunk is at {:?}", off + 28, want.map(|w| w + 28)));
        }
    }
    show_res(r, |(o, n)| format!("{} {}", o, n as u8))
}
/// append the way `pna append` and the library's own test do it: open, seek_to_end, add the (raw) entries of
/// a donor archive, finalize; the underlying buffer is written in place
fn append(base: &[u8], donor: &[u8]) -> String {
    show_res(
        guard(|| -> R<(Vec<u8>, bool)> {
            let mut a = Archive::read_header(io::Cursor::new(base.to_vec()))?;
            a.seek_to_end()?;
            let next = a.has_next_archive();
            let mut d = Archive::read_header(donor)?;
            for e in d.raw_entries() {
                a.add_entry(e?)?;
            }
            Ok((a.finalize()?.into_inner(), next))
        }),
        |(b, n)| format!("{} {}", hex(&b), n as u8),
    )
}

/// C18: every size reported for an entry built with EntryBuilder is exact — on the BUILT entry
/// (before any re-read) and on the re-read one.  args: codec cipher mode len noise piece
/// answer: `OK <len> <raw_ok><csize_ok><count_ok><partlen_ok><reread_ok>`
fn sizes(a: &[&str], oracle: &mut Vec<String>) -> String {
    use libpna::verif_hooks as h;
    use std::io::Write;
    let n = |i: usize| -> u64 { a[i].parse().unwrap() };
    let (codec, cipher, mode, len, noise, piece) = (n(0), n(1), n(2), n(3) as usize, n(4), n(5) as usize);
    let comp = match codec { 0 => Compression::No, 1 => Compression::Deflate, 2 => Compression::ZStandard, _ => Compression::XZ };
    let enc = match cipher { 0 => Encryption::No, 1 => Encryption::Aes, _ => Encryption::Camellia };
    let md = if mode == 0 { CipherMode::CBC } else { CipherMode::CTR };
    let mut rr = Rng::new(len as u64 * 31 + noise);
    let content: Vec<u8> = if noise == 1 { rr.bytes(len) } else { (0..len).map(|i| (i % 7) as u8).collect() };
    let r = guard(|| -> R<String> {
        let opt = if enc == Encryption::No { WriteOptions::builder().compression(comp).build() } else { enc_options(enc, md, comp) };
        let mut b = EntryBuilder::new_file("sized".into(), opt)?;
        if piece == 0 { b.write_all(&content)?; } else { for c in content.chunks(piece) { b.write_all(c)?; } }
        let built = b.build()?;
        let (_, data) = h::normal_entry_parts(&built);
        let psum: usize = data.iter().map(|d| d.len()).sum();
        let raw_ok = built.metadata().raw_file_size() == Some(len as u128);
        let cs_ok = built.metadata().compressed_size() == psum;
        let part_len = EntryPart::from(built.clone()).bytes_len();
        let mut w = Archive::write_header(Vec::new())?;
        let cnt = w.add_entry(built)?;
        let bytes = w.finalize()?;
        let mut count_ok = cnt + 40 == bytes.len();
        let part_ok = part_len + 40 == bytes.len();
        // the same counts through a sink that implements only write / flush (the default write_vectored takes ONE of
        // several buffers: seeded C18-6, a gathered write whose fallback bytes were not counted), for add_entry and
        // add_entry_part, and through the solid writer, whose stream is such a sink (stored, not encrypted: the SDAT
        // payloads are the stream, so their total is the sum of the returned counts)
        {
            struct Plain(Vec<u8>);
            impl Write for Plain {
                fn write(&mut self, b: &[u8]) -> io::Result<usize> {
                    let k = b.len().min(7 + self.0.len() % 5); // and takes writes only in part
                    self.0.extend_from_slice(&b[..k]);
                    Ok(k)
                }
                fn flush(&mut self) -> io::Result<()> {
                    Ok(())
                }
            }
            let mut ar = Archive::read_header(&bytes[..])?;
            let e = match ar.entries().next() { Some(Ok(ReadEntry::Normal(e))) => e, _ => return Err(io::Error::other("re-read")) };
            let mut w1 = Archive::write_header(Plain(Vec::new()))?;
            let c1 = w1.add_entry(e.clone())?;
            let c2 = w1.add_entry_part(EntryPart::from(e.clone()))?;
            let out1 = w1.finalize()?.0;
            count_ok &= c1 == cnt && c2 == cnt && 2 * cnt + 40 == out1.len();
            let mut ws = Archive::write_solid_header(Vec::new(), WriteOptions::store())?;
            let s1 = ws.add_entry(e.clone())?;
            let s2 = ws.add_entry(e)?;
            let outs = ws.finalize()?;
            let sdat: usize = scan(&outs).unwrap_or_default().iter().filter(|(_, t, _)| t == b"SDAT").map(|(_, _, d)| d.len()).sum();
            count_ok &= s1 == cnt && s2 == cnt && sdat == 2 * cnt;
        }
        // re-read
        let mut ar = Archive::read_header(&bytes[..])?;
        let e = match ar.entries().next() { Some(Ok(ReadEntry::Normal(e))) => e, _ => return Err(io::Error::other("re-read")) };
        let fdat: usize = scan(&bytes).unwrap_or_default().iter().filter(|(_, t, _)| t == b"FDAT").map(|(_, _, d)| d.len()).sum();
        let mut dec = Vec::new();
        std::io::Read::read_to_end(&mut e.reader(ReadOptions::with_password(Some("pw")))?, &mut dec)?;
        let re_ok = e.metadata().raw_file_size() == Some(dec.len() as u128) && dec.len() == len && e.metadata().compressed_size() == fdat && fdat == psum;
        Ok(format!("{} {}{}{}{}{}", len, raw_ok as u8, cs_ok as u8, count_ok as u8, part_ok as u8, re_ok as u8))
    });
    let out = show_res(r, |x| x);
    if let Some(rest) = out.strip_prefix("OK ") {
        let flags = rest.split(' ').nth(1).unwrap_or("");
        let names = ["recorded raw size != content length (built entry)", "compressed_size != sum of data payloads (built entry)",
                     "add_entry returned count != bytes written", "EntryPart::bytes_len != serialised length",
                     "re-read entry: raw size / compressed size / decoded length disagree"];
        for (i, ch) in flags.chars().enumerate() {
            if ch != '1' { oracle.push(names[i].to_string()); }
        }
    } else {
        oracle.push(format!("building or re-reading the entry failed: {}", out));
    }
    out
}

/// entries of `s` ("LIST e1;e2|fin") as a vector, and the fin text
fn split_list(s: &str) -> Option<(Vec<String>, String)> {
    let body = s.strip_prefix("LIST ")?;
    let (es, fin) = body.rsplit_once('|')?;
    let v = if es.is_empty() { vec![] } else { es.split(';').map(|x| x.to_string()).collect() };
    Some((v, fin.to_string()))
}

fn run(c: &Case, oracle: &mut Vec<String>) -> String {
    let a = &c.args;
    let out = match c.op {
        "chunks" => {
            let b = unhex(a[1]).unwrap();
            let (s1, s2) = (chunks_stream(&b), chunks_slice(&b));
            if s1 != s2 {
                oracle.push(format!("chunk iterators disagree: stream={} slice={}", &s1[..s1.len().min(80)], &s2[..s2.len().min(80)]));
            }
            // C06: a third argument `1` says the bytes are a PROPER PREFIX of a valid part: the chunk iterators must
            // not end without an error
            if a.get(2) == Some(&"1") {
                for (which, s) in [("stream", &s1), ("slice", &s2)] {
                    if s.ends_with("|OK") {
                        oracle.push(format!("the {} chunk iterator ends without error on a proper prefix of a valid part", which));
                    }
                }
            }
            if a[0] == "slice" { s2 } else { s1 }
        }
        "raw" => raw_items(&unhex(a[1]).unwrap(), a[0] == "slice"),
        "entries" | "alter" | "trunc" => {
            let base = unhex(a[1]).unwrap();
            let mut b = base.clone();
            if c.op == "alter" {
                let off: usize = a[2].parse().unwrap();
                let m: u8 = a[3].parse().unwrap();
                if off < b.len() {
                    b[off] ^= m;
                }
            } else if c.op == "trunc" {
                let n: usize = a[2].parse().unwrap();
                b.truncate(n);
            }
            let (s1, s2) = (entries_stream(&b), entries_slice(&b));
            if s1 != s2 {
                oracle.push(format!("stream and slice readers disagree: stream={} slice={}", &s1[..s1.len().min(100)], &s2[..s2.len().min(100)]));
            }
            // C03 / C17: the four ways of walking the normal entries with solid blocks expanded agree
            let f0 = flat(&b, 0);
            for how in 1..4u8 {
                let f = flat(&b, how);
                if f != f0 {
                    let names = ["entries + SolidEntry::entries", "entries().extract_solid_entries", "entries_with_password", "entries_slice().extract_solid_entries"];
                    oracle.push(format!("the expanded entry sequence depends on the iterator used: {} gives {} / {} gives {}", names[0],
                        &f0[..f0.len().min(160)], names[how as usize], &f[..f.len().min(160)]));
                }
            }
            let s = if a[0] == "slice" { s2 } else { s1 };
            // ---- property oracles against the unmodified base (C05, C06)
            if c.op != "entries" {
                if let (Some(spans), Some((orig, _))) = (entry_spans(&base), split_list(&entries_stream(&base))) {
                    let limit: usize = a[2].parse().unwrap();
                    let wholly_before = spans.iter().filter(|(_, e)| *e <= limit).count();
                    let what = if c.op == "alter" { "altered byte" } else { "cut" };
                    match split_list(&s) {
                        Some((got, fin)) => {
                            if fin == "OK" && !(c.op == "trunc" && limit >= base.len()) && !(c.op == "alter" && a[3] == "0") {
                                oracle.push(format!("read completed successfully despite the {}", what));
                            }
                            if got.len() > orig.len() || got[..] != orig[..got.len()] {
                                oracle.push(format!("entries returned before the error differ from the originals ({})", what));
                            } else if fin != "OK" && got.len() != wholly_before.min(orig.len()) {
                                // a changed length field re-frames the stream; whether the re-framed chunk passes its
                                // CRC is a 2^-32 coincidence. Anything else must stop exactly at the damaged entry.
                                oracle.push(format!(
                                    "returned {} entries, expected exactly the {} wholly before the {}",
                                    got.len(), wholly_before, what));
                            }
                        }
                        None => {
                            if s == "PANIC" {
                                oracle.push(format!("reader panicked on the {}", what));
                            } else if wholly_before > 0 && limit >= 28 {
                                // the header was intact, so the open cannot have failed
                                oracle.push(format!("open failed although the header precedes the {}", what));
                            }
                        }
                    }
                }
            }
            s
        }
        "rawcopy" => {
            let b = unhex(a[0]).unwrap();
            let s = rawcopy(&b);
            if let Some(rest) = s.strip_prefix("OK ") {
                let (hx, n) = rest.split_once(' ').unwrap();
                let outb = unhex(hx).unwrap();
                let n: usize = n.parse().unwrap();
                if n + 28 + 12 != outb.len() {
                    oracle.push(format!("add_entry returned {} bytes in total but {} were written", n, outb.len() - 40));
                }
                // pass-through is exact for a single well-formed archive numbered 0 without a successor mark
                if let Some(cs) = scan(&b) {
                    let plain = cs.iter().all(|(_, t, _)| t != b"ANXT") && b[..28] == outb[..28.min(outb.len())]
                        && cs.last().map(|(o, _, _)| o + 12) == Some(b.len())
                        && entry_spans(&b).map(|sp| sp.iter().map(|(s, e)| e - s).sum::<usize>() + 40) == Some(b.len());
                    if plain && outb != b {
                        oracle.push("raw copy is not byte-identical".into());
                    }
                }
            }
            s
        }
        "withmeta" => {
            let b = unhex(a[0]).unwrap();
            let o = |i: usize| -> Option<u64> { a.get(i).filter(|x| **x != "-").and_then(|x| x.parse().ok()) };
            let r = withmeta(&b, o(1), o(2), o(3), o(4).map(|x| x as u16));
            if let Ok(Ok((out, _))) = &r {
                // C18 / C13: replacing times and permission leaves the entry's recorded sizes alone
                match (entry_sizes(&b), entry_sizes(out)) {
                    (Some(x), Some(y)) => {
                        if x != y {
                            let d = x.iter().zip(&y).find(|(p, q)| p != q).map(|(p, q)| format!("{:?} -> {:?}", p, q)).unwrap_or_default();
                            oracle.push(format!("with_metadata changed a recorded size (name, raw size, compressed size): {}", d));
                        }
                    }
                    (Some(_), None) => oracle.push("the archive written after with_metadata does not read back".into()),
                    _ => {}
                }
            }
            show_res(r, |(b, n)| format!("{} {}", hex(&b), n))
        }
        "reser" | "reser2" => {
            let b = unhex(a[0]).unwrap();
            let r1 = reser(&b);
            let shown = |r: Result<R<(Vec<u8>, usize)>, ()>| show_res(r, |(b, n)| format!("{} {}", hex(&b), n));
            // the meaning/stability oracles apply to legal layouts only: every entry is FHED..FEND or
            // SHED..SEND with no other bracket chunk inside (a solid entry closed by FEND is garbage)
            let legal = scan(&b).map(|cs| {
                let mut open: Option<&[u8; 4]> = None;
                for (_, t, _) in &cs {
                    let bracket = matches!(t, b"FHED" | b"FEND" | b"SHED" | b"SEND");
                    match (open, t) {
                        (None, b"FHED") => open = Some(b"FEND"),
                        (None, b"SHED") => open = Some(b"SEND"),
                        (None, b"AHED") | (None, b"AEND") | (None, b"ANXT") => {}
                        (None, _) => return false,
                        (Some(close), t) if t == close => open = None,
                        (Some(_), _) if bracket => return false,
                        (Some(_), b"AHED") | (Some(_), b"AEND") | (Some(_), b"ANXT") => return false,
                        _ => {}
                    }
                }
                open.is_none()
            }).unwrap_or(false);
            let mut sink = Vec::new();
            let oracle: &mut Vec<String> = if legal { oracle } else { &mut sink };
            match r1 {
                Ok(Ok((b1, n1))) => {
                    if n1 + 40 != b1.len() {
                        oracle.push(format!("add_entry returned {} bytes in total but {} were written", n1, b1.len() - 40));
                    }
                    // meaning preserved: parsing the re-serialised archive gives the same structured entries,
                    // up to how the data stream is cut (empty data chunks vanish) — compare with data joined
                    let norm = |s: String| -> String {
                        // join data payloads: field 5 of N/.., field 5 of S/..
                        split_list(&s).map(|(es, f)| {
                            es.iter().map(|e| {
                                let mut fs: Vec<String> = e.split('/').map(|x| x.to_string()).collect();
                                let idx = if fs[0] == "N" { 4 } else { 4 };
                                if fs[0] == "N" { fs[idx] = fs[idx].replace('.', ""); }
                                fs.join("/")
                            }).collect::<Vec<_>>().join(";") + "|" + &f
                        }).unwrap_or(s)
                    };
                    // independent of the library's own parse: every chunk of a type the format does not define
                    // must be in the output with identical bytes and in the same relative order
                    let unknowns = |bytes: &[u8]| -> Vec<(Vec<u8>, Vec<u8>)> {
                        const KNOWN: &[&[u8; 4]] = &[b"AHED", b"AEND", b"ANXT", b"FHED", b"PHSF", b"FDAT", b"FEND", b"SHED", b"SDAT",
                            b"SEND", b"fSIZ", b"cTIM", b"mTIM", b"aTIM", b"fPRM", b"xATR"];
                        scan(bytes).unwrap_or_default().into_iter().filter(|(_, t, _)| !KNOWN.iter().any(|k| *k == t))
                            .map(|(_, t, d)| (t.to_vec(), d)).collect()
                    };
                    if unknowns(&b) != unknowns(&b1) {
                        oracle.push("an unknown chunk was dropped, altered or reordered by decode -> encode".into());
                    }
                    let (e0, e1) = (norm(entries_stream(&b)), norm(entries_stream(&b1)));
                    if e0 != e1 {
                        oracle.push("decode -> encode changed the meaning of an entry".into());
                    }
                    // the two serialisers of the library agree: add_entry (chunks_write_in) and
                    // EntryPart::from(entry) + add_entry_part (into_chunks, the split writer's path)
                    match reser_parts(&b) {
                        Ok(Ok((bp, np))) => {
                            if bp != b1 || np != n1 {
                                oracle.push("EntryPart::from(entry) + add_entry_part writes other bytes than add_entry (into_chunks vs chunks_write_in)".into());
                            }
                        }
                        _ => oracle.push("EntryPart::from(entry) + add_entry_part failed where add_entry succeeded".into()),
                    }
                    // ... and so do the same two paths on the entry types the slice reader hands out (Cow-backed
                    // copies of the serialisers), and the conversion to the owned types
                    for how in 0..3u8 {
                        match reser_slice(&b, how) {
                            Ok(Ok((bs, ns))) => {
                                if bs != b1 || ns != n1 {
                                    oracle.push(format!("re-serialising the slice reader's entries (path {}: 0 add_entry, 1 EntryPart::from + add_entry_part, 2 converted to owned) writes other bytes than the stream reader's entries", how));
                                }
                            }
                            _ => oracle.push(format!("re-serialising the slice reader's entries (path {}) failed where the stream reader's succeeded", how)),
                        }
                    }
                    let r2 = reser(&b1);
                    match &r2 {
                        Ok(Ok((b2, _))) => {
                            if *b2 != b1 {
                                oracle.push("re-serialisation is not byte-stable from the second pass".into());
                            }
                        }
                        _ => oracle.push("second re-serialisation failed".into()),
                    }
                    if c.op == "reser2" { shown(r2) } else { shown(Ok(Ok((b1, n1)))) }
                }
                other => shown(other),
            }
        }
        "solid" => solid(&unhex(a[0]).unwrap()),
        "parts" => {
            let ps: Vec<Vec<u8>> = if a[1].is_empty() { vec![] } else { a[1].split(',').map(|x| unhex(x).unwrap()).collect() };
            let (s1, s2) = (parts(&ps, false), parts(&ps, true));
            if s1 != s2 {
                oracle.push("stream and slice part chaining disagree".into());
            }
            let s = if a[0] == "slice" { s2 } else { s1 };
            // optional third field (ignored by the model): `misnumbered:<k>` — the parts before index k form the
            // head of a well-formed set and part k does not carry the number of its predecessor + 1 (C05)
            if let Some(k) = a.get(2).and_then(|x| x.strip_prefix("misnumbered:")).and_then(|x| x.parse::<usize>().ok()) {
                let head = &ps[..k];
                let want = part_entry_ends(head).map(|e| e.len());
                match (split_list(&s), want) {
                    (Some((got, fin)), Some(want)) => {
                        if fin == "OK" {
                            oracle.push(format!("a part chain with a wrongly numbered part {} was read to a successful end", k));
                        } else if fin != "ERR InvalidData" {
                            oracle.push(format!("wrongly numbered part {}: ended with {} instead of InvalidData", k, fin));
                        }
                        if got.len() != want {
                            oracle.push(format!("wrongly numbered part {}: {} entries returned, the parts before it complete {}", k, got.len(), want));
                        }
                    }
                    _ => oracle.push("wrongly numbered part: no entry list".into()),
                }
            }
            s
        }
        "ptrunc" | "palter" => {
            let base: Vec<Vec<u8>> = if a[1].is_empty() { vec![] } else { a[1].split(',').map(|x| unhex(x).unwrap()).collect() };
            let k: usize = a[2].parse().unwrap();
            let n: usize = a[3].parse().unwrap();
            let mut ps = base.clone();
            let mask: u8 = if c.op == "palter" { a[4].parse().unwrap() } else { 0 };
            if k < ps.len() {
                if c.op == "ptrunc" {
                    ps.truncate(k + 1);
                    ps[k].truncate(n);
                } else if n < ps[k].len() {
                    ps[k][n] ^= mask;
                }
            } else {
                ps.push(vec![]); // out of range: the model reads a missing part as an empty one
            }
            let (s1, s2) = (parts(&ps, false), parts(&ps, true));
            if s1 != s2 {
                oracle.push("stream and slice part chaining disagree".into());
            }
            let s = if a[0] == "slice" { s2 } else { s1 };
            // ---- property oracle against the undamaged chain (C05, C06), independent of the model
            let damaged = k < base.len() && n < base[k].len() && (c.op == "ptrunc" || mask != 0);
            if let (true, Some(ends), Some((orig, ofin))) = (damaged, part_entry_ends(&base), split_list(&parts(&base, false))) {
                if ofin == "OK" && ends.len() == orig.len() {
                    let what = if c.op == "ptrunc" { "cut" } else { "altered byte" };
                    // entries whose closing chunk lies wholly before the damage
                    let expect = ends.iter().filter(|(pk, e)| *pk < k || (*pk == k && *e <= n)).count();
                    match split_list(&s) {
                        Some((got, fin)) => {
                            if fin == "OK" {
                                oracle.push(format!("multipart read completed successfully despite the {} in part {}", what, k));
                            }
                            if c.op == "ptrunc" && fin != "ERR UnexpectedEof" {
                                oracle.push(format!("cut part chain ended with {} instead of UnexpectedEof", fin));
                            }
                            let len_field = c.op == "palter" && in_length_field(&base[k], n);
                            if c.op == "palter" && !len_field && fin != "ERR InvalidData" {
                                oracle.push(format!("altered part chain ended with {} instead of InvalidData", fin));
                            }
                            if got.len() > orig.len() || got[..] != orig[..got.len()] {
                                oracle.push(format!("entries returned before the error differ from the originals ({} in part {})", what, k));
                            } else if fin != "OK" && got.len() != expect {
                                oracle.push(format!("returned {} entries, expected exactly the {} completed before the {} in part {}", got.len(), expect, what, k));
                            }
                        }
                        None => {
                            if s == "PANIC" {
                                oracle.push(format!("reader panicked on the {}", what));
                            } else if k > 0 || n >= 28 {
                                oracle.push(format!("open of the first part failed although the {} is behind its header", what));
                            }
                        }
                    }
                }
            }
            s
        }
        "append" => {
            let (base, donor) = (unhex(a[0]).unwrap(), unhex(a[1]).unwrap());
            let s = append(&base, &donor);
            // implementation-side oracle on plain archives (scannable, nothing behind AEND, no ANXT): the result
            // holds the entries of the base followed by those of the donor, in order, once each, and nothing else
            let plain = |b: &[u8]| scan(b).map(|cs| cs.iter().all(|(_, t, _)| t != b"ANXT")
                && cs.last().map(|(o, _, d)| o + 12 + d.len()) == Some(b.len())
                && entry_spans(b).map(|sp| sp.iter().map(|(s, e)| e - s).sum::<usize>() + 40) == Some(b.len())).unwrap_or(false);
            if plain(&base) && plain(&donor) {
                match s.strip_prefix("OK ").and_then(|r| r.split_once(' ')) {
                    Some((hx, nx)) => {
                        let out = unhex(hx).unwrap();
                        let want_len = base.len() - 12 + (donor.len() - 40) + 12;
                        if out.len() != want_len {
                            oracle.push(format!("appended archive has {} bytes, expected {}", out.len(), want_len));
                        }
                        if nx != "0" {
                            oracle.push("append reported a successor part for a plain archive".into());
                        }
                        // raw_items renders "LIST e1;e2|<fin>|<next>"
                        let items = |b: &[u8]| -> Option<(Vec<String>, String)> {
                            let r = raw_items(b, false);
                            let f: Vec<&str> = r.strip_prefix("LIST ")?.split('|').collect();
                            if f.len() != 3 { return None; }
                            Some((if f[0].is_empty() { vec![] } else { f[0].split(';').map(|x| x.to_string()).collect() }, f[1].to_string()))
                        };
                        match (items(&base), items(&donor), items(&out)) {
                            (Some((eb, _)), Some((ed, _)), Some((eo, fo))) => {
                                let mut want = eb.clone();
                                want.extend(ed);
                                if eo != want || fo != "OK" {
                                    oracle.push("append lost, duplicated or reordered entries".into());
                                }
                            }
                            _ => oracle.push("appended archive does not read back".into()),
                        }
                    }
                    None => oracle.push(format!("append to a plain archive failed: {}", s)),
                }
            }
            s
        }
        "seek" => seek(&unhex(a[0]).unwrap(), oracle),
        "sizes" => sizes(a, oracle),
        _ => "BADCASE".into(),
    };
    if out == "PANIC" || out.ends_with("|PANIC") {
        oracle.push("a reader panicked".into());
    }
    out
}

fn mutate(r: &mut Rng, mut b: Vec<u8>) -> Vec<u8> {
    for _ in 0..1 + r.below(3) {
        match r.below(6) {
            0 if !b.is_empty() => {
                let i = r.below(b.len() as u64) as usize;
                b[i] ^= 1 << r.below(8);
            }
            1 if !b.is_empty() => {
                let k = r.below(b.len() as u64) as usize;
                b.truncate(k);
            }
            2 if b.len() > 30 => {
                // splice: duplicate a slice somewhere
                let i = 8 + r.below(b.len() as u64 - 8) as usize;
                let j = (i + r.below(40) as usize).min(b.len());
                let seg = b[i..j].to_vec();
                let k = 8 + r.below(b.len() as u64 - 8) as usize;
                b.splice(k..k, seg);
            }
            3 if b.len() > 12 => {
                let i = r.below(b.len() as u64 - 4) as usize;
                let v = *r.pick(&[0u32, 1, 0xffff_ffff, 0x7fff_ffff, 12, 0x100]);
                b[i..i + 4].copy_from_slice(&v.to_be_bytes());
            }
            4 if b.len() > 20 => {
                let i = 8 + r.below(b.len() as u64 - 8) as usize;
                let j = (i + r.below(30) as usize).min(b.len());
                b.drain(i..j);
            }
            _ => {
                let k = r.below(5) as usize;
                let extra = r.bytes(k);
                b.extend(extra);
            }
        }
    }
    b
}

fn gen(prop: &str, tier: &str, seed: u64) -> Vec<String> {
    let mut r = Rng::new(seed);
    let thorough = tier == "thorough";
    let samples = sample_archives();
    let mut v: Vec<String> = Vec::new();
    let rds = ["stream", "slice"];
    let want = |p: &str| prop == p || prop == "ALL";
    // ---- plain reads of every sample (all properties share these)
    for (_, b) in &samples {
        for rd in rds {
            v.push(format!("chunks\t{}\t{}", rd, hex(b)));
            v.push(format!("raw\t{}\t{}", rd, hex(b)));
            v.push(format!("entries\t{}\t{}", rd, hex(b)));
        }
    }
    if want("C05") {
        // every offset x a mask set covering each bit (quick: small samples; thorough: all 255 masks on the two smallest)
        for (name, b) in &samples {
            let small = b.len() <= 420;
            if !small && !thorough {
                continue;
            }
            for off in 0..b.len() {
                let masks: Vec<u8> = if thorough && b.len() <= 120 { (1..=255).collect() } else { (0..8).map(|i| 1u8 << i).collect() };
                for m in masks {
                    let rd = rds[(off + m as usize) % 2];
                    v.push(format!("alter\t{}\t{}\t{}\t{}", rd, hex(b), off, m));
                }
            }
            let _ = name;
        }
        // multipart: one altered byte inside any part of a chain (later parts stay in place), against the
        // undamaged chain: never Ok, InvalidData outside length fields, exactly the entries completed before it
        for (si, set) in [sample_parts(), sample_parts_api(120), sample_parts_api(75)].iter().enumerate() {
            let all = set.iter().map(|p| hex(p)).collect::<Vec<_>>().join(",");
            for k in 0..set.len() {
                for n in 0..set[k].len() {
                    let masks: Vec<u8> = if thorough { (0..8).map(|i| 1u8 << i).collect() }
                        else if si == 0 { vec![1u8 << (n % 8), 0x80 >> (n % 7)] } else { vec![1u8 << ((n + k) % 8)] };
                    for m in masks {
                        v.push(format!("palter\t{}\t{}\t{}\t{}\t{}", rds[(n + m as usize) % 2], all, k, n, m));
                    }
                }
            }
        }
        // a part that does not carry its predecessor's number + 1: part k replaced by part j (duplicated / foreign
        // part), parts k and j swapped — for every k >= 1 (the number of the FIRST part is not checked by the library)
        for set in [sample_parts(), sample_parts_api(120), sample_parts_api(75)] {
            for k in 1..set.len() {
                for j in 0..set.len() {
                    if j == k {
                        continue;
                    }
                    let mut repl = set.clone();
                    repl[k] = set[j].clone();
                    v.push(format!("parts\t{}\t{}\tmisnumbered:{}", rds[(k + j) % 2], repl.iter().map(|p| hex(p)).collect::<Vec<_>>().join(","), k));
                    if j > k {
                        let mut sw = set.clone();
                        sw.swap(k, j);
                        v.push(format!("parts\t{}\t{}\tmisnumbered:{}", rds[(k + j + 1) % 2], sw.iter().map(|p| hex(p)).collect::<Vec<_>>().join(","), k));
                    }
                }
            }
        }
        // sampled offsets on the larger ones
        for (_, b) in &samples {
            for _ in 0..(if thorough { 2000 } else { 150 }) {
                let off = r.below(b.len() as u64);
                let m = 1 + r.below(255);
                v.push(format!("alter\t{}\t{}\t{}\t{}", rds[r.below(2) as usize], hex(b), off, m));
            }
        }
    }
    if want("C06") {
        for (_, b) in &samples {
            if b.len() > 1500 && !thorough {
                continue;
            }
            for n in 0..b.len() {
                v.push(format!("trunc\t{}\t{}\t{}", rds[n % 2], hex(b), n));
                if thorough || n % 7 == 0 {
                    v.push(format!("trunc\t{}\t{}\t{}", rds[(n + 1) % 2], hex(b), n));
                }
            }
        }
        // the raw chunk iterators (read_as_chunks, read_chunks_from_slice) on proper prefixes of single archives and of
        // every part of the part sets (non-final parts end with ANXT AEND): every cut in the last 40 bytes and at and
        // around every chunk boundary, every third byte elsewhere (seeded C06-6: an iterator that stops at ANXT)
        {
            let mut pool: Vec<Vec<u8>> = samples.iter().filter(|(_, b)| b.len() <= 1500).map(|(_, b)| b.clone()).collect();
            pool.extend(sample_parts());
            pool.extend(sample_parts_api(120));
            for b in pool {
                let bounds: Vec<usize> = scan(&b).map(|cs| cs.iter().map(|(o, _, _)| *o).collect()).unwrap_or_default();
                for n in 0..b.len() {
                    let near = bounds.iter().any(|x| n + 1 >= *x && n <= x + 8) || n + 40 >= b.len();
                    if !thorough && !near && n % 3 != 0 {
                        continue;
                    }
                    v.push(format!("chunks\t{}\t{}\t1", rds[n % 2], hex(&b[..n])));
                }
            }
        }
        // multipart: every proper prefix of the sequence
        let ps = sample_parts();
        for k in 0..ps.len() {
            for n in 0..ps[k].len() {
                if !thorough && n % 3 != 0 && n + 14 < ps[k].len() {
                    continue;
                }
                let mut parts: Vec<String> = ps[..k].iter().map(|p| hex(p)).collect();
                parts.push(hex(&ps[k][..n]));
                v.push(format!("parts\t{}\t{}", rds[n % 2], parts.join(",")));
            }
        }
        // multipart, cut made by the model too and checked against the undamaged chain (entries complete before the
        // cut, never Ok): the hand-laid set and two sets written by the library's split writer; every part, every
        // byte in thorough, every byte near chunk boundaries and every third byte elsewhere in quick
        for set in [sample_parts(), sample_parts_api(120), sample_parts_api(75)] {
            let all = set.iter().map(|p| hex(p)).collect::<Vec<_>>().join(",");
            for k in 0..set.len() {
                let bounds: Vec<usize> = scan(&set[k]).map(|cs| cs.iter().map(|(o, _, _)| *o).collect()).unwrap_or_default();
                for n in 0..set[k].len() {
                    let near = bounds.iter().any(|b| n + 1 >= *b && n <= b + 8) || n + 13 >= set[k].len();
                    if !thorough && !near && n % 3 != 0 {
                        continue;
                    }
                    v.push(format!("ptrunc\t{}\t{}\t{}\t{}", rds[(n + k) % 2], all, k, n));
                }
            }
        }
    }
    if want("C07") {
        // every structured payload the readers parse, damaged field by field, in an otherwise well-formed entry
        for (i, b) in field_sweep_archives().into_iter().enumerate() {
            v.push(format!("entries\t{}\t{}", rds[i % 2], hex(&b)));
            match i % 3 {
                0 => v.push(format!("solid\t{}", hex(&b))),
                1 => v.push(format!("reser\t{}", hex(&b))),
                _ => v.push(format!("entries\t{}\t{}", rds[(i + 1) % 2], hex(&b))),
            }
        }
    }
    if want("C03") {
        // part chains written by the library's split writer with many part sizes (entries whose data run spans
        // three and more parts; parts that hold only continuation data): stream and slice part chaining agree
        for room in [28usize, 33, 40, 47, 60, 75, 90, 120, 160, 250] {
            let set = match guard(move || sample_parts_api(room)) { Ok(s) => s, Err(()) => continue }; // room below the largest indivisible chunk
            let all = set.iter().map(|p| hex(p)).collect::<Vec<_>>().join(",");
            v.push(format!("parts\tstream\t{}", all));
            v.push(format!("parts\tslice\t{}", all));
        }
    }
    if want("C07") || want("C03") {
        let n = if thorough { 30000 } else { 1500 };
        for i in 0..n {
            let b = match i % 3 {
                0 => grammar_archive(&mut r),
                1 => { let base = samples[r.below(samples.len() as u64) as usize].1.clone(); mutate(&mut r, base) }
                _ => {
                    // nested: a grammar stream inside a plain solid entry
                    let inner = grammar_archive(&mut r);
                    let body = inner[28..].to_vec();
                    let cs = vec![
                        (b"SHED".to_vec(), vec![0u8, 0, 0, 0, 0]),
                        (b"SDAT".to_vec(), body),
                        (b"SEND".to_vec(), vec![]),
                        (b"AEND".to_vec(), vec![]),
                    ];
                    raw_archive(0, &cs)
                }
            };
            let rd = rds[i % 2];
            v.push(format!("entries\t{}\t{}", rd, hex(&b)));
            match i % 4 {
                0 => v.push(format!("chunks\t{}\t{}", rd, hex(&b))),
                1 => v.push(format!("raw\t{}\t{}", rd, hex(&b))),
                2 => v.push(format!("solid\t{}", hex(&b))),
                _ => v.push(format!("reser\t{}", hex(&b))),
            }
        }
        // part chaining with hostile numbers
        let ps = sample_parts();
        v.push(format!("parts\tstream\t{}", ps.iter().map(|p| hex(p)).collect::<Vec<_>>().join(",")));
        v.push(format!("parts\tslice\t{}", ps.iter().map(|p| hex(p)).collect::<Vec<_>>().join(",")));
        v.push(format!("parts\tstream\t{},{}", hex(&ps[0]), hex(&ps[2])));
        v.push(format!("parts\tstream\t{}", hex(&ps[0])));
        let maxa = raw_archive(u32::MAX, &[(b"ANXT".to_vec(), vec![]), (b"AEND".to_vec(), vec![])]);
        let zero = raw_archive(0, &[(b"AEND".to_vec(), vec![])]);
        v.push(format!("parts\tstream\t{},{}", hex(&maxa), hex(&zero)));
        v.push(format!("parts\tslice\t{},{}", hex(&maxa), hex(&zero)));
        for i in 0..(if thorough { 400 } else { 60 }) {
            let k = 1 + r.below(3) as usize;
            let mut parts: Vec<Vec<u8>> = ps[..k.min(ps.len())].to_vec();
            let j = r.below(parts.len() as u64) as usize;
            parts[j] = mutate(&mut r, parts[j].clone());
            v.push(format!("parts\t{}\t{}", rds[i % 2], parts.iter().map(|p| hex(p)).collect::<Vec<_>>().join(",")));
        }
    }
    if want("C18") {
        let lens: &[usize] = if thorough { &[0, 1, 15, 16, 17, 4095, 4096, 4097, 70_000, 200_000, 1_200_000] } else { &[0, 1, 16, 17, 4096, 70_000, 200_000] };
        for &len in lens {
            for codec in [0, 1, 2, 4] {
                for (cipher, mode) in [(0, 0), (1, 0), (1, 1), (2, 0), (2, 1)] {
                    for piece in [0usize, 4096] {
                        if len > 100_000 && codec == 4 && !thorough && cipher != 0 { continue; }
                        if !thorough && len >= 70_000 && piece == 4096 && cipher == 2 { continue; }
                        v.push(format!("sizes\t{}\t{}\t{}\t{}\t{}\t{}", codec, cipher, mode, len, 1, piece));
                        if len > 0 && len <= 4096 { v.push(format!("sizes\t{}\t{}\t{}\t{}\t{}\t{}", codec, cipher, mode, len, 0, piece)); }
                    }
                }
            }
        }
    }
    if want("C13") || want("C18") {
        for (i, (_, b)) in samples.iter().enumerate() {
            let o = |x: Option<u64>| x.map(|v| v.to_string()).unwrap_or("-".into());
            v.push(format!("withmeta\t{}\t{}\t{}\t{}\t{}", hex(b), o(None), o(Some(1_700_000_000 + i as u64)), o(None), o(Some(0o640))));
            v.push(format!("withmeta\t{}\t-\t-\t-\t-", hex(b)));
        }
        for (_, b) in &samples {
            v.push(format!("rawcopy\t{}", hex(b)));
            v.push(format!("reser\t{}", hex(b)));
            v.push(format!("reser2\t{}", hex(b)));
            v.push(format!("solid\t{}", hex(b)));
            v.push(format!("seek\t{}", hex(b)));
        }
        // append: every sample as base, three donors each (C18: the position seek_to_end finds; C13: nothing lost)
        for (i, (_, b)) in samples.iter().enumerate() {
            for j in [1usize, 3, 8] {
                let d = &samples[(i + j) % samples.len()].1;
                v.push(format!("append\t{}\t{}", hex(b), hex(d)));
            }
        }
        for p in sample_parts() {
            v.push(format!("seek\t{}", hex(&p)));
            v.push(format!("append\t{}\t{}", hex(&p), hex(&samples[2].1)));
        }
        let n = if thorough { 8000 } else { 500 };
        for i in 0..n {
            // bracketed foreign layouts: random chunk order inside FHED..FEND
            let mut cs: Vec<(Vec<u8>, Vec<u8>)> = Vec::new();
            for _ in 0..1 + r.below(3) {
                let solid = r.chance(1, 5);
                if solid {
                    cs.push((b"SHED".to_vec(), vec![0, 0, 0, 0, 0]));
                    for _ in 0..r.below(3) {
                        match r.below(3) {
                            0 => cs.push((b"SDAT".to_vec(), { let k = r.below(5) as usize; r.bytes(k) })),
                            1 => cs.push((unknown_type(&mut r), { let k = r.below(5) as usize; r.bytes(k) })),
                            _ => cs.push((b"SDAT".to_vec(), {
                                let mut x = raw_chunk(b"FHED", &[0, 0, 0, 0, 0, 0, b'i']);
                                x.extend(raw_chunk(&unknown_type(&mut r), b"?"));
                                x.extend(raw_chunk(b"FDAT", b"data"));
                                x.extend(raw_chunk(b"FEND", b""));
                                x
                            })),
                        }
                    }
                    cs.push((b"SEND".to_vec(), vec![]));
                    continue;
                }
                let name = *r.pick(&[&b"a"[..], b"dir/b", b"x y", "é".as_bytes(), b"../up", b"/abs"]);
                let mut f = vec![0u8, 0, r.below(4) as u8, 0, 0, 0];
                f.extend_from_slice(name);
                cs.push((b"FHED".to_vec(), f));
                for _ in 0..r.below(8) {
                    match r.below(9) {
                        0 => cs.push((b"FDAT".to_vec(), { let k = r.below(6) as usize; r.bytes(k) })),
                        1 => cs.push((b"mTIM".to_vec(), r.below(1 << 40).to_be_bytes().to_vec())),
                        2 => cs.push((b"cTIM".to_vec(), r.next().to_be_bytes().to_vec())),
                        3 => cs.push((b"fSIZ".to_vec(), { let k = r.below(6) as usize; r.bytes(k) })),
                        4 => cs.push((b"xATR".to_vec(), vec![0, 0, 0, 1, b'a' + r.below(3) as u8, 0, 0, 0, 1, r.next() as u8])),
                        5 => cs.push((unknown_type(&mut r), { let k = r.below(4) as usize; r.bytes(k) })),
                        6 => cs.push((unknown_type(&mut r), { let k = r.below(4) as usize; r.bytes(k) })),
                        7 => cs.push((b"fPRM".to_vec(), {
                            let mut p = 7u64.to_be_bytes().to_vec();
                            p.push(1); p.push(b'u');
                            p.extend_from_slice(&9u64.to_be_bytes());
                            p.push(0);
                            p.extend_from_slice(&0o755u16.to_be_bytes());
                            p
                        })),
                        _ => cs.push((b"PHSF".to_vec(), b"$x$y".to_vec())),
                    }
                }
                cs.push((b"FEND".to_vec(), vec![]));
            }
            cs.push((b"AEND".to_vec(), vec![]));
            let b = raw_archive(0, &cs);
            if i % 5 == 0 {
                v.push(format!("withmeta\t{}\t{}\t-\t{}\t{}", hex(&b), r.below(1 << 33), r.below(1 << 33), if r.chance(1, 2) { "493".to_string() } else { "-".to_string() }));
            }
            match i % 4 {
                0 => v.push(format!("rawcopy\t{}", hex(&b))),
                1 => v.push(format!("reser\t{}", hex(&b))),
                2 => v.push(format!("reser2\t{}", hex(&b))),
                _ => {
                    v.push(format!("solid\t{}", hex(&b)));
                    v.push(format!("seek\t{}", hex(&b)));
                    if i % 8 == 3 {
                        v.push(format!("append\t{}\t{}", hex(&b), hex(&samples[3].1)));
                        v.push(format!("append\t{}\t{}", hex(&samples[3].1), hex(&b)));
                    }
                }
            }
        }
    }
    v
}

fn main() {
    harness_main(gen, run);
}
