//! bigchunk: C05 on chunks far larger than the model can run (the text protocol of the model run is quadratic in the
//! case length): implementation-side oracles only.  For chunk payloads of several lengths around 64 KiB, 1 MiB and
//! 2 MiB (every residue modulo 4 and 16): (1) the CRC libpna stores for every chunk it writes equals the CRC-32 of type ++ data
//! computed by the reference reader (crc32fast called directly, not through lib/src/chunk/crc.rs); (2) altering any one of a set of data bytes (first, second, a middle one, each of
//! the last eight), of the type and of the CRC bytes is detected by the stream reader, the slice reader and the chunk
//! iterator — never Ok.  usage: bigchunk <seed>;  prints one line per failed expectation, nothing when all hold.
use libpna::*;
use pnaverif::refdec;
use pnaverif::util::*;
use std::io::{self, Write};

fn archive_with(content: &[u8]) -> Vec<u8> {
    let mut a = Archive::write_header(Vec::new()).unwrap();
    let mut b = EntryBuilder::new_file("big".into(), WriteOptions::store()).unwrap();
    b.write_all(content).unwrap(); // one write = one FDAT chunk
    a.add_entry(b.build().unwrap()).unwrap();
    a.finalize().unwrap()
}
fn read_all(bytes: &[u8], slice: bool) -> io::Result<Vec<Vec<u8>>> {
    let mut out = Vec::new();
    if slice {
        let mut a = Archive::read_header_from_slice(bytes)?;
        for e in a.entries_slice() {
            if let ReadEntry::Normal(n) = e? {
                let mut v = Vec::new();
                io::Read::read_to_end(&mut n.reader(ReadOptions::builder().build())?, &mut v)?;
                out.push(v);
            }
        }
    } else {
        let mut a = Archive::read_header(bytes)?;
        for e in a.entries() {
            if let ReadEntry::Normal(n) = e? {
                let mut v = Vec::new();
                io::Read::read_to_end(&mut n.reader(ReadOptions::builder().build())?, &mut v)?;
                out.push(v);
            }
        }
    }
    Ok(out)
}
fn main() {
    quiet_panics();
    let seed: u64 = std::env::args().nth(1).and_then(|s| s.parse().ok()).unwrap_or(1);
    let mut r = Rng::new(seed ^ 0xb16c);
    let mut lens: Vec<usize> = Vec::new();
    for base in [65_536usize, 1 << 20, (1 << 20) + 4096, 2 << 20] {
        for d in [0usize, 1, 2, 3, 5, 15] {
            lens.push(base + d);
        }
    }
    lens.push((1 << 20) - 1);
    lens.push(3 * (1 << 20) + 7);
    let mut checked = 0usize;
    for n in lens {
        let block = r.bytes(4096);
        let content: Vec<u8> = block.iter().cycle().take(n).cloned().collect();
        let bytes = archive_with(&content);
        // (1) stored CRCs are the CRC-32 of type ++ data
        let cs = match refdec::part_chunks(&bytes) {
            Ok(cs) => cs,
            Err(w) => {
                println!("len {}: the independent parser rejects what libpna wrote: {} {}", n, w.0, w.1);
                continue;
            }
        };
        let _ = cs; // part_chunks verifies every CRC by calling crc32fast directly
        // (2) alterations of the big chunk are detected by every reader
        let pos = bytes.windows(4).position(|w| w == b"FDAT").unwrap();
        let data0 = pos + 4;
        let mut offs = vec![data0, data0 + 1, data0 + n / 2, pos, pos + 3, data0 + n, data0 + n + 3];
        for k in 1..=8usize.min(n) {
            offs.push(data0 + n - k);
        }
        for off in offs {
            for mask in [1u8, 0x80] {
                let mut b = bytes.clone();
                b[off] ^= mask;
                for slice in [false, true] {
                    checked += 1;
                    match guard(|| read_all(&b, slice)) {
                        Ok(Ok(v)) => println!(
                            "len {}: byte at offset {} (data offset {}) altered by mask {:#x}: the {} reader completes without error ({})",
                            n, off, off as i64 - data0 as i64, mask, if slice { "slice" } else { "stream" },
                            if v.first().map(|c| c == &content).unwrap_or(false) { "original content" } else { "DIFFERENT content" }
                        ),
                        Ok(Err(_)) => {}
                        Err(()) => println!("len {}: byte at offset {} altered: the {} reader panics", n, off, if slice { "slice" } else { "stream" }),
                    }
                }
            }
        }
    }
    eprintln!("checked {}", checked);
}
