//! clicodec area (C15, CLI half; `mode_apply` idempotence is also used by C10): the CLI's
//! textual codecs, reached through `portable_network_archive::verif_hooks`.
//! Strings travel as lowercase hex, numbers in decimal.
//! Ops (outcome formats are mirrored in coq/Model/ClicodecRun.v):
//!   ace_enc flags kind namehex allow perm      -> OK texthex
//!   ace_dec texthex                            -> OK flags kind namehex allow perm | ERR InvalidInput
//!   awp_enc pk pnamehex flags kind namehex allow perm -> OK texthex
//!   awp_dec texthex                            -> OK pk pnamehex flags kind namehex allow perm | ERR InvalidInput
//!   plat_enc pk pnamehex                       -> OK texthex
//!   plat_dec texthex                           -> OK pk pnamehex
//!   ace_sweep kind namehex allow flags permhi  -> OK n crc   (the 1024 permission sets permhi*1024+lo:
//!                                                 n = how many decode back exactly, crc = CRC-32 of the
//!                                                 1024 texts, each followed by a line feed)
//!   xv_parse texthex                           -> OK valuehex | ERR InvalidInput
//!   xv_hex valuehex | xv_b64 valuehex | xv_auto valuehex -> OK texthex
//!   xv_text valuehex                           -> OK texthex | ERR InvalidData   (value is not UTF-8)
//!   part_with pathhex n                        -> OK pathhex | NONE
//!   part_remove pathhex                        -> OK pathhex | NONE
//!   part_laws pathhex n m                      -> OK with(p,n) remove(with(p,n)) with(with(p,n),m) with(p,m) | NONE
//!   mode_parse texthex                         -> OK form target value | ERR InvalidInput
//!   mode_apply texthex perm                    -> OK perm' | ERR InvalidInput
//!   mode_canon form target value               -> OK spellinghex form target value | ERR InvalidInput
//! owner kinds: 0 owner, 1 user(name), 2 owning group, 3 group(name), 4 mask, 5 other
//! platform kinds: 0 none, 1 general, 2 windows, 3 macos, 4 linux, 5 freebsd, 6 unknown(name)
//! mode forms: 0 numeric, 1 '=', 2 '+', 3 '-'; target bits u=1 g=2 o=4
use pnaverif::util::*;
use portable_network_archive::verif_hooks as h;

const E_INPUT: &str = "ERR InvalidInput";

fn s(b: &[u8]) -> String {
    String::from_utf8(b.to_vec()).expect("generator guarantees utf-8 here")
}
fn hs(st: &str) -> String {
    hex(st.as_bytes())
}

/// the owner name is significant only for the two named kinds
fn canon_name(kind: u64, name: &str) -> String {
    if kind == 1 || kind == 3 {
        name.to_string()
    } else {
        String::new()
    }
}
/// domain of the ACE inverse law: known flag bits, a non-empty colon-free name for named owners
fn wf_ace(flags: u64, kind: u64, name: &str) -> bool {
    flags < 64 && kind <= 5 && ((kind != 1 && kind != 3) || (!name.is_empty() && !name.contains(':')))
}
fn wf_platform(pk: u64, pname: &str) -> bool {
    pk != 6 || (!pname.contains(':') && !["", "windows", "macos", "linux", "freebsd"].contains(&pname))
}
fn show_ace(t: &h::AceBits) -> String {
    format!("{} {} {} {} {}", t.0, t.1, hs(&t.2), t.3 as u8, t.4)
}

/// the spelling of a mode that `mode_canon` parses back (there is no printer in the CLI)
fn mode_spelling(form: u64, target: u64, value: u64) -> String {
    if form == 0 {
        return format!("{}{}{}", (value >> 6) & 7, (value >> 3) & 7, value & 7);
    }
    let mut st = String::new();
    for (bit, ch) in [(1, 'u'), (2, 'g'), (4, 'o')] {
        if target & bit != 0 {
            st.push(ch);
        }
    }
    st.push(match form {
        1 => '=',
        2 => '+',
        _ => '-',
    });
    for (bit, ch) in [(4, 'r'), (2, 'w'), (1, 'x')] {
        if value & bit != 0 {
            st.push(ch);
        }
    }
    st
}

fn crc_of(texts: &[String]) -> u32 {
    let mut hsh = crc32fast::Hasher::new();
    for t in texts {
        hsh.update(t.as_bytes());
        hsh.update(b"\n");
    }
    hsh.finalize()
}

fn run(c: &Case, oracle: &mut Vec<String>) -> String {
    let a = &c.args;
    let n = |i: usize| -> u64 { a[i].parse().unwrap() };
    let hx = |i: usize| -> Vec<u8> { unhex(a[i]).unwrap() };
    match c.op {
        "ace_enc" => {
            let (flags, kind, name, allow, perm) = (n(0), n(1), s(&hx(2)), n(3) != 0, n(4));
            match guard(|| h::ace_from_bits(flags as u8, kind as u8, &name, allow, perm as u16)) {
                Ok(text) => {
                    if wf_ace(flags, kind, &name) {
                        let want = (flags as u8, kind as u8, canon_name(kind, &name), allow, perm as u16);
                        match guard(|| h::ace_parse_bits(&text)) {
                            Ok(Ok(got)) if got == want => {}
                            other => oracle.push(format!(
                                "ACE does not decode back: {} -> {:?} -> {:?}",
                                show_ace(&want), text, other.map(|r| r.map(|t| show_ace(&t)))
                            )),
                        }
                    }
                    format!("OK {}", hs(&text))
                }
                Err(()) => "PANIC".into(),
            }
        }
        "ace_dec" => {
            let text = s(&hx(0));
            match guard(|| h::ace_parse_bits(&text)) {
                Ok(Ok(t)) => {
                    // decoding accepted input and re-encoding it is stable
                    let again = h::ace_from_bits(t.0, t.1, &t.2, t.3, t.4);
                    match h::ace_parse_bits(&again) {
                        Ok(t2) if t2 == t => {}
                        other => oracle.push(format!("ACE decode/encode not stable: {:?} -> {:?} -> {:?}", text, again, other.ok())),
                    }
                    if h::ace_parse_display(&text).ok().as_deref() != Some(again.as_str()) {
                        oracle.push("ace_parse_display differs from display(parse)".into());
                    }
                    format!("OK {}", show_ace(&t))
                }
                Ok(Err(_)) => E_INPUT.into(),
                Err(()) => "PANIC".into(),
            }
        }
        "awp_enc" => {
            let (pk, pname, flags, kind, name, allow, perm) = (n(0), s(&hx(1)), n(2), n(3), s(&hx(4)), n(5) != 0, n(6));
            match guard(|| h::ace_with_platform_from_bits(pk as u8, &pname, flags as u8, kind as u8, &name, allow, perm as u16)) {
                Ok(text) => {
                    if wf_ace(flags, kind, &name) && wf_platform(pk, &pname) && pk <= 6 {
                        let want = (
                            (pk as u8, if pk == 6 { pname.clone() } else { String::new() }),
                            (flags as u8, kind as u8, canon_name(kind, &name), allow, perm as u16),
                        );
                        match guard(|| h::ace_with_platform_parse_bits(&text)) {
                            Ok(Ok(got)) if got == want => {}
                            other => oracle.push(format!(
                                "ACE with platform does not decode back: {:?} -> {:?} -> {:?}",
                                want, text, other.map(|r| r.ok())
                            )),
                        }
                    }
                    format!("OK {}", hs(&text))
                }
                Err(()) => "PANIC".into(),
            }
        }
        "awp_dec" => {
            let text = s(&hx(0));
            match guard(|| h::ace_with_platform_parse_bits(&text)) {
                Ok(Ok((p, t))) => {
                    let again = h::ace_with_platform_from_bits(p.0, &p.1, t.0, t.1, &t.2, t.3, t.4);
                    match h::ace_with_platform_parse_bits(&again) {
                        Ok(v2) if v2 == (p.clone(), t.clone()) => {}
                        other => oracle.push(format!(
                            "ACE with platform decode/encode not stable: {:?} -> {:?} -> {:?}", text, again, other.ok()
                        )),
                    }
                    format!("OK {} {} {}", p.0, hs(&p.1), show_ace(&t))
                }
                Ok(Err(_)) => E_INPUT.into(),
                Err(()) => "PANIC".into(),
            }
        }
        "plat_enc" => {
            let (pk, pname) = (n(0), s(&hx(1)));
            let text = h::platform_from_bits(pk as u8, &pname);
            if wf_platform(pk, &pname) && (1..=6).contains(&pk) {
                let want = (pk as u8, if pk == 6 { pname.clone() } else { String::new() });
                if h::platform_parse_bits(&text) != want {
                    oracle.push(format!("platform does not decode back: {:?} -> {:?}", want, text));
                }
            }
            format!("OK {}", hs(&text))
        }
        "plat_dec" => {
            let text = s(&hx(0));
            let p = h::platform_parse_bits(&text);
            if h::platform_from_bits(p.0, &p.1) != text {
                oracle.push(format!("platform decode/encode not stable: {:?}", text));
            }
            format!("OK {} {}", p.0, hs(&p.1))
        }
        "ace_sweep" => {
            let (kind, name, allow, flags, permhi) = (n(0), s(&hx(1)), n(2) != 0, n(3), n(4));
            let mut texts = Vec::with_capacity(1024);
            let mut good = 0u32;
            for lo in 0..1024u64 {
                let perm = (permhi * 1024 + lo) as u16;
                let text = h::ace_from_bits(flags as u8, kind as u8, &name, allow, perm);
                let want = (flags as u8, kind as u8, canon_name(kind, &name), allow, perm);
                if h::ace_parse_bits(&text).ok().as_ref() == Some(&want) {
                    good += 1;
                }
                texts.push(text);
            }
            if good != 1024 && wf_ace(flags, kind, &name) {
                oracle.push(format!("only {} of 1024 ACEs decode back (flags {} permissions {}*1024..)", good, flags, permhi));
            }
            format!("OK {} {}", good, crc_of(&texts))
        }
        "xv_parse" => {
            let text = s(&hx(0));
            match guard(|| h::xattr_value_parse(&text)) {
                Ok(Ok(v)) => {
                    // accepted input, re-encoded in its own form, decodes to the same value
                    if text.starts_with("0x") && h::xattr_value_parse(&h::xattr_display_hex(&v)).ok().as_ref() != Some(&v) {
                        oracle.push(format!("xattr hex decode/encode not stable: {:?}", text));
                    }
                    if text.starts_with("0s") && h::xattr_value_parse(&h::xattr_display_base64(&v)).ok().as_ref() != Some(&v) {
                        oracle.push(format!("xattr base64 decode/encode not stable: {:?}", text));
                    }
                    format!("OK {}", hex(&v))
                }
                Ok(Err(_)) => E_INPUT.into(),
                Err(()) => "PANIC".into(),
            }
        }
        "xv_hex" | "xv_b64" => {
            let v = hx(0);
            let text = if c.op == "xv_hex" { h::xattr_display_hex(&v) } else { h::xattr_display_base64(&v) };
            match guard(|| h::xattr_value_parse(&text)) {
                Ok(Ok(back)) if back == v => {}
                other => oracle.push(format!(
                    "xattr value {} printed as {:?} parses as {:?}", hex(&v), text, other.map(|r| r.ok().map(|b| hex(&b)))
                )),
            }
            format!("OK {}", hs(&text))
        }
        "xv_auto" => format!("OK {}", hs(&h::xattr_display_auto(&hx(0)))),
        "xv_text" => {
            let text = h::xattr_display_text(&hx(0));
            if text.starts_with('"') {
                format!("OK {}", hs(&text))
            } else {
                "ERR InvalidData".into()
            }
        }
        "part_with" => match guard(|| h::with_part(&s(&hx(0)), n(1) as usize)) {
            Ok(Some(p)) => format!("OK {}", hs(&p)),
            Ok(None) => "NONE".into(),
            Err(()) => "PANIC".into(),
        },
        "part_remove" => match guard(|| h::remove_part(&s(&hx(0)))) {
            Ok(Some(p)) => format!("OK {}", hs(&p)),
            Ok(None) => "NONE".into(),
            Err(()) => "PANIC".into(),
        },
        "part_laws" => {
            let (p, k, m) = (s(&hx(0)), n(1) as usize, n(2) as usize);
            let r = guard(|| {
                let w = h::with_part(&p, k)?;
                let back = h::remove_part(&w)?;
                let ww = h::with_part(&w, m)?;
                let wm = h::with_part(&p, m)?;
                Some((w, back, ww, wm, h::remove_part(&p)?))
            });
            match r {
                Ok(Some((w, back, ww, wm, base))) => {
                    // p is not itself a part name  <=>  remove_part p = p
                    if base == p && back != p {
                        oracle.push(format!("remove_part(with_part({:?},{})) = {:?}", p, k, back));
                    }
                    if back != base {
                        oracle.push(format!("remove_part(with_part({:?},{})) = {:?} but remove_part = {:?}", p, k, back, base));
                    }
                    if ww != wm {
                        oracle.push(format!("with_part(with_part({:?},{}),{}) = {:?} but with_part(p,{}) = {:?}", p, k, m, ww, m, wm));
                    }
                    format!("OK {} {} {} {}", hs(&w), hs(&back), hs(&ww), hs(&wm))
                }
                Ok(None) => "NONE".into(),
                Err(()) => "PANIC".into(),
            }
        }
        "mode_parse" => match guard(|| h::mode_parse_bits(&s(&hx(0)))) {
            Ok(Ok(t)) => format!("OK {} {} {}", t.0, t.1, t.2),
            Ok(Err(_)) => E_INPUT.into(),
            Err(()) => "PANIC".into(),
        },
        "mode_apply" => {
            let (text, perm) = (s(&hx(0)), n(1) as u16);
            match guard(|| h::mode_parse_apply(&text, perm)) {
                Ok(Ok(r)) => {
                    if h::mode_parse_apply(&text, r) != Ok(r) {
                        oracle.push(format!("chmod {:?} is not idempotent on {:o}", text, perm));
                    }
                    format!("OK {}", r)
                }
                Ok(Err(_)) => E_INPUT.into(),
                Err(()) => "PANIC".into(),
            }
        }
        "mode_canon" => {
            let (form, target, value) = (n(0), n(1), n(2));
            let text = mode_spelling(form, target, value);
            match guard(|| h::mode_parse_bits(&text)) {
                Ok(Ok(t)) => {
                    let wf = if form == 0 { value < 512 } else { (1..=7).contains(&target) && value < 8 && form <= 3 };
                    if wf && (t.0 as u64, t.1 as u64, t.2 as u64) != (form, if form == 0 { 0 } else { target }, value) {
                        oracle.push(format!("mode {:?} parses as {:?}", text, t));
                    }
                    format!("OK {} {} {} {}", hs(&text), t.0, t.1, t.2)
                }
                Ok(Err(_)) => {
                    let wf = if form == 0 { value < 512 } else { (1..=7).contains(&target) && value < 8 && form <= 3 };
                    if wf {
                        oracle.push(format!("canonical mode {:?} rejected", text));
                    }
                    E_INPUT.into()
                }
                Err(()) => "PANIC".into(),
            }
        }
        _ => "BADCASE".into(),
    }
}

// ---- generators -------------------------------------------------------------
const OWNER_NAMES: &[&str] = &["alice", "0", "1000", "wheel", "名前", "a b", "x,y", "DOMAIN\\user", "u", "default", "-"];

fn owner_name(r: &mut Rng) -> String {
    r.pick(OWNER_NAMES).to_string()
}
fn ace_line(flags: u64, kind: u64, name: &str, allow: u64, perm: u64) -> String {
    format!("ace_enc\t{}\t{}\t{}\t{}\t{}", flags, kind, hs(name), allow, perm)
}
fn name_for(kind: u64, r: &mut Rng) -> String {
    if kind == 1 || kind == 3 {
        owner_name(r)
    } else {
        String::new()
    }
}

const FLAG_WORDS: &[&str] = &["d", "default", "file_inherit", "directory_inherit", "only_inherit", "limit_inherit", "inherited", "", "x", "D", "inherit"];
const PERM_WORDS: &[&str] = &[
    "r", "read", "w", "write", "x", "execute", "delete", "append", "delete_child", "readattr", "writeattr", "readextattr",
    "writeextattr", "readsecurity", "writesecurity", "chown", "sync", "read_data", "write_data", "", "rw", "R", "full",
];
const KIND_WORDS: &[&str] = &["u", "user", "g", "group", "m", "mask", "o", "other", "", "U", "users", "d"];
const ALLOW_WORDS: &[&str] = &["allow", "deny", "", "Allow", "permit"];
const PLAT_WORDS: &[&str] = &["", "windows", "macos", "linux", "freebsd", "solaris", "Windows", "名"];

/// free-form ACE text: words in any order, aliases, unknown words, wrong field counts
fn ace_text(r: &mut Rng) -> String {
    let words = |r: &mut Rng, from: &[&str]| -> String {
        let k = r.below(5);
        (0..k).map(|_| *r.pick(from)).collect::<Vec<_>>().join(",")
    };
    let mut f = vec![
        words(r, FLAG_WORDS),
        r.pick(KIND_WORDS).to_string(),
        if r.chance(1, 2) { String::new() } else { owner_name(r) },
        r.pick(ALLOW_WORDS).to_string(),
        words(r, PERM_WORDS),
    ];
    match r.below(12) {
        0 => {
            f.pop();
        }
        1 => f.push(words(r, PERM_WORDS)),
        2 => f.insert(0, r.pick(PLAT_WORDS).to_string()),
        3 => {
            f.insert(0, r.pick(PLAT_WORDS).to_string());
            f.push(String::new());
        }
        _ => {}
    }
    f.join(":")
}

fn mutate_text(r: &mut Rng, t: &str) -> String {
    let mut cs: Vec<char> = t.chars().collect();
    match r.below(5) {
        0 if !cs.is_empty() => {
            let i = r.below(cs.len() as u64) as usize;
            cs.remove(i);
        }
        1 => {
            let i = r.below(cs.len() as u64 + 1) as usize;
            cs.insert(i, *r.pick(&[':', ',', 'r', 'd', '=', '0', 'x', 's', '+', '-', 'A', '/', '.', 'é']));
        }
        2 if !cs.is_empty() => {
            let i = r.below(cs.len() as u64) as usize;
            cs[i] = *r.pick(&[':', ',', 'w', '=', 'g', '+', 'Z', '9', '/', '.']);
        }
        3 if cs.len() > 1 => {
            let i = r.below(cs.len() as u64 - 1) as usize;
            cs.swap(i, i + 1);
        }
        _ => {}
    }
    cs.into_iter().collect()
}

fn file_names() -> Vec<&'static str> {
    vec![
        "a", "archive", "a.pna", "archive.pna", "a.PNA", "a.Pna", "my.file.pna", "my.other.pna", "a.b.c.pna", "a.txt", "a.tar.gz",
        "a.b", "a.", "a..", "a..pna", "a.pna.", ".hidden", ".hidden.pna", ".pna", ".a.b", "..a", "...", "..pna", "a.part", "a.partial",
        "a.partial.pna", "a.part1", "a.part1.pna", "a.part12.pna", "a.part1.txt", "a.part1.part2", "a.part1.part2.pna", "a.partx.pna",
        "a.part1x", "a.pna.part1", "a.pna.pna", "part1", "part1.pna", ".part1", ".part1.pna", "x.part.pna", "a.PART1.pna",
        "a.part١.pna", "名前.pna", "名前", "é.x.pna", "a b.pna", "a.pnax", "a.pn", "pna", "a.part1.PNA", "a.part0", "a.part00.pna",
        "a.part18446744073709551615.pna", "-", "a-b_c.pna", "a.part1.", "a.part-1.pna", "a.part+1",
    ]
}
fn dir_prefixes() -> Vec<&'static str> {
    vec!["", "dir/", "/", "/abs/dir/", "./", "../", "d.ir/", "a.pna/", "x.part1/", "d.part1.pna/", ".hid/", "名/", "a b/c.d/", "../../x/"]
}
fn rand_file_name(r: &mut Rng) -> String {
    const PIECES: &[&str] = &["a", "b", "part", "part1", "part22", "pna", "PNA", "txt", "名", "é", "x y", "1", "0", "partial", "-", "_"];
    let k = 1 + r.below(4);
    let mut st = String::new();
    if r.chance(1, 6) {
        st.push('.');
    }
    for i in 0..k {
        if i > 0 {
            st.push('.');
        }
        st.push_str(*r.pick(PIECES));
    }
    if r.chance(1, 12) {
        st.push('.');
    }
    st
}
const PART_NUMBERS: &[u64] = &[0, 1, 2, 9, 10, 99, 100, 1 << 32];

fn short_bytes(r: &mut Rng) -> Vec<u8> {
    let l = *r.pick(&[0usize, 1, 2, 3, 4, 5, 6, 7, 8, 9, 15, 16, 17, 31, 32, 33, 64, 100]);
    match r.below(4) {
        0 => (0..l).map(|_| *r.pick(&[0u8, 1, 9, 10, 15, 16, 0x7f, 0x80, 0xff, b'a', b'"', b'\\'])).collect(),
        1 => {
            // valid utf-8 text
            let mut st = String::new();
            while st.len() < l {
                st.push_str(*r.pick(&["a", "b", "\"", "\\", " ", "é", "名", "😀", "\n", "0x", "0s", "="]));
            }
            st.into_bytes()
        }
        _ => r.bytes(l),
    }
}

fn xv_texts(r: &mut Rng, v: &mut Vec<String>, count: usize) {
    const B64: &[u8] = b"ABCDEFGHIJKLMNOPQRSTUVWXYZabcdefghijklmnopqrstuvwxyz0123456789+/";
    for _ in 0..count {
        let val = short_bytes(r);
        let base = match r.below(6) {
            0 => h::xattr_display_hex(&val),
            1 => h::xattr_display_base64(&val),
            2 => h::xattr_display_hex(&val).to_uppercase().replacen("0X", "0x", 1),
            3 => {
                // free-form base64-looking text
                let l = r.below(10) as usize;
                let mut st = String::from("0s");
                for _ in 0..l {
                    st.push(*r.pick(B64) as char);
                }
                for _ in 0..r.below(3) {
                    st.push('=');
                }
                st
            }
            4 => {
                let l = r.below(7) as usize;
                let mut st = String::from("0x");
                for _ in 0..l {
                    st.push(*r.pick(b"0123456789abcdefABCDEF+-g ") as char);
                }
                st
            }
            _ => String::from_utf8_lossy(&val).into_owned(),
        };
        let t = if r.chance(1, 2) { mutate_text(r, &base) } else { base };
        v.push(format!("xv_parse\t{}", hs(&t)));
    }
}

fn gen(_prop: &str, tier: &str, seed: u64) -> Vec<String> {
    let mut r = Rng::new(seed);
    let thorough = tier == "thorough";
    let scale = if thorough { 10 } else { 1 };
    let mut v: Vec<String> = Vec::new();

    // ---- ACE: every flag set x every permission set of at most two bits x owner kinds x allow/deny
    let mut small_perms: Vec<u64> = vec![0];
    for i in 0..16 {
        small_perms.push(1 << i);
        for j in (i + 1)..16 {
            small_perms.push((1 << i) | (1 << j));
        }
    }
    for flags in 0..64u64 {
        for &perm in &small_perms {
            for kind in 0..6u64 {
                for allow in 0..2u64 {
                    let name = if kind == 1 { "alice" } else if kind == 3 { "wheel" } else { "" };
                    v.push(ace_line(flags, kind, name, allow, perm));
                }
            }
        }
    }
    // every permission set together with all flags and none (quick: 2 x 2^16 would be too many lines; see ace_sweep)
    for _ in 0..20_000 {
        let kind = r.below(6);
        let name = name_for(kind, &mut r);
        v.push(ace_line(r.below(64), kind, &name, r.below(2), r.below(65536)));
    }
    // outside the inverse law's domain (model and code must still agree): unknown flag bits,
    // empty or colon-bearing owner names, names on unnamed kinds
    for _ in 0..300 * scale {
        let kind = r.below(6);
        let name = *r.pick(&["", "a:b", ":", "x", "u:", "名:"]);
        v.push(ace_line(r.below(256), kind, name, r.below(2), r.below(65536)));
    }
    // sweeps: 1024 permission sets per line
    if thorough {
        // all 2^6 x 2^16 flag/permission sets, for a named user (allow) and for the owner (deny)
        for flags in 0..64u64 {
            for permhi in 0..64u64 {
                v.push(format!("ace_sweep\t1\t{}\t1\t{}\t{}", hs("alice"), flags, permhi));
                v.push(format!("ace_sweep\t0\t\t0\t{}\t{}", flags, permhi));
            }
        }
    } else {
        // all 2^16 permission sets with no flag and with every flag
        for flags in [0u64, 63] {
            for permhi in 0..64u64 {
                v.push(format!("ace_sweep\t1\t{}\t1\t{}\t{}", hs("alice"), flags, permhi));
            }
        }
    }
    // with platform: every platform kind x owner kinds x a spread of sets
    for pk in 0..7u64 {
        for kind in 0..6u64 {
            for _ in 0..40 * scale {
                let pname = if pk == 6 { *r.pick(&["solaris", "名", "Windows", "x y", "win32,nt"]) } else { "" };
                let name = name_for(kind, &mut r);
                v.push(format!(
                    "awp_enc\t{}\t{}\t{}\t{}\t{}\t{}\t{}",
                    pk, hs(pname), r.below(64), kind, hs(&name), r.below(2), r.below(65536)
                ));
            }
        }
    }
    for pname in ["", "windows", "macos", "linux", "freebsd", "a:b", ":"] {
        v.push(format!("awp_enc\t6\t{}\t1\t0\t\t1\t7", hs(pname)));
        v.push(format!("plat_enc\t6\t{}", hs(pname)));
    }
    for pk in 0..7u64 {
        v.push(format!("plat_enc\t{}\t{}", pk, hs("solaris")));
    }
    for w in PLAT_WORDS {
        v.push(format!("plat_dec\t{}", hs(w)));
    }
    // decoding: printed ACEs, hand-written forms (aliases, any order, duplicates, unknown words), mutations
    for _ in 0..6_000 * scale {
        let kind = r.below(6);
        let name = name_for(kind, &mut r);
        let printed = h::ace_from_bits(r.below(64) as u8, kind as u8, &name, r.chance(1, 2), r.below(65536) as u16);
        let t = match r.below(4) {
            0 => printed,
            1 => mutate_text(&mut r, &printed),
            _ => ace_text(&mut r),
        };
        v.push(format!("ace_dec\t{}", hs(&t)));
        let t2 = match r.below(3) {
            0 => format!("{}:{}", r.pick(PLAT_WORDS), t),
            1 => {
                let with = format!("{}:{}", r.pick(PLAT_WORDS), t);
                mutate_text(&mut r, &with)
            }
            _ => t,
        };
        v.push(format!("awp_dec\t{}", hs(&t2)));
    }
    for t in ["", ":", "::", ":::", "::::", ":::::", "::::::", ":u::allow:", ":u::allow:r,x", "d,inherited:g:wheel:deny:w,delete,chown",
              "inherited,d:u::allow:x,r", "default:user:bob:allow:read,write", "d:m:ignored:allow:r", ":o:x:deny:", ":u::Allow:r", ":q::allow:r"] {
        v.push(format!("ace_dec\t{}", hs(t)));
        v.push(format!("awp_dec\t{}", hs(t)));
        v.push(format!("awp_dec\t{}", hs(&format!("linux:{}", t))));
    }

    // ---- xattr values: every single byte (and, thorough, every two-byte string) in hex and base64
    for b in 0..=255u8 {
        for op in ["xv_hex", "xv_b64", "xv_text", "xv_auto"] {
            v.push(format!("{}\t{}", op, hex(&[b])));
        }
    }
    v.push("xv_hex\t".into());
    v.push("xv_b64\t".into());
    v.push("xv_text\t".into());
    v.push("xv_auto\t".into());
    if thorough {
        for a in 0..=255u8 {
            for b in 0..=255u8 {
                v.push(format!("xv_hex\t{}", hex(&[a, b])));
                v.push(format!("xv_b64\t{}", hex(&[a, b])));
            }
        }
    }
    for _ in 0..3_000 * scale {
        let val = short_bytes(&mut r);
        let op = *r.pick(&["xv_hex", "xv_b64", "xv_hex", "xv_b64", "xv_text", "xv_auto"]);
        v.push(format!("{}\t{}", op, hex(&val)));
    }
    // long values: around every power of two and multiple of 3 x 2^k up to 4 KiB (the text protocol of the model run is quadratic in the value length; a printer that works in blocks shows
    // only here: seeded C15-4 encodes base64 in 1024-byte pieces, each padded)
    for base in [255usize, 256, 511, 512, 768, 1023, 1024, 1025, 1536, 2047, 2048, 3072, 4095] {
        for d in [0usize, 1, 2] {
            let n = base + d;
            let val = r.bytes(n);
            for op in ["xv_hex", "xv_b64", "xv_auto"] {
                v.push(format!("{}\t{}", op, hex(&val)));
            }
        }
    }
    for _ in 0..10 * scale {
        let n = r.range(1000, 5_000) as usize;
        v.push(format!("xv_b64\t{}", hex(&r.bytes(n))));
    }
    // parser: every string over a small alphabet after each prefix, then generated and mutated texts
    for pre in ["0x", "0s", "", "0", "0X", "0S"] {
        let alpha = ["0", "a", "F", "+", "-", "=", "g", "/", "é"];
        let mut cur: Vec<String> = vec![String::new()];
        let maxlen = if thorough { 4 } else { 3 };
        for _ in 0..=maxlen {
            let mut nxt = Vec::new();
            for c in &cur {
                v.push(format!("xv_parse\t{}", hs(&format!("{}{}", pre, c))));
                for a in &alpha {
                    nxt.push(format!("{}{}", c, a));
                }
            }
            cur = nxt;
        }
    }
    xv_texts(&mut r, &mut v, 4_000 * scale);

    // ---- part names: path shapes x part numbers
    let mut names: Vec<String> = file_names().into_iter().map(String::from).collect();
    for _ in 0..150 * scale {
        names.push(rand_file_name(&mut r));
    }
    for (i, name) in names.iter().enumerate() {
        for (j, dir) in dir_prefixes().iter().enumerate() {
            // every name bare and in one directory shape; the listed names in every directory shape
            if !(j == 0 || i < file_names().len() || j == 1 + i % (dir_prefixes().len() - 1)) {
                continue;
            }
            // a leading "." or ".." component as the file name is not a file name
            let p = format!("{}{}", dir, name);
            v.push(format!("part_remove\t{}", hs(&p)));
            for (k, &num) in PART_NUMBERS.iter().enumerate() {
                if j == 0 || k == (i + j) % PART_NUMBERS.len() {
                    v.push(format!("part_with\t{}\t{}", hs(&p), num));
                    let m = PART_NUMBERS[(k + 1 + i % 3) % PART_NUMBERS.len()];
                    v.push(format!("part_laws\t{}\t{}\t{}", hs(&p), num, m));
                }
            }
        }
    }
    v.push(format!("part_with\t{}\t{}", hs("a.pna"), u64::MAX));
    for p in ["", ".", ".."] {
        v.push(format!("part_with\t{}\t1", hs(p)));
        v.push(format!("part_remove\t{}", hs(p)));
        v.push(format!("part_laws\t{}\t1\t2", hs(p)));
    }

    // ---- chmod modes
    for value in 0..512u64 {
        v.push(format!("mode_canon\t0\t0\t{}", value));
    }
    for form in 1..4u64 {
        for target in 0..8u64 {
            for value in 0..8u64 {
                v.push(format!("mode_canon\t{}\t{}\t{}", form, target, value));
                let text = mode_spelling(form, target, value);
                for perm in [0u64, 0o777, 0o644, 0o7777, 0o4755, 0o1000, 0o123, 0xffff] {
                    v.push(format!("mode_apply\t{}\t{}", hs(&text), perm));
                }
            }
        }
    }
    for t in ["", "7", "77", "7777", "789", "08", "a", "ug", "u", "=", "+", "-", "a=", "=rwx", "+x", "-w", "a+rwx", "ugo=r", "aa=r", "ua-x",
              "u=rwxrwx", "u=rws", "u+X", "g=u", "u=r,g=w", "+t", " 755", "755 ", "7 5", "+755", "u+", "x+u", "rwx", "=a", "u-=r", "é", "u=é"] {
        v.push(format!("mode_parse\t{}", hs(t)));
        v.push(format!("mode_apply\t{}\t{}", hs(t), 0o750));
    }
    for _ in 0..2_000 * scale {
        let base = mode_spelling(r.below(4), r.below(8), if r.chance(1, 2) { r.below(8) } else { r.below(1024) });
        let t = if r.chance(1, 2) { mutate_text(&mut r, &base) } else { base };
        v.push(format!("mode_parse\t{}", hs(&t)));
        v.push(format!("mode_apply\t{}\t{}", hs(&t), r.below(65536)));
    }
    v
}

fn main() {
    harness_main(gen, run);
}
