//! kdf area (C16, C08): the key-derivation plumbing of the library against coq/Model/Kdf.v.
//! What the implementation feeds to the KDF is observed from outside: the key is recomputed
//! independently from (password, PHSF) with the primitive crates (pnaverif::refdec, no libpna)
//! and the data stream is decrypted with it; when that yields the plaintext the implementation
//! used KDF(alg, version, params, salt, password) with exactly the recorded values, and the
//! outcome is rendered as that *term*, which is what the model computes.
//! ops (formats in coq/Model/KdfRun.v):
//!   writer <mode> <kdfspec> <pwhex> <tapehex> <enc> <writer kind> <archivehex|->
//!   multi  <entry|solid> <enc> <mode> <kdfspec> <pwhex> <nfiles> <tapehex> <writer kind> <ptseed> <archivehex>
//!   read   <enc> <mode> <phsfhex|-> <pwwrite-hex> <pwread-hex|-> <streamlen> <comp>
//!   pair   <writer kind> <comp> <enc> <mode> <kdfspec> <pwwrite-hex> <pwread-hex|->
//! extra command line:  kdf scan <pwhex> <plain files ,> <forbidden strings hex ,|-> <archive parts..>
//!   -> one JSON object {"problems":[..],"contexts":[[phsf-hex, iv-hex, salt-hex],..]}   (C08 oracles for the CLI side)
#[path = "../libwriters.rs"]
mod libwriters;
use libwriters::*;
use pnaverif::refdec::{self as rd};
use pnaverif::util::*;
use std::io::{self, Read, Write};

const PT: &[u8] = b"The quick brown fox jumps over the lazy dog 0123456789";

fn find(h: &[u8], n: &[u8]) -> bool {
    !n.is_empty() && h.len() >= n.len() && h.windows(n.len()).any(|w| w == n)
}

/// the term the model's stand-in KDF returns (Kdf.v kdf_x)
fn keyterm(phc: &rd::Phc, pw: &[u8]) -> String {
    let last = |k: &str| phc.params.iter().rev().find(|(a, _)| a == k).map(|(_, v)| v.as_str());
    let get = |k: &str, d: u64| -> u64 { last(k).and_then(rd::phc_decimal).map(|v| v as u64).unwrap_or(d) };
    let norm = if phc.id.starts_with("argon2") {
        // the associated data of argon2 enters the hash (the key id does not)
        let data = last("data").and_then(|d| rd::b64_decode_nopad(d.as_bytes())).unwrap_or_default();
        let dpart = if data.is_empty() { String::new() } else { format!("|data={}", hex(&data)) };
        format!("{}|{}|{}|{}{}", phc.version.unwrap_or(19), get("m", 19456), get("t", 2), get("p", 1), dpart)
    } else {
        format!("{}", get("i", 600000))
    };
    format!("KDF({}|{}|{}|{})", phc.id, norm, hex(&phc.salt), hex(pw))
}

struct Ctx {
    enc: u8,
    mode: u8,
    comp: u8,
    solid: bool,
    phsf: Vec<u8>,
    stream: Vec<u8>,
}
/// the encryption contexts of an archive in order (top level: encrypted file entries and solid
/// streams).  A loose walk over the chunks, so that a malformed PHSF or entry is still looked at.
fn contexts(parts: &[Vec<u8>]) -> Result<Vec<Ctx>, String> {
    let mut out: Vec<Ctx> = Vec::new();
    let mut cur: Option<Ctx> = None;
    for p in parts {
        let cs = rd::part_chunks(p).map_err(|(w, d)| format!("{}: {}", w, d))?;
        for c in cs {
            match &c.ty {
                b"FHED" if c.data.len() >= 6 => cur = Some(Ctx { enc: c.data[4], mode: c.data[5], comp: c.data[3], solid: false, phsf: vec![], stream: vec![] }),
                b"SHED" if c.data.len() == 5 => cur = Some(Ctx { enc: c.data[3], mode: c.data[4], comp: c.data[2], solid: true, phsf: vec![], stream: vec![] }),
                b"PHSF" => {
                    if let Some(x) = cur.as_mut() {
                        x.phsf = c.data.clone();
                    }
                }
                b"FDAT" | b"SDAT" => {
                    if let Some(x) = cur.as_mut() {
                        x.stream.extend_from_slice(&c.data);
                    }
                }
                b"FEND" | b"SEND" => {
                    if let Some(x) = cur.take() {
                        if x.enc != 0 {
                            out.push(x);
                        }
                    }
                }
                _ => {}
            }
        }
    }
    Ok(out)
}
/// decrypt + decompress one context with a key recomputed from (password, PHSF) by the primitives
fn open_ctx(c: &Ctx, pw: &[u8]) -> Result<(Vec<u8>, rd::Phc, Vec<u8>), String> {
    let phc = rd::phc_parse(&c.phsf).ok_or("PHSF does not parse")?;
    let key = rd::derive_key(&phc, pw)?;
    let plain = rd::decrypt_stream(c.enc, c.mode, &Some(c.phsf.clone()), Some(pw), &c.stream)?;
    let out = rd::decompress(c.comp, &plain)?;
    Ok((out, phc, key))
}

fn files_for(seed: u64, n: usize) -> Vec<(String, Vec<u8>)> {
    (0..n)
        .map(|i| {
            let mut r = Rng::new(seed.wrapping_mul(1000).wrapping_add(i as u64));
            let sz = 48 + r.below(200) as usize;
            (format!("secretname{}x{}.bin", seed, i), r.bytes(sz))
        })
        .collect()
}
const UNAME: &str = "secretusername";
const XVAL: &[u8] = b"secretxattrvalue-0123456789";

fn kind_class(kind: &str) -> &'static str {
    if kind.starts_with("solid") {
        "solid"
    } else {
        "entry"
    }
}

/// the C08 scans on one archive; `forbidden`: strings that must not occur (solid: names, metadata)
fn leak_scan(parts: &[Vec<u8>], pw: &[u8], plains: &[Vec<u8>], forbidden: &[Vec<u8>], problems: &mut Vec<String>) -> Vec<(Vec<u8>, Vec<u8>, Vec<u8>)> {
    let all: Vec<u8> = parts.concat();
    let mut ctxs_out = Vec::new();
    if pw.len() >= 6 && find(&all, pw) {
        problems.push("the password occurs in the archive bytes".into());
    }
    for p in plains {
        if p.len() >= 16 {
            let step = if p.len() > 4096 { 7 } else { 1 };
            let mut i = 0;
            while i + 16 <= p.len() {
                if find(&all, &p[i..i + 16]) {
                    problems.push(format!("a 16-byte run of the plaintext (offset {}) occurs in the archive bytes", i));
                    break;
                }
                i += step;
            }
        }
    }
    for f in forbidden {
        if find(&all, f) {
            problems.push(format!("{:?} occurs in the archive bytes", String::from_utf8_lossy(f)));
        }
    }
    match contexts(parts) {
        Err(e) => problems.push(format!("archive does not scan: {}", e)),
        Ok(cs) => {
            for c in &cs {
                match rd::phc_parse(&c.phsf) {
                    None => problems.push("a PHSF does not parse as a PHC string".into()),
                    Some(phc) => {
                        if phc.hash_b64.is_some() {
                            problems.push("a PHSF carries the hash field (= the key)".into());
                        }
                        if phc.salt.len() < 16 {
                            problems.push(format!("salt of {} bytes", phc.salt.len()));
                        }
                        let iv = c.stream.get(..16).unwrap_or(&[]).to_vec();
                        if iv.len() < 16 || iv.iter().all(|b| *b == 0) {
                            problems.push("IV missing or all-zero".into());
                        }
                        if let Ok(key) = rd::derive_key(&phc, pw) {
                            let hl = hex(&key);
                            let forms: Vec<(String, Vec<u8>)> = vec![
                                ("raw".into(), key.clone()),
                                ("hex".into(), hl.clone().into_bytes()),
                                ("HEX".into(), hl.to_uppercase().into_bytes()),
                                ("base64".into(), rd::b64_encode(&key, false, true).into_bytes()),
                                ("base64 no pad".into(), rd::b64_encode(&key, false, false).into_bytes()),
                                ("base64url".into(), rd::b64_encode(&key, true, true).into_bytes()),
                                ("base64url no pad".into(), rd::b64_encode(&key, true, false).into_bytes()),
                            ];
                            for (n, f) in forms {
                                if find(&all, &f) {
                                    problems.push(format!("the derived key ({}) occurs in the archive bytes", n));
                                }
                            }
                        } else {
                            problems.push("the key cannot be recomputed from (password, PHSF)".into());
                        }
                        ctxs_out.push((c.phsf.clone(), iv, phc.salt.clone()));
                    }
                }
            }
            for i in 0..ctxs_out.len() {
                for j in 0..i {
                    if ctxs_out[i].1 == ctxs_out[j].1 {
                        problems.push("two contexts of one archive share an IV".into());
                    }
                    if ctxs_out[i].2 == ctxs_out[j].2 {
                        problems.push("two contexts of one archive share a salt".into());
                    }
                }
            }
        }
    }
    ctxs_out
}

// ------------------------------------------------------------------------------ generators
const PWS: [&str; 6] = ["password", "P\u{e4}ssw\u{f6}rd", "pw with space", "", "aaaaaaaaaaaaaaaaaaaaaaaaaaaaaaaaaaaaaaaaaaaaaaaaaaaaaaaaaaaaaaaaa", "x"];
/// the passwords to read with, for a password written with
fn variants(pw: &str) -> Vec<(&'static str, Option<String>)> {
    let mut v: Vec<(&'static str, Option<String>)> = vec![("equal", Some(pw.to_string())), ("none", None), ("empty", Some(String::new()))];
    if !pw.is_empty() {
        let mut cs: Vec<char> = pw.chars().collect();
        let l = cs.len();
        cs[l - 1] = if cs[l - 1] == 'z' { 'y' } else { 'z' };
        v.push(("one_char", Some(cs.into_iter().collect())));
        let sw: String = pw.chars().map(|c| if c.is_lowercase() { c.to_uppercase().next().unwrap() } else { c.to_lowercase().next().unwrap() }).collect();
        v.push(("case", Some(sw)));
        v.push(("prefix", Some(pw.chars().take(pw.chars().count() - 1).collect())));
    }
    v.push(("trailing_space", Some(format!("{} ", pw))));
    v.push(("trailing_newline", Some(format!("{}\n", pw))));
    v.push(("trailing_nul", Some(format!("{}\0", pw))));
    if pw.contains('\u{e4}') {
        v.push(("nfd", Some(pw.replace('\u{e4}', "a\u{308}").replace('\u{f6}', "o\u{308}"))));
    }
    v
}
fn ohex(o: &Option<String>) -> String {
    o.as_ref().map(|s| if s.is_empty() { String::new() } else { hex(s.as_bytes()) }).unwrap_or("-".into())
}

fn tape_of(archive: &[u8]) -> Option<Vec<u8>> {
    let cs = contexts(&[archive.to_vec()]).ok()?;
    let mut t = Vec::new();
    for c in cs {
        t.extend(rd::phc_parse(&c.phsf)?.salt);
        t.extend_from_slice(c.stream.get(..16)?);
    }
    Some(t)
}

fn gen(prop: &str, tier: &str, seed: u64) -> Vec<String> {
    let mut r = Rng::new(seed);
    let thorough = tier == "thorough";
    let mut out = Vec::new();
    let cheap = [Kdf::Pbkdf2(Some(1)), Kdf::Argon2(Some(1), Some(8), Some(1))];
    if prop == "C08" {
        // every writer kind x cipher x mode x kdf, incompressible plaintext stored uncompressed
        let reps = if thorough { 125 } else { 5 };
        for rep in 0..reps {
            for kind in WRITERS {
                for enc in [1u8, 2] {
                    for mode in [0u8, 1] {
                        for kdf in cheap {
                            let pw = *r.pick(&["correct horse battery", "P\u{e4}ssw\u{f6}rd-l\u{e4}nger", "0123456789abcdef0123456789abcdef", "hunter2hunter2"]);
                            let n = r.range(1, 4) as usize;
                            let ptseed = seed.wrapping_mul(131).wrapping_add(out.len() as u64);
                            let files = files_for(ptseed, n);
                            let cfg = Cfg { comp: 0, enc, mode, kdf };
                            let a = write_with(kind, &cfg, pw, &files, Some((UNAME, XVAL))).expect("library writer");
                            let tape = tape_of(&a).unwrap_or_default();
                            out.push(format!("multi\t{}\t{}\t{}\t{}\t{}\t{}\t{}\t{}\t{}\t{}", kind_class(kind), enc, mode, kdf_text(&kdf), hex(pw.as_bytes()), n, hex(&tape), kind, ptseed, hex(&a)));
                            let _ = rep;
                        }
                    }
                }
            }
        }
        return out;
    }
    // ---- C16 -------------------------------------------------------------------------------
    // (a) the tape correspondence: what the writer records and derives
    for kind in ["builder", "write_file", "solid_builder", "solid_archive"] {
        for (enc, mode) in [(1u8, 0u8), (1, 1), (2, 0), (2, 1)] {
            for kdf in [Kdf::Pbkdf2(Some(1)), Kdf::Pbkdf2(Some(2)), Kdf::Argon2(Some(1), Some(8), Some(1)), Kdf::Argon2(Some(2), Some(64), Some(2)), Kdf::Argon2(None, Some(32), None)] {
                if !thorough && r.chance(1, 2) {
                    continue;
                }
                let pw = *r.pick(&PWS);
                let cfg = Cfg { comp: *r.pick(&[0u8, 1, 2, 4]), enc, mode, kdf };
                let a = write_with(kind, &cfg, pw, &[("f0".to_string(), PT.to_vec())], None).expect("library writer");
                out.push(format!("writer\t{}\t{}\t{}\t{}\t{}\t{}\t{}", mode, kdf_text(&kdf), hex(pw.as_bytes()), hex(&tape_of(&a).unwrap_or_default()), enc, kind, hex(&a)));
            }
        }
    }
    // parameter choices the KDF crate refuses: the writer must fail cleanly
    for kdf in [Kdf::Argon2(Some(1), Some(8), Some(2)), Kdf::Argon2(Some(1), Some(7), Some(1)), Kdf::Argon2(Some(0), Some(8), Some(1)), Kdf::Argon2(Some(1), Some(64), Some(0)), Kdf::Argon2(Some(1), Some(8), Some(4))] {
        for kind in ["builder", "write_file", "solid_builder", "solid_archive"] {
            out.push(format!("writer\t1\t{}\t{}\t{}\t1\t{}\t-", kdf_text(&kdf), hex(b"pw"), hex(&[0u8; 32]), kind));
        }
    }
    // (b) library writer -> library reader, password pairs x cipher x mode x codec x writer kind
    let mut n_pairs = 0;
    for pw in PWS {
        for (vn, rd_pw) in variants(pw) {
            let reps = if thorough { 12 } else { 2 };
            for _ in 0..reps {
                let kind = *r.pick(&["builder", "write_file", "solid_builder", "solid_archive", "solid_write_file"]);
                let comp = *r.pick(&[0u8, 1, 2, 4]);
                let (enc, mode) = *r.pick(&[(1u8, 0u8), (1, 1), (2, 0), (2, 1)]);
                // PBKDF2-HMAC pads a short password with NUL bytes: pw and pw+NUL are the same key
                // (known finding pbkdf2-trailing-nul, replayed from known_findings.txt)
                let kdf = if vn == "trailing_nul" { cheap[1] } else { *r.pick(&cheap) };
                out.push(format!("pair\t{}\t{}\t{}\t{}\t{}\t{}\t{}\t{}", kind, comp, enc, mode, kdf_text(&kdf), if pw.is_empty() { String::new() } else { hex(pw.as_bytes()) }, ohex(&rd_pw), vn));
                n_pairs += 1;
                // the same with an EMPTY plaintext (seeded C16-6: a reader that skips the key derivation when the recorded
                // size is 0).  Not for a wrong password under CTR without compression: zero ciphertext bytes decrypt to
                // zero bytes under every key, so the plaintext does come back there.
                let wrong = rd_pw.as_deref().map(|p| p != pw).unwrap_or(false);
                if !wrong || mode == 0 || comp != 0 {
                    out.push(format!("pair\t{}+empty\t{}\t{}\t{}\t{}\t{}\t{}\t{}", kind, comp, enc, mode, kdf_text(&kdf), if pw.is_empty() { String::new() } else { hex(pw.as_bytes()) }, ohex(&rd_pw), vn));
                }
            }
        }
    }
    let _ = n_pairs;
    // large plaintexts in one write, right password (and one wrong one): every writer kind x cipher x mode, stored and zstd
    for kind in ["builder", "write_file", "solid_builder", "solid_archive", "solid_write_file"] {
        for (enc, mode) in [(1u8, 0u8), (1, 1), (2, 0), (2, 1)] {
            if !thorough && r.chance(1, 2) {
                continue;
            }
            let comp = *r.pick(&[0u8, 0, 2]);
            out.push(format!("pair\t{}+big\t{}\t{}\t{}\t{}\t{}\t{}\tbig", kind, comp, enc, mode, kdf_text(&cheap[0]), hex(b"big password"), hex(b"big password")));
            if r.chance(1, 4) {
                out.push(format!("pair\t{}+big\t{}\t{}\t{}\t{}\t{}\t{}\tbig", kind, comp, enc, mode, kdf_text(&cheap[1]), hex(b"big password"), hex(b"big passwore")));
            }
        }
    }
    // (c) the KDF parameter grid (every value a writer may record), right and wrong password
    let ms: &[Option<u32>] = if thorough { &[Some(8), Some(64), Some(4096), None] } else { &[Some(8), Some(64), Some(4096)] };
    for t in [Some(1u32), Some(2), Some(3)] {
        for m in ms {
            for p in [Some(1u32), Some(2), Some(4)] {
                let kdf = Kdf::Argon2(t, *m, p);
                let (enc, mode) = *r.pick(&[(1u8, 0u8), (1, 1), (2, 0), (2, 1)]);
                out.push(format!("pair\tbuilder\t0\t{}\t{}\t{}\t{}\t{}\tgrid", enc, mode, kdf_text(&kdf), hex(b"grid password"), hex(b"grid password")));
                if r.chance(1, 3) {
                    out.push(format!("pair\tbuilder\t0\t{}\t{}\t{}\t{}\t{}\tgrid", enc, mode, kdf_text(&kdf), hex(b"grid password"), hex(b"grid passwore")));
                }
            }
        }
    }
    out.push(format!("pair\twrite_file\t2\t1\t0\targon2.-.-.-\t{}\t{}\tgrid-default", hex(b"grid password"), hex(b"grid password")));
    out.push(format!("pair\tsolid_archive\t2\t2\t1\targon2.-.-.-\t{}\t{}\tgrid-default", hex(b"grid password"), hex(b"grid passwore")));
    for rounds in [Some(1u32), Some(2), Some(1000), None] {
        for (enc, mode) in [(1u8, 0u8), (2, 1)] {
            let kdf = Kdf::Pbkdf2(rounds);
            out.push(format!("pair\tbuilder\t1\t{}\t{}\t{}\t{}\t{}\tgrid", enc, mode, kdf_text(&kdf), hex(b"grid password"), hex(b"grid password")));
            out.push(format!("pair\twrite_file\t0\t{}\t{}\t{}\t{}\t{}\tgrid", enc, mode, kdf_text(&kdf), hex(b"grid password"), hex(b"Grid password")));
        }
    }
    // (d) the reader against recorded values no writer of this library chooses: other salt
    // lengths, algorithms, versions; missing PHSF / password; short streams
    let salts: [&[u8]; 5] = [b"abcdefgh", b"0123456789abcdef", b"0123456789abcdef0123456789abcdef", b"0123456789abcdef0123456789abcdef0123456789abcdef", b"abc"];
    let mut phsfs: Vec<String> = Vec::new();
    for s in salts {
        let sb = rd::b64_encode(s, false, false);
        phsfs.push(format!("$argon2id$v=19$m=8,t=1,p=1${}", sb));
        phsfs.push(format!("$pbkdf2-sha256$i=2,l=32${}", sb));
    }
    let sb = rd::b64_encode(b"0123456789abcdef", false, false);
    for s in [
        format!("$argon2i$v=19$m=16,t=2,p=2${}", sb),
        format!("$argon2d$v=16$m=8,t=1,p=1${}", sb),
        format!("$argon2id$m=8,t=1,p=1${}", sb),
        format!("$argon2id$v=17$m=8,t=1,p=1${}", sb),
        format!("$argon2id$v=19$m=8,t=1,p=2${}", sb),
        format!("$argon2id$v=19$m=8,t=1${}", sb),
        format!("$argon2id$v=19$m=8,t=1,p=1,x=1${}", sb),
        format!("$pbkdf2-sha512$i=1,l=32${}", sb),
        format!("$pbkdf2-sha256$i=1000,l=32${}", sb),
        format!("$pbkdf2-sha256$i=1${}", sb),
        format!("$pbkdf2-sha256$v=1$i=1,l=32${}", sb),
        format!("$scrypt$ln=1,r=1,p=1${}", sb),
        "$argon2id$v=19$m=8,t=1,p=1".to_string(),
        "garbage".to_string(),
        // where a lax parser and the password-hash crate could part: leading zeros, a sign, values at and above 2^32,
        // a repeated parameter, an empty or padded or non-alphabet salt, an empty parameter list, a trailing field
        format!("$pbkdf2-sha256$i=01,l=32${}", sb),
        format!("$pbkdf2-sha256$i=+1,l=32${}", sb),
        format!("$pbkdf2-sha256$i=4294967295,l=32${}", sb).replace("4294967295", "4294967296"),
        format!("$pbkdf2-sha256$i=1,i=2,l=32${}", sb),
        format!("$pbkdf2-sha256$i=1,l=032${}", sb),
        format!("$argon2id$v=19$m=08,t=1,p=1${}", sb),
        format!("$argon2id$v=019$m=8,t=1,p=1${}", sb),
        format!("$argon2id$v=19$m=8,t=1,p=1${}=", sb),
        format!("$argon2id$v=19$m=8,t=1,p=1${}!", &sb[..sb.len() - 1]),
        "$argon2id$v=19$m=8,t=1,p=1$".to_string(),
        format!("$argon2id$v=19$${}", sb),
        format!("$argon2id$v=19$m=8,t=1,p=1${}$", sb),
        format!("$ARGON2ID$v=19$m=8,t=1,p=1${}", sb),
        format!("argon2id$v=19$m=8,t=1,p=1${}", sb),
        format!("$argon2id$v=19$m=8,,t=1,p=1${}", sb),
        format!("$argon2id$v=19$m=8,t=1,p=1,${}", sb),
        format!("$argon2id$v=19$m=8,t=1,keyid=Zm9v,p=1${}", sb),
        format!("$argon2id$v=19$m=8,t=1,p=1,data=Zm9v${}", sb),
    ] {
        phsfs.push(s);
    }
    for ph in &phsfs {
        for (enc, mode) in [(1u8, 0u8), (1, 1), (2, 0), (2, 1)] {
            if !thorough && r.chance(1, 2) {
                continue;
            }
            let comp = *r.pick(&[0u8, 1, 2, 4]);
            let pw = *r.pick(&["password", "P\u{e4}ssw\u{f6}rd", ""]);
            let vs = variants(pw);
            let (mut vname, mut rd_pw) = r.pick(&vs).clone();
            if vname == "trailing_nul" && ph.starts_with("$pbkdf2") {
                (vname, rd_pw) = vs[0].clone();
            }
            let _ = vname;
            let h = |s: &str| if s.is_empty() { String::new() } else { hex(s.as_bytes()) };
            out.push(format!("read\t{}\t{}\t{}\t{}\t{}\t{}\t{}", enc, mode, hex(ph.as_bytes()), h(pw), h(pw), 999, comp));
            out.push(format!("read\t{}\t{}\t{}\t{}\t{}\t{}\t{}", enc, mode, hex(ph.as_bytes()), h(pw), ohex(&rd_pw), 999, comp));
        }
    }
    // (e) the PHC string rules of the password-hash crate and the parameter rules of the KDF crates, one read
    // per string (the outcome does not depend on cipher or mode): identifier / value / salt / hash alphabets and
    // length limits at and beyond their edges, the 127-byte parameter string, canonical decimals, where a `v=`
    // field counts as the version, repeated parameters (the last one counts, every one is checked), the argon2
    // keyid / data parameters (data enters the key), a hash in the string (it fixes the output length), and
    // under an algorithm the reader does not support what is an error of the FORMAT (InvalidData) and what is
    // not (Unsupported).  Limits of the generator, on purpose: no rounds / time cost above 1000 and no memory
    // cost above 64 KiB (the reader would run for minutes, or answer OutOfMemory depending on the machine: the
    // allocation probe of verify_password is not described by the model).
    {
        let b = |x: &[u8]| rd::b64_encode(x, false, false);
        let seq = |n: usize| (0..n as u8).collect::<Vec<u8>>();
        let (h9, h10, h16, h32, h64, h65) = (b(&seq(9)), b(&seq(10)), b(&seq(16)), b(&seq(32)), b(&seq(64)), b(&seq(65)));
        let s47 = b(&seq(47));
        let s48 = b(&seq(48)); // 64 characters
        let s49 = b(&seq(49)); // 66 characters
        let pad127 = |n: usize| {
            // a parameter string of exactly n bytes: a=1,b=1,... then one long value
            let mut t = String::from("a=1,b=1,c=1,d=1,e=1,f=1,g=1,h=1,j=1,k=1,n=1,o=1,q=1,r=1,s=1,u=1,w=1,x=1,y=1,z=1,aa=");
            while t.len() < n {
                t.push('7');
            }
            t
        };
        let mut hostile: Vec<String> = vec![
            // canonical decimals
            format!("$pbkdf2-sha256$i=0,l=32${}", sb),
            format!("$pbkdf2-sha256$i=0${}", sb),
            format!("$pbkdf2-sha256$i=00${}", sb),
            format!("$pbkdf2-sha256$i=-1,l=32${}", sb),
            format!("$pbkdf2-sha256$i=1.0,l=32${}", sb),
            format!("$pbkdf2-sha256$i=,l=32${}", sb),
            format!("$pbkdf2-sha256$i=1e2,l=32${}", sb),
            format!("$pbkdf2-sha256$i=10000000000000000000000000000000000000000000000000000000000000001,l=32${}", sb),
            format!("$pbkdf2-sha256$i=1,l=4294967296${}", sb),
            // output length
            format!("$pbkdf2-sha256$i=1,l=16${}", sb),
            format!("$pbkdf2-sha256$i=1,l=64${}", sb),
            format!("$pbkdf2-sha256$i=1,l=9${}", sb),
            format!("$pbkdf2-sha256$i=1,l=65${}", sb),
            format!("$pbkdf2-sha256$i=1,l=0${}", sb),
            format!("$pbkdf2-sha256$l=32${}", sb),
            format!("$pbkdf2-sha256$l=16,l=32${}", sb),
            format!("$pbkdf2-sha256$l=32,l=16${}", sb),
            format!("$pbkdf2-sha256${}", sb),
            // names
            format!("$pbkdf2-sha256$I=1,l=32${}", sb),
            format!("$pbkdf2-sha256$i=1,l=32,data=Zm9v${}", sb),
            format!("$pbkdf2-sha256$i=1,i=2,i=3${}", sb),
            format!("$argon2id$v=19$M=8,t=1,p=1${}", sb),
            format!("$argon2id$V=19$m=8,t=1,p=1${}", sb),
            format!("$argon2id$v=19$m=8, t=1,p=1${}", sb),
            format!("$argon2id$v=19$m=8=8,t=1,p=1${}", sb),
            format!("$argon2id$v=19$=8,t=1,p=1${}", sb),
            format!("$argon2id$v=19$m=,t=1,p=1${}", sb),
            format!("$argon2id$v=19$m=8,t=1,p=1$${}", sb),
            // the version field
            format!("$argon2id$v=16$m=8,t=1,p=1${}", sb),
            format!("$argon2id$v=0$m=8,t=1,p=1${}", sb),
            format!("$argon2id$v=+19$m=8,t=1,p=1${}", sb),
            format!("$argon2id$v=$m=8,t=1,p=1${}", sb),
            format!("$argon2id$v=19,m=8,t=1,p=1${}", sb),
            format!("$argon2id$v=19,${}", sb),
            format!("$argon2id$v=19$v=19$m=8,t=1,p=1${}", sb),
            format!("$argon2id$v=19$v=19${}", sb),
            format!("$argon2id$m=8,t=1,p=1$v=19${}", sb),
            "$argon2id$v=19$m=8,t=1,p=1$v=19".to_string(),
            "$argon2id$v=19$m=8,t=1,p=1$m=8".to_string(),
            "$pbkdf2-sha256$i=1,l=32$v=1234".to_string(),
            format!("$pbkdf2-sha256$v=$i=1,l=32${}", sb),
            // repeated parameters; every p is range-checked (repaired: a later p used to get past the guard)
            format!("$argon2id$v=19$m=8,t=1,p=1,p=4294967295${}", sb),
            format!("$argon2id$v=19$m=8,t=1,p=4294967295,p=1${}", sb),
            format!("$argon2id$v=19$m=8,t=1,p=16777216,p=1${}", sb),
            format!("$argon2id$v=19$m=8,t=1,p=1,p=536870912${}", sb),
            format!("$argon2id$v=19$m=8,t=1,p=16777215,p=1${}", sb),
            format!("$argon2id$v=19$m=8,t=1,p=16777216${}", sb),
            format!("$argon2id$v=19$m=8,t=1,p=x,p=1${}", sb),
            format!("$argon2id$v=19$m=16,m=8,t=1,p=1${}", sb),
            format!("$argon2id$v=19$m=8,m=16,t=1,p=2${}", sb),
            format!("$argon2id$v=19$m=16,m=8,t=1,p=2${}", sb),
            format!("$argon2id$v=19$m=8,t=1,t=2,p=1${}", sb),
            format!("$argon2id$v=19$m=7,t=1,p=1${}", sb),
            format!("$argon2id$v=19$m=8,t=0,p=1${}", sb),
            format!("$argon2id$v=19$m=8,t=1,p=0${}", sb),
            // argon2 keyid / data
            format!("$argon2id$v=19$m=8,t=1,p=1,keyid=${}", sb),
            format!("$argon2id$v=19$m=8,t=1,p=1,keyid={}${}", b(&seq(8)), sb),
            format!("$argon2id$v=19$m=8,t=1,p=1,keyid={}${}", b(&seq(9)), sb),
            format!("$argon2id$v=19$m=8,t=1,p=1,keyid=12${}", sb),
            format!("$argon2id$v=19$m=8,t=1,p=1,keyid=1${}", sb),
            format!("$argon2id$v=19$m=8,t=1,p=1,keyid=a.b${}", sb),
            format!("$argon2id$v=19$m=8,t=1,p=1,data=${}", sb),
            format!("$argon2id$v=19$m=8,t=1,p=1,data={}${}", b(&seq(32)), sb),
            format!("$argon2id$v=19$m=8,t=1,p=1,data={}${}", b(&seq(33)), sb),
            format!("$argon2id$v=19$m=8,t=1,p=1,data=Zm9v,data=YmFy${}", sb),
            format!("$argon2id$v=19$m=8,t=1,p=1,data=Zm9v,data=${}", sb),
            format!("$argon2id$v=19$m=8,t=1,p=1,data=Zm9${}", sb),
            format!("$argon2id$v=19$data=Zm9v,m=8,t=1,p=1${}", sb),
            format!("$argon2i$v=19$m=8,t=1,p=1,data=Zm9v${}", sb),
            format!("$argon2d$v=19$m=8,t=1,p=1,data=Zm9v,keyid=Zm9v${}", sb),
            // the salt: text length 4..=64, the value alphabet, and it must decode (canonical, unpadded)
            "$pbkdf2-sha256$i=1,l=32$MDE".to_string(),
            "$pbkdf2-sha256$i=1,l=32$MDEy".to_string(),
            "$pbkdf2-sha256$i=1,l=32$MDEyM".to_string(),
            "$pbkdf2-sha256$i=1,l=32$MDEyMw".to_string(),
            "$pbkdf2-sha256$i=1,l=32$MDEyMx".to_string(),
            "$pbkdf2-sha256$i=1,l=32$MDEy.DEy".to_string(),
            "$pbkdf2-sha256$i=1,l=32$MDEy-DEy".to_string(),
            "$pbkdf2-sha256$i=1,l=32$MDEy_DEy".to_string(),
            format!("$pbkdf2-sha256$i=1,l=32${}", s47),
            format!("$pbkdf2-sha256$i=1,l=32${}", s48),
            format!("$pbkdf2-sha256$i=1,l=32${}", s49),
            format!("$pbkdf2-sha256$i=1,l=32${}A", s48),
            format!("$argon2id$v=19$m=8,t=1,p=1${}", s48),
            "$argon2id$v=19$m=8,t=1,p=1$MDEyMzQ1Ng".to_string(),
            "$argon2id$v=19$m=8,t=1,p=1$MDEyMzQ1Njc".to_string(),
            // a hash in the string
            format!("$argon2id$v=19$m=8,t=1,p=1${}${}", sb, h32),
            format!("$argon2id$v=19$m=8,t=1,p=1${}${}", sb, h16),
            format!("$argon2id$v=19$m=8,t=1,p=1${}${}", sb, h10),
            format!("$argon2id$v=19$m=8,t=1,p=1${}${}", sb, h9),
            format!("$argon2id$v=19$m=8,t=1,p=1${}${}", sb, h64),
            format!("$argon2id$v=19$m=8,t=1,p=1${}${}", sb, h65),
            format!("$argon2id$v=19$m=8,t=1,p=1${}${}$", sb, h32),
            format!("$argon2id$v=19$m=8,t=1,p=1${}${}=", sb, h32),
            format!("$pbkdf2-sha256$i=1,l=32${}${}", sb, h32),
            format!("$pbkdf2-sha256$i=1,l=32${}${}", sb, h16),
            format!("$pbkdf2-sha256$i=1${}${}", sb, h16),
            format!("$pbkdf2-sha256$i=1,l=16${}${}", sb, h16),
            format!("$pbkdf2-sha512$i=2${}${}", sb, h64),
            // an algorithm the reader does not support: errors of the format come first
            format!("$scrypt$ln=abc${}", sb),
            "$scrypt$ln=abc$MDEy.DEy".to_string(),
            "$scrypt$ln=1$MDEyMx".to_string(),
            "$scrypt$ln=1$MDEyM".to_string(),
            "$scrypt$ln=abc$MDE".to_string(),
            "$scrypt$ln=1$MDEy_DEy".to_string(),
            format!("$scrypt$ln=01${}", sb),
            format!("$scrypt$ln=a/b+c.d-e${}", sb),
            format!("$scrypt$ln=a_b${}", sb),
            format!("$scrypt$Ln=1${}", sb),
            format!("$scrypt$l-2n=1,-=1${}", sb),
            format!("$scrypt$ln=1,ln=2${}", sb),
            format!("$scrypt$keyid=a.b${}", sb),
            format!("$scrypt$v=1$ln=1${}", sb),
            format!("$scrypt$v=01$ln=1${}", sb),
            format!("$scrypt$v=4294967295$ln=1${}", sb),
            format!("$scrypt$v=4294967296$ln=1${}", sb),
            format!("$scrypt$v=$ln=1${}", sb),
            format!("$scrypt$v=1,x=2${}", sb),
            format!("$scrypt$v=1$v=2${}", sb),
            "$scrypt$v=1".to_string(),
            "$scrypt".to_string(),
            "$scrypt$".to_string(),
            "$scrypt$$".to_string(),
            format!("$scrypt$${}", sb),
            format!("$scrypt$ln=1${}${}", sb, h32),
            format!("$scrypt$ln=1${}${}", sb, h9),
            format!("$scrypt$ln=1${}${}", sb, h10),
            format!("$scrypt$ln=1${}${}", sb, h64),
            format!("$scrypt$ln=1${}${}", sb, h65),
            format!("$scrypt$ln=1${}$AAECAwQFBgcICR", sb),
            format!("$scrypt$ln=1${}$AAECAwQFBgcICQ.LDA0ODxAREhMUFRYXGBkaGxwdHh8", sb),
            format!("$0123456789012345678901234567890a$ln=1${}", sb),
            format!("$0123456789012345678901234567890ab$ln=1${}", sb),
            format!("$scr_ypt$ln=1${}", sb),
            format!("$Scrypt$ln=1${}", sb),
            format!("$-$ln=1${}", sb),
            format!("$scrypt$01234567890123456789012345678901=1${}", sb),
            format!("$scrypt$012345678901234567890123456789012=1${}", sb),
            format!("$scrypt$a={}${}", "7".repeat(64), sb),
            format!("$scrypt$a={}${}", "7".repeat(65), sb),
            format!("$scrypt${}${}", pad127(127), sb),
            format!("$scrypt${}${}", pad127(128), sb),
            format!("$argon2id$v=19$m=8,t=1,p=1,{}${}", "m=8,".repeat(28) + "m=8", sb),
            format!("$argon2id$v=19$m=8,t=1,p=1,{}${}", "m=8,".repeat(28) + "m=88", sb),
            // around the string
            String::new(),
            "$".to_string(),
            "$$".to_string(),
            format!(" $argon2id$v=19$m=8,t=1,p=1${}", sb),
            format!("$argon2id$v=19$m=8,t=1,p=1${} ", sb),
            format!("$argon2id$v=19$m=8,t=1,p=1${}\n", sb),
            format!("$argon2id$v=19$m=8,t=1,p=1${}\0", sb),
            format!("$argon2id$v=19$m=8,t=1,p=1${}\u{e9}", &sb[..sb.len() - 2]),
            format!("$argon2id$v=19$m=8,t=1,p=1$${}", sb),
        ];
        hostile.dedup();
        for ph in &hostile {
            let (enc, mode) = *r.pick(&[(1u8, 0u8), (1, 1), (2, 0), (2, 1)]);
            let comp = *r.pick(&[0u8, 1, 2, 4]);
            out.push(format!("read\t{}\t{}\t{}\t{}\t{}\t{}\t{}", enc, mode, if ph.is_empty() { String::new() } else { hex(ph.as_bytes()) }, hex(b"password"), hex(b"password"), 999, comp));
        }
    }
    for (enc, mode) in [(1u8, 0u8), (1, 1), (2, 0), (2, 1), (0, 0)] {
        let good = hex(phsfs[2].as_bytes());
        out.push(format!("read\t{}\t{}\t-\t{}\t{}\t999\t0", enc, mode, hex(b"pw"), hex(b"pw")));
        out.push(format!("read\t{}\t{}\t-\t{}\t-\t999\t0", enc, mode, hex(b"pw")));
        out.push(format!("read\t{}\t{}\t{}\t{}\t-\t999\t0", enc, mode, good, hex(b"pw")));
        for sl in [0, 15, 16, 31] {
            if enc == 0 || (mode == 1 && sl >= 16) {
                continue;
            }
            out.push(format!("read\t{}\t{}\t{}\t{}\t{}\t{}\t0", enc, mode, good, hex(b"pw"), hex(b"pw"), sl));
        }
    }
    out
}

// ------------------------------------------------------------------------------ running
fn compress(comp: u8, data: &[u8]) -> Vec<u8> {
    match comp {
        1 => {
            let mut e = flate2::write::ZlibEncoder::new(Vec::new(), flate2::Compression::default());
            e.write_all(data).unwrap();
            e.finish().unwrap()
        }
        2 => zstd::stream::encode_all(data, 3).unwrap(),
        4 => {
            let mut e = liblzma::write::XzEncoder::new(Vec::new(), 1);
            e.write_all(data).unwrap();
            e.finish().unwrap()
        }
        _ => data.to_vec(),
    }
}
fn raw_chunk(ty: &[u8; 4], d: &[u8]) -> Vec<u8> {
    let mut v = (d.len() as u32).to_be_bytes().to_vec();
    v.extend_from_slice(ty);
    v.extend_from_slice(d);
    v.extend_from_slice(&rd::crc32(ty, d).to_be_bytes());
    v
}
fn arg_bytes(s: &str) -> Option<Vec<u8>> {
    if s == "-" {
        None
    } else {
        Some(unhex(s).unwrap_or_default())
    }
}
fn parse_cfg(comp: &str, enc: &str, mode: &str, kdf: &str) -> Cfg {
    Cfg { comp: comp.parse().unwrap_or(0), enc: enc.parse().unwrap_or(0), mode: mode.parse().unwrap_or(0), kdf: kdf_parse(kdf).unwrap_or(Kdf::Pbkdf2(Some(1))) }
}

/// the library reading the first file entry of an archive: Err at open, or the bytes / read error
fn lib_open_read(archive: &[u8], pw: Option<&str>) -> Result<io::Result<Result<Vec<u8>, io::Error>>, ()> {
    use libpna::{Archive, ReadOptions};
    let archive = archive.to_vec();
    let pw = pw.map(|s| s.to_string());
    guard(move || -> io::Result<Result<Vec<u8>, io::Error>> {
        let mut a = Archive::read_header(&archive[..])?;
        let mut it = a.entries_with_password(pw.as_deref());
        let e = match it.next() {
            Some(e) => e?,
            None => return Err(io::Error::other("no entry")),
        };
        let mut rdr = e.reader(ReadOptions::with_password(pw.clone()))?;
        let mut v = Vec::new();
        Ok(rdr.read_to_end(&mut v).map(|_| v))
    })
}

fn run(c: &Case, oracle: &mut Vec<String>) -> String {
    match c.op {
        "writer" => {
            let (mode, kdf, pw, tape, enc, kind, arch) = (c.args[0], c.args[1], unhex(c.args[2]).unwrap_or_default(), unhex(c.args[3]).unwrap_or_default(), c.args[4], c.args[5], c.args[6]);
            let pws = String::from_utf8(pw.clone()).unwrap_or_default();
            if arch == "-" {
                let cfg = parse_cfg("0", enc, mode, kdf);
                let kind = kind.to_string();
                return match guard(move || write_with(&kind, &cfg, &pws, &[("f0".to_string(), PT.to_vec())], None)) {
                    Ok(Ok(_)) => "OK written".into(),
                    Ok(Err(e)) => format!("ERR {}", ekind(&e)),
                    Err(()) => {
                        oracle.push("C16: the writer panicked on a key-derivation parameter choice".into());
                        "PANIC".into()
                    }
                };
            }
            let a = unhex(arch).unwrap_or_default();
            let cs = match contexts(&[a.clone()]) {
                Ok(cs) if cs.len() == 1 => cs,
                other => return format!("BAD contexts {:?}", other.map(|c| c.len())),
            };
            let cx = &cs[0];
            match open_ctx(cx, &pw) {
                Ok((plain, phc, _key)) if find(&plain, PT) => {
                    let mut t = phc.salt.clone();
                    t.extend_from_slice(&cx.stream[..16]);
                    if t != tape {
                        oracle.push("harness: tape in the case differs from the archive".into());
                    }
                    if phc.hash_b64.is_some() {
                        oracle.push("C08: PHSF carries the hash field".into());
                    }
                    // C16 on the implementation: the library reads it back with the password
                    match lib_read(&a, Some(&pws)) {
                        Ok(es) if es.iter().any(|(_, c)| c == PT) => {}
                        other => oracle.push(format!("C16: the library cannot read back what it wrote with the right password: {:?}", other.map(|e| e.len()))),
                    }
                    format!("OK {} {} {}", hex(&cx.phsf), hex(&cx.stream[..16]), hex(keyterm(&phc, &pw).as_bytes()))
                }
                other => {
                    oracle.push(format!("C16: the key recomputed from (password, PHSF) does not decrypt the entry: {:?}", other.err()));
                    "KEYMISMATCH".into()
                }
            }
        }
        "multi" => {
            let (pw, n, kind, ptseed, arch) = (unhex(c.args[4]).unwrap_or_default(), c.args[5].parse::<usize>().unwrap_or(0), c.args[7], c.args[8].parse::<u64>().unwrap_or(0), unhex(c.args[9]).unwrap_or_default());
            let files = files_for(ptseed, n);
            let mut problems = Vec::new();
            let solid = kind.starts_with("solid");
            let mut forbidden: Vec<Vec<u8>> = Vec::new();
            if solid {
                for (nm, _) in &files {
                    forbidden.push(nm.as_bytes().to_vec());
                }
                forbidden.push(UNAME.as_bytes().to_vec());
                if kind != "solid_write_file" {
                    forbidden.push(XVAL.to_vec());
                }
            }
            let plains: Vec<Vec<u8>> = files.iter().map(|f| f.1.clone()).collect();
            let ctxs = leak_scan(&[arch.clone()], &pw, &plains, &forbidden, &mut problems);
            // sanity of the experiment: the plaintext is really in there
            let pws = String::from_utf8(pw.clone()).unwrap_or_default();
            match lib_read(&arch, Some(&pws)) {
                Ok(es) if es.len() == n && es.iter().zip(&files).all(|(a, b)| a.1 == b.1) => {}
                _ => problems.push("C01: the library does not read the archive back".into()),
            }
            for p in problems {
                oracle.push(format!("C08: {} (writer {})", p, kind));
            }
            format!("OK {}", ctxs.iter().map(|(p, iv, _)| format!("{}:{}", hex(p), hex(iv))).collect::<Vec<_>>().join(","))
        }
        "read" => {
            let (enc, mode): (u8, u8) = (c.args[0].parse().unwrap_or(0), c.args[1].parse().unwrap_or(0));
            let phsf = arg_bytes(c.args[2]);
            let pww = unhex(c.args[3]).unwrap_or_default();
            let pwr = arg_bytes(c.args[4]);
            let sl: usize = c.args[5].parse().unwrap_or(999);
            let comp: u8 = c.args[6].parse().unwrap_or(0);
            // the entry, encrypted by the harness with primitives under KDF(recorded values, pwwrite)
            let key = phsf.as_ref().and_then(|p| rd::phc_parse(p)).and_then(|phc| rd::derive_key(&phc, &pww).ok()).unwrap_or(vec![7u8; 32]);
            let iv: Vec<u8> = (0..16u8).map(|i| i.wrapping_mul(17).wrapping_add(3)).collect();
            let body = compress(comp, PT);
            let mut stream = iv.clone();
            if enc != 0 {
                let blk = rd::Block::new(enc, &key).unwrap();
                stream.extend(if mode == 0 { rd::cbc_encrypt(&blk, &iv, &body) } else { rd::ctr_xor(&blk, &iv, &body) });
            } else {
                stream = body;
            }
            if sl < stream.len() {
                stream.truncate(sl);
            }
            let mut a = rd::SIG.to_vec();
            a.extend(raw_chunk(b"AHED", &[0; 8]));
            a.extend(raw_chunk(b"FHED", &[0, 0, 0, comp, enc, mode, b'f']));
            if let Some(p) = &phsf {
                a.extend(raw_chunk(b"PHSF", p));
            }
            a.extend(raw_chunk(b"FDAT", &stream));
            a.extend(raw_chunk(b"FEND", b""));
            a.extend(raw_chunk(b"AEND", b""));
            let pwr_s = pwr.as_ref().map(|b| String::from_utf8(b.clone()).unwrap_or_default());
            let out = match lib_open_read(&a, pwr_s.as_deref()) {
                Err(()) => "PANIC".to_string(),
                Ok(Err(e)) => format!("ERR {}", ekind(&e)),
                Ok(Ok(Ok(v))) if v == PT => "OPENED same".into(),
                Ok(Ok(_)) => "OPENED other".into(),
            };
            if out == "PANIC" {
                oracle.push("C16: the reader panicked".into());
            }
            if enc != 0 && sl >= 999 {
                let derivable = phsf.as_ref().and_then(|p| rd::phc_parse(p)).map(|phc| rd::derive_key(&phc, &pww).is_ok()).unwrap_or(false);
                match &pwr {
                    None if phsf.is_some() && out != "ERR InvalidInput" => oracle.push(format!("C16: reading without a password gives {} instead of an InvalidInput error", out)),
                    Some(p) if *p == pww && derivable && out != "OPENED same" => oracle.push(format!("C16: the right password does not read the entry ({})", out)),
                    Some(p) if *p != pww && out == "OPENED same" => oracle.push("C16: another password yields the original plaintext".into()),
                    _ => {}
                }
            }
            out
        }
        "pair" => {
            // `<writer>+empty`: the plaintext is empty (an entry with nothing to decrypt must still ask for the key)
            // `<writer>+big`: 200 001 bytes in ONE write (a sink below the cipher that takes a write only in part:
            // seeded C16-7, the CTR writer then encrypts the re-submitted tail a second time)
            let (kind, pt): (String, &'static [u8]) = match (c.args[0].strip_suffix("+empty"), c.args[0].strip_suffix("+big")) {
                (Some(k), _) => (k.to_string(), b""),
                (_, Some(k)) => (k.to_string(), Box::leak((0..200_001u32).map(|i| (i.wrapping_mul(2654435761) >> 13) as u8).collect::<Vec<u8>>().into_boxed_slice())),
                _ => (c.args[0].to_string(), PT),
            };
            let cfg = parse_cfg(c.args[1], c.args[2], c.args[3], c.args[4]);
            let pww = String::from_utf8(unhex(c.args[5]).unwrap_or_default()).unwrap_or_default();
            let pwr = arg_bytes(c.args[6]).map(|b| String::from_utf8(b).unwrap_or_default());
            let w = {
                let (k, p) = (kind.clone(), pww.clone());
                // a process that writes with several passwords: immediately before the entry under test the same
                // thread writes (and discards) one with the OTHER password of the pair and the same parameters.
                // Writer contexts are independent of one another, so this changes nothing — unless a key, salt or
                // PHSF string survives from one context into the next.
                let decoy = pwr.clone().filter(|d| *d != pww);
                guard(move || {
                    if let Some(d) = decoy {
                        let _ = write_with(&k, &cfg, &d, &[("decoy".to_string(), b"decoy content".to_vec())], None);
                    }
                    write_with(&k, &cfg, &p, &[("f0".to_string(), pt.to_vec())], None)
                })
            };
            let a = match w {
                Err(()) => {
                    oracle.push("C16: the writer panicked".into());
                    return "PANIC".into();
                }
                Ok(Err(e)) => return format!("WERR {}", ekind(&e)),
                Ok(Ok(a)) => a,
            };
            let out = {
                let (a2, p2) = (a.clone(), pwr.clone());
                match guard(move || lib_read(&a2, p2.as_deref())) {
                    Err(()) => "PANIC".to_string(),
                    Ok(Ok(es)) if es.len() == 1 && es[0].1 == pt => "SAME".into(),
                    Ok(Ok(_)) => "OTHER".into(),
                    // a missing password is refused before anything is decrypted; every other
                    // failure is the wrong key showing (padding, decompressor, inner structure)
                    Ok(Err(e)) if pwr.is_none() => format!("ERR {}", ekind(&e)),
                    Ok(Err(_)) => "OTHER".into(),
                }
            };
            match (&pwr, out.as_str()) {
                (_, "PANIC") => oracle.push("C16: the reader panicked".into()),
                (None, o) if o != "ERR InvalidInput" => oracle.push(format!("C16: reading without a password gives {} instead of an InvalidInput error", o)),
                (Some(p), o) if *p == pww && o != "SAME" => oracle.push(format!("C16: the right password does not read the entry back ({})", o)),
                (Some(p), "SAME") if *p != pww => oracle.push(format!("C16: the password {:?} reads an entry written with {:?}", p, pww)),
                _ => {}
            }
            out
        }
        _ => "BADCASE".into(),
    }
}

fn scan_main(a: &[String]) {
    // kdf scan <pwhex> <plain files ,> <forbidden hex ,|-> <archive parts..>
    let pw = unhex(&a[0]).unwrap_or_default();
    let plains: Vec<Vec<u8>> = if a[1] == "-" { vec![] } else { a[1].split(',').filter_map(|p| std::fs::read(p).ok()).collect() };
    let forbidden: Vec<Vec<u8>> = if a[2] == "-" { vec![] } else { a[2].split(',').map(|h| unhex(h).unwrap_or_default()).collect() };
    let parts: Vec<Vec<u8>> = a[3..].iter().map(|p| std::fs::read(p).expect("archive part")).collect();
    let mut problems = Vec::new();
    let ctxs = leak_scan(&parts, &pw, &plains, &forbidden, &mut problems);
    println!(
        "{{\"problems\":[{}],\"contexts\":[{}]}}",
        problems.iter().map(|p| rd::json_str(p)).collect::<Vec<_>>().join(","),
        ctxs.iter().map(|(p, iv, s)| format!("[\"{}\",\"{}\",\"{}\"]", hex(p), hex(iv), hex(s))).collect::<Vec<_>>().join(",")
    );
}

fn main() {
    let a: Vec<String> = std::env::args().collect();
    if a.get(1).map(|s| s.as_str()) == Some("scan") {
        scan_main(&a[2..]);
        return;
    }
    harness_main(gen, run);
}
