//! hugewrite: C01 for a single write of 2^32 bytes and more (audit 2, A1; the model's chunk sink stops below 2^32, where
//! one write is one chunk).  `Archive::write_file` and `SolidArchive::write_file` hand every write of the closure to the
//! chunk layer as it stands (stored, unencrypted: no buffering in between), and a chunk's length field has 32 bits.  The
//! archive goes into a sink that parses the chunk stream as it arrives (nothing of the 4 GiB is kept): every chunk's CRC
//! must be the CRC-32 of type ++ data, the data chunks must carry exactly the bytes written, in order, and the stream must
//! end with AEND at a chunk boundary.  usage: hugewrite <extra bytes past 2^32>;  one line per failed expectation.
use libpna::*;
use std::io::{self, Write};

/// the streaming reference parser: header, then chunks  len(4) type(4) data(len) crc(4)
struct Sink {
    state: u8, // 0 header, 1 chunk head, 2 data, 3 crc
    need: usize,
    buf: Vec<u8>,
    ty: [u8; 4],
    left: u64,
    crc: crc32fast::Hasher,
    data_ty: [u8; 4],
    data_len: u64,
    data_crc: crc32fast::Hasher,
    chunks: Vec<([u8; 4], u64)>,
    problems: Vec<String>,
    ended: bool,
    inner: Option<Box<Sink>>, // fed with the payload of the data chunks (the solid stream)
}
impl Sink {
    fn new(data_ty: [u8; 4]) -> Self {
        Sink { state: 0, need: 8, buf: Vec::new(), ty: [0; 4], left: 0, crc: crc32fast::Hasher::new(), data_ty, data_len: 0,
               data_crc: crc32fast::Hasher::new(), chunks: Vec::new(), problems: Vec::new(), ended: false, inner: None }
    }
    /// a chunk stream without the archive signature (the content of a solid block)
    fn stream(data_ty: [u8; 4]) -> Self {
        let mut s = Sink::new(data_ty);
        s.state = 1;
        s
    }
}
impl Write for Sink {
    fn write(&mut self, mut b: &[u8]) -> io::Result<usize> {
        let n = b.len();
        while !b.is_empty() {
            if self.ended {
                self.problems.push("bytes after AEND".into());
                return Ok(n);
            }
            if self.state == 2 {
                let k = (self.left.min(b.len() as u64)) as usize;
                self.crc.update(&b[..k]);
                if self.ty == self.data_ty {
                    self.data_crc.update(&b[..k]);
                    self.data_len += k as u64;
                    if let Some(i) = self.inner.as_mut() {
                        i.write_all(&b[..k])?;
                    }
                }
                self.left -= k as u64;
                b = &b[k..];
                if self.left == 0 {
                    self.state = 3;
                    self.need = 4;
                }
                continue;
            }
            let k = (self.need - self.buf.len()).min(b.len());
            self.buf.extend_from_slice(&b[..k]);
            b = &b[k..];
            if self.buf.len() < self.need {
                continue;
            }
            let got = std::mem::take(&mut self.buf);
            match self.state {
                0 => {
                    if got != [0x89, b'P', b'N', b'A', 0x0D, 0x0A, 0x1A, 0x0A] {
                        self.problems.push("bad archive signature".into());
                    }
                    self.state = 1;
                    self.need = 8;
                }
                1 => {
                    self.left = u32::from_be_bytes([got[0], got[1], got[2], got[3]]) as u64;
                    self.ty = [got[4], got[5], got[6], got[7]];
                    self.crc = crc32fast::Hasher::new();
                    self.crc.update(&self.ty);
                    self.chunks.push((self.ty, self.left));
                    if self.left == 0 {
                        self.state = 3;
                        self.need = 4;
                    } else {
                        self.state = 2;
                    }
                }
                _ => {
                    let want = std::mem::replace(&mut self.crc, crc32fast::Hasher::new()).finalize();
                    let have = u32::from_be_bytes([got[0], got[1], got[2], got[3]]);
                    if want != have {
                        let (t, l) = self.chunks.last().unwrap();
                        self.problems.push(format!("chunk #{} {} (length field {}): stored CRC {:08x}, CRC-32 of type ++ data {:08x}",
                                                   self.chunks.len(), String::from_utf8_lossy(t), l, have, want));
                    }
                    if &self.ty == b"AEND" {
                        self.ended = true;
                    }
                    self.state = 1;
                    self.need = 8;
                }
            }
        }
        Ok(n)
    }
    fn flush(&mut self) -> io::Result<()> {
        Ok(())
    }
}

fn report(kind: &str, n: u64, want_crc: u32, s: Sink) {
    for p in s.problems.iter().take(3) {
        println!("{} with one write of {} bytes: {}", kind, n, p);
    }
    if !s.ended || s.state != 1 || !s.buf.is_empty() {
        println!("{} with one write of {} bytes: the archive does not end with AEND at a chunk boundary", kind, n);
    }
    let got = s.data_crc.finalize();
    if s.data_len != n || got != want_crc {
        println!("{} with one write of {} bytes: the data chunks carry {} bytes (CRC-32 {:08x}), written {} bytes (CRC-32 {:08x}); data chunk lengths {:?}",
                 kind, n, s.data_len, got, n, want_crc,
                 s.chunks.iter().filter(|c| c.0 == s.data_ty).map(|c| c.1).collect::<Vec<_>>());
    }
}

fn report_outer(kind: &str, n: u64, want_len: u64, s: Sink) {
    for p in s.problems.iter().take(3) {
        println!("{} with one write of {} bytes: {}", kind, n, p);
    }
    if !s.ended || s.state != 1 || !s.buf.is_empty() {
        println!("{} with one write of {} bytes: the archive does not end with AEND at a chunk boundary", kind, n);
    }
    if s.data_len != want_len {
        println!("{} with one write of {} bytes: the SDAT chunks carry {} bytes, the chunks found inside them {} bytes", kind, n, s.data_len, want_len);
    }
}

fn main() {
    let extra: u64 = std::env::args().nth(1).and_then(|s| s.parse().ok()).unwrap_or(5);
    let n = (1u64 << 32) + extra;
    let mut content = vec![0u8; n as usize];
    for (i, c) in content.chunks_mut(1 << 16).enumerate() {
        let k = (i as u64).wrapping_mul(0x9E37_79B9_7F4A_7C15);
        let m = c.len();
        c[m - 1] = (k >> 16) as u8;
        c[m / 2] = (k >> 8) as u8;
        c[0] = k as u8 | 1;
    }
    let want = {
        let mut h = crc32fast::Hasher::new();
        h.update(&content);
        h.finalize()
    };
    // normal archive, write_file
    {
        let mut a = Archive::write_header(Sink::new(*b"FDAT")).unwrap();
        a.write_file("big".into(), Metadata::new(), WriteOptions::store(), |w| w.write_all(&content)).unwrap();
        let s = a.finalize().unwrap();
        report("Archive::write_file", n, want, s);
    }
    // solid archive, write_file
    {
        let mut sink = Sink::new(*b"SDAT");
        sink.inner = Some(Box::new(Sink::stream(*b"FDAT")));
        let mut a = Archive::write_solid_header(sink, WriteOptions::store()).unwrap();
        a.write_file("big".into(), Metadata::new(), |w| w.write_all(&content)).unwrap();
        let mut s = a.finalize().unwrap();
        let inner = *s.inner.take().unwrap();
        for p in inner.problems.iter().take(3) {
            println!("SolidArchive::write_file with one write of {} bytes: inside the solid stream: {}", n, p);
        }
        if inner.state != 1 || !inner.buf.is_empty() {
            println!("SolidArchive::write_file with one write of {} bytes: the solid stream does not end at a chunk boundary", n);
        }
        let got = inner.data_crc.clone().finalize();
        if inner.data_len != n || got != want {
            println!("SolidArchive::write_file with one write of {} bytes: the FDAT chunks of the solid stream carry {} bytes (CRC-32 {:08x}), written {} bytes (CRC-32 {:08x}); FDAT lengths {:?}",
                     n, inner.data_len, got, n, want, inner.chunks.iter().filter(|c| &c.0 == b"FDAT").map(|c| c.1).collect::<Vec<_>>());
        }
        let total: u64 = inner.chunks.iter().map(|c| c.1 + 12).sum();
        report_outer("SolidArchive::write_file", n, total, s);
    }
    eprintln!("checked 2");
}
