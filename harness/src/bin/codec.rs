//! codec area (C15 library half, C09 name half): metadata codecs and name sanitisation.
//! Ops (outcome formats are mirrored in coq/Model/CodecRun.v):
//!   ahed_enc maj min num            -> OK hex
//!   ahed_dec hex                    -> OK maj min num
//!   fhed_enc kind comp enc mode namehex -> OK hex
//!   fhed_dec hex                    -> OK maj min kind comp enc mode namehex
//!   shed_enc comp enc mode          -> OK hex
//!   shed_dec hex                    -> OK maj min comp enc mode
//!   perm_enc uid unamehex gid gnamehex mode -> OK hex
//!   perm_dec hex                    -> OK uid unamehex gid gnamehex mode
//!   xattr_enc namehex valuehex      -> OK hex
//!   xattr_dec hex                   -> OK namehex valuehex
//!   time_dec hex                    -> OK secs          (through a one-entry archive, public API)
//!   time_enc secs                   -> OK hex           (EntryBuilder -> archive bytes)
//!   fsiz_dec hex                    -> OK n
//!   fsiz_enc hex                    -> OK hex           (parse fSIZ payload, re-serialise)
//!   name_str|name_bytes|name_lossy|name_path|name_fhed hex -> OK hex
//!   ref_str|ref_lossy|ref_path hex  -> OK hex
//!   ty_bits hex4                    -> OK c p r s chk
use libpna::verif_hooks as h;
use libpna::{
    Archive, ChunkType, CipherMode, Compression, DataKind, Encryption, EntryBuilder, EntryName,
    EntryReference, ExtendedAttribute, Permission, ReadEntry,
};
use libpna::prelude::*;
use pnaverif::util::*;
use std::io;
use std::time::Duration;

fn kind_of(n: u64) -> DataKind {
    match n {
        0 => DataKind::File,
        1 => DataKind::Directory,
        2 => DataKind::SymbolicLink,
        _ => DataKind::HardLink,
    }
}
fn comp_of(n: u64) -> Compression {
    match n {
        0 => Compression::No,
        1 => Compression::Deflate,
        2 => Compression::ZStandard,
        _ => Compression::XZ,
    }
}
fn enc_of(n: u64) -> Encryption {
    match n {
        0 => Encryption::No,
        1 => Encryption::Aes,
        _ => Encryption::Camellia,
    }
}
fn mode_of(n: u64) -> CipherMode {
    match n {
        0 => CipherMode::CBC,
        _ => CipherMode::CTR,
    }
}

fn crc(ty: &[u8], data: &[u8]) -> u32 {
    let mut h = crc32fast::Hasher::new();
    h.update(ty);
    h.update(data);
    h.finalize()
}
fn chunk(ty: &[u8; 4], data: &[u8]) -> Vec<u8> {
    let mut v = Vec::new();
    v.extend_from_slice(&(data.len() as u32).to_be_bytes());
    v.extend_from_slice(ty);
    v.extend_from_slice(data);
    v.extend_from_slice(&crc(ty, data).to_be_bytes());
    v
}
/// archive with one directory entry "d" carrying the given extra chunks
fn one_entry_archive(chunks: &[(&[u8; 4], &[u8])]) -> Vec<u8> {
    let mut v = b"\x89PNA\r\n\x1a\n".to_vec();
    v.extend(chunk(b"AHED", &[0, 0, 0, 0, 0, 0, 0, 0]));
    v.extend(chunk(b"FHED", &[0, 0, 1, 0, 0, 0, b'd']));
    for (t, d) in chunks {
        v.extend(chunk(t, d));
    }
    v.extend(chunk(b"FEND", &[]));
    v.extend(chunk(b"AEND", &[]));
    v
}
fn read_one(bytes: &[u8]) -> io::Result<libpna::NormalEntry> {
    let mut a = Archive::read_header(bytes)?;
    let mut it = a.entries();
    match it.next() {
        Some(Ok(ReadEntry::Normal(e))) => Ok(e),
        Some(Ok(_)) => Err(io::Error::other("solid")),
        Some(Err(e)) => Err(e),
        None => Err(io::Error::other("no entry")),
    }
}
/// payloads of the chunks of type `ty` in a serialised entry
fn chunk_payloads(bytes: &[u8], ty: &[u8; 4]) -> Vec<Vec<u8>> {
    let mut out = Vec::new();
    for c in libpna::read_chunks_from_slice(bytes).unwrap() {
        let c = c.unwrap();
        if c.ty() == unsafe { ChunkType::from_unchecked(*ty) } {
            out.push(c.data().to_vec());
        }
    }
    out
}
fn entry_to_archive(e: impl libpna::Entry) -> Vec<u8> {
    let mut a = Archive::write_header(Vec::new()).unwrap();
    a.add_entry(e).unwrap();
    a.finalize().unwrap()
}

fn s(b: &[u8]) -> String {
    String::from_utf8(b.to_vec()).expect("generator guarantees utf-8 here")
}

fn run(c: &Case, oracle: &mut Vec<String>) -> String {
    let a = &c.args;
    let n = |i: usize| -> u64 { a[i].parse().unwrap() };
    let hx = |i: usize| -> Vec<u8> { unhex(a[i]).unwrap() };
    match c.op {
        "ahed_enc" => {
            let b = h::ahed_to_bytes(n(0) as u8, n(1) as u8, n(2) as u32);
            match h::ahed_try_from_bytes(&b) {
                Ok(t) if t == (n(0) as u8, n(1) as u8, n(2) as u32) => {}
                other => oracle.push(format!("AHED round trip: {:?}", other.ok())),
            }
            format!("OK {}", hex(&b))
        }
        "ahed_dec" => {
            let b = hx(0);
            show_res(guard(|| h::ahed_try_from_bytes(&b)), |t| format!("{} {} {}", t.0, t.1, t.2))
        }
        "fhed_enc" => {
            let name = s(&hx(4));
            let b = h::fhed_to_bytes(kind_of(n(0)), comp_of(n(1)), enc_of(n(2)), mode_of(n(3)), EntryName::from(name.as_str()));
            match h::fhed_try_from_bytes(&b) {
                Ok(t) if t.2 == kind_of(n(0)) && t.3 == comp_of(n(1)) && t.4 == enc_of(n(2)) && t.5 == mode_of(n(3))
                    && t.6 == EntryName::from(name.as_str()) && t.0 == 0 && t.1 == 0 => {}
                other => oracle.push(format!("FHED round trip: {:?}", other.ok())),
            }
            format!("OK {}", hex(&b))
        }
        "fhed_dec" => {
            let b = hx(0);
            show_res(guard(|| h::fhed_try_from_bytes(&b)), |t| {
                format!("{} {} {} {} {} {} {}", t.0, t.1, t.2 as u8, t.3 as u8, t.4 as u8, t.5 as u8, hex(t.6.as_str().as_bytes()))
            })
        }
        "shed_enc" => {
            let b = h::shed_to_bytes(comp_of(n(0)), enc_of(n(1)), mode_of(n(2)));
            match h::shed_try_from_bytes(&b) {
                Ok(t) if t == (0, 0, comp_of(n(0)), enc_of(n(1)), mode_of(n(2))) => {}
                other => oracle.push(format!("SHED round trip: {:?}", other.ok())),
            }
            format!("OK {}", hex(&b))
        }
        "shed_dec" => {
            let b = hx(0);
            show_res(guard(|| h::shed_try_from_bytes(&b)), |t| {
                format!("{} {} {} {} {}", t.0, t.1, t.2 as u8, t.3 as u8, t.4 as u8)
            })
        }
        "perm_enc" => {
            let p = Permission::new(n(0), s(&hx(1)), n(2), s(&hx(3)), n(4) as u16);
            let b = h::permission_to_bytes(&p);
            // the inverse law is claimed on the format's domain: names of at most 255 bytes
            if p.uname().len() <= 255 && p.gname().len() <= 255 {
                match guard(|| h::permission_try_from_bytes(&b)) {
                    Ok(Ok(q)) if q == p => {}
                    other => oracle.push(format!("fPRM round trip: {:?}", other.map(|r| r.ok()))),
                }
            }
            format!("OK {}", hex(&b))
        }
        "perm_dec" => {
            let b = hx(0);
            show_res(guard(|| h::permission_try_from_bytes(&b)), |p| {
                let again = h::permission_to_bytes(&p);
                if h::permission_try_from_bytes(&again).ok().as_ref() != Some(&p) {
                    oracle.push("fPRM decode/encode not stable".into());
                }
                format!("{} {} {} {} {}", p.uid(), hex(p.uname().as_bytes()), p.gid(), hex(p.gname().as_bytes()), p.permissions())
            })
        }
        "xattr_enc" => {
            let x = ExtendedAttribute::new(s(&hx(0)), hx(1));
            let b = h::xattr_to_bytes(&x);
            match guard(|| h::xattr_try_from_bytes(&b)) {
                Ok(Ok(y)) if y == x => {}
                other => oracle.push(format!("xATR round trip: {:?}", other.map(|r| r.ok()))),
            }
            format!("OK {}", hex(&b))
        }
        "xattr_dec" => {
            let b = hx(0);
            show_res(guard(|| h::xattr_try_from_bytes(&b)), |x| {
                let again = h::xattr_to_bytes(&x);
                if h::xattr_try_from_bytes(&again).ok().as_ref() != Some(&x) {
                    oracle.push("xATR decode/encode not stable".into());
                }
                format!("{} {}", hex(x.name().as_bytes()), hex(x.value()))
            })
        }
        "time_dec" => {
            let b = hx(0);
            let ar = one_entry_archive(&[(b"mTIM", &b)]);
            show_res(guard(|| read_one(&ar)), |e| e.metadata().modified().map(|d| format!("{}", d.as_secs())).unwrap_or_else(|| "none (an mTIM chunk was read, no modification time is reported)".into()))
        }
        "time_enc" => {
            let secs = n(0);
            let mut b = EntryBuilder::new_dir("d".into());
            b.created(Duration::from_secs(secs));
            b.modified(Duration::new(secs, 999_999_999));
            b.accessed(Duration::from_secs(secs));
            let e = b.build().unwrap();
            let ar = entry_to_archive(e);
            let c1 = chunk_payloads(&ar, b"cTIM");
            let m1 = chunk_payloads(&ar, b"mTIM");
            let a1 = chunk_payloads(&ar, b"aTIM");
            if c1 != m1 || m1 != a1 || c1.len() != 1 {
                oracle.push("cTIM/mTIM/aTIM differ".into());
            }
            match read_one(&ar) {
                Ok(e) if e.metadata().modified() == Some(Duration::from_secs(secs))
                    && e.metadata().created() == Some(Duration::from_secs(secs))
                    && e.metadata().accessed() == Some(Duration::from_secs(secs)) => {}
                _ => oracle.push("timestamp round trip".into()),
            }
            format!("OK {}", hex(&m1[0]))
        }
        "fsiz_dec" => {
            let b = hx(0);
            let ar = one_entry_archive(&[(b"fSIZ", &b)]);
            show_res(guard(|| read_one(&ar)), |e| format!("{}", e.metadata().raw_file_size().unwrap()))
        }
        "fsiz_enc" => {
            // parse a payload, re-serialise the parsed entry: the minimal big-endian form
            let b = hx(0);
            let ar = one_entry_archive(&[(b"fSIZ", &b)]);
            show_res(
                guard(|| {
                    let e = read_one(&ar)?;
                    let v = e.metadata().raw_file_size().unwrap();
                    let ar2 = entry_to_archive(e);
                    let p = chunk_payloads(&ar2, b"fSIZ");
                    let e2 = read_one(&ar2)?;
                    Ok((v, p, e2.metadata().raw_file_size()))
                }),
                |(v, p, v2)| {
                    if v2 != Some(v) || p.len() != 1 {
                        oracle.push(format!("fSIZ round trip {} -> {:?}", v, v2));
                    }
                    hex(&p[0])
                },
            )
        }
        "name_str" => {
            let st = s(&hx(0));
            // the delegating constructors (From<String>, From<&String>) must be the &str one
            let a = EntryName::from(st.as_str());
            if EntryName::from(st.clone()) != a || EntryName::from(&st) != a {
                oracle.push("EntryName::from(String) / from(&String) differ from EntryName::from(&str)".into());
            }
            show_res(guard(|| Ok(EntryName::from(st.as_str()))), |nm| hex(nm.as_str().as_bytes()))
        }
        "name_bytes" => {
            let b = hx(0);
            show_res(
                guard(|| EntryName::try_from(&b[..]).map_err(|e| io::Error::new(io::ErrorKind::InvalidData, e))),
                |nm| hex(nm.as_str().as_bytes()),
            )
        }
        "name_lossy" => {
            let st = s(&hx(0));
            show_res(guard(|| Ok(EntryName::from_lossy(st.as_str()))), |nm| hex(nm.as_str().as_bytes()))
        }
        "name_path" => {
            let st = s(&hx(0));
            {
                let a = EntryName::try_from(std::path::Path::new(st.as_str())).ok();
                let b = EntryName::try_from(std::ffi::OsStr::new(st.as_str())).ok();
                if a != b {
                    oracle.push("EntryName::try_from(&OsStr) differs from try_from(&Path)".into());
                }
            }
            show_res(
                guard(|| {
                    EntryName::try_from(std::path::Path::new(st.as_str()))
                        .map_err(|e| io::Error::new(io::ErrorKind::InvalidData, e))
                }),
                |nm| hex(nm.as_str().as_bytes()),
            )
        }
        "name_fhed" => {
            // the name as it comes out of the FHED parser of a real read
            let b = hx(0);
            let mut v = b"\x89PNA\r\n\x1a\n".to_vec();
            v.extend(chunk(b"AHED", &[0; 8]));
            let mut f = vec![0, 0, 0, 0, 0, 0];
            f.extend_from_slice(&b);
            v.extend(chunk(b"FHED", &f));
            v.extend(chunk(b"FEND", &[]));
            v.extend(chunk(b"AEND", &[]));
            show_res(guard(|| read_one(&v)), |e| hex(e.header().path().as_str().as_bytes()))
        }
        "ref_str" => {
            let st = s(&hx(0));
            let a = EntryReference::from(st.as_str());
            if EntryReference::from(st.clone()) != a || EntryReference::from(&st) != a {
                oracle.push("EntryReference::from(String) / from(&String) differ from EntryReference::from(&str)".into());
            }
            show_res(guard(|| Ok(EntryReference::from(st.as_str()))), |r| hex(r.as_str().as_bytes()))
        }
        // the std::path copy of the normalisation (from_path_lossy: what the CLI stores for link targets) and the
        // fallible Path / OsStr constructors; same function of a UTF-8 string as ref_str
        "ref_lossy" => {
            let st = s(&hx(0));
            let a = EntryReference::from_lossy(st.as_str());
            if EntryReference::from_lossy(std::path::PathBuf::from(st.as_str())) != a {
                oracle.push("EntryReference::from_lossy(PathBuf) differs from from_lossy(&str)".into());
            }
            show_res(guard(|| Ok(EntryReference::from_lossy(st.as_str()))), |r| hex(r.as_str().as_bytes()))
        }
        "ref_path" => {
            let st = s(&hx(0));
            {
                let a = EntryReference::try_from(std::path::Path::new(st.as_str())).ok();
                let b = EntryReference::try_from(std::ffi::OsStr::new(st.as_str())).ok();
                if a != b {
                    oracle.push("EntryReference::try_from(&OsStr) differs from try_from(&Path)".into());
                }
            }
            show_res(
                guard(|| {
                    EntryReference::try_from(std::path::Path::new(st.as_str()))
                        .map_err(|e| io::Error::new(io::ErrorKind::InvalidData, e))
                }),
                |r| hex(r.as_str().as_bytes()),
            )
        }
        "ty_bits" => {
            let b = hx(0);
            let arr = [b[0], b[1], b[2], b[3]];
            let t = unsafe { ChunkType::from_unchecked(arr) };
            let chk = match ChunkType::private(arr) {
                Ok(_) => 0,
                Err(libpna::ChunkTypeError::NonAsciiAlphabetic) => 1,
                Err(libpna::ChunkTypeError::NonPrivateChunkType) => 2,
                Err(libpna::ChunkTypeError::Reserved) => 3,
            };
            format!(
                "OK {} {} {} {} {}",
                t.is_critical() as u8,
                t.is_private() as u8,
                t.is_set_reserved() as u8,
                t.is_safe_to_copy() as u8,
                chk
            )
        }
        _ => "BADCASE".into(),
    }
}

// ---- generators -------------------------------------------------------------
fn utf8_name(r: &mut Rng, maxlen: usize) -> Vec<u8> {
    const PARTS: &[&str] = &["a", "b", "usr", "é", "名", " ", "-", ".x", "x.", "..a", "😀", "\\", "\u{0}", "Z9_"];
    let mut s = String::new();
    let n = r.below(maxlen as u64 + 1) as usize;
    while s.len() < n {
        s.push_str(*r.pick(PARTS));
    }
    s.into_bytes()
}
fn path_like(r: &mut Rng) -> Vec<u8> {
    const SEGS: &[&str] = &["", ".", "..", "a", "b c", "...", "é", ".a", "a.", "..b", "\\", "\u{0}", "C:", "dir", "x/y"];
    let n = r.below(7);
    let mut s = String::new();
    if r.chance(1, 4) {
        s.push('/');
    }
    for i in 0..n {
        if i > 0 {
            s.push('/');
        }
        s.push_str(*r.pick(SEGS));
    }
    if r.chance(1, 5) {
        s.push('/');
    }
    s.into_bytes()
}
fn mutate(r: &mut Rng, mut b: Vec<u8>) -> Vec<u8> {
    match r.below(6) {
        0 if !b.is_empty() => {
            let i = r.below(b.len() as u64) as usize;
            b[i] ^= 1 << r.below(8);
        }
        1 if !b.is_empty() => {
            let k = r.below(b.len() as u64) as usize;
            b.truncate(k);
        }
        2 => {
            let k = 1 + r.below(4) as usize;
            let extra = r.bytes(k);
            b.extend(extra);
        }
        3 if !b.is_empty() => {
            let i = r.below(b.len() as u64) as usize;
            b[i] = *r.pick(&[0u8, 1, 2, 3, 4, 5, 0x7f, 0x80, 0xc0, 0xff]);
        }
        4 if !b.is_empty() => {
            let i = r.below(b.len() as u64) as usize;
            b.remove(i);
        }
        _ => {}
    }
    b
}
fn big(r: &mut Rng, bits: u32) -> u64 {
    match r.below(5) {
        0 => 0,
        1 => {
            if bits >= 64 {
                u64::MAX
            } else {
                (1u64 << bits) - 1
            }
        }
        2 => r.below(1000),
        3 => 1u64 << r.below(bits as u64),
        _ => {
            if bits >= 64 {
                r.next()
            } else {
                r.next() & ((1u64 << bits) - 1)
            }
        }
    }
}

fn alphabet_strings(maxlen: usize) -> Vec<Vec<u8>> {
    // every string over {a . / \ space é NUL} up to maxlen
    let alpha: Vec<&[u8]> = vec![b"a", b".", b"/", b"\\", b" ", "é".as_bytes(), b"\0"];
    let mut out: Vec<Vec<u8>> = vec![vec![]];
    let mut cur: Vec<Vec<u8>> = vec![vec![]];
    for _ in 0..maxlen {
        let mut nxt = Vec::new();
        for c in &cur {
            for a in &alpha {
                let mut v = c.clone();
                v.extend_from_slice(a);
                nxt.push(v);
            }
        }
        out.extend(nxt.iter().cloned());
        cur = nxt;
    }
    out
}

fn gen(prop: &str, tier: &str, seed: u64) -> Vec<String> {
    let mut r = Rng::new(seed);
    let thorough = tier == "thorough";
    let scale = if thorough { 20 } else { 1 };
    let mut v: Vec<String> = Vec::new();
    let names_only = prop == "C09";
    if !names_only {
        // ---- exhaustive finite domains: every value of each header enum byte
        for pos in 0..6 {
            for b in 0..=255u8 {
                let mut f = vec![0u8, 0, 0, 0, 0, 0, b'n'];
                f[pos] = b;
                v.push(format!("fhed_dec\t{}", hex(&f)));
            }
        }
        for pos in 0..5 {
            for b in 0..=255u8 {
                let mut f = vec![0u8; 5];
                f[pos] = b;
                v.push(format!("shed_dec\t{}", hex(&f)));
            }
        }
        for k in 0..4 {
            for c in [0, 1, 2, 4] {
                for e in 0..3 {
                    for m in 0..2 {
                        v.push(format!("fhed_enc\t{}\t{}\t{}\t{}\t{}", k, c, e, m, hex(&path_like(&mut r))));
                        v.push(format!("shed_enc\t{}\t{}\t{}", c, e, m));
                    }
                }
            }
        }
        for _ in 0..300 * scale {
            v.push(format!("ahed_enc\t{}\t{}\t{}", r.below(256), r.below(256), big(&mut r, 32)));
            let b = h::ahed_to_bytes(r.next() as u8, r.next() as u8, big(&mut r, 32) as u32).to_vec();
            let b = if r.chance(1, 2) { r.bytes(8) } else { mutate(&mut r, b) };
            v.push(format!("ahed_dec\t{}", hex(&b)));
        }
        for len in 0..12 {
            v.push(format!("ahed_dec\t{}", hex(&vec![7u8; len])));
            v.push(format!("shed_dec\t{}", hex(&vec![0u8; len])));
            v.push(format!("fhed_dec\t{}", hex(&vec![0u8; len])));
        }
        for _ in 0..400 * scale {
            let mut f = vec![0u8, 0, r.below(4) as u8, *r.pick(&[0u8, 1, 2, 4]), r.below(3) as u8, r.below(2) as u8];
            f.extend(if r.chance(1, 2) { path_like(&mut r) } else { utf8_name(&mut r, 40) });
            let f = if r.chance(1, 2) { mutate(&mut r, f) } else { f };
            v.push(format!("fhed_dec\t{}", hex(&f)));
        }
        // ---- permissions
        for _ in 0..500 * scale {
            let ul = *r.pick(&[0usize, 1, 5, 32, 254, 255]);
            let gl = *r.pick(&[0usize, 1, 7, 255]);
            let un = utf8_name(&mut r, ul);
            let gn = utf8_name(&mut r, gl);
            // keep to the format's domain (<= 255 bytes) for the generated encodes
            let un = if un.len() > 255 { b"u".repeat(255) } else { un };
            let gn = if gn.len() > 255 { b"g".repeat(255) } else { gn };
            let (uid, gid, mode) = (big(&mut r, 64), big(&mut r, 64), big(&mut r, 16));
            v.push(format!("perm_enc\t{}\t{}\t{}\t{}\t{}", uid, hex(&un), gid, hex(&gn), mode));
            let p = Permission::new(uid, s(&un), gid, s(&gn), mode as u16);
            let b = h::permission_to_bytes(&p);
            let b = if r.chance(2, 3) { mutate(&mut r, b) } else { b };
            v.push(format!("perm_dec\t{}", hex(&b)));
        }
        // out-of-domain names (> 255 bytes): model and code must still agree byte for byte
        for l in [256usize, 257, 300, 511, 512, 600] {
            v.push(format!("perm_enc\t1\t{}\t2\t{}\t420", hex(&b"u".repeat(l)), hex(b"g")));
            v.push(format!("perm_enc\t1\t{}\t2\t{}\t420", hex(b"u"), hex(&b"g".repeat(l))));
        }
        for len in 0..24 {
            v.push(format!("perm_dec\t{}", hex(&vec![0u8; len])));
            v.push(format!("xattr_dec\t{}", hex(&vec![0u8; len])));
        }
        v.push("xattr_dec\t0000000901".into()); // D7 witness
        v.push("xattr_dec\tffffffff".into());
        v.push("xattr_dec\t00000000ffffffff".into());
        // ---- xattrs
        for _ in 0..500 * scale {
            let nl = *r.pick(&[0usize, 1, 8, 40]);
            let nm = utf8_name(&mut r, nl);
            let val = { let n = *r.pick(&[0usize, 1, 2, 16, 100, 1000]); r.bytes(n) };
            v.push(format!("xattr_enc\t{}\t{}", hex(&nm), hex(&val)));
            let b = h::xattr_to_bytes(&ExtendedAttribute::new(s(&nm), val));
            let b = if r.chance(2, 3) { mutate(&mut r, b) } else { b };
            v.push(format!("xattr_dec\t{}", hex(&b)));
        }
        if thorough {
            let nm = b"user.big".to_vec();
            let val = r.bytes(65536);
            v.push(format!("xattr_enc\t{}\t{}", hex(&nm), hex(&val)));
        }
        // ---- times and sizes
        for _ in 0..300 * scale {
            let secs = big(&mut r, 64);
            v.push(format!("time_enc\t{}", secs));
            let b = secs.to_be_bytes().to_vec();
            let b = if r.chance(1, 2) { mutate(&mut r, b) } else { b };
            v.push(format!("time_dec\t{}", hex(&b)));
        }
        for len in 0..20 {
            v.push(format!("time_dec\t{}", hex(&vec![1u8; len])));
            v.push(format!("fsiz_dec\t{}", hex(&vec![0xabu8; len])));
            v.push(format!("fsiz_enc\t{}", hex(&vec![0xabu8; len])));
            let mut z = vec![0u8; len];
            if len > 0 {
                z[len - 1] = 5;
            }
            v.push(format!("fsiz_enc\t{}", hex(&z)));
        }
        // exact powers of 256 and their neighbours (seeded C15-7: a byte count taken as ceil(log256 n) is one short
        // exactly there, and the size reads back as 0), bare and behind leading zero bytes
        for k in 1..16usize {
            let mut pw = vec![1u8];
            pw.extend(std::iter::repeat(0u8).take(k));
            let mut plus = pw.clone();
            *plus.last_mut().unwrap() = 1;
            for b in [pw, plus, vec![0xffu8; k]] {
                v.push(format!("fsiz_dec\t{}", hex(&b)));
                v.push(format!("fsiz_enc\t{}", hex(&b)));
                if b.len() < 16 {
                    let mut z = vec![0u8; 16 - b.len()];
                    z.extend_from_slice(&b);
                    v.push(format!("fsiz_enc\t{}", hex(&z)));
                }
            }
        }
        for _ in 0..300 * scale {
            let l = r.below(20) as usize;
            let mut b = r.bytes(l);
            let z = r.below(l as u64 + 1) as usize;
            for x in b.iter_mut().take(z) {
                *x = 0;
            }
            v.push(format!("fsiz_dec\t{}", hex(&b)));
            v.push(format!("fsiz_enc\t{}", hex(&b)));
        }
        // ---- chunk type bits: each of the 4 positions over all 256 byte values
        for pos in 0..4 {
            for b in 0..=255u8 {
                let mut t = *b"abCd";
                t[pos] = b;
                v.push(format!("ty_bits\t{}", hex(&t)));
            }
        }
        for _ in 0..500 * scale {
            v.push(format!("ty_bits\t{}", hex(&r.bytes(4))));
        }
    }
    // ---- names (C09 name half; also part of C15's FHED domain)
    let maxlen = if thorough { 6 } else { if names_only { 5 } else { 3 } };
    for st in alphabet_strings(maxlen) {
        let hx = hex(&st);
        for op in ["name_str", "name_bytes", "name_lossy", "name_path", "name_fhed", "ref_str", "ref_lossy", "ref_path"] {
            v.push(format!("{}\t{}", op, hx));
        }
    }
    for _ in 0..600 * scale {
        let p = path_like(&mut r);
        let hx = hex(&p);
        for op in ["name_str", "name_bytes", "name_lossy", "name_path", "name_fhed", "ref_str", "ref_lossy", "ref_path"] {
            v.push(format!("{}\t{}", op, hx));
        }
        // invalid utf-8 only through the byte constructors
        let q = mutate(&mut r, p);
        v.push(format!("name_bytes\t{}", hex(&q)));
        v.push(format!("name_fhed\t{}", hex(&q)));
    }
    v
}

fn main() {
    harness_main(gen, |c, o| {
        let r = run(c, o);
        // name safety oracle (C09 name half): evaluated on the implementation's answer
        if c.op.starts_with("name_") {
            if let Some(hx) = r.strip_prefix("OK ") {
                let nm = unhex(hx).unwrap();
                let bad = nm.first() == Some(&b'/')
                    || nm.split(|b| *b == b'/').any(|seg| seg.is_empty() || seg == b"." || seg == b"..");
                if bad && !nm.is_empty() {
                    o.push(format!("unsafe entry name {:?}", String::from_utf8_lossy(&nm)));
                }
            }
        }
        r
    });
}
