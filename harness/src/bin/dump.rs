//! dump: logical content of an archive (or a part sequence) read with libpna, one JSON object
//! per entry, for the CLI-level checks.  usage: dump [--password PW] [--no-expand] part1 [part2 ...]
//! Fields: name (hex), kind, codec, cipher, mode, solid (index of the enclosing solid entry or -1),
//! content (hex, decoded; null when it cannot be decoded), clen, raw_size, csize, ctime, mtime, atime,
//! perm [uid, uname-hex, gid, gname-hex, mode], xattrs [[name-hex, value-hex]], extras [[type-hex, data-hex]].
//! Last line: {"end": "OK"} or {"end": "ERR <kind>", "msg": ...}.
use libpna::prelude::*;
use libpna::*;
use pnaverif::arch::chunk_type_bytes;
use pnaverif::util::*;
use std::io::{self, Read};

fn entry_json(e: &NormalEntry, solid: i64, pw: Option<&str>) -> String {
    let h = e.header();
    let m = e.metadata();
    let content = (|| -> io::Result<Vec<u8>> {
        let mut r = e.reader(ReadOptions::with_password(pw))?;
        let mut v = Vec::new();
        r.read_to_end(&mut v)?;
        Ok(v)
    })();
    let (chex, clen) = match &content {
        Ok(v) => (format!("\"{}\"", hex(v)), v.len() as i64),
        Err(_) => ("null".to_string(), -1),
    };
    let o = |x: Option<u64>| x.map(|v| v.to_string()).unwrap_or("null".into());
    format!(
        "{{\"name\":\"{}\",\"kind\":{},\"codec\":{},\"cipher\":{},\"mode\":{},\"solid\":{},\"content\":{},\"clen\":{},\"raw_size\":{},\"csize\":{},\"ctime\":{},\"mtime\":{},\"atime\":{},\"perm\":{},\"xattrs\":[{}],\"extras\":[{}]}}",
        hex(h.path().as_str().as_bytes()),
        h.data_kind() as u8,
        h.compression() as u8,
        h.encryption() as u8,
        h.cipher_mode() as u8,
        solid,
        chex,
        clen,
        m.raw_file_size().map(|v| v.to_string()).unwrap_or("null".into()),
        m.compressed_size(),
        o(m.created().map(|d| d.as_secs())),
        o(m.modified().map(|d| d.as_secs())),
        o(m.accessed().map(|d| d.as_secs())),
        m.permission()
            .map(|p| format!("[{},\"{}\",{},\"{}\",{}]", p.uid(), hex(p.uname().as_bytes()), p.gid(), hex(p.gname().as_bytes()), p.permissions()))
            .unwrap_or("null".into()),
        e.xattrs().iter().map(|x| format!("[\"{}\",\"{}\"]", hex(x.name().as_bytes()), hex(x.value()))).collect::<Vec<_>>().join(","),
        e.extra_chunks().iter().map(|c| format!("[\"{}\",\"{}\"]", hex(&chunk_type_bytes(c)), hex(c.data()))).collect::<Vec<_>>().join(","),
    )
}

fn main() {
    quiet_panics();
    let mut args: Vec<String> = std::env::args().skip(1).collect();
    let mut pw: Option<String> = None;
    let mut expand = true;
    while !args.is_empty() && args[0].starts_with("--") {
        match args[0].as_str() {
            "--password" => {
                pw = Some(args[1].clone());
                args.drain(..2);
            }
            "--no-expand" => {
                expand = false;
                args.remove(0);
            }
            _ => break,
        }
    }
    let r = guard(|| -> io::Result<()> {
        let mut parts = args.iter();
        let first = std::fs::read(parts.next().ok_or_else(|| io::Error::other("no archive"))?)?;
        let mut a = Archive::read_header(io::Cursor::new(first))?;
        let mut solid_idx: i64 = -1;
        loop {
            for e in a.entries() {
                match e? {
                    ReadEntry::Normal(n) => println!("{}", entry_json(&n, -1, pw.as_deref())),
                    ReadEntry::Solid(s) => {
                        solid_idx += 1;
                        let extras = s.extra_chunks().iter().map(|c| format!("[\"{}\",\"{}\"]", hex(&chunk_type_bytes(c)), hex(c.data()))).collect::<Vec<_>>().join(",");
                        println!(
                            "{{\"solid_header\":{},\"codec\":{},\"cipher\":{},\"mode\":{},\"extras\":[{}]}}",
                            solid_idx,
                            s.header().compression() as u8,
                            s.header().encryption() as u8,
                            s.header().cipher_mode() as u8,
                            extras
                        );
                        if expand {
                            for ne in s.entries(pw.as_deref())? {
                                println!("{}", entry_json(&ne?, solid_idx, pw.as_deref()));
                            }
                        }
                    }
                }
            }
            if !a.has_next_archive() {
                break;
            }
            let next = std::fs::read(parts.next().ok_or_else(|| io::Error::new(io::ErrorKind::NotFound, "next part missing"))?)?;
            a = a.read_next_archive(io::Cursor::new(next))?;
        }
        Ok(())
    });
    match r {
        Ok(Ok(())) => println!("{{\"end\":\"OK\"}}"),
        Ok(Err(e)) => println!("{{\"end\":\"ERR {}\",\"msg\":{:?}}}", ekind(&e), e.to_string()),
        Err(()) => println!("{{\"end\":\"PANIC\"}}"),
    }
}
