//! mkarchive: write an archive through libpna's public API from a line-oriented spec, for the
//! CLI-level checks (C10, C13, C17).   usage: mkarchive [--password PW] spec.tsv out.pna
//! Spec lines (tab separated; bytes as lowercase hex; `-` = absent):
//!   solid <comp 0..3> <enc 0..2> <mode 0..1>          open a solid block (SolidEntryBuilder)
//!   solidextra <type-hex> <data-hex>                    extra chunk of the open solid block
//!   endsolid                                            close it
//!   entry <kind 0..3> <name-hex> <data-hex> <comp> <enc> <mode> <ctime> <mtime> <atime>
//!         <perm: uid,uname-hex,gid,gname-hex,mode> <xattrs: n-hex:v-hex,...> <extras: type-hex:data-hex,...> [nosize]
//!         (kind 0 file, 1 directory, 2 symbolic link, 3 hard link; for links data = target)
//! Encryption uses pbkdf2-sha256 with 1 round and the given password.  Extra chunk types are
//! taken as they are (`ChunkType::from_unchecked`), so unknown ancillary types can be written too.
use libpna::*;
use pnaverif::util::*;
use std::io::{self, Write};
use std::time::Duration;

fn comp(n: &str) -> Compression {
    match n {
        "1" => Compression::Deflate,
        "2" => Compression::ZStandard,
        "3" => Compression::XZ,
        _ => Compression::No,
    }
}
fn enc(n: &str) -> Encryption {
    match n {
        "1" => Encryption::Aes,
        "2" => Encryption::Camellia,
        _ => Encryption::No,
    }
}
fn mode(n: &str) -> CipherMode {
    match n {
        "1" => CipherMode::CTR,
        _ => CipherMode::CBC,
    }
}
fn options(c: &str, e: &str, m: &str, pw: Option<&str>) -> WriteOptions {
    let mut b = WriteOptions::builder();
    b.compression(comp(c)).encryption(enc(e)).cipher_mode(mode(m));
    b.hash_algorithm(HashAlgorithm::pbkdf2_sha256_with(Some(1)));
    b.password(pw);
    b.build()
}
fn ty4(h: &str) -> ChunkType {
    let b = unhex(h).expect("type hex");
    let a: [u8; 4] = b[..4].try_into().expect("4 bytes");
    unsafe { ChunkType::from_unchecked(a) }
}
fn utf8(h: &str) -> String {
    String::from_utf8(unhex(h).expect("hex")).expect("utf8")
}
fn optn(s: &str) -> Option<u64> {
    if s == "-" {
        None
    } else {
        Some(s.parse().expect("number"))
    }
}
fn pairs(s: &str) -> Vec<(String, String)> {
    if s == "-" || s.is_empty() {
        return vec![];
    }
    s.split(',')
        .map(|p| {
            let (a, b) = p.split_once(':').expect("pair");
            (a.to_string(), b.to_string())
        })
        .collect()
}

fn build_entry(f: &[&str], pw: Option<&str>, with_extras: bool) -> io::Result<NormalEntry> {
    let name = utf8(f[2]);
    let data = unhex(f[3]).expect("data hex");
    let mut b = match f[1] {
        "1" => EntryBuilder::new_dir(name.as_str().into()),
        "2" => EntryBuilder::new_symbolic_link(name.as_str().into(), String::from_utf8(data.clone()).expect("utf8 target").as_str().into())?,
        "3" => EntryBuilder::new_hard_link(name.as_str().into(), String::from_utf8(data.clone()).expect("utf8 target").as_str().into())?,
        _ => {
            let mut b = EntryBuilder::new_file(name.as_str().into(), options(f[4], f[5], f[6], pw))?;
            b.write_all(&data)?;
            b
        }
    };
    if f.get(13) == Some(&"nosize") {
        b.file_size(false); // no fSIZ chunk: what a writer that does not record sizes produces
    }
    if let Some(t) = optn(f[7]) {
        b.created(Duration::from_secs(t));
    }
    if let Some(t) = optn(f[8]) {
        b.modified(Duration::from_secs(t));
    }
    if let Some(t) = optn(f[9]) {
        b.accessed(Duration::from_secs(t));
    }
    if f[10] != "-" {
        let p: Vec<&str> = f[10].split(',').collect();
        b.permission(Permission::new(p[0].parse().unwrap(), utf8(p[1]), p[2].parse().unwrap(), utf8(p[3]), p[4].parse().unwrap()));
    }
    for (n, v) in pairs(f[11]) {
        b.add_xattr(ExtendedAttribute::new(utf8(&n), unhex(&v).expect("hex")));
    }
    if with_extras {
        for (t, d) in pairs(f[12]) {
            b.add_extra_chunk(RawChunk::from_data(ty4(&t), unhex(&d).expect("hex")));
        }
    }
    b.build()
}

/// The entry `e` with the extra chunks spliced in behind its first chunk (FHED / SHED: the place the library's own
/// writers put them) at the level of bytes, the way a foreign writer would produce them — not through
/// `add_extra_chunk` of the builders, so that what the commands under test receive does not depend on what those
/// builders do with the chunks (seeded C13-8: a builder that drops a repeated chunk).  Added to `a` as raw entries.
fn add_with_raw_extras(a: &mut Archive<Vec<u8>>, e: impl Entry, extras: &[(String, String)]) -> io::Result<()> {
    let mut t = Archive::write_header(Vec::new())?;
    t.add_entry(e)?;
    let tmp = t.finalize()?;
    let body_at = 8 + 12 + 8; // signature, AHED chunk
    let first_len = u32::from_be_bytes([tmp[body_at], tmp[body_at + 1], tmp[body_at + 2], tmp[body_at + 3]]) as usize;
    let cut = body_at + 12 + first_len;
    let mut out = tmp[..cut].to_vec();
    for (ty, d) in extras {
        let (ty, d) = (unhex(ty).expect("hex"), unhex(d).expect("hex"));
        out.extend_from_slice(&(d.len() as u32).to_be_bytes());
        out.extend_from_slice(&ty);
        out.extend_from_slice(&d);
        let mut h = crc32fast::Hasher::new();
        h.update(&ty);
        h.update(&d);
        out.extend_from_slice(&h.finalize().to_be_bytes());
    }
    out.extend_from_slice(&tmp[cut..]);
    let mut r = Archive::read_header(&out[..])?;
    for raw in r.raw_entries() {
        a.add_entry(raw?)?;
    }
    Ok(())
}

fn main() -> io::Result<()> {
    let mut args: Vec<String> = std::env::args().skip(1).collect();
    let mut pw: Option<String> = None;
    if args.len() >= 2 && args[0] == "--password" {
        pw = Some(args[1].clone());
        args.drain(..2);
    }
    let spec = std::fs::read_to_string(&args[0])?;
    let mut a = Archive::write_header(Vec::new())?;
    let mut solid: Option<SolidEntryBuilder> = None;
    let mut solid_extras: Vec<(String, String)> = Vec::new();
    for line in spec.lines() {
        if line.is_empty() || line.starts_with('#') {
            continue;
        }
        let f: Vec<&str> = line.split('\t').collect();
        match f[0] {
            "solid" => {
                solid = Some(SolidEntryBuilder::new(options(f[1], f[2], f[3], pw.as_deref()))?);
                solid_extras.clear();
            }
            "solidextra" => solid_extras.push((f[1].to_string(), f[2].to_string())),
            "endsolid" => {
                let se = solid.take().expect("open solid").build()?;
                add_with_raw_extras(&mut a, se, &solid_extras)?;
            }
            "entry" => match solid.as_mut() {
                Some(s) => {
                    s.add_entry(build_entry(&f, pw.as_deref(), true)?)?;
                }
                None => {
                    let e = build_entry(&f, pw.as_deref(), false)?;
                    add_with_raw_extras(&mut a, e, &pairs(f[12]))?;
                }
            },
            other => panic!("unknown spec line {other}"),
        }
    }
    std::fs::write(&args[1], a.finalize()?)
}
