//! pipeline area (C01, C18, C03): the library's five writers and its reader against coq/Model/Pipeline.v run
//! with the real AES-256 / Camellia-256 models (coq/Model/Aes.v, Camellia.v), byte for byte.
//! Case formats: see the head of coq/Model/PipelineRun.v.
//!
//! Salt and IV are random, so `gen` itself runs the implementation once per scenario, reads PHSF and IV
//! back from the bytes it produced (parsed with the independent chunk parser of refdec.rs), recomputes the
//! key from (password, PHSF) with the primitive KDF crates (refdec::derive_key), recovers the pieces the
//! compressor handed on (the data-chunk framing, decrypted with refdec's own CBC/CTR loops) and puts all of
//! it into the case line together with the produced bytes.  `run` prints what the implementation produced
//! (writer cases) or what it decodes (decode cases) and evaluates the C01/C18 oracles on the
//! implementation alone: decoded = written for every entry (through the library with the case's read-buffer
//! sizes, again with other sizes, and through refdec without libpna), metadata = written, sizes exact.
//! The model computes the same outcome from the spec: with compression = store it predicts every byte.
//! For C03 the generator re-cuts every FDAT / SDAT run of what the writers produced (1-byte chunks, 7, 16, 17/15/1,
//! zero-length chunks, cuts inside the IV and inside cipher blocks), sometimes after cutting the data short (short IV,
//! CBC stream that is not a whole number of blocks, missing last block), and emits `decode` cases on the re-cut bytes
//! whose sixth argument is another framing of the same data: the model's decode_normal / decode_solid with the real
//! ciphers must agree with the real readers on the re-cut input, and the two framings must decode alike (contents or
//! errors) on the implementation.
#[allow(unused_imports)]
use libpna::prelude::*;
use libpna::*;
use pnaverif::refdec;
use pnaverif::util::*;
use std::io::{self, Read, Write};
use std::time::Duration;

// ------------------------------------------------------------------------------------------- text helpers
fn hex_item(b: &[u8]) -> String {
    if b.is_empty() {
        "-".to_string()
    } else {
        hex(b)
    }
}
fn unhex_item(s: &str) -> Vec<u8> {
    if s == "-" {
        Vec::new()
    } else {
        unhex(s).unwrap_or_default()
    }
}
/// a list of byte strings: the empty list is the empty field, an empty item is "-"
fn hexlist(l: &[Vec<u8>]) -> String {
    l.iter().map(|b| hex_item(b)).collect::<Vec<_>>().join(",")
}
fn unhexlist(s: &str) -> Vec<Vec<u8>> {
    if s.is_empty() {
        Vec::new()
    } else {
        s.split(',').map(unhex_item).collect()
    }
}
fn opt_dec<T: std::fmt::Display>(o: Option<T>) -> String {
    o.map(|v| v.to_string()).unwrap_or("-".to_string())
}
fn declist(s: &str) -> Vec<usize> {
    s.split(',').filter_map(|x| x.parse().ok()).collect()
}
fn arg<'a>(c: &'a Case, i: usize) -> &'a str {
    c.args.get(i).copied().unwrap_or("")
}

// ------------------------------------------------------------------------------------------------- specs
#[derive(Clone, Debug, PartialEq)]
struct Cfg {
    comp: u8,
    level: i64, // 1000 = default, 1001 = min, 1002 = max, otherwise the number
    enc: u8,
    mode: u8,
    kdf: u8, // 0 pbkdf2-sha256, 1 argon2id (t=1, m=8, p=1)
    rounds: u32,
}
const STORE: Cfg = Cfg { comp: 0, level: 1000, enc: 0, mode: 1, kdf: 0, rounds: 1 };

#[derive(Clone, Debug, PartialEq)]
struct PermS {
    uid: u64,
    uname: String,
    gid: u64,
    gname: String,
    mode: u16,
}
#[derive(Clone, Debug)]
struct Spec {
    how: char,
    kind: u8,
    cfg: Cfg,
    name: String,
    writes: Vec<Vec<u8>>,
    ctime: Option<u64>,
    mtime: Option<u64>,
    atime: Option<u64>,
    perm: Option<PermS>,
    xattrs: Vec<(String, Vec<u8>)>,
    extras: Vec<([u8; 4], Vec<u8>)>,
}
#[derive(Clone, Debug, Default)]
struct Obs {
    key: Vec<u8>,
    iv: Vec<u8>,
    phsf: Vec<u8>,
    pieces: Vec<Vec<u8>>,
}

fn options(c: &Cfg, pw: &str) -> WriteOptions {
    let mut b = WriteOptions::builder();
    b.compression(match c.comp {
        1 => Compression::Deflate,
        2 => Compression::ZStandard,
        4 => Compression::XZ,
        _ => Compression::No,
    });
    b.compression_level(match c.level {
        1000 => CompressionLevel::default(),
        1001 => CompressionLevel::min(),
        1002 => CompressionLevel::max(),
        n => CompressionLevel::from(n),
    });
    // the cipher mode is written into the header also when nothing is encrypted
    b.cipher_mode(if c.mode == 0 { CipherMode::CBC } else { CipherMode::CTR });
    if c.enc != 0 {
        b.encryption(if c.enc == 1 { Encryption::Aes } else { Encryption::Camellia });
        b.hash_algorithm(if c.kdf == 1 {
            HashAlgorithm::argon2id_with(Some(1), Some(8), Some(1))
        } else {
            HashAlgorithm::pbkdf2_sha256_with(Some(c.rounds))
        });
        b.password(Some(pw));
    }
    b.build()
}

/// one write() call with the slice (also for an empty slice); a short count is followed up like write_all does
fn write_slice<W: Write>(w: &mut W, d: &[u8]) -> io::Result<()> {
    let n = w.write(d)?;
    if n > d.len() {
        return Err(io::Error::other("write returned more than it was given"));
    }
    if n < d.len() {
        if n == 0 {
            return Err(io::Error::new(io::ErrorKind::WriteZero, "write returned 0"));
        }
        w.write_all(&d[n..])?;
    }
    Ok(())
}

fn metadata_of(s: &Spec) -> Metadata {
    Metadata::new()
        .with_created(s.ctime.map(Duration::from_secs))
        .with_modified(s.mtime.map(Duration::from_secs))
        .with_accessed(s.atime.map(Duration::from_secs))
        .with_permission(s.perm.as_ref().map(|p| Permission::new(p.uid, p.uname.clone(), p.gid, p.gname.clone(), p.mode)))
}

fn private_type(t: [u8; 4]) -> ChunkType {
    // the generator only makes types that ChunkType::private accepts or plain ancillary ones
    ChunkType::private(t).unwrap_or_else(|_| unsafe { ChunkType::from_unchecked(t) })
}

/// EntryBuilder: new_*, write per slice, metadata, xattrs, extra chunks, build
fn build_entry(s: &Spec, pw: &str) -> io::Result<NormalEntry> {
    let name = EntryName::from(s.name.as_str());
    let link = |i: usize| -> EntryReference { EntryReference::from(String::from_utf8_lossy(&s.writes[i]).as_ref()) };
    let (mut b, start) = match s.kind {
        0 => (EntryBuilder::new_file(name, options(&s.cfg, pw))?, 0),
        1 => (EntryBuilder::new_dir(name), 0),
        2 => (EntryBuilder::new_symbolic_link(name, link(0))?, 1),
        _ => (EntryBuilder::new_hard_link(name, link(0))?, 1),
    };
    for w in &s.writes[start..] {
        write_slice(&mut b, w)?;
    }
    if let Some(t) = s.ctime {
        b.created(Duration::from_secs(t));
    }
    if let Some(t) = s.mtime {
        b.modified(Duration::from_secs(t));
    }
    if let Some(t) = s.atime {
        b.accessed(Duration::from_secs(t));
    }
    if let Some(p) = &s.perm {
        b.permission(Permission::new(p.uid, p.uname.clone(), p.gid, p.gname.clone(), p.mode));
    }
    for (n, v) in &s.xattrs {
        b.add_xattr(ExtendedAttribute::new(n.clone(), v.clone()));
    }
    for (t, d) in &s.extras {
        b.add_extra_chunk(RawChunk::from_data(private_type(*t), d.clone()));
    }
    b.build()
}

const HEAD_LEN: usize = 8 + 12 + 8; // signature + AHED chunk
const TAIL_LEN: usize = 12; // AEND chunk

/// what the independent parser sees of one raw entry: PHSF, IV, the decrypted data pieces, the key.
/// When the stream cannot be decrypted independently (a defect in what was written) the pieces stay as they
/// are: the case is emitted all the same, the model then disagrees and the C01 oracle of `run` speaks.
fn observe(chunks: &[refdec::Chunk], data_ty: &[u8; 4], cfg: &Cfg, pw: &str) -> Result<Obs, String> {
    let mut o = Obs::default();
    let mut data: Vec<Vec<u8>> = Vec::new();
    for c in chunks {
        if &c.ty == b"PHSF" {
            o.phsf = c.data.clone();
        } else if &c.ty == data_ty {
            data.push(c.data.clone());
        }
    }
    if cfg.enc == 0 {
        o.pieces = data;
        return Ok(o);
    }
    if data.is_empty() || data[0].len() != 16 {
        o.pieces = data;
        return Ok(o);
    }
    o.iv = data.remove(0);
    let key = refdec::phc_parse(&o.phsf).ok_or("PHSF does not parse".to_string()).and_then(|phc| refdec::derive_key(&phc, pw.as_bytes()));
    let Ok(key) = key else {
        o.pieces = data;
        return Ok(o);
    };
    o.key = key;
    let blk = refdec::Block::new(cfg.enc, &o.key)?;
    let all = data.concat();
    if cfg.mode == 0 {
        o.pieces = match refdec::cbc_decrypt(&blk, &o.iv, &all) {
            Ok(p) => vec![p],
            Err(_) => data,
        };
    } else {
        let plain = refdec::ctr_xor(&blk, &o.iv, &all);
        let mut pos = 0;
        for d in &data {
            o.pieces.push(plain[pos..pos + d.len()].to_vec());
            pos += d.len();
        }
    }
    Ok(o)
}

/// the raw entries (chunk lists up to FEND / SEND) of an archive, by the independent parser
fn raw_entries(bytes: &[u8]) -> Result<Vec<Vec<refdec::Chunk>>, String> {
    let cs = refdec::part_chunks(bytes).map_err(|w| format!("{}: {}", w.0, w.1))?;
    let mut out = Vec::new();
    let mut cur = Vec::new();
    for c in &cs[1..cs.len() - 1] {
        cur.push(c.clone());
        if &c.ty == b"FEND" || &c.ty == b"SEND" {
            out.push(std::mem::take(&mut cur));
        }
    }
    if !cur.is_empty() {
        return Err("chunks after the last entry".into());
    }
    Ok(out)
}

/// a built entry alone in an archive, observed
fn observe_built(e: &NormalEntry, cfg: &Cfg, pw: &str) -> Result<Obs, String> {
    let mut a = Archive::write_header(Vec::new()).map_err(|e| e.to_string())?;
    a.add_entry(e.clone()).map_err(|e| e.to_string())?;
    let bytes = a.finalize().map_err(|e| e.to_string())?;
    let raws = raw_entries(&bytes)?;
    observe(raws.first().ok_or("no entry")?, b"FDAT", cfg, pw)
}

fn eff_cfg(s: &Spec, solid_inner: bool) -> Cfg {
    if s.kind != 0 || (s.how == 'w' && solid_inner) {
        STORE
    } else {
        s.cfg.clone()
    }
}

fn spec_text(s: &Spec, o: &Obs, solid_inner: bool) -> String {
    let c = eff_cfg(s, solid_inner);
    let perm = match &s.perm {
        None => "-".to_string(),
        Some(p) => format!("{}:{}:{}:{}:{}", p.uid, hex_item(p.uname.as_bytes()), p.gid, hex_item(p.gname.as_bytes()), p.mode),
    };
    let xattrs = if s.xattrs.is_empty() { "-".to_string() } else { s.xattrs.iter().map(|(n, v)| format!("{}:{}", hex_item(n.as_bytes()), hex_item(v))).collect::<Vec<_>>().join(",") };
    let extras = extras_text(&s.extras);
    format!(
        "{}|{}|{}|{}|{}|{}|{}|{}|{}|{}|{}|{}|{}|{}|{}|{}|{}|{}",
        s.how,
        s.kind,
        c.comp,
        c.level,
        c.enc,
        c.mode,
        hex_item(&o.key),
        hex_item(&o.iv),
        hex_item(&o.phsf),
        hex_item(EntryName::from(s.name.as_str()).as_str().as_bytes()),
        hexlist(&s.writes),
        opt_dec(s.ctime),
        opt_dec(s.mtime),
        opt_dec(s.atime),
        perm,
        xattrs,
        extras,
        if c.comp == 0 { String::new() } else { hexlist(&o.pieces) }
    )
}
fn extras_text(x: &[([u8; 4], Vec<u8>)]) -> String {
    if x.is_empty() {
        "-".to_string()
    } else {
        x.iter().map(|(t, d)| format!("{}:{}", hex(t), hex_item(d))).collect::<Vec<_>>().join(",")
    }
}
fn solid_cfg_text(c: &Cfg, o: &Obs) -> String {
    format!("{}|{}|{}|{}|{}|{}|{}|{}", c.comp, c.level, c.enc, c.mode, hex_item(&o.key), hex_item(&o.iv), hex_item(&o.phsf), if c.comp == 0 { String::new() } else { hexlist(&o.pieces) })
}

// oracle tables gathered while generating
#[derive(Default)]
struct Tables {
    v: Vec<(Vec<u8>, Vec<u8>)>, // PHSF -> key
    d: Vec<(Vec<u8>, Vec<u8>)>, // compressed stream -> plain
    dk: Vec<(Vec<u8>, String)>,  // stream the decompressor rejects -> "!Kind" (hostile cases only)
}
impl Tables {
    fn note(&mut self, cfg: &Cfg, o: &Obs) -> Result<(), String> {
        if cfg.enc != 0 && !self.v.iter().any(|(p, _)| *p == o.phsf) {
            self.v.push((o.phsf.clone(), o.key.clone()));
        }
        if cfg.comp != 0 {
            // a stream that does not decompress independently gets no table entry (the C01 oracle of `run` reports it)
            let stream = o.pieces.concat();
            if let Ok(plain) = refdec::decompress(cfg.comp, &stream) {
                if !self.d.iter().any(|(s, _)| *s == stream) {
                    self.d.push((stream, plain));
                }
            }
        }
        Ok(())
    }
    fn vtext(&self) -> String {
        if self.v.is_empty() {
            "-".into()
        } else {
            self.v.iter().map(|(p, k)| format!("{}:{}", hex_item(p), hex_item(k))).collect::<Vec<_>>().join(",")
        }
    }
    fn dtext(&self) -> String {
        if self.d.is_empty() && self.dk.is_empty() {
            "-".into()
        } else {
            self.d.iter().map(|(s, p)| format!("{}:{}", hex_item(s), hex_item(p))).chain(self.dk.iter().map(|(s, k)| format!("{}:{}", hex_item(s), k))).collect::<Vec<_>>().join(",")
        }
    }
}

// ------------------------------------------------------------------------------ archive items (scenarios)
#[derive(Clone, Debug)]
enum Item {
    N(Spec),                                        // a built entry (how b) or Archive::write_file (how w)
    SB(Cfg, Vec<([u8; 4], Vec<u8>)>, Vec<Spec>),    // SolidEntryBuilder
    SA(Cfg, Vec<Spec>),                             // SolidArchive (must be the only item)
}

/// run the implementation on the items; returns the archive and the items' texts (with what was observed)
fn produce(items: &[Item], pw: &str, tabs: &mut Tables) -> Result<(Vec<u8>, Vec<String>), String> {
    let e2s = |e: io::Error| e.to_string();
    // inner entries are built first so that they can be observed on their own
    let mut inner_built: Vec<Vec<Option<(NormalEntry, Obs)>>> = Vec::new();
    for it in items {
        let specs: &[Spec] = match it {
            Item::N(s) => std::slice::from_ref(s),
            Item::SB(_, _, v) | Item::SA(_, v) => v,
        };
        let solid = !matches!(it, Item::N(_));
        let mut row = Vec::new();
        for s in specs {
            if s.how == 'b' {
                let e = build_entry(s, pw).map_err(e2s)?;
                let c = eff_cfg(s, solid);
                let o = observe_built(&e, &c, pw)?;
                tabs.note(&c, &o)?;
                row.push(Some((e, o)));
            } else {
                row.push(None);
            }
        }
        inner_built.push(row);
    }
    let bytes = if let [Item::SA(cfg, specs)] = items {
        let mut a = Archive::write_solid_header(Vec::new(), options(cfg, pw)).map_err(e2s)?;
        for (s, b) in specs.iter().zip(&inner_built[0]) {
            match b {
                Some((e, _)) => {
                    a.add_entry(e.clone()).map_err(e2s)?;
                }
                None => a.write_file(EntryName::from(s.name.as_str()), metadata_of(s), |w| s.writes.iter().try_for_each(|d| write_slice(w, d))).map_err(e2s)?,
            }
        }
        a.finalize().map_err(e2s)?
    } else {
        let mut a = Archive::write_header(Vec::new()).map_err(e2s)?;
        for (it, row) in items.iter().zip(&inner_built) {
            match it {
                Item::N(s) => match &row[0] {
                    Some((e, _)) => {
                        a.add_entry(e.clone()).map_err(e2s)?;
                    }
                    None => a.write_file(EntryName::from(s.name.as_str()), metadata_of(s), options(&s.cfg, pw), |w| s.writes.iter().try_for_each(|d| write_slice(w, d))).map_err(e2s)?,
                },
                Item::SB(cfg, extras, _) => {
                    let mut sb = SolidEntryBuilder::new(options(cfg, pw)).map_err(e2s)?;
                    for (t, d) in extras {
                        sb.add_extra_chunk(RawChunk::from_data(private_type(*t), d.clone()));
                    }
                    for b in row {
                        let (e, _) = b.as_ref().ok_or("write_file inside a SolidEntryBuilder")?;
                        sb.add_entry(e.clone()).map_err(e2s)?;
                    }
                    a.add_entry(sb.build().map_err(e2s)?).map_err(e2s)?;
                }
                Item::SA(..) => return Err("a SolidArchive is the only item of its archive".into()),
            }
        }
        a.finalize().map_err(e2s)?
    };
    let raws = raw_entries(&bytes)?;
    if raws.len() != items.len() {
        return Err(format!("{} items written, {} raw entries found", items.len(), raws.len()));
    }
    let mut texts = Vec::new();
    for ((it, row), raw) in items.iter().zip(&inner_built).zip(&raws) {
        match it {
            Item::N(s) => {
                let o = match &row[0] {
                    Some((_, o)) => o.clone(),
                    None => {
                        let o = observe(raw, b"FDAT", &s.cfg, pw)?;
                        tabs.note(&s.cfg, &o)?;
                        o
                    }
                };
                texts.push(format!("n~{}", spec_text(s, &o, false)));
            }
            Item::SB(cfg, extras, specs) => {
                let o = observe(raw, b"SDAT", cfg, pw)?;
                tabs.note(cfg, &o)?;
                let inner: Vec<String> = specs.iter().zip(row).map(|(s, b)| spec_text(s, &b.as_ref().unwrap().1, true)).collect();
                texts.push(format!("s~{}~{}~{}", solid_cfg_text(cfg, &o), extras_text(extras), if inner.is_empty() { "-".to_string() } else { inner.join(";") }));
            }
            Item::SA(cfg, specs) => {
                let o = observe(raw, b"SDAT", cfg, pw)?;
                tabs.note(cfg, &o)?;
                let inner: Vec<String> = specs.iter().zip(row).map(|(s, b)| spec_text(s, &b.as_ref().map(|x| x.1.clone()).unwrap_or_default(), true)).collect();
                texts.push(format!("S~{}~{}", solid_cfg_text(cfg, &o), if inner.is_empty() { "-".to_string() } else { inner.join(";") }));
            }
        }
    }
    Ok((bytes, texts))
}

// ---------------------------------------------------------------------------------------- reading back
fn read_cycling<R: Read>(mut r: R, bufs: &[usize]) -> io::Result<Vec<u8>> {
    if bufs.is_empty() || bufs.iter().any(|b| *b == 0) {
        return Err(io::Error::other("buffer sizes must be positive"));
    }
    let mut out = Vec::new();
    let mut i = 0;
    loop {
        let mut buf = vec![0u8; bufs[i % bufs.len()]];
        i += 1;
        let n = r.read(&mut buf)?;
        if n == 0 {
            return Ok(out);
        }
        if n > buf.len() {
            return Err(io::Error::other("read returned more than the buffer holds"));
        }
        out.extend_from_slice(&buf[..n]);
    }
}

#[derive(Clone, Debug, PartialEq)]
struct DecN {
    name: Vec<u8>,
    kind: u8,
    comp: u8,
    enc: u8,
    mode: u8,
    content: Result<Vec<u8>, String>, // Err = "!Kind"
    raw: Option<u128>,
    csize: usize,
    ctime: Option<u64>,
    mtime: Option<u64>,
    atime: Option<u64>,
    perm: Option<PermS>,
    xattrs: Vec<(Vec<u8>, Vec<u8>)>,
    extras: Vec<([u8; 4], Vec<u8>)>,
}
#[derive(Clone, Debug, PartialEq)]
enum Dec {
    N(DecN),
    S { comp: u8, enc: u8, mode: u8, extras: Vec<([u8; 4], Vec<u8>)>, inner: Result<(Vec<DecN>, String), String> },
}

fn bang(e: &io::Error) -> String {
    format!("!{}", ekind(e))
}
fn chunks_of(cs: &[RawChunk]) -> Vec<([u8; 4], Vec<u8>)> {
    cs.iter().map(|c| (libpna::verif_hooks::chunk_type_bytes(c.ty()), c.data().to_vec())).collect()
}
fn dec_normal(e: &NormalEntry, pw: Option<&str>, bufs: &[usize]) -> DecN {
    let h = e.header();
    let m = e.metadata();
    let content = match guard(std::panic::AssertUnwindSafe(|| e.reader(ReadOptions::with_password(pw)).and_then(|r| read_cycling(r, bufs)))) {
        Ok(Ok(v)) => Ok(v),
        Ok(Err(er)) => Err(bang(&er)),
        Err(()) => Err("!PANIC".to_string()),
    };
    DecN {
        name: h.path().as_str().as_bytes().to_vec(),
        kind: h.data_kind() as u8,
        comp: h.compression() as u8,
        enc: h.encryption() as u8,
        mode: h.cipher_mode() as u8,
        content,
        raw: m.raw_file_size(),
        csize: m.compressed_size(),
        ctime: m.created().map(|d| d.as_secs()),
        mtime: m.modified().map(|d| d.as_secs()),
        atime: m.accessed().map(|d| d.as_secs()),
        perm: m.permission().map(|p| PermS { uid: p.uid(), uname: p.uname().to_string(), gid: p.gid(), gname: p.gname().to_string(), mode: p.permissions() }),
        xattrs: e.xattrs().iter().map(|x| (x.name().as_bytes().to_vec(), x.value().to_vec())).collect(),
        extras: chunks_of(e.extra_chunks()),
    }
}

/// Archive::read_header, entries(); solid entries expanded with SolidEntry::entries(password)
fn lib_decode(bytes: &[u8], pw: Option<&str>, bufs: &[usize]) -> io::Result<Vec<Dec>> {
    let mut a = Archive::read_header(bytes)?;
    let mut out = Vec::new();
    for e in a.entries() {
        match e? {
            ReadEntry::Normal(n) => out.push(Dec::N(dec_normal(&n, pw, bufs))),
            ReadEntry::Solid(s) => {
                let h = s.header();
                let inner = match s.entries(pw) {
                    Err(e) => Err(bang(&e)),
                    Ok(it) => {
                        let mut v = Vec::new();
                        let mut end = "ok".to_string();
                        for x in it {
                            match x {
                                Ok(n) => v.push(dec_normal(&n, pw, bufs)),
                                Err(e) => {
                                    end = bang(&e);
                                    break;
                                }
                            }
                        }
                        Ok((v, end))
                    }
                };
                out.push(Dec::S { comp: h.compression() as u8, enc: h.encryption() as u8, mode: h.cipher_mode() as u8, extras: chunks_of(s.extra_chunks()), inner });
            }
        }
    }
    Ok(out)
}

fn show_decn(d: &DecN) -> String {
    let perm = match &d.perm {
        None => "-".to_string(),
        Some(p) => format!("{}:{}:{}:{}:{}", p.uid, hex_item(p.uname.as_bytes()), p.gid, hex_item(p.gname.as_bytes()), p.mode),
    };
    let xattrs = if d.xattrs.is_empty() { "-".to_string() } else { d.xattrs.iter().map(|(n, v)| format!("{}:{}", hex_item(n), hex_item(v))).collect::<Vec<_>>().join(",") };
    format!(
        "N|{}|{}|{}|{}|{}|{}|{}|{}|{}|{}|{}|{}|{}|{}",
        hex_item(&d.name),
        d.kind,
        d.comp,
        d.enc,
        d.mode,
        match &d.content {
            Ok(v) => hex_item(v),
            Err(e) => e.clone(),
        },
        opt_dec(d.raw),
        d.csize,
        opt_dec(d.ctime),
        opt_dec(d.mtime),
        opt_dec(d.atime),
        perm,
        xattrs,
        extras_text(&d.extras)
    )
}
fn show_dec(d: &Dec) -> String {
    match d {
        Dec::N(n) => show_decn(n),
        Dec::S { comp, enc, mode, extras, inner } => {
            let tail = match inner {
                Err(e) => e.clone(),
                Ok((v, end)) => format!("{}~{}", v.iter().map(show_decn).collect::<Vec<_>>().join("^"), end),
            };
            format!("S~{}~{}~{}~{}~{}", comp, enc, mode, extras_text(extras), tail)
        }
    }
}
fn show_decoded(r: Result<io::Result<Vec<Dec>>, ()>) -> String {
    show_res(r, |v| v.iter().map(show_dec).collect::<Vec<_>>().join(";"))
}

// ---------------------------------------------------------------------- parsing the specs back (run side)
#[derive(Clone, Debug)]
struct PSpec {
    how: char,
    kind: u8,
    comp: u8,
    name: Vec<u8>,
    writes: Vec<Vec<u8>>,
    ctime: Option<u64>,
    mtime: Option<u64>,
    atime: Option<u64>,
    perm: Option<PermS>,
    xattrs: Vec<(Vec<u8>, Vec<u8>)>,
    extras: Vec<([u8; 4], Vec<u8>)>,
    pieces: Vec<Vec<u8>>,
}
fn parse_extras(s: &str) -> Vec<([u8; 4], Vec<u8>)> {
    if s == "-" || s.is_empty() {
        return Vec::new();
    }
    s.split(',')
        .filter_map(|it| {
            let (t, d) = it.split_once(':')?;
            let t: [u8; 4] = unhex(t)?.try_into().ok()?;
            Some((t, unhex_item(d)))
        })
        .collect()
}
fn parse_spec(s: &str) -> Option<PSpec> {
    let f: Vec<&str> = s.split('|').collect();
    if f.len() != 18 {
        return None;
    }
    let perm = if f[14] == "-" {
        None
    } else {
        let p: Vec<&str> = f[14].split(':').collect();
        if p.len() != 5 {
            return None;
        }
        Some(PermS { uid: p[0].parse().ok()?, uname: String::from_utf8(unhex_item(p[1])).ok()?, gid: p[2].parse().ok()?, gname: String::from_utf8(unhex_item(p[3])).ok()?, mode: p[4].parse().ok()? })
    };
    let xattrs = if f[15] == "-" { Vec::new() } else { f[15].split(',').filter_map(|it| it.split_once(':').map(|(n, v)| (unhex_item(n), unhex_item(v)))).collect() };
    Some(PSpec {
        how: f[0].chars().next()?,
        kind: f[1].parse().ok()?,
        comp: f[2].parse().ok()?,
        name: unhex_item(f[9]),
        writes: unhexlist(f[10]),
        ctime: f[11].parse().ok(),
        mtime: f[12].parse().ok(),
        atime: f[13].parse().ok(),
        perm,
        xattrs,
        extras: parse_extras(f[16]),
        pieces: unhexlist(f[17]),
    })
}
fn parse_specs(s: &str) -> Option<Vec<PSpec>> {
    if s == "-" || s.is_empty() {
        return Some(Vec::new());
    }
    s.split(';').map(parse_spec).collect()
}
/// (comp, pieces) of a solid config text
fn parse_solid_cfg(s: &str) -> Option<(u8, Vec<Vec<u8>>)> {
    let f: Vec<&str> = s.split('|').collect();
    if f.len() != 8 {
        return None;
    }
    Some((f[0].parse().ok()?, unhexlist(f[7])))
}

enum Exp {
    N(PSpec),
    S(Vec<([u8; 4], Vec<u8>)>, Vec<PSpec>),
}

/// what the caller wrote, entry by entry, against what the library decodes
fn check_normal(ix: &str, p: &PSpec, d: &DecN, oracle: &mut Vec<String>) {
    let written: Vec<u8> = if p.kind == 1 { Vec::new() } else { p.writes.concat() };
    match &d.content {
        Ok(v) if *v == written => {}
        Ok(v) => {
            let at = v.iter().zip(&written).position(|(a, b)| a != b).unwrap_or(v.len().min(written.len()));
            oracle.push(format!("C01 entry {}: decoded content differs from what was written ({} bytes written, {} decoded, first difference at {})", ix, written.len(), v.len(), at));
        }
        Err(e) => oracle.push(format!("C01 entry {}: content cannot be decoded ({})", ix, e)),
    }
    if d.name != p.name || d.kind != p.kind {
        oracle.push(format!("C01 entry {}: name or kind differ from what was written", ix));
    }
    if d.ctime != p.ctime || d.mtime != p.mtime || d.atime != p.atime {
        oracle.push(format!("C01 entry {}: timestamps differ from what was written", ix));
    }
    if d.perm != p.perm {
        oracle.push(format!("C01 entry {}: permission differs from what was written", ix));
    }
    let (wx, we) = if p.how == 'w' { (Vec::new(), Vec::new()) } else { (p.xattrs.clone(), p.extras.clone()) };
    if d.xattrs != wx {
        oracle.push(format!("C01 entry {}: extended attributes differ from what was written", ix));
    }
    if d.extras != we {
        oracle.push(format!("C01 entry {}: extra chunks differ from what was written", ix));
    }
    // C18: raw size of a built file entry = bytes written (the streaming writers record none)
    let want_raw = if p.how == 'b' && p.kind == 0 { Some(written.len() as u128) } else { None };
    if d.raw != want_raw {
        oracle.push(format!("C18 entry {}: raw file size {:?}, written {:?}", ix, d.raw, want_raw));
    }
    // the primitive law the model relies on: one-shot decompression of the observed stream = the content
    if p.comp != 0 && p.kind == 0 {
        match refdec::decompress(p.comp, &p.pieces.concat()) {
            Ok(v) if v == written => {}
            Ok(_) => oracle.push(format!("C01 entry {}: independent decompression of the compressed stream is not the written content", ix)),
            Err(e) => oracle.push(format!("C01 entry {}: the compressed stream does not decompress independently ({})", ix, e)),
        }
    }
}

fn check_decoded(exp: &[Exp], got: &[Dec], oracle: &mut Vec<String>) {
    if exp.len() != got.len() {
        oracle.push(format!("C01: {} entries written, {} read back", exp.len(), got.len()));
        return;
    }
    for (i, (e, g)) in exp.iter().zip(got).enumerate() {
        match (e, g) {
            (Exp::N(p), Dec::N(d)) => check_normal(&i.to_string(), p, d, oracle),
            (Exp::S(extras, ps), Dec::S { extras: gx, inner, .. }) => {
                if extras != gx {
                    oracle.push(format!("C01 entry {}: extra chunks of the solid entry differ from what was written", i));
                }
                match inner {
                    Err(e) => oracle.push(format!("C01 entry {}: the solid stream cannot be opened ({})", i, e)),
                    Ok((v, end)) => {
                        if end != "ok" {
                            oracle.push(format!("C01 entry {}: the solid stream ends with {}", i, end));
                        }
                        if v.len() != ps.len() {
                            oracle.push(format!("C01 entry {}: {} inner entries written, {} read back", i, ps.len(), v.len()));
                        } else {
                            for (j, (p, d)) in ps.iter().zip(v).enumerate() {
                                check_normal(&format!("{}.{}", i, j), p, d, oracle);
                            }
                        }
                    }
                }
            }
            _ => oracle.push(format!("C01 entry {}: solid/normal kind differs from what was written", i)),
        }
    }
}

/// C18 on the produced bytes: compressed_size = sum of the data chunk payloads (independent parser)
fn check_sizes(bytes: &[u8], got: &[Dec], oracle: &mut Vec<String>) {
    if let Ok(raws) = raw_entries(bytes) {
        for (i, (raw, g)) in raws.iter().zip(got).enumerate() {
            if let Dec::N(d) = g {
                let sum: usize = raw.iter().filter(|c| &c.ty == b"FDAT").map(|c| c.data.len()).sum();
                if sum != d.csize {
                    oracle.push(format!("C18 entry {}: compressed_size {} but the data chunks hold {} bytes", i, d.csize, sum));
                }
            }
        }
    }
}

/// the other buffer sizes a content is read with a second time
fn other_bufs(bufs: &[usize]) -> Vec<usize> {
    if bufs == [4096] {
        vec![1, 31]
    } else {
        vec![4096]
    }
}

fn run_writer(c: &Case, oracle: &mut Vec<String>) -> String {
    if let Some(m) = c.args.iter().find(|a| a.starts_with("GENFAIL")) {
        oracle.push(format!("C01: the writer failed on a valid input, or what it wrote has no entry structure: {}", &m[..m.len().min(300)]));
        return "ERR writer".to_string();
    }
    let pw = String::from_utf8(unhex_item(arg(c, 0))).unwrap_or_default();
    let bufs = declist(arg(c, 1));
    let produced = arg(c, 2);
    let (phex, built_sizes) = match produced.split_once(':') {
        Some((h, rest)) => (h, Some(rest)),
        None => (produced, None),
    };
    let bytes = unhex_item(phex);
    // expected entries from the spec
    let exp: Option<Vec<Exp>> = match c.op {
        "build" | "wfile" => parse_spec(arg(c, 3)).map(|p| vec![Exp::N(p)]),
        "solid" => parse_specs(arg(c, 5)).map(|ps| vec![Exp::S(parse_extras(arg(c, 4)), ps)]),
        "sarch" => parse_specs(arg(c, 4)).map(|ps| vec![Exp::S(Vec::new(), ps)]),
        _ => c.args.get(3..).unwrap_or(&[])
            .iter()
            .map(|it| {
                let f: Vec<&str> = it.split('~').collect();
                match f.len() {
                    2 => parse_spec(f[1]).map(Exp::N),
                    4 => parse_specs(f[3]).map(|ps| Exp::S(parse_extras(f[2]), ps)),
                    3 => parse_specs(f[2]).map(|ps| Exp::S(Vec::new(), ps)),
                    _ => None,
                }
            })
            .collect(),
    };
    let Some(exp) = exp else { return "BADCASE".to_string() };
    // C01 / C18 oracles on the implementation alone
    let pwo = if pw.is_empty() { None } else { Some(pw.as_str()) };
    match guard(|| lib_decode(&bytes, pwo, &bufs)) {
        Ok(Ok(got)) => {
            check_decoded(&exp, &got, oracle);
            check_sizes(&bytes, &got, oracle);
            match guard(|| lib_decode(&bytes, pwo, &other_bufs(&bufs))) {
                Ok(Ok(again)) if again == got => {}
                _ => oracle.push("C01: the decoded entries depend on the read buffer sizes".to_string()),
            }
            // the reference reader (no libpna): every content again
            let (lines, ok, why) = refdec::decode_all(&[bytes.clone()], pwo.map(|p| p.as_bytes()));
            if !ok {
                oracle.push(format!("C01: the independent reference reader rejects the produced archive ({}; {} entries decoded)", why, lines.len()));
            }
            if let (Some(sz), [Dec::N(d)]) = (built_sizes, got.as_slice()) {
                let want = format!("{}:{}", opt_dec(d.raw), d.csize);
                if sz != want {
                    oracle.push(format!("C18: the built entry reported raw:compressed = {}, re-read {}", sz, want));
                }
            }
        }
        Ok(Err(e)) => oracle.push(format!("C01: the produced archive cannot be read back ({})", ekind(&e))),
        Err(()) => oracle.push("C01: reading the produced archive panics".to_string()),
    }
    // solid streams: the primitive law for the solid pipeline's compressor
    let mut solid_cfgs: Vec<&str> = Vec::new();
    match c.op {
        "solid" | "sarch" => solid_cfgs.push(arg(c, 3)),
        "arch" => {
            for it in c.args.get(3..).unwrap_or(&[]) {
                let f: Vec<&str> = it.split('~').collect();
                if f.len() >= 3 {
                    solid_cfgs.push(f[1]);
                }
            }
        }
        _ => {}
    }
    for sc in solid_cfgs {
        if let Some((comp, pieces)) = parse_solid_cfg(sc) {
            if comp != 0 {
                if let Err(e) = refdec::decompress(comp, &pieces.concat()) {
                    oracle.push(format!("C01: the compressed solid stream does not decompress independently ({})", e));
                }
            }
        }
    }
    // the canonical outcome: what the implementation produced
    if c.op == "arch" {
        return format!("OK {}", hex_item(&bytes));
    }
    if bytes.len() < HEAD_LEN + TAIL_LEN {
        return "ERR short".to_string();
    }
    let entry = &bytes[HEAD_LEN..bytes.len() - TAIL_LEN];
    let mut head = refdec::SIG.to_vec();
    head.extend_from_slice(&[0, 0, 0, 8, b'A', b'H', b'E', b'D', 0, 0, 0, 0, 0, 0, 0, 0]);
    if bytes[..HEAD_LEN - 4] != head[..] || &bytes[bytes.len() - TAIL_LEN..bytes.len() - 4] != [0, 0, 0, 0, b'A', b'E', b'N', b'D'] {
        oracle.push("C01: the produced archive does not start with signature + AHED(0) or does not end with AEND".to_string());
    }
    match (c.op, built_sizes) {
        ("build", Some(sz)) => {
            let (r, cs) = sz.split_once(':').unwrap_or(("?", "?"));
            format!("OK {} {} {}", hex_item(entry), r, cs)
        }
        _ => format!("OK {}", hex_item(entry)),
    }
}

fn run_decode(c: &Case, oracle: &mut Vec<String>) -> String {
    let bytes = unhex_item(arg(c, 0));
    let bufs = declist(arg(c, 3));
    let pw = match arg(c, 4) {
        "-" | "" => None,
        h => String::from_utf8(unhex_item(h)).ok(),
    };
    let out = show_decoded(guard(|| lib_decode(&bytes, pw.as_deref(), &bufs)));
    let again = show_decoded(guard(|| lib_decode(&bytes, pw.as_deref(), &other_bufs(&bufs))));
    if out != again {
        oracle.push("C01: the decoded entries depend on the read buffer sizes".to_string());
    }
    // the flat iterator (Archive::entries_with_password) walks the same normal entries as entries() + SolidEntry::entries
    {
        let nested: Option<Vec<Vec<u8>>> = guard(|| lib_decode(&bytes, pw.as_deref(), &[4096])).ok().and_then(|r| r.ok()).and_then(|v| {
            let mut names = Vec::new();
            for d in v {
                match d {
                    Dec::N(n) => names.push(n.name),
                    Dec::S { inner: Ok((ns, end)), .. } if end == "ok" => names.extend(ns.into_iter().map(|n| n.name)),
                    _ => return None,
                }
            }
            Some(names)
        });
        if let Some(nested) = nested {
            let b2 = bytes.clone();
            let p2 = pw.clone();
            let flat: Option<Vec<Vec<u8>>> = guard(move || -> io::Result<Vec<Vec<u8>>> {
                let mut a = Archive::read_header(&b2[..])?;
                let mut v = Vec::new();
                for (i, e) in a.entries_with_password(p2.as_deref()).enumerate() {
                    if i > 100_000 {
                        break;
                    }
                    v.push(e?.header().path().as_str().as_bytes().to_vec());
                }
                Ok(v)
            })
            .ok()
            .and_then(|r| r.ok());
            if flat.as_ref() != Some(&nested) {
                oracle.push(format!("C01: Archive::entries_with_password yields {:?} entries, entries() + SolidEntry::entries yields {}",
                    flat.map(|f| f.len()), nested.len()));
            }
        }
    }
    if out.contains("PANIC") || again.contains("PANIC") {
        oracle.push("C07: the decode pipeline panicked".to_string());
    }
    // C03: another framing of the same data chunks (sixth argument) decodes to the same entries, contents and errors
    match arg(c, 5) {
        "" | "-" => {}
        h => {
            let other = unhex_item(h);
            let o2 = show_decoded(guard(|| lib_decode(&other, pw.as_deref(), &other_bufs(&bufs))));
            if o2 != out {
                oracle.push(format!("C03: two framings of the same data chunks decode differently: {} / {}", out.chars().take(300).collect::<String>(), o2.chars().take(300).collect::<String>()));
            }
        }
    }
    out
}

fn run(c: &Case, oracle: &mut Vec<String>) -> String {
    match c.op {
        "build" | "wfile" | "solid" | "sarch" | "arch" => run_writer(c, oracle),
        "decode" => run_decode(c, oracle),
        _ => "BADCASE".to_string(),
    }
}

// -------------------------------------------------------------------------------------------- generator
const LENS: [usize; 13] = [0, 1, 15, 16, 17, 31, 32, 33, 47, 48, 4095, 4096, 4097];

fn gen_content(r: &mut Rng, n: usize) -> Vec<u8> {
    match r.below(3) {
        0 => r.bytes(n),                                                                 // incompressible
        1 => {
            let s = r.next();
            (0..n).map(|i| (s as usize + i / 97) as u8).collect()                        // runs
        }
        _ => {
            let words: [&[u8]; 4] = [b"lorem ", b"ipsum ", b"\x00\x00\x00\x00", b"PNA\n"];
            let mut v = Vec::with_capacity(n + 8);
            while v.len() < n {
                v.extend_from_slice(words[r.below(4) as usize]);
            }
            v.truncate(n);
            v
        }
    }
}

/// write partitions: single, bytewise (short contents), random, 16-aligned, straddling; zero-length writes
fn gen_writes(r: &mut Rng, data: &[u8]) -> Vec<Vec<u8>> {
    let n = data.len();
    let sizes: Vec<usize> = match r.below(7) {
        0 => vec![n.max(1)],
        1 if n <= 64 => vec![1],
        2 => vec![16],
        3 => vec![17, 15, 1, 31],
        4 => vec![0, 5, 0, 0, 27],
        5 => vec![48, 16, 32],
        _ => (0..r.range(1, 5)).map(|_| r.range(0, (n as u64 / 2).max(3)) as usize).collect(),
    };
    let sizes = if sizes.iter().sum::<usize>() == 0 { vec![n.max(1)] } else { sizes };
    let mut out = Vec::new();
    let mut pos = 0;
    let mut i = 0;
    if n == 0 {
        // nothing, one empty write, or two
        return (0..r.below(3)).map(|_| Vec::new()).collect();
    }
    while pos < n && out.len() < 600 {
        let s = sizes[i % sizes.len()].min(n - pos);
        i += 1;
        out.push(data[pos..pos + s].to_vec());
        pos += s;
    }
    if pos < n {
        out.push(data[pos..].to_vec());
    }
    if r.chance(1, 8) {
        out.push(Vec::new());
    }
    out
}

fn gen_bufs(r: &mut Rng) -> Vec<usize> {
    match r.below(9) {
        0 => vec![1],
        1 => vec![7],
        2 => vec![15],
        3 => vec![16],
        4 => vec![17],
        5 => vec![4096],
        6 => vec![1, 16, 4096, 7],
        _ => (0..r.range(1, 4)).map(|_| r.range(1, 70) as usize).collect(),
    }
}

fn gen_level(r: &mut Rng, comp: u8) -> i64 {
    match comp {
        1 => *r.pick(&[1000, 1001, 1002, 1, 6, 9]),
        2 => *r.pick(&[1000, 1001, 1, 3, 9, 15]),
        4 => *r.pick(&[1000, 1001, 1, 3]),
        _ => 1000,
    }
}

fn gen_name(r: &mut Rng, i: usize) -> String {
    match r.below(6) {
        0 => format!("f{}", i),
        1 => format!("dir{}/sub/entry{}.bin", i, i),
        2 => format!("d\u{e9}p\u{f4}t/\u{6587}\u{4ef6}{}.txt", i),
        3 => format!("a b/c{}", i),
        _ => format!("dir{}/entry{}.bin", i, i),
    }
}

fn gen_meta(r: &mut Rng, s: &mut Spec) {
    if r.chance(1, 2) {
        s.ctime = Some(r.range(0, 2_000_000_000));
    }
    if r.chance(2, 3) {
        s.mtime = Some(if r.chance(1, 10) { u64::MAX - r.below(5) } else { r.range(0, 4_000_000_000) });
    }
    if r.chance(1, 3) {
        s.atime = Some(r.range(0, 2_000_000_000));
    }
    if r.chance(1, 2) {
        let uname = match r.below(4) {
            0 => String::new(),
            1 => "us\u{e9}r".to_string(),
            2 => "u".repeat(r.range(1, 255) as usize),
            _ => "user".to_string(),
        };
        s.perm = Some(PermS { uid: r.next() >> r.below(64), uname, gid: r.below(70000), gname: "grp".to_string(), mode: (r.below(0o10000)) as u16 });
    }
    if s.how == 'b' {
        for k in 0..r.below(3) {
            let n = r.range(0, 40) as usize;
            s.xattrs.push((format!("user.k{}", k), r.bytes(n)));
        }
        for _ in 0..r.below(3) {
            // private ancillary types (first and second letter lower case), safe-to-copy bit either way
            let t: [u8; 4] = *r.pick(&[*b"vrFy", *b"abCd", *b"xyZZ"]);
            let n = r.range(0, 20) as usize;
            s.extras.push((t, r.bytes(n)));
        }
    }
}

fn gen_spec(r: &mut Rng, how: char, cfg: &Cfg, i: usize, n: usize) -> Spec {
    let data = gen_content(r, n);
    let mut s = Spec { how, kind: 0, cfg: cfg.clone(), name: gen_name(r, i), writes: gen_writes(r, &data), ctime: None, mtime: None, atime: None, perm: None, xattrs: Vec::new(), extras: Vec::new() };
    gen_meta(r, &mut s);
    s
}
fn gen_other_kind(r: &mut Rng, i: usize) -> Spec {
    let kind = r.range(1, 3) as u8;
    let writes = match kind {
        1 => Vec::new(),
        _ => {
            let mut w = vec![r.pick(&["target/file.txt", "../up/one", "x", "/abs/olute", "d\u{e9}p/\u{6587}"]).as_bytes().to_vec()];
            if r.chance(1, 6) {
                w.push(b"-more".to_vec()); // a caller may go on writing after new_symbolic_link
            }
            w
        }
    };
    let mut s = Spec { how: 'b', kind, cfg: STORE, name: gen_name(r, i), writes, ctime: None, mtime: None, atime: None, perm: None, xattrs: Vec::new(), extras: Vec::new() };
    gen_meta(r, &mut s);
    if kind >= 2 {
        // the reference as the builder holds it
        let t = EntryReference::from(String::from_utf8_lossy(&s.writes[0]).as_ref());
        s.writes[0] = t.as_str().as_bytes().to_vec();
    }
    s
}

fn gen_pw(r: &mut Rng) -> String {
    match r.below(4) {
        0 => "correct horse".to_string(),
        1 => "p\u{e4}ss\u{4e16}\u{754c}".to_string(),
        2 => "x".to_string(),
        _ => (0..r.range(1, 24)).map(|_| (b'!' + r.below(90) as u8) as char).collect(),
    }
}

fn gen_len(r: &mut Rng, big: bool) -> usize {
    if big {
        r.range(20_000, 100_000) as usize
    } else if r.chance(3, 4) {
        // the block-size neighbourhoods more often than the 4 KiB ones
        if r.chance(3, 4) {
            LENS[r.below(10) as usize]
        } else {
            LENS[10 + r.below(3) as usize]
        }
    } else {
        r.range(0, 300) as usize
    }
}

/// k-th point of the grid  codec x (cipher, mode) x writer kind x KDF
fn grid(r: &mut Rng, k: usize) -> (Cfg, usize) {
    let comps = [0u8, 1, 2, 4];
    // WriteOptions without a cipher report CipherMode::CTR whatever the builder was told: the header says CTR
    let ciphers = [(0u8, 1u8), (1, 0), (1, 1), (2, 0), (2, 1)];
    let comp = comps[k % 4];
    let (enc, mode) = ciphers[(k / 4) % 5];
    let writer = (k / 20) % 5;
    let kdf = ((k / 100) % 2) as u8;
    (Cfg { comp, level: gen_level(r, comp), enc, mode, kdf, rounds: r.range(1, 3) as u32 }, writer)
}

/// the case lines of one scenario: the writer case and the decode case of what it produced
fn scenario(r: &mut Rng, k: usize, big: bool, idx: usize) -> Vec<String> {
    let (op, items, pw, bufs) = scenario_items(r, k, big);
    emit(r, op, &items, &pw, &bufs, idx)
}
fn scenario_items(r: &mut Rng, k: usize, big: bool) -> (&'static str, Vec<Item>, String, Vec<usize>) {
    let (cfg, writer) = grid(r, k);
    let pw = gen_pw(r);
    let bufs = if big { vec![4096] } else { gen_bufs(r) };
    let n = gen_len(r, big);
    let (op, items): (&str, Vec<Item>) = match writer {
        0 => ("build", vec![Item::N(if !big && r.chance(1, 5) { gen_other_kind(r, 0) } else { gen_spec(r, 'b', &cfg, 0, n) })]),
        1 => ("wfile", vec![Item::N(gen_spec(r, 'w', &cfg, 0, n))]),
        2 => {
            let cnt = if big { 1 } else { r.range(0, 3) as usize };
            let inner: Vec<Spec> = (0..cnt)
                .map(|i| {
                    if r.chance(1, 6) {
                        gen_other_kind(r, i)
                    } else if r.chance(1, 5) {
                        // an inner entry with a configuration of its own
                        let (c2, _) = grid(r, k + 7 * i + 3);
                        let m = gen_len(r, false).min(300);
                        gen_spec(r, 'b', &c2, i, m)
                    } else {
                        let m = if i == 0 { n } else { gen_len(r, false).min(300) };
                        gen_spec(r, 'b', &STORE, i, m)
                    }
                })
                .collect();
            let extras = if r.chance(1, 4) { vec![(*b"szXy", r.bytes(5))] } else { Vec::new() };
            ("solid", vec![Item::SB(cfg.clone(), extras, inner)])
        }
        _ => {
            let cnt = if big { 1 } else { r.range(0, 3) as usize };
            let inner: Vec<Spec> = (0..cnt)
                .map(|i| {
                    let m = if i == 0 { n } else { gen_len(r, false).min(300) };
                    let how = if writer == 3 { 'b' } else if r.chance(1, 5) { 'b' } else { 'w' };
                    gen_spec(r, how, &STORE, i, m)
                })
                .collect();
            ("sarch", vec![Item::SA(cfg.clone(), inner)])
        }
    };
    (op, items, pw, bufs)
}

/// several items in one archive: built entries of all kinds, streamed files, a solid entry in between
fn scenario_arch(r: &mut Rng, k: usize, idx: usize) -> Vec<String> {
    let (items, pw, bufs) = scenario_arch_items(r, k);
    emit(r, "arch", &items, &pw, &bufs, idx)
}
fn scenario_arch_items(r: &mut Rng, k: usize) -> (Vec<Item>, String, Vec<usize>) {
    let pw = gen_pw(r);
    let bufs = gen_bufs(r);
    let cnt = r.range(0, 4) as usize;
    let mut items = Vec::new();
    for i in 0..cnt {
        let (cfg, _) = grid(r, k + 13 * i);
        let n = gen_len(r, false).min(600);
        if r.chance(1, 5) {
            // a solid block without entries in front of / between the others
            items.push(Item::SB(cfg.clone(), Vec::new(), Vec::new()));
        }
        items.push(match r.below(6) {
            0 => Item::N(gen_other_kind(r, i)),
            1 | 2 => Item::N(gen_spec(r, 'w', &cfg, i, n)),
            3 => Item::SB(cfg.clone(), Vec::new(), vec![gen_spec(r, 'b', &STORE, i, n.min(100)), gen_other_kind(r, i + 10)]),
            _ => Item::N(gen_spec(r, 'b', &cfg, i, n)),
        });
    }
    (items, pw, bufs)
}

// ------------------------------------------------------------------------------------------ C03: re-cut archives
/// pieces of `data` with sizes taken cyclically from `sizes` (zero sizes give empty pieces; all zero = one piece)
fn cut_by(sizes: &[usize], data: &[u8]) -> Vec<Vec<u8>> {
    if sizes.iter().sum::<usize>() == 0 {
        return vec![data.to_vec()];
    }
    let mut out = Vec::new();
    let (mut pos, mut i) = (0, 0);
    while pos < data.len() {
        let s = sizes[i % sizes.len()].min(data.len() - pos);
        out.push(data[pos..pos + s].to_vec());
        pos += s;
        i += 1;
    }
    out
}
fn put_chunk(out: &mut Vec<u8>, ty: &[u8; 4], data: &[u8]) {
    out.extend_from_slice(&(data.len() as u32).to_be_bytes());
    out.extend_from_slice(ty);
    out.extend_from_slice(data);
    out.extend_from_slice(&refdec::crc32(ty, data).to_be_bytes());
}
/// the archive with every run of consecutive FDAT (resp. SDAT) chunks cut short to `keep(run length)` bytes and
/// re-cut with `cuts`; every other chunk as it is (length and CRC rewritten)
fn recut_bytes(bytes: &[u8], cuts: &[usize], keep: &dyn Fn(usize) -> usize) -> Result<Vec<u8>, String> {
    let cs = refdec::part_chunks(bytes).map_err(|w| format!("{}: {}", w.0, w.1))?;
    let mut out = refdec::SIG.to_vec();
    let mut run: Option<([u8; 4], Vec<u8>)> = None;
    let flush = |out: &mut Vec<u8>, run: &mut Option<([u8; 4], Vec<u8>)>| {
        if let Some((ty, buf)) = run.take() {
            let k = keep(buf.len()).min(buf.len());
            for p in cut_by(cuts, &buf[..k]) {
                put_chunk(out, &ty, &p);
            }
        }
    };
    for c in cs {
        let is_data = &c.ty == b"FDAT" || &c.ty == b"SDAT";
        if let Some((rty, buf)) = &mut run {
            if is_data && *rty == c.ty {
                buf.extend_from_slice(&c.data);
                continue;
            }
        }
        flush(&mut out, &mut run);
        if is_data {
            run = Some((c.ty, c.data));
        } else {
            put_chunk(&mut out, &c.ty, &c.data);
        }
    }
    Ok(out)
}
fn gen_cuts(r: &mut Rng) -> Vec<usize> {
    match r.below(8) {
        0 => vec![1],                   // 1-byte chunks
        1 => vec![0, 1, 0, 0, 15],      // zero-length chunks, cuts inside the IV
        2 => vec![7],                   // never on a block boundary
        3 => vec![16],
        4 => vec![17, 15, 1],
        5 => vec![1, 0, 7, 16],
        6 => (0..r.range(1, 6)).map(|_| r.range(0, 40) as usize).collect(),
        _ => vec![r.range(1, 5000) as usize],
    }
}
/// one decode case on a re-cut of what the scenario's writers produced; the sixth argument is another framing of the
/// same data (the archive as produced, or a second re-cut when the data was cut short)
fn emit_recut(r: &mut Rng, items: &[Item], pw: &str, bufs: &[usize], short: Option<u64>) -> Vec<String> {
    let mut tabs = Tables::default();
    let (bytes, _texts) = match produce(items, pw, &mut tabs) {
        Ok(x) => x,
        Err(e) => return vec![format!("decode\t-\t-\t-\t{}\t-\tGENFAIL {}", show_bufs(bufs), e.replace(['\t', '\n'], " "))],
    };
    let cuts = gen_cuts(r);
    // cutting the data short is modelled for store only (what a decompressor makes of a truncated stream is not)
    let store_normal = items.iter().all(|it| matches!(it, Item::N(s) if s.cfg.comp == 0));
    let how = short.unwrap_or(0);
    let short = store_normal && !items.is_empty() && short.is_some();
    let n16 = r.below(16) as usize;
    let keep = move |n: usize| -> usize {
        if !short {
            return n;
        }
        match how {
            0 => n.saturating_sub(1),          // CBC: the last block is partial
            1 => n.saturating_sub(16),         // CBC: the last block is missing (padding of the one before)
            2 => n.saturating_sub(17),
            3 => n16.min(n),                   // encrypted: the IV is short
            _ => 16.min(n),                    // encrypted: the IV and nothing else
        }
    };
    let (first, second) = if short {
        let other = gen_cuts(r);
        (recut_bytes(&bytes, &cuts, &keep), recut_bytes(&bytes, &other, &keep))
    } else {
        (recut_bytes(&bytes, &cuts, &keep), Ok(bytes.clone()))
    };
    let (first, second) = match (first, second) {
        (Ok(a), Ok(b)) => (a, b),
        (Err(e), _) | (_, Err(e)) => return vec![format!("decode\t-\t-\t-\t{}\t-\tGENFAIL {}", show_bufs(bufs), e.replace(['\t', '\n'], " "))],
    };
    let encrypted = !tabs.v.is_empty();
    let pwh = hex_item(pw.as_bytes());
    vec![format!("decode\t{}\t{}\t{}\t{}\t{}\t{}", hex_item(&first), tabs.vtext(), tabs.dtext(), show_bufs(bufs), if encrypted { pwh } else { "-".to_string() }, hex_item(&second))]
}

// ------------------------------------------------------------------------------------------ C07: hostile data
/// the decompressor as libpna drives it (entry/read.rs decompress_reader: the same reader types over the same
/// bytes), run directly on a byte stream: the oracle-table entry for a stream no writer produced
fn stream_decompress(comp: u8, stream: &[u8]) -> Result<Vec<u8>, String> {
    let s = stream.to_vec();
    let r = guard(move || -> io::Result<Vec<u8>> {
        let mut out = Vec::new();
        match comp {
            1 => flate2::read::ZlibDecoder::new(&s[..]).read_to_end(&mut out)?,
            2 => zstd::Decoder::new(&s[..])?.read_to_end(&mut out)?,
            4 => liblzma::read::XzDecoder::new(&s[..]).read_to_end(&mut out)?,
            _ => {
                out = s.clone();
                0
            }
        };
        Ok(out)
    });
    match r {
        Ok(Ok(v)) => Ok(v),
        Ok(Err(e)) => Err(bang(&e)),
        Err(()) => Err("!PANIC".to_string()),
    }
}
/// the archive with every run of consecutive FDAT (resp. SDAT) chunks replaced by `f(run)` and re-cut with `cuts`
fn transform_runs(bytes: &[u8], cuts: &[usize], f: &mut dyn FnMut(Vec<u8>) -> Vec<u8>) -> Result<Vec<u8>, String> {
    let cs = refdec::part_chunks(bytes).map_err(|w| format!("{}: {}", w.0, w.1))?;
    let mut out = refdec::SIG.to_vec();
    let mut run: Option<([u8; 4], Vec<u8>)> = None;
    for c in cs {
        let is_data = &c.ty == b"FDAT" || &c.ty == b"SDAT";
        if let Some((rty, buf)) = &mut run {
            if is_data && *rty == c.ty {
                buf.extend_from_slice(&c.data);
                continue;
            }
        }
        if let Some((ty, buf)) = run.take() {
            let nb = f(buf);
            for p in cut_by(cuts, &nb) {
                put_chunk(&mut out, &ty, &p);
            }
        }
        if is_data {
            run = Some((c.ty, c.data));
        } else {
            put_chunk(&mut out, &c.ty, &c.data);
        }
    }
    Ok(out)
}
/// walk the (mutated) archive: is every entry in the part of the configuration space where the model predicts the
/// outcome on hostile data (see emit_hostile), and which decompressor-table entries do the garbage streams need
fn hostile_tables(bytes: &[u8], tabs: &mut Tables) -> Result<bool, String> {
    let cs = refdec::part_chunks(bytes).map_err(|w| format!("{}: {}", w.0, w.1))?;
    let mut cur: Option<(bool, u8, u8, u8)> = None;
    let mut phsf: Option<Vec<u8>> = None;
    let mut data: Vec<u8> = Vec::new();
    for c in cs {
        match &c.ty {
            b"FHED" if c.data.len() >= 6 => {
                cur = Some((false, c.data[3], c.data[4], c.data[5]));
                phsf = None;
                data.clear();
            }
            b"SHED" if c.data.len() >= 5 => {
                cur = Some((true, c.data[2], c.data[3], c.data[4]));
                phsf = None;
                data.clear();
            }
            b"PHSF" => phsf = Some(c.data.clone()),
            b"FDAT" | b"SDAT" => data.extend_from_slice(&c.data),
            b"FEND" | b"SEND" => {
                if let Some((solid, comp, enc, mode)) = cur.take() {
                    let cbc = enc != 0 && mode == 0;
                    // stored solid entries under every cipher and mode (CBC: the model's lazy reader,
                    // Pipeline.decode_solid_lazy, yields the entries in front of a damaged end); compressed ones not
                    if solid && comp != 0 {
                        return Ok(false);
                    }
                    if comp != 0 {
                        if cbc {
                            return Ok(false);
                        }
                        let plain = if enc == 0 {
                            Some(data.clone())
                        } else {
                            // CTR: the decompressor sees the keystream-xored bytes behind the 16-byte IV
                            let key = phsf.as_ref().and_then(|p| tabs.v.iter().find(|(q, _)| q == p).map(|(_, k)| k.clone()));
                            match key {
                                Some(k) if data.len() >= 16 => {
                                    let b = refdec::Block::new(enc, &k)?;
                                    Some(refdec::ctr_xor(&b, &data[..16], &data[16..]))
                                }
                                _ => None,
                            }
                        };
                        if let Some(pl) = plain {
                            if !tabs.d.iter().any(|(s, _)| *s == pl) {
                                match stream_decompress(comp, &pl) {
                                    Ok(v) => tabs.d.push((pl, v)),
                                    Err(k) => tabs.dk.push((pl, k)),
                                }
                            }
                        }
                    }
                }
            }
            _ => {}
        }
    }
    Ok(true)
}
/// one decode case on what the scenario's writers produced with the DATA of every entry damaged (the chunk framing
/// stays valid: hostile framing is the archive area's business): bytes flipped, the stream cut anywhere, garbage
/// appended, the whole stream replaced, blocks duplicated or dropped.  Generated where the model predicts the outcome:
/// stored entries under every cipher and mode (the real AES/Camellia are inside the model), compressed entries that
/// are unencrypted or CTR-encrypted (the decompressor's verdict on the garbage is an oracle-table entry computed with
/// the same reader types libpna uses), stored solid entries under every cipher and mode.  Compressed + CBC and
/// compressed solid streams are left out: a streaming decompressor that stops early never sees the padding error, and
/// yields entries before a mid-stream error, neither of which the model's decode-then-decompress order expresses.
///
/// Stored solid entries with CBC (AES and Camellia): SolidEntry::entries pulls its chunks from the decrypting reader as it
/// goes, so a stream whose end is damaged yields the inner entries in front of the damage, then the error (bad padding:
/// InvalidData) or a silent end (a partial last block: UnexpectedEof, which the iterator maps to None).  One in eight of
/// the compressed solid scenarios is turned into a stored CBC one (at least two inner entries), and four kinds of damage
/// aim at the boundary between two inner entries: the ciphertext is cut so that the plaintext the reader can deliver ends
/// in the last block of an inner entry (exactly at its end when the entry ends on a block boundary, which the generator
/// arranges for half of these scenarios) or in the first block behind it, as whole blocks (padding error) or with 1..15
/// bytes of a further block (partial block).
fn emit_hostile(r: &mut Rng, items: &[Item], pw: &str, bufs: &[usize]) -> Vec<String> {
    let mut items: Vec<Item> = items.to_vec();
    if let [Item::SB(cfg, _, inner)] | [Item::SA(cfg, inner)] = &mut items[..] {
        if cfg.comp != 0 && r.chance(1, 8) {
            cfg.comp = 0;
            cfg.level = 1000;
            if cfg.enc == 0 {
                cfg.enc = 1 + r.below(2) as u8;
            }
            cfg.mode = 0;
            while inner.len() < 2 {
                let m = gen_len(r, false).min(300);
                let i = inner.len();
                inner.push(gen_spec(r, 'b', &STORE, i, m));
            }
        }
    }
    let cbc_solid = |c: &Cfg| c.comp == 0 && c.enc != 0 && c.mode == 0;
    let has_cbc_solid = items.iter().any(|it| matches!(it, Item::SB(c, _, _) | Item::SA(c, _) if cbc_solid(c)));
    let mut tabs = Tables::default();
    let (mut bytes, _texts) = match produce(&items, pw, &mut tabs) {
        Ok(x) => x,
        Err(_) => return Vec::new(),
    };
    // for every stored CBC solid entry: the bytes of its SDAT run and the plaintext offsets at which an inner entry ends
    let solid_bounds = |bytes: &[u8], tabs: &Tables| -> Vec<(Vec<u8>, Vec<usize>)> {
        let mut out = Vec::new();
        let cs = match refdec::part_chunks(bytes) {
            Ok(c) => c,
            Err(_) => return out,
        };
        let mut cur: Option<(u8, u8, u8)> = None;
        let mut phsf: Option<Vec<u8>> = None;
        let mut data: Vec<u8> = Vec::new();
        for c in cs {
            match &c.ty {
                b"SHED" if c.data.len() >= 5 => {
                    cur = Some((c.data[2], c.data[3], c.data[4]));
                    phsf = None;
                    data.clear();
                }
                b"FHED" => cur = None,
                b"PHSF" => phsf = Some(c.data.clone()),
                b"SDAT" => data.extend_from_slice(&c.data),
                b"SEND" => {
                    if let Some((comp, enc, mode)) = cur.take() {
                        if comp == 0 && enc != 0 && mode == 0 && data.len() >= 32 {
                            let key = phsf.as_ref().and_then(|p| tabs.v.iter().find(|(q, _)| q == p).map(|(_, k)| k.clone()));
                            let pt = key.and_then(|k| refdec::Block::new(enc, &k).ok()).and_then(|b| refdec::cbc_decrypt(&b, &data[..16], &data[16..]).ok());
                            if let Some(pt) = pt {
                                let mut bounds = Vec::new();
                                let mut pos = 0usize;
                                while pos + 12 <= pt.len() {
                                    let l = u32::from_be_bytes([pt[pos], pt[pos + 1], pt[pos + 2], pt[pos + 3]]) as usize;
                                    let fend = &pt[pos + 4..pos + 8] == b"FEND";
                                    pos += 12 + l;
                                    if fend && pos <= pt.len() {
                                        bounds.push(pos);
                                    }
                                }
                                out.push((data.clone(), bounds));
                            }
                        }
                    }
                }
                _ => {}
            }
        }
        out
    };
    let mut info = if has_cbc_solid { solid_bounds(&bytes, &tabs) } else { Vec::new() };
    // half of the single-solid scenarios: the first inner entry is made to end on a cipher-block boundary
    if let ([Item::SB(_, _, inner)] | [Item::SA(_, inner)], [(_, bounds)]) = (&mut items[..], &info[..]) {
        let off = bounds.first().map(|b| b % 16).unwrap_or(0);
        if off != 0 && r.chance(1, 2) {
            if let Some(w) = inner.first_mut().filter(|s| s.kind == 0).and_then(|s| s.writes.last_mut()).filter(|w| !w.is_empty()) {
                w.extend(r.bytes(16 - off));
                let mut t2 = Tables::default();
                match produce(&items, pw, &mut t2) {
                    Ok((b2, _)) => {
                        bytes = b2;
                        tabs = t2;
                        info = solid_bounds(&bytes, &tabs);
                    }
                    Err(_) => return Vec::new(),
                }
            }
        }
    }
    let cuts = gen_cuts(r);
    let how = if has_cbc_solid { r.below(12) } else { r.below(8) };
    let mut rr = r.clone();
    let mut f = |mut b: Vec<u8>| -> Vec<u8> {
        let n = b.len();
        let bounds: Vec<usize> = info.iter().find(|(d, _)| *d == b).map(|(_, v)| v.clone()).unwrap_or_default();
        let how = if how >= 8 && bounds.is_empty() { how - 8 } else { how };
        match how {
            0 => {
                // flip one to three bytes
                for _ in 0..rr.range(1, 3) {
                    if n > 0 {
                        let i = rr.below(n as u64) as usize;
                        b[i] ^= 1 << rr.below(8);
                    }
                }
                b
            }
            1 => {
                b.truncate(rr.below(n as u64 + 1) as usize);
                b
            }
            2 => {
                let extra = rr.range(1, 40) as usize;
                b.extend(rr.bytes(extra));
                b
            }
            3 => rr.bytes(n),
            4 => {
                // duplicate a 16-byte block
                if n >= 32 {
                    let i = 16 * rr.below((n / 16) as u64) as usize;
                    let blk = b[i..(i + 16).min(n)].to_vec();
                    let mut o = b[..i].to_vec();
                    o.extend(&blk);
                    o.extend(&b[i..]);
                    o
                } else {
                    b
                }
            }
            5 => b.split_off(16.min(n)), // the IV (or the first block) is gone
            6 => {
                // the last block damaged: CBC padding errors of every shape
                if n > 0 {
                    let i = n - 1 - rr.below(16.min(n) as u64) as usize;
                    b[i] = rr.next() as u8;
                }
                b
            }
            7 => {
                let m = rr.below(50) as usize;
                rr.bytes(m)
            }
            _ => {
                // a stored CBC solid stream cut at the end of an inner entry: the reader delivers the plaintext of all
                // blocks but the last one it was given (the look-ahead block fails to unpad, or is followed by a partial
                // block).  8/10: what it delivers ends in the block holding the last byte of the entry (at the entry's
                // end when that is a block boundary); 9/11: in the block behind it.  10/11: a partial block follows.
                let bd = bounds[rr.below(bounds.len() as u64) as usize];
                let delivered = if how == 8 || how == 10 { bd / 16 } else { bd / 16 + 1 };
                let mut keep = 16 + 16 * (delivered + 1);
                if how >= 10 {
                    keep += 1 + rr.below(15) as usize;
                }
                b.truncate(keep.min(n));
                b
            }
        }
    };
    let mutated = match transform_runs(&bytes, &cuts, &mut f) {
        Ok(m) => m,
        Err(_) => return Vec::new(),
    };
    *r = rr;
    match hostile_tables(&mutated, &mut tabs) {
        Ok(true) => {}
        _ => return Vec::new(),
    }
    let encrypted = !tabs.v.is_empty();
    let pwh = hex_item(pw.as_bytes());
    vec![format!("decode\t{}\t{}\t{}\t{}\t{}", hex_item(&mutated), tabs.vtext(), tabs.dtext(), show_bufs(bufs), if encrypted { pwh } else { "-".to_string() })]
}

/// every scenario gives a writer case and a decode case; every fourth one a second decode case (no password, or
/// a wrong one) — the number of cases depends on the tier only
fn emit(r: &mut Rng, op: &str, items: &[Item], pw: &str, bufs: &[usize], idx: usize) -> Vec<String> {
    let mut tabs = Tables::default();
    let (bytes, texts) = match produce(items, pw, &mut tabs) {
        Ok(x) => x,
        Err(e) => {
            // the writer failed or its output could not be observed: a case the model answers differently
            let _ = idx;
            return vec![format!("{}\t{}\t{}\t{}\t{}", op, hex_item(pw.as_bytes()), show_bufs(bufs), "-", format!("GENFAIL {} {:?}", e.replace(['\t', '\n'], " "), items).replace(['\t', '\n'], " "))];
        }
    };
    let pwh = hex_item(pw.as_bytes());
    let b = show_bufs(bufs);
    let mut produced = hex_item(&bytes);
    let split_solid = |t: &str| -> Vec<String> { t.split('~').skip(1).map(|s| s.to_string()).collect() };
    let writer_line = match op {
        "build" | "wfile" => {
            if op == "build" {
                // the sizes the built entry itself reported
                if let [Item::N(s)] = items {
                    if let Ok(e) = build_sizes(s, pw) {
                        produced = format!("{}:{}", produced, e);
                    }
                }
            }
            format!("{}\t{}\t{}\t{}\t{}", op, pwh, b, produced, texts[0].split_once('~').map(|x| x.1).unwrap_or(""))
        }
        "solid" | "sarch" => format!("{}\t{}\t{}\t{}\t{}", op, pwh, b, produced, split_solid(&texts[0]).join("\t")),
        _ => format!("{}\t{}\t{}\t{}{}", op, pwh, b, produced, texts.iter().map(|t| format!("\t{}", t)).collect::<String>()),
    };
    let mut out = vec![writer_line];
    // the reader on the same bytes: right password; sometimes none; sometimes a wrong one (store only:
    // what a decompressor makes of garbage is not modelled)
    let encrypted = !tabs.v.is_empty();
    out.push(format!("decode\t{}\t{}\t{}\t{}\t{}", hex_item(&bytes), tabs.vtext(), tabs.dtext(), b, if encrypted { pwh.clone() } else { "-".to_string() }));
    if idx % 4 == 0 {
        let plain_store_normal = items.iter().all(|it| matches!(it, Item::N(s) if s.cfg.comp == 0 || s.kind != 0));
        if encrypted && plain_store_normal && r.chance(1, 2) {
            let wrong = format!("{}?", pw);
            let vt: Vec<String> = tabs
                .v
                .iter()
                .filter_map(|(p, _)| {
                    let k = refdec::derive_key(&refdec::phc_parse(p)?, wrong.as_bytes()).ok()?;
                    Some(format!("{}:{}", hex_item(p), hex_item(&k)))
                })
                .collect();
            out.push(format!("decode\t{}\t{}\t-\t{}\t{}", hex_item(&bytes), vt.join(","), b, hex_item(wrong.as_bytes())));
        } else {
            let vt: Vec<String> = tabs.v.iter().map(|(p, _)| format!("{}:!InvalidInput", hex_item(p))).collect();
            out.push(format!("decode\t{}\t{}\t{}\t{}\t-", hex_item(&bytes), if vt.is_empty() { "-".to_string() } else { vt.join(",") }, tabs.dtext(), b));
        }
    }
    out
}
fn show_bufs(b: &[usize]) -> String {
    b.iter().map(|x| x.to_string()).collect::<Vec<_>>().join(",")
}
/// raw:compressed as EntryBuilder::build reports them (a second build of the same spec: the sizes do not
/// depend on salt and IV)
fn build_sizes(s: &Spec, pw: &str) -> io::Result<String> {
    let e = build_entry(s, pw)?;
    Ok(format!("{}:{}", opt_dec(e.metadata().raw_file_size()), e.metadata().compressed_size()))
}

fn gen(prop: &str, tier: &str, seed: u64) -> Vec<String> {
    let mut r = Rng::new(seed ^ 0x7069_7065);
    let thorough = tier == "thorough";
    // scenarios: grid points, multi-item archives, big contents
    let (n_grid, n_arch, n_big) = match (prop, thorough) {
        ("C18", false) => (60, 10, 0),
        ("C18", true) => (1500, 200, 2),
        ("C14", false) => (40, 10, 0),
        ("C14", true) => (1000, 200, 0),
        (_, false) => (200, 25, 0),
        (_, true) => (5200, 600, 8),
    };
    let mut v = Vec::new();
    let mut k = r.below(200) as usize;
    let mut idx = 0;
    if prop == "C07" {
        // hostile data through the reader only: 80 / 2500 decode cases (scenarios whose configuration the model does
        // not predict on hostile data are skipped, so the loop runs until the count is reached)
        let want = if thorough { 2500 } else { 80 };
        let mut tries = 0;
        while v.len() < want && tries < 20 * want {
            tries += 1;
            let c = if tries % 6 == 0 {
                let (items, pw, bufs) = scenario_arch_items(&mut r, k);
                emit_hostile(&mut r, &items, &pw, &bufs)
            } else {
                let (_, items, pw, bufs) = scenario_items(&mut r, k, false);
                emit_hostile(&mut r, &items, &pw, &bufs)
            };
            v.extend(c);
            k += 1;
        }
        return v;
    }
    if prop == "C03" {
        // re-cut archives through the reader only: 44 + 10 + 15 / 2400 + 400 + 600 decode cases
        let (n_grid, n_arch, n_short) = if thorough { (2400, 400, 600) } else { (44, 10, 15) };
        for _ in 0..n_grid {
            let (_, items, pw, bufs) = scenario_items(&mut r, k, false);
            v.extend(emit_recut(&mut r, &items, &pw, &bufs, None));
            k += 1;
        }
        for _ in 0..n_arch {
            let (items, pw, bufs) = scenario_arch_items(&mut r, k);
            v.extend(emit_recut(&mut r, &items, &pw, &bufs, None));
            k += 3;
        }
        // data cut short, then framed in two ways: store x every cipher and mode x EntryBuilder / write_file x KDF
        for i in 0..n_short {
            let kk = 4 * (i % 5) + 20 * ((i / 5) % 2) + 100 * ((i / 10) % 2);
            let (_, items, pw, bufs) = scenario_items(&mut r, kk, false);
            v.extend(emit_recut(&mut r, &items, &pw, &bufs, Some(((i / 5) + i) as u64 % 5)));
        }
        let _ = idx;
        return v;
    }
    // every run: solid entries that hold NO inner entry, under every cipher and mode, stored and compressed, built
    // (SolidEntryBuilder) and streamed (SolidArchive): the stream is empty, the IV and the padding block are all there is
    // (seeded C14-4: the IV joined onto the first stream buffer is dropped when there is none)
    for (ci, (enc, mode)) in [(0u8, 1u8), (1, 0), (1, 1), (2, 0), (2, 1)].into_iter().enumerate() {
        for comp in [0u8, 2] {
            let cfg = Cfg { comp, level: 1000, enc, mode, kdf: (ci % 2) as u8, rounds: 1 };
            let pw = gen_pw(&mut r);
            let bufs = gen_bufs(&mut r);
            v.extend(emit(&mut r, "solid", &[Item::SB(cfg.clone(), Vec::new(), Vec::new())], &pw, &bufs, 1));
            if comp == 0 {
                v.extend(emit(&mut r, "sarch", &[Item::SA(cfg, Vec::new())], &pw, &bufs, 1));
            }
        }
    }
    for _ in 0..n_grid {
        v.extend(scenario(&mut r, k, false, idx));
        k += 1;
        idx += 1;
    }
    for _ in 0..n_arch {
        v.extend(scenario_arch(&mut r, k, idx));
        k += 3;
        idx += 1;
    }
    for i in 0..n_big {
        // big contents: CBC and unencrypted configurations only (the model's CTR costs one block cipher call per byte)
        let mut kk = k + 11 * i;
        while matches!((kk / 4) % 5, 2 | 4) {
            kk += 4;
        }
        v.extend(scenario(&mut r, kk, true, 1));
    }
    v
}

fn main() {
    harness_main(gen, run);
}
