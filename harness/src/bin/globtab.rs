//! globtab: the glob oracle of the CLI-level models.  Reads lines `patterns \t names` (both
//! comma-separated lists of hex-encoded UTF-8 strings) from stdin and prints, per line, one
//! character per name: `1` if the pattern set matches the name, `0` if not — computed with the
//! real `globset` crate and exactly the construction of cli/src/utils/globs.rs
//! (`Glob::new(pattern)` with default options, `GlobSetBuilder`, `GlobSet::is_match(name)`).
//! A pattern that does not compile gives the line `ERR`.
use pnaverif::util::*;
use std::io::{self, BufRead};

fn list(s: &str) -> Vec<String> {
    if s.is_empty() {
        return vec![];
    }
    s.split(',').map(|h| String::from_utf8_lossy(&unhex(h).expect("hex")).into_owned()).collect()
}

fn main() {
    let stdin = io::stdin();
    for line in stdin.lock().lines() {
        let line = line.expect("line");
        let (p, n) = line.split_once('\t').unwrap_or((line.as_str(), ""));
        let mut b = globset::GlobSet::builder();
        let mut ok = true;
        for pat in list(p) {
            match globset::Glob::new(&pat) {
                Ok(g) => {
                    b.add(g);
                }
                Err(_) => ok = false,
            }
        }
        let set = match (ok, b.build()) {
            (true, Ok(s)) => s,
            _ => {
                println!("ERR");
                continue;
            }
        };
        let out: String = list(n).iter().map(|name| if set.is_match(name) { '1' } else { '0' }).collect();
        println!("{}", out);
    }
}
