//! refdecode: the independent strict reference reader (C14).  No libpna in here: everything
//! comes from pnaverif::refdec, which is written from the format description and uses
//! primitive crates only.
//! usage: refdecode [--password PW | --password-hex HEX] [--structure] part1 [part2 ...]
//! Output: the JSON lines of harness/src/bin/dump.rs (one object per entry, solid headers as
//! {"solid_header":..}), then {"end":"OK"|"ERR .."} and {"wf":true|false,"why":"..","verdict":"1"|"0 <reason>"}
//! (wf = structure AND decoding; verdict = the structural verdict alone, the one compared with Wf.v).
//! --structure: {"types":[[..chunk types of part 1..],..]} and the verdict
//! {"wf":..,"why":..,"verdict":"1"|"0 <reason>"} only (no decoding).
use pnaverif::refdec::*;

fn main() {
    let mut args: Vec<String> = std::env::args().skip(1).collect();
    let mut pw: Option<Vec<u8>> = None;
    let mut structure = false;
    while !args.is_empty() && args[0].starts_with("--") {
        match args[0].as_str() {
            "--password" => {
                pw = Some(args[1].clone().into_bytes());
                args.drain(..2);
            }
            "--password-hex" => {
                let h = &args[1];
                pw = Some((0..h.len() / 2).map(|i| u8::from_str_radix(&h[2 * i..2 * i + 2], 16).unwrap()).collect());
                args.drain(..2);
            }
            "--structure" => {
                structure = true;
                args.remove(0);
            }
            _ => break,
        }
    }
    let mut parts = Vec::new();
    for a in &args {
        match std::fs::read(a) {
            Ok(b) => parts.push(b),
            Err(e) => {
                println!("{{\"end\":\"ERR NotFound\",\"msg\":{}}}", json_str(&e.to_string()));
                println!("{{\"wf\":false,\"why\":{}}}", json_str(&format!("io: {}: {}", a, e)));
                std::process::exit(2);
            }
        }
    }
    if structure {
        let types: Vec<String> = parts
            .iter()
            .map(|p| match part_chunks(p) {
                Ok(cs) => format!("[{}]", cs.iter().map(|c| json_str(&String::from_utf8_lossy(&c.ty))).collect::<Vec<_>>().join(",")),
                Err(_) => "null".into(),
            })
            .collect();
        println!("{{\"types\":[{}]}}", types.join(","));
        let r = strict_decode(&parts);
        let (wf, why) = match &r {
            Ok(_) => (true, String::new()),
            Err((w, d)) => (false, format!("{}: {}", w, d)),
        };
        println!("{{\"wf\":{},\"why\":{},\"verdict\":{}}}", wf, json_str(&why), json_str(&verdict(&r)));
        std::process::exit(if wf { 0 } else { 1 });
    }
    let (lines, wf, why) = decode_all(&parts, pw.as_deref());
    for l in &lines {
        println!("{}", l);
    }
    if wf {
        println!("{{\"end\":\"OK\"}}");
    } else {
        println!("{{\"end\":\"ERR InvalidData\",\"msg\":{}}}", json_str(&why));
    }
    println!("{{\"wf\":{},\"why\":{},\"verdict\":{}}}", wf, json_str(&why), json_str(&verdict(&strict_decode(&parts))));
    std::process::exit(if wf { 0 } else { 1 });
}
