//! stream area (C01, C03 first half; C16/C18 stream parts): the byte-stream state machines
//! FlattenReader/FlattenWriter, the CBC writer/reader and the CTR writer/reader, and the
//! library round trip through the public API.
//!
//! State-machine ops (toy cipher; exact agreement with coq/Model/StreamRun.v; byte-string
//! lists are comma-separated hex items with "-" for the empty string):
//!   flat_read  chunks bufsizes            -> OK r,r,...                (one item per read call)
//!   flat_write n writes                   -> OK c:p/p,c:p,...  | OK none   (n not instantiated)
//!   cbcw key iv writes                    -> OK c:b/b,c:,...;fin/fin | PANIC (bad key/iv length)
//!   cbcr key iv chunks bufsizes           -> OK r,r,!Kind | ERR kind   (constructor error)
//!   ctrw key iv writes                    -> OK c:x,c:x,...;           | ERR kind
//!   ctrr key iv chunks bufsizes           -> OK r,r,...                | ERR kind
//!   cbc_rt cipher key iv writes cuts bufs -> OK hex   (write, cut the ciphertext, read until Ok(0);
//!   ctr_rt cipher key iv writes cuts bufs -> OK hex    cipher = toy | aes | camellia)
//!   csw type writes                       -> OK c:bytes,c:bytes,...   (ChunkStreamWriter::write call by call: the
//!     returned count and the bytes that reached the writer below = the serialised chunks of that call; a write
//!     item is "-" | hex | g<len>.<seed> (generated: byte i = (seed + i/97) mod 256, at most 2^20 bytes), and the
//!     bytes emitted for a generated write are printed as #<length>.<FNV-1a 64>; model: Sinks.chunk_call_bytes)
//! Library ops (public API, real ciphers and compressors; the model's answer is computed from
//! the case's contents alone, i.e. the model of a round trip is the identity):
//!   rt    writer codec level cipher mode kdf ckind clen cseed extra wpart rbufs -> OK len:fnv len:fnv ...
//!   recut writer codec level cipher mode kdf ckind clen cseed extra cuts  rbufs -> OK len:fnv ...
//!     writer = eb | awf | seb | sae | swf  (EntryBuilder, Archive::write_file, SolidEntryBuilder,
//!              SolidArchive::add_entry, SolidArchive::write_file)
//!     codec = store|deflate|zstd|xz, level = min|def|max|<n>, cipher = none|aes|camellia,
//!     mode = cbc|ctr, kdf = pbkdf2|argon2, ckind = 0 compressible | 1 incompressible
use cipher::block_padding::Pkcs7;
use cipher::consts::{U16, U32};
use cipher::{
    BlockCipher, BlockDecryptMut, BlockEncryptMut, Key, KeyInit, KeyIvInit, KeySizeUser,
    StreamCipher,
};
use libpna::prelude::*;
use libpna::verif_hooks::chunk_type_bytes;
use libpna::verif_hooks::stream as h;
use libpna::{
    Archive, ChunkType, CipherMode, Compression, CompressionLevel, DataKind, Encryption,
    EntryBuilder, EntryName, HashAlgorithm, Metadata, Permission, ReadOptions, SolidEntryBuilder,
    WriteOptions,
};
use pnaverif::util::*;
use std::io::{self, Read, Write};
use std::time::Duration;

// ------------------------------------------------------------------ the toy block cipher
// E_k(b) = (b rotated left by one byte) xor k[0..16]; twin of Cbc.toy_E / toy_D.
#[derive(Clone)]
pub struct Toy {
    k: [u8; 16],
}
impl KeySizeUser for Toy {
    type KeySize = U32;
}
impl KeyInit for Toy {
    fn new(key: &Key<Self>) -> Self {
        let mut k = [0u8; 16];
        k.copy_from_slice(&key[..16]);
        Toy { k }
    }
}
impl BlockCipher for Toy {}
cipher::impl_simple_block_encdec!(
    Toy, U16, state, block,
    encrypt: {
        let b = block.clone_in();
        let out = block.get_out();
        for i in 0..16 {
            out[i] = b[(i + 1) % 16] ^ state.k[i];
        }
    }
    decrypt: {
        let c = block.clone_in();
        let out = block.get_out();
        for i in 0..16 {
            out[(i + 1) % 16] = c[i] ^ state.k[i];
        }
    }
);

// ------------------------------------------------------------------ parsing / printing
fn hex_item(b: &[u8]) -> String {
    if b.is_empty() {
        "-".to_string()
    } else {
        hex(b)
    }
}
fn unhex_item(s: &str) -> Option<Vec<u8>> {
    if s == "-" {
        Some(Vec::new())
    } else {
        unhex(s)
    }
}
fn hexlist(s: &str) -> Vec<Vec<u8>> {
    if s.is_empty() {
        return Vec::new();
    }
    s.split(',').map(unhex_item).collect::<Option<Vec<_>>>().unwrap_or_default()
}
fn declist(s: &str) -> Vec<usize> {
    if s.is_empty() {
        return Vec::new();
    }
    s.split(',').map(|x| x.parse().ok()).collect::<Option<Vec<_>>>().unwrap_or_default()
}
fn show_hexlist(l: &[Vec<u8>]) -> String {
    l.iter().map(|b| hex_item(b)).collect::<Vec<_>>().join(",")
}
fn show_declist(l: &[usize]) -> String {
    l.iter().map(|b| b.to_string()).collect::<Vec<_>>().join(",")
}
fn show_reads(rs: &[io::Result<Vec<u8>>]) -> String {
    rs.iter()
        .map(|r| match r {
            Ok(b) => hex_item(b),
            Err(e) => format!("!{}", ekind(e)),
        })
        .collect::<Vec<_>>()
        .join(",")
}
fn show_calls(inner: &[Vec<Vec<u8>>], counts: &[usize], fin: &[Vec<u8>]) -> String {
    let calls: Vec<String> = inner
        .iter()
        .zip(counts)
        .map(|(ws, c)| format!("{}:{}", c, ws.iter().map(|b| hex_item(b)).collect::<Vec<_>>().join("/")))
        .collect();
    format!("{};{}", calls.join(","), fin.iter().map(|b| hex_item(b)).collect::<Vec<_>>().join("/"))
}
fn arg<'a>(c: &'a Case, i: usize) -> &'a str {
    c.args.get(i).copied().unwrap_or("")
}

/// cut `data` into chunks whose sizes are taken cyclically from `sizes` (twin of StreamRun.cut_by)
fn cut_by(sizes: &[usize], data: &[u8]) -> Vec<Vec<u8>> {
    if sizes.iter().sum::<usize>() == 0 {
        return if data.is_empty() { vec![] } else { vec![data.to_vec()] };
    }
    let mut out = Vec::new();
    let mut pos = 0;
    let mut i = 0;
    while pos < data.len() {
        let s = sizes[i % sizes.len()].min(data.len() - pos);
        out.push(data[pos..pos + s].to_vec());
        pos += s;
        i += 1;
    }
    out
}

/// the caller's loop: read with the given buffer sizes, cyclically, until a read returns 0
fn read_cycling<R: Read>(mut r: R, bufs: &[usize]) -> io::Result<Vec<u8>> {
    if bufs.is_empty() {
        return Err(io::Error::other("no buffer sizes"));
    }
    let mut out = Vec::new();
    let mut i = 0;
    loop {
        let mut buf = vec![0u8; bufs[i % bufs.len()]];
        i += 1;
        let n = r.read(&mut buf)?;
        if n == 0 {
            return Ok(out);
        }
        if n > buf.len() {
            return Err(io::Error::other("read returned more than the buffer holds"));
        }
        out.extend_from_slice(&buf[..n]);
    }
}

// ------------------------------------------------------------------ generated contents
fn content(kind: u64, n: usize, seed: u64) -> Vec<u8> {
    let mut x = seed | 1;
    (0..n)
        .map(|i| {
            if kind == 0 {
                (seed.wrapping_add(i as u64 / 97) % 256) as u8
            } else {
                x ^= x << 13;
                x ^= x >> 7;
                x ^= x << 17;
                (x >> 24) as u8
            }
        })
        .collect()
}
fn fnv(b: &[u8]) -> u64 {
    let mut h: u64 = 14695981039346656037;
    for x in b {
        h = (h ^ *x as u64).wrapping_mul(1099511628211);
    }
    h
}
fn case_contents(kind: u64, n: usize, seed: u64, extra: u64) -> Vec<Vec<u8>> {
    let mut v = vec![content(kind, n, seed)];
    for i in 1..=extra.min(8) {
        let l = ((n as u64) * 7 + 13 * i) % 50;
        v.push(content(kind, l as usize, seed.wrapping_add(i)));
    }
    v
}

// ------------------------------------------------------------------ library round trip
const PW: &str = "correct horse";

fn options(codec: &str, level: &str, cipher: &str, mode: &str, kdf: &str) -> WriteOptions {
    let mut b = WriteOptions::builder();
    b.compression(match codec {
        "deflate" => Compression::Deflate,
        "zstd" => Compression::ZStandard,
        "xz" => Compression::XZ,
        _ => Compression::No,
    });
    b.compression_level(match level {
        "min" => CompressionLevel::min(),
        "max" => CompressionLevel::max(),
        "def" => CompressionLevel::default(),
        n => CompressionLevel::from(n.parse::<i64>().unwrap_or(1)),
    });
    b.encryption(match cipher {
        "aes" => Encryption::Aes,
        "camellia" => Encryption::Camellia,
        _ => Encryption::No,
    });
    b.cipher_mode(if mode == "cbc" { CipherMode::CBC } else { CipherMode::CTR });
    b.hash_algorithm(if kdf == "argon2" {
        HashAlgorithm::argon2id_with(Some(1), Some(8), Some(1))
    } else {
        HashAlgorithm::pbkdf2_sha256_with(Some(1))
    });
    if cipher != "none" {
        b.password(Some(PW));
    }
    b.build()
}

fn entry_name(i: usize) -> String {
    format!("dir{}/entry{}.bin", i, i)
}
fn times(seed: u64, i: usize) -> (Duration, Duration, Duration) {
    let c = 1_600_000_000 + seed % 1000 + i as u64;
    (Duration::from_secs(c), Duration::from_secs(c + 10), Duration::from_secs(c + 20))
}
fn perm(i: usize) -> Permission {
    Permission::new(1000 + i as u64, "user".into(), 100, "group".into(), 0o640 + (i as u16 % 8))
}
fn metadata(seed: u64, i: usize) -> Metadata {
    let (c, m, a) = times(seed, i);
    Metadata::new()
        .with_created(Some(c))
        .with_modified(Some(m))
        .with_accessed(Some(a))
        .with_permission(Some(perm(i)))
}

/// feed `data` to `w` sliced as `part` says (sizes taken cyclically; zero = a zero-length
/// write), using `write` and honouring the returned count like any caller must
fn sliced_write<W: Write>(w: &mut W, data: &[u8], part: &[usize]) -> io::Result<()> {
    if part.iter().sum::<usize>() == 0 {
        return w.write_all(data);
    }
    let mut pos = 0;
    let mut i = 0;
    while pos < data.len() {
        let s = part[i % part.len()].min(data.len() - pos);
        i += 1;
        if s == 0 {
            w.write(&[])?;
            continue;
        }
        let mut piece = &data[pos..pos + s];
        while !piece.is_empty() {
            let n = w.write(piece)?;
            if n == 0 || n > piece.len() {
                return Err(io::Error::new(io::ErrorKind::WriteZero, "write returned a bad count"));
            }
            piece = &piece[n..];
        }
        pos += s;
    }
    Ok(())
}

fn built_entry(opts: WriteOptions, seed: u64, i: usize, data: &[u8], part: &[usize]) -> io::Result<libpna::NormalEntry> {
    let mut b = EntryBuilder::new_file(EntryName::from(entry_name(i).as_str()), opts)?;
    let (c, m, a) = times(seed, i);
    b.created(c).modified(m).accessed(a).permission(perm(i));
    sliced_write(&mut b, data, part)?;
    b.build()
}

fn build_archive(writer: &str, opts: WriteOptions, seed: u64, contents: &[Vec<u8>], part: &[usize]) -> io::Result<Vec<u8>> {
    match writer {
        "eb" => {
            let mut a = Archive::write_header(Vec::new())?;
            for (i, d) in contents.iter().enumerate() {
                a.add_entry(built_entry(opts.clone(), seed, i, d, part)?)?;
            }
            a.finalize()
        }
        "awf" => {
            let mut a = Archive::write_header(Vec::new())?;
            for (i, d) in contents.iter().enumerate() {
                a.write_file(EntryName::from(entry_name(i).as_str()), metadata(seed, i), opts.clone(), |w| {
                    sliced_write(w, d, part)
                })?;
            }
            a.finalize()
        }
        "seb" => {
            let mut a = Archive::write_header(Vec::new())?;
            let mut s = SolidEntryBuilder::new(opts)?;
            for (i, d) in contents.iter().enumerate() {
                s.add_entry(built_entry(WriteOptions::store(), seed, i, d, part)?)?;
            }
            a.add_entry(s.build()?)?;
            a.finalize()
        }
        "sae" => {
            let mut a = Archive::write_solid_header(Vec::new(), opts)?;
            for (i, d) in contents.iter().enumerate() {
                a.add_entry(built_entry(WriteOptions::store(), seed, i, d, part)?)?;
            }
            a.finalize()
        }
        "swf" => {
            let mut a = Archive::write_solid_header(Vec::new(), opts)?;
            for (i, d) in contents.iter().enumerate() {
                a.write_file(EntryName::from(entry_name(i).as_str()), metadata(seed, i), |w| sliced_write(w, d, part))?;
            }
            a.finalize()
        }
        _ => Err(io::Error::other("unknown writer")),
    }
}

struct Decoded {
    name: String,
    content: Vec<u8>,
    meta_ok: Result<(), String>,
    raw_size: Option<u128>,
    compressed: usize,
}

fn decode_archive(bytes: &[u8], seed: u64, bufs: &[usize]) -> io::Result<Vec<Decoded>> {
    let mut a = Archive::read_header(bytes)?;
    let mut out = Vec::new();
    for (i, e) in a.entries_with_password(Some(PW)).enumerate() {
        let e = e?;
        let content = read_cycling(e.reader(ReadOptions::with_password(Some(PW)))?, bufs)?;
        let m = e.metadata();
        let (c, mo, ac) = times(seed, i);
        let mut meta_ok = Ok(());
        if e.header().data_kind() != DataKind::File {
            meta_ok = Err("kind".to_string());
        } else if m.created() != Some(c) || m.modified() != Some(mo) || m.accessed() != Some(ac) {
            meta_ok = Err(format!("times {:?} {:?} {:?}", m.created(), m.modified(), m.accessed()));
        } else if m.permission() != Some(&perm(i)) {
            meta_ok = Err(format!("permission {:?}", m.permission()));
        }
        out.push(Decoded {
            name: e.header().path().as_str().to_string(),
            content,
            meta_ok,
            raw_size: m.raw_file_size(),
            compressed: m.compressed_size(),
        });
    }
    Ok(out)
}

/// (type, payload) of every chunk of an archive
fn chunk_list(bytes: &[u8]) -> io::Result<Vec<([u8; 4], Vec<u8>)>> {
    let mut v = Vec::new();
    for c in libpna::read_as_chunks(bytes)? {
        let c = c?;
        v.push((chunk_type_bytes(c.ty()), c.data().to_vec()));
    }
    Ok(v)
}
fn put_chunk(out: &mut Vec<u8>, ty: &[u8; 4], data: &[u8]) {
    out.extend_from_slice(&(data.len() as u32).to_be_bytes());
    out.extend_from_slice(ty);
    out.extend_from_slice(data);
    let mut hsh = crc32fast::Hasher::new();
    hsh.update(ty);
    hsh.update(data);
    out.extend_from_slice(&hsh.finalize().to_be_bytes());
}
/// re-cut every run of consecutive FDAT (resp. SDAT) chunks with `cuts`
fn recut_archive(bytes: &[u8], cuts: &[usize]) -> io::Result<Vec<u8>> {
    let chunks = chunk_list(bytes)?;
    let mut out = bytes[..8].to_vec();
    let fdat = chunk_type_bytes(ChunkType::FDAT);
    let sdat = chunk_type_bytes(ChunkType::SDAT);
    let mut run: Option<([u8; 4], Vec<u8>)> = None;
    for (ty, data) in chunks {
        let is_data = ty == fdat || ty == sdat;
        if let Some((rty, buf)) = &mut run {
            if is_data && *rty == ty {
                buf.extend_from_slice(&data);
                continue;
            }
            for p in cut_by(cuts, buf) {
                put_chunk(&mut out, rty, &p);
            }
            run = None;
        }
        if is_data {
            run = Some((ty, data));
        } else {
            put_chunk(&mut out, &ty, &data);
        }
    }
    Ok(out)
}

fn show_decoded(d: &[Decoded]) -> String {
    d.iter().map(|e| format!("{}:{}", e.content.len(), fnv(&e.content))).collect::<Vec<_>>().join(" ")
}

/// the C01 oracle on a decoded archive
fn check_decoded(d: &[Decoded], want: &[Vec<u8>], writer: &str, archive: &[u8], oracle: &mut Vec<String>, what: &str) {
    if d.len() != want.len() {
        oracle.push(format!("{what}: {} entries decoded, {} written", d.len(), want.len()));
        return;
    }
    for (i, (e, w)) in d.iter().zip(want).enumerate() {
        if e.name != entry_name(i) {
            oracle.push(format!("{what}: entry {i} name {:?}", e.name));
        }
        if &e.content != w {
            let common = e.content.iter().zip(w.iter()).take_while(|(a, b)| a == b).count();
            oracle.push(format!(
                "{what}: entry {i} content differs: {} bytes decoded, {} written, first difference at {}",
                e.content.len(), w.len(), common
            ));
        }
        if let Err(m) = &e.meta_ok {
            oracle.push(format!("{what}: entry {i} metadata differs: {m}"));
        }
        // raw_file_size: recorded by EntryBuilder (eb, seb, sae), not by the streaming writers
        match (writer, e.raw_size) {
            ("eb" | "seb" | "sae", Some(n)) if n == w.len() as u128 => {}
            ("awf" | "swf", None) => {}
            (_, r) => oracle.push(format!("{what}: entry {i} raw_file_size {:?}, content length {}", r, w.len())),
        }
        // inner entries of solid archives are stored: compressed_size = content length
        if matches!(writer, "seb" | "sae" | "swf") && e.compressed != w.len() {
            oracle.push(format!("{what}: entry {i} compressed_size {} but stored payload is {}", e.compressed, w.len()));
        }
    }
    // normal entries: compressed_size = sum of the FDAT payload lengths of that entry
    if matches!(writer, "eb" | "awf") {
        if let Ok(chunks) = chunk_list(archive) {
            let fdat = chunk_type_bytes(ChunkType::FDAT);
            let fend = chunk_type_bytes(ChunkType::FEND);
            let mut sums = Vec::new();
            let mut cur = 0usize;
            for (ty, data) in &chunks {
                if *ty == fdat {
                    cur += data.len();
                } else if *ty == fend {
                    sums.push(cur);
                    cur = 0;
                }
            }
            for (i, e) in d.iter().enumerate() {
                if sums.get(i) != Some(&e.compressed) {
                    oracle.push(format!("{what}: entry {i} compressed_size {} but FDAT payloads sum to {:?}", e.compressed, sums.get(i)));
                }
            }
        }
    }
}

fn run_rt(c: &Case, oracle: &mut Vec<String>, recut: bool) -> String {
    let writer = arg(c, 0).to_string();
    let opts = options(arg(c, 1), arg(c, 2), arg(c, 3), arg(c, 4), arg(c, 5));
    let kind: u64 = arg(c, 6).parse().unwrap_or(0);
    let n: usize = arg(c, 7).parse().unwrap_or(0);
    let seed: u64 = arg(c, 8).parse().unwrap_or(0);
    let extra: u64 = arg(c, 9).parse().unwrap_or(0);
    let part_or_cuts = declist(arg(c, 10));
    let bufs = declist(arg(c, 11));
    let want = case_contents(kind, n, seed, extra);
    let want2 = want.clone();
    let w2 = writer.clone();
    let r = guard(move || -> io::Result<(Vec<u8>, Option<Vec<u8>>, Vec<Decoded>, Option<Vec<Decoded>>)> {
        let part: &[usize] = if recut { &[] } else { &part_or_cuts };
        let archive = build_archive(&w2, opts, seed, &want2, part)?;
        if recut {
            let before = decode_archive(&archive, seed, &bufs)?;
            let cut = recut_archive(&archive, &part_or_cuts)?;
            let after = decode_archive(&cut, seed, &bufs)?;
            Ok((archive, Some(cut), after, Some(before)))
        } else {
            let d = decode_archive(&archive, seed, &bufs)?;
            Ok((archive, None, d, None))
        }
    });
    match r {
        Ok(Ok((archive, cut, d, before))) => {
            if let Some(b) = &before {
                check_decoded(b, &want, &writer, &archive, oracle, "before re-cut");
                if b.len() != d.len() || b.iter().zip(&d).any(|(x, y)| x.content != y.content || x.name != y.name) {
                    oracle.push("decoded entries differ after re-cutting the data chunks".to_string());
                }
            }
            let bytes = cut.as_deref().unwrap_or(&archive);
            check_decoded(&d, &want, &writer, bytes, oracle, if recut { "after re-cut" } else { "round trip" });
            format!("OK {}", show_decoded(&d))
        }
        Ok(Err(e)) => {
            oracle.push(format!("{} failed: {:?}: {}", if recut { "re-cut round trip" } else { "round trip" }, e.kind(), e));
            format!("ERR {}", ekind(&e))
        }
        Err(()) => {
            oracle.push("panic during the round trip".to_string());
            "PANIC".to_string()
        }
    }
}

// ------------------------------------------------------------------ reference primitives
fn ref_cbc_decrypt<C>(key: &[u8], iv: &[u8], ct: &[u8]) -> Option<Vec<u8>>
where
    C: BlockDecryptMut + BlockCipher + KeyInit,
{
    let d = cbc::Decryptor::<C>::new_from_slices(key, iv).ok()?;
    d.decrypt_padded_vec_mut::<Pkcs7>(ct).ok()
}
fn ref_ctr<C>(key: &[u8], iv: &[u8], data: &[u8]) -> Option<Vec<u8>>
where
    C: BlockEncryptMut + BlockCipher + KeyInit + cipher::BlockSizeUser<BlockSize = U16>,
{
    let mut c = ctr::Ctr128BE::<C>::new_from_slices(key, iv).ok()?;
    let mut v = data.to_vec();
    c.apply_keystream(&mut v);
    Some(v)
}

/// oracle on a sequence of reads against the byte stream they should deliver
fn check_reads(rs: &[io::Result<Vec<u8>>], bufs: &[usize], stream: &[u8], oracle: &mut Vec<String>, what: &str) {
    let mut pos = 0;
    for (i, r) in rs.iter().enumerate() {
        match r {
            Err(e) => {
                oracle.push(format!("{what}: read {i} failed with {} on a well-formed stream", ekind(e)));
                return;
            }
            Ok(b) => {
                if b.len() > bufs[i] {
                    oracle.push(format!("{what}: read {i} returned {} bytes into a {}-byte buffer", b.len(), bufs[i]));
                }
                if stream.len() < pos + b.len() || &stream[pos..pos + b.len()] != b.as_slice() {
                    oracle.push(format!("{what}: read {i} returned bytes that are not the next bytes of the stream (position {pos})"));
                    return;
                }
                if b.is_empty() && bufs[i] > 0 && pos < stream.len() {
                    oracle.push(format!("{what}: read {i} returned 0 with {} bytes still undelivered", stream.len() - pos));
                }
                pos += b.len();
            }
        }
    }
}

fn rt_generic<C>(c: &Case, cbc_mode: bool) -> Result<io::Result<Vec<u8>>, ()>
where
    C: BlockEncryptMut + BlockDecryptMut + BlockCipher + KeyInit + cipher::BlockSizeUser<BlockSize = U16> + 'static,
{
    let key = unhex_item(arg(c, 1)).unwrap_or_default();
    let iv = unhex_item(arg(c, 2)).unwrap_or_default();
    let writes = hexlist(arg(c, 3));
    let cuts = declist(arg(c, 4));
    let bufs = declist(arg(c, 5));
    guard(move || -> io::Result<Vec<u8>> {
        let (inner, _counts, fin) = if cbc_mode {
            h::cbc_encrypt_writes::<C>(&key, &iv, &writes)?
        } else {
            h::ctr_encrypt_writes::<C>(&key, &iv, &writes)?
        };
        let mut ct: Vec<u8> = inner.concat().concat();
        ct.extend(fin.concat());
        let chunks = cut_by(&cuts, &ct);
        // one read per size, sizes taken cyclically; a positive read returns at least one byte
        // until the end, so ct.len() + 2 reads always reach the empty read
        if bufs.is_empty() {
            return Err(io::Error::other("no buffer sizes"));
        }
        let sizes: Vec<usize> = (0..ct.len() + 2).map(|i| bufs[i % bufs.len()]).collect();
        let rs = if cbc_mode {
            h::cbc_decrypt_reads::<C>(&key, &iv, &chunks, &sizes)?
        } else {
            h::ctr_decrypt_reads::<C>(&key, &iv, &chunks, &sizes)?
        };
        let mut out = Vec::new();
        for r in rs {
            let b = r?;
            if b.is_empty() {
                return Ok(out);
            }
            out.extend_from_slice(&b);
        }
        Err(io::Error::other("no end of stream"))
    })
}

// ------------------------------------------------------------------ ChunkStreamWriter call by call
/// a write item of a `csw` case: "-" | hex | g<len>.<seed> -> (generated?, bytes); twin of StreamRun.write_item
fn write_item(s: &str) -> Option<(bool, Vec<u8>)> {
    if let Some(g) = s.strip_prefix('g') {
        let (a, b) = g.split_once('.')?;
        if a.is_empty() || b.is_empty() || !a.bytes().chain(b.bytes()).all(|x| x.is_ascii_digit()) {
            return None;
        }
        let n: u128 = a.parse().ok()?;
        let seed: u128 = b.parse().ok()?;
        let n = n.min(1 << 20) as usize;
        Some((true, (0..n).map(|i| ((seed + i as u128 / 97) % 256) as u8).collect()))
    } else {
        unhex_item(s).map(|d| (false, d))
    }
}
/// an independent chunk parser: (type, payload) of back-to-back chunks, None unless lengths and CRCs are exact
fn parse_chunks(mut b: &[u8]) -> Option<Vec<([u8; 4], Vec<u8>)>> {
    let mut v = Vec::new();
    while !b.is_empty() {
        if b.len() < 12 {
            return None;
        }
        let l = u32::from_be_bytes(b[..4].try_into().ok()?) as usize;
        if b.len() < 12 + l {
            return None;
        }
        let ty: [u8; 4] = b[4..8].try_into().ok()?;
        let mut hsh = crc32fast::Hasher::new();
        hsh.update(&b[4..8 + l]);
        if hsh.finalize().to_be_bytes() != b[8 + l..12 + l] {
            return None;
        }
        v.push((ty, b[8..8 + l].to_vec()));
        b = &b[12 + l..];
    }
    Some(v)
}

// ------------------------------------------------------------------ run
fn run(c: &Case, oracle: &mut Vec<String>) -> String {
    match c.op {
        "flat_read" => {
            let chunks = hexlist(arg(c, 0));
            let bufs = declist(arg(c, 1));
            let (ch, bf) = (chunks.clone(), bufs.clone());
            match guard(move || h::flatten_reads(&ch, &bf)) {
                Ok(rs) => {
                    check_reads(&rs, &bufs, &chunks.concat(), oracle, "FlattenReader");
                    format!("OK {}", show_reads(&rs))
                }
                Err(()) => "PANIC".to_string(),
            }
        }
        "flat_write" => {
            let n: usize = arg(c, 0).parse().unwrap_or(0);
            let writes = hexlist(arg(c, 1));
            let ws = writes.clone();
            match guard(move || h::flatten_writes(&ws, n)) {
                Ok(None) => "OK none".to_string(),
                Ok(Some(calls)) => {
                    for (i, (cnt, pieces)) in calls.iter().enumerate() {
                        if *cnt != writes[i].len() || pieces.concat() != writes[i] {
                            oracle.push(format!("FlattenWriter: write {i} lost or invented bytes"));
                        }
                        if pieces.iter().any(|p| p.is_empty() || p.len() > n) {
                            oracle.push(format!("FlattenWriter: write {i} produced an empty or oversized piece"));
                        }
                    }
                    let s: Vec<String> = calls
                        .iter()
                        .map(|(cnt, ps)| format!("{}:{}", cnt, ps.iter().map(|b| hex_item(b)).collect::<Vec<_>>().join("/")))
                        .collect();
                    format!("OK {}", s.join(","))
                }
                Err(()) => "PANIC".to_string(),
            }
        }
        "cbcw" | "ctrw" => {
            let key = unhex_item(arg(c, 0)).unwrap_or_default();
            let iv = unhex_item(arg(c, 1)).unwrap_or_default();
            let writes = hexlist(arg(c, 2));
            let cbc_mode = c.op == "cbcw";
            let (k, v, w) = (key.clone(), iv.clone(), writes.clone());
            let r = guard(move || {
                if cbc_mode {
                    h::cbc_encrypt_writes::<Toy>(&k, &v, &w)
                } else {
                    h::ctr_encrypt_writes::<Toy>(&k, &v, &w)
                }
            });
            if let Ok(Ok((inner, counts, fin))) = &r {
                let pt = writes.concat();
                let mut ct: Vec<u8> = inner.concat().concat();
                ct.extend(fin.concat());
                if counts.iter().zip(&writes).any(|(c, w)| *c != w.len()) {
                    oracle.push("cipher writer returned a count different from the bytes it was given".to_string());
                }
                if cbc_mode {
                    if inner.iter().flatten().chain(fin.iter()).any(|b| b.len() != 16) {
                        oracle.push("CBC writer made an inner write that is not one 16-byte block".to_string());
                    }
                    if ref_cbc_decrypt::<Toy>(&key, &iv, &ct).as_deref() != Some(&pt[..]) {
                        oracle.push("CBC writer output does not decrypt (one-shot reference) to the written bytes".to_string());
                    }
                } else if ref_ctr::<Toy>(&key, &iv, &ct).as_deref() != Some(&pt[..]) {
                    oracle.push("CTR writer output does not decrypt (one-shot reference) to the written bytes".to_string());
                }
            }
            show_res(r, |(inner, counts, fin)| show_calls(&inner, &counts, &fin))
        }
        "cbcr" | "ctrr" => {
            let key = unhex_item(arg(c, 0)).unwrap_or_default();
            let iv = unhex_item(arg(c, 1)).unwrap_or_default();
            let chunks = hexlist(arg(c, 2));
            let bufs = declist(arg(c, 3));
            let cbc_mode = c.op == "cbcr";
            let (k, v, ch, bf) = (key.clone(), iv.clone(), chunks.clone(), bufs.clone());
            let r = guard(move || {
                if cbc_mode {
                    h::cbc_decrypt_reads::<Toy>(&k, &v, &ch, &bf)
                } else {
                    h::ctr_decrypt_reads::<Toy>(&k, &v, &ch, &bf)
                }
            });
            let ct = chunks.concat();
            let reference = if cbc_mode { ref_cbc_decrypt::<Toy>(&key, &iv, &ct) } else { ref_ctr::<Toy>(&key, &iv, &ct) };
            match (&r, &reference) {
                (Ok(Ok(rs)), Some(pt)) => check_reads(rs, &bufs, pt, oracle, if cbc_mode { "CBC reader" } else { "CTR reader" }),
                (Ok(Err(e)), Some(_)) => oracle.push(format!("cipher reader constructor failed with {} on a well-formed stream", ekind(e))),
                (Err(()), _) => oracle.push("cipher reader panicked".to_string()),
                _ => {}
            }
            show_res(r, |rs| show_reads(&rs))
        }
        "cbc_rt" | "ctr_rt" => {
            let cbc_mode = c.op == "cbc_rt";
            let r = match arg(c, 0) {
                "aes" => rt_generic::<aes::Aes256>(c, cbc_mode),
                "camellia" => rt_generic::<camellia::Camellia256>(c, cbc_mode),
                _ => rt_generic::<Toy>(c, cbc_mode),
            };
            let pt = hexlist(arg(c, 3)).concat();
            match &r {
                Ok(Ok(out)) if *out == pt => {}
                Ok(Ok(out)) => oracle.push(format!("cipher round trip returned {} bytes, {} written (or different bytes)", out.len(), pt.len())),
                Ok(Err(e)) => oracle.push(format!("cipher round trip failed: {}", ekind(e))),
                Err(()) => oracle.push("cipher round trip panicked".to_string()),
            }
            show_res(r, |out| hex_item(&out))
        }
        "csw" => {
            let ty = unhex_item(arg(c, 0)).unwrap_or_default();
            let items: Option<Vec<(bool, Vec<u8>)>> =
                if arg(c, 1).is_empty() { Some(Vec::new()) } else { arg(c, 1).split(',').map(write_item).collect() };
            let (Ok(ty4), Some(items)) = (<[u8; 4]>::try_from(&ty[..]), items) else {
                return "BADCASE".to_string();
            };
            let writes: Vec<Vec<u8>> = items.iter().map(|(_, d)| d.clone()).collect();
            let ws = writes.clone();
            let r = guard(move || h::chunk_stream_writes(ty4, &ws));
            if let Ok(Ok(calls)) = &r {
                // Write's contract, independent of the model: the chunks of a call carry exactly the bytes the call counts
                for (i, ((n, bytes), w)) in calls.iter().zip(&writes).enumerate() {
                    if *n > w.len() || (*n == 0 && !w.is_empty()) {
                        oracle.push(format!("ChunkStreamWriter: write {i} of {} bytes returned {n}", w.len()));
                        continue;
                    }
                    match parse_chunks(bytes) {
                        Some(cs) => {
                            if cs.iter().any(|(t, _)| *t != ty4) {
                                oracle.push(format!("ChunkStreamWriter: write {i} emitted a chunk of another type"));
                            }
                            let carried: Vec<u8> = cs.iter().flat_map(|(_, d)| d.iter().copied()).collect();
                            if carried != w[..*n] {
                                oracle.push(format!(
                                    "ChunkStreamWriter: write {i} returned {n} but its chunks carry {} bytes (or other bytes than the first {n} of the buffer)",
                                    carried.len()
                                ));
                            }
                        }
                        None => oracle.push(format!("ChunkStreamWriter: write {i} emitted bytes that are not a sequence of chunks with correct length and CRC")),
                    }
                }
            }
            show_res(r, |calls| {
                calls
                    .iter()
                    .zip(&items)
                    .map(|((n, bytes), (g, _))| {
                        if *g { format!("{}:#{}.{}", n, bytes.len(), fnv(bytes)) } else { format!("{}:{}", n, hex_item(bytes)) }
                    })
                    .collect::<Vec<_>>()
                    .join(",")
            })
        }
        "rt" => run_rt(c, oracle, false),
        "recut" => run_rt(c, oracle, true),
        _ => "BADCASE".to_string(),
    }
}

// ------------------------------------------------------------------ generators
const LENS: [usize; 11] = [0, 1, 15, 16, 17, 31, 32, 33, 4095, 4096, 4097];
const SMALL_LENS: [usize; 16] = [0, 1, 2, 15, 16, 17, 31, 32, 33, 47, 48, 49, 63, 64, 65, 100];
const BUFS: [usize; 7] = [1, 7, 10, 15, 16, 17, 4096];

/// a partition style for `n` bytes as a cyclic size list
fn gen_partition(r: &mut Rng, n: usize) -> Vec<usize> {
    match r.below(8) {
        0 => vec![n.max(1)],                                   // single call
        1 => vec![1],                                          // bytewise
        2 => vec![16 * r.range(1, 4) as usize],                // block-aligned
        3 => vec![15, 17, 1, 33],                              // block-straddling
        4 => vec![0, r.range(1, 40) as usize, 0, 0, r.range(1, 5) as usize], // with zero-length writes
        5 => (0..r.range(1, 6)).map(|_| r.range(0, 70) as usize).collect::<Vec<_>>(),
        6 => vec![r.range(1, 5000) as usize],
        _ => (0..r.range(2, 9)).map(|_| *r.pick(&[0usize, 1, 15, 16, 17, 31, 32, 33, 100, 1000])).collect(),
    }
}
fn positive(mut v: Vec<usize>) -> Vec<usize> {
    for x in v.iter_mut() {
        if *x == 0 {
            *x = 1;
        }
    }
    if v.is_empty() {
        v.push(1);
    }
    v
}
fn gen_bufs(r: &mut Rng) -> Vec<usize> {
    match r.below(4) {
        0 | 1 => vec![*r.pick(&BUFS)],
        2 => (0..r.range(2, 6)).map(|_| *r.pick(&BUFS)).collect(),
        _ => (0..r.range(1, 6)).map(|_| r.range(1, 300) as usize).collect(),
    }
}
/// split concrete bytes into pieces (state-machine cases carry the pieces themselves)
fn split_bytes(r: &mut Rng, data: &[u8], zero_ok: bool) -> Vec<Vec<u8>> {
    let style = r.below(7);
    let mut out = Vec::new();
    let mut pos = 0;
    if style == 0 {
        return if data.is_empty() && !r.chance(1, 2) { vec![] } else { vec![data.to_vec()] };
    }
    while pos < data.len() {
        let s = match style {
            1 => 1,
            2 => 16 * r.range(1, 3) as usize,
            3 => *r.pick(&[15usize, 17]),
            4 => r.range(0, 40) as usize,
            5 => *r.pick(&[0usize, 1, 7, 16, 33]),
            _ => r.range(1, 100) as usize,
        };
        let s = if s == 0 && !zero_ok { 1 } else { s }.min(data.len() - pos);
        out.push(data[pos..pos + s].to_vec());
        pos += s;
    }
    if zero_ok && r.chance(1, 4) {
        let at = r.below(out.len() as u64 + 1) as usize;
        out.insert(at, Vec::new());
    }
    out
}
fn gen_reads(r: &mut Rng, total: usize, zero_ok: bool) -> Vec<usize> {
    // a read schedule long enough to drain `total` bytes and see the end twice
    let style = r.below(5);
    let mut v = Vec::new();
    let mut covered = 0usize;
    let mut guard = 0;
    while (covered < total + 1 || v.len() < 2) && guard < 700 {
        guard += 1;
        let s = match style {
            0 => *r.pick(&BUFS),
            1 => 1,
            2 => *r.pick(&[15usize, 16, 17]),
            3 => r.range(0, 50) as usize,
            _ => *r.pick(&[0usize, 1, 7, 10, 16, 33, 100, 4096]),
        };
        let s = if s == 0 && !zero_ok { 1 } else { s };
        covered += s;
        v.push(s);
    }
    v.push(*r.pick(&[1usize, 16, 0]));
    v.push(7);
    v
}
fn toy_key(r: &mut Rng) -> Vec<u8> {
    if r.chance(1, 40) {
        let n = *r.pick(&[0usize, 16, 31, 33]);
        r.bytes(n)
    } else {
        r.bytes(32)
    }
}
fn toy_iv(r: &mut Rng) -> Vec<u8> {
    if r.chance(1, 60) {
        let n = *r.pick(&[0usize, 15, 17]);
        r.bytes(n)
    } else {
        r.bytes(16)
    }
}
fn sm_len(r: &mut Rng) -> usize {
    match r.below(10) {
        0..=5 => *r.pick(&SMALL_LENS),
        6..=8 => r.range(0, 300) as usize,
        _ => *r.pick(&[4095usize, 4096, 4097]),
    }
}
/// a valid toy-CBC ciphertext of a random plaintext (one-shot reference encryptor)
fn toy_cbc_ct(key: &[u8], iv: &[u8], pt: &[u8]) -> Option<Vec<u8>> {
    let e = cbc::Encryptor::<Toy>::new_from_slices(key, iv).ok()?;
    Some(e.encrypt_padded_vec_mut::<Pkcs7>(pt))
}

fn gen_sm(r: &mut Rng, prop: &str) -> String {
    let ops: &[&str] = if prop == "C03" {
        &["flat_read", "cbcr", "cbcr", "ctrr", "cbc_rt", "ctr_rt"]
    } else {
        &["flat_read", "flat_write", "cbcw", "cbcw", "cbcr", "cbcr", "ctrw", "ctrr", "cbc_rt", "cbc_rt", "ctr_rt"]
    };
    let op = *r.pick(ops);
    gen_sm_op(r, op)
}
fn gen_sm_op(r: &mut Rng, op: &str) -> String {
    match op {
        "flat_read" => {
            let n = sm_len(r).min(400);
            let data = r.bytes(n);
            let chunks = split_bytes(r, &data, true);
            let bufs = gen_reads(r, n, true);
            format!("flat_read\t{}\t{}", show_hexlist(&chunks), show_declist(&bufs))
        }
        "flat_write" => {
            let n = *r.pick(&[1usize, 3, 16, 4096, 3, 16, 2]);
            let len = sm_len(r).min(300);
            let data = r.bytes(len);
            let writes = split_bytes(r, &data, true);
            format!("flat_write\t{}\t{}", n, show_hexlist(&writes))
        }
        "cbcw" | "ctrw" => {
            let (key, iv) = (toy_key(r), toy_iv(r));
            let n = sm_len(r);
            let data = r.bytes(n);
            let writes = split_bytes(r, &data, true);
            format!("{}\t{}\t{}\t{}", op, hex_item(&key), hex_item(&iv), show_hexlist(&writes))
        }
        "cbcr" => {
            let (key, iv) = (toy_key(r), toy_iv(r));
            let n = sm_len(r).min(600);
            let pt = r.bytes(n);
            let mut ct = toy_cbc_ct(&key, &iv, &pt).unwrap_or_else(|| r.bytes(((n / 16) + 1) * 16));
            match r.below(12) {
                0 => {
                    let k = r.below(ct.len() as u64 + 1) as usize; // truncated anywhere
                    ct.truncate(k);
                }
                1 => {
                    let l = ct.len();
                    ct[l - 1] = r.next() as u8; // padding byte altered
                }
                2 => {
                    let k = r.below(ct.len() as u64) as usize;
                    ct[k] ^= 1 << r.below(8); // one bit flipped
                }
                3 => {
                    let k = r.range(1, 15) as usize;
                    ct.extend(r.bytes(k)); // trailing partial block
                }
                _ => {}
            }
            let chunks = split_bytes(r, &ct, true);
            let bufs = gen_reads(r, n, true);
            format!("cbcr\t{}\t{}\t{}\t{}", hex_item(&key), hex_item(&iv), show_hexlist(&chunks), show_declist(&bufs))
        }
        "ctrr" => {
            let (key, iv) = (toy_key(r), if r.chance(1, 8) { vec![0xff; 16] } else { toy_iv(r) });
            let n = sm_len(r).min(600);
            let ct = r.bytes(n);
            let chunks = split_bytes(r, &ct, true);
            let bufs = gen_reads(r, n, true);
            format!("ctrr\t{}\t{}\t{}\t{}", hex_item(&key), hex_item(&iv), show_hexlist(&chunks), show_declist(&bufs))
        }
        _ => {
            // cbc_rt / ctr_rt
            let cipher = *r.pick(&["toy", "toy", "aes", "camellia"]);
            let (key, iv) = (r.bytes(32), if r.chance(1, 10) { vec![0xff; 16] } else { r.bytes(16) });
            let n = sm_len(r).min(if cipher == "toy" { 400 } else { 5000 });
            let data = r.bytes(n);
            let writes = split_bytes(r, &data, true);
            let cuts = gen_partition(r, n);
            let bufs = positive(gen_bufs(r));
            format!(
                "{}\t{}\t{}\t{}\t{}\t{}\t{}",
                op, cipher, hex_item(&key), hex_item(&iv), show_hexlist(&writes), show_declist(&cuts), show_declist(&bufs)
            )
        }
    }
}

fn gen_level(r: &mut Rng, codec: &str) -> String {
    // every i64 is a legal CompressionLevel for a library caller (the codecs clamp): out-of-range values now and then
    if codec != "store" && r.chance(1, 12) {
        return r.pick(&["0", "-1", "-100", "10", "22", "23", "255", "9223372036854775807", "-9223372036854775808"]).to_string();
    }
    match codec {
        "deflate" => r.pick(&["min", "def", "max", "1", "6", "9"]).to_string(),
        "zstd" => r.pick(&["min", "def", "1", "3", "9", "15"]).to_string(),
        "xz" => r.pick(&["min", "def", "1", "3"]).to_string(),
        _ => "def".to_string(),
    }
}

/// the k-th configuration of the full codec x cipher x mode x writer grid (covers it cyclically)
/// `mid`: contents of 64 KiB + 1 .. 200 000 bytes handed over in ONE write() (or 65537-byte writes): a writer in
/// the pipeline that accepts only part of a large buffer must not lose or re-encrypt the rest
fn gen_lib_mid(r: &mut Rng, k: usize) -> String {
    let codecs = ["store", "store", "store", "zstd", "deflate"];
    let ciphers = [("aes", "ctr"), ("camellia", "ctr"), ("aes", "cbc"), ("none", "ctr"), ("camellia", "cbc")];
    let writers = ["awf", "sae", "swf", "eb", "seb"];
    let codec = codecs[(k / 25) % 5];
    let (cipher, mode) = ciphers[k % 5];
    let writer = writers[(k / 5) % 5];
    let n = *r.pick(&[65537usize, 70001, 131073, 200000]);
    let part = match r.below(3) { 0 => vec![n], 1 => vec![65537, 1], _ => vec![100000] };
    let bufs = vec![*r.pick(&[8192usize, 65536, 100000, 17])];
    format!(
        "rt\t{}\t{}\t{}\t{}\t{}\t{}\t{}\t{}\t{}\t{}\t{}\t{}",
        writer, codec, gen_level(r, codec), cipher, mode, "pbkdf2", r.below(2), n, r.below(1 << 32), 0, show_declist(&part), show_declist(&bufs)
    )
}

fn gen_lib(r: &mut Rng, k: usize, recut: bool, big: bool) -> String {
    let codecs = ["store", "deflate", "zstd", "xz"];
    let ciphers = [("none", "ctr"), ("aes", "cbc"), ("aes", "ctr"), ("camellia", "cbc"), ("camellia", "ctr")];
    let writers = ["eb", "awf", "seb", "sae", "swf"];
    let codec = codecs[k % 4];
    let (cipher, mode) = ciphers[(k / 4) % 5];
    let writer = writers[(k / 20) % 5];
    let kdf = if (k / 100) % 2 == 0 { "pbkdf2" } else { "argon2" };
    let level = gen_level(r, codec);
    let kind = r.below(2);
    let n = if big { 3 * 1024 * 1024 + r.below(40) as usize } else if r.chance(5, 6) { *r.pick(&LENS) } else { r.range(0, 9000) as usize };
    let seed = r.below(1 << 32);
    let extra = if big { 0 } else { *r.pick(&[0u64, 0, 1, 2]) };
    let part = if recut {
        match r.below(7) {
            0 => vec![1],                                         // 1-byte chunks
            1 => vec![0, 1, 0, 0, 15],                            // zero-length chunks, cut inside the IV
            2 => vec![7],                                         // never on a block boundary
            3 => vec![16],
            4 => vec![17, 15, 1],
            5 => (0..r.range(1, 6)).map(|_| r.range(0, 40) as usize).collect(),
            _ => vec![r.range(1, 5000) as usize],
        }
    } else {
        gen_partition(r, n)
    };
    let part = if big { if r.chance(1, 2) { vec![65536, 1, 4097] } else { vec![n] } } else { part };
    let bufs = if big { vec![8192, 17] } else { positive(gen_bufs(r)) };
    format!(
        "{}\t{}\t{}\t{}\t{}\t{}\t{}\t{}\t{}\t{}\t{}\t{}\t{}",
        if recut { "recut" } else { "rt" },
        writer, codec, level, cipher, mode, kdf, kind, n, seed, extra, show_declist(&part), show_declist(&bufs)
    )
}

/// `csw`: a ChunkStreamWriter driven call by call; small writes of assorted lengths, empty writes in between
fn gen_csw(r: &mut Rng) -> String {
    let ty = *r.pick(&[b"FDAT", b"SDAT", b"FDAT", b"SDAT", b"xATR", b"zzZz", b"AEND"]);
    let k = r.below(7) as usize;
    let items: Vec<String> = (0..k)
        .map(|_| match r.below(12) {
            0 | 1 => "-".to_string(),
            2 => format!("g{}.{}", *r.pick(&[0usize, 1, 96, 97, 98, 255, 256, 257, 1000, 4096, 5000]), r.below(300)),
            3..=8 => {
                let n = *r.pick(&[1usize, 1, 2, 3, 4, 7, 8, 15, 16, 17, 31, 32, 33]);
                hex_item(&r.bytes(n))
            }
            _ => {
                let n = r.range(0, 48) as usize;
                hex_item(&r.bytes(n))
            }
        })
        .collect();
    format!("csw\t{}\t{}", hex(ty), items.join(","))
}
/// the `csw` cases of a run: one write at and just above 64 KiB and larger ones first (a writer that takes only part
/// of a large buffer returns another count and emits other chunks), then `n` small ones
fn gen_csw_block(r: &mut Rng, n: usize, thorough: bool) -> Vec<String> {
    let mut v = vec![
        "csw\t46444154\t-,616263,-".to_string(),
        format!("csw\t46444154\tg65536.{},g65537.{}", r.below(256), r.below(256)),
        format!("csw\t53444154\t0102,g70001.{},-,g131073.{},ff", r.below(256), r.below(256)),
    ];
    if thorough {
        v.push(format!("csw\t46444154\tg1048576.{},g1.{}", r.below(256), r.below(256)));
        v.push(format!("csw\t53444154\tg200000.{},g65535.{},g300001.{}", r.below(256), r.below(256), r.below(256)));
    }
    for _ in 0..n {
        v.push(gen_csw(r));
    }
    v
}

fn gen(prop: &str, tier: &str, seed: u64) -> Vec<String> {
    let mut r = Rng::new(seed);
    let thorough = tier == "thorough";
    // the sinks-only mixes (props/_stream.py step_sinks): C14 = the chunk sink call by call; C16 = that and the CTR
    // writer / round trip state machines above it
    if prop == "C14" || prop == "C16" {
        let mut v = gen_csw_block(&mut r, if thorough { 4000 } else { 120 }, thorough);
        if prop == "C16" {
            for _ in 0..(if thorough { 6000 } else { 200 }) {
                let op = *r.pick(&["ctrw", "ctrw", "ctr_rt"]);
                v.push(gen_sm_op(&mut r, op));
            }
        }
        return v;
    }
    // (rt, recut, state machines)
    let (n_rt, n_recut, n_sm) = match (prop, thorough) {
        ("C03", false) => (60, 340, 3000),
        ("C03", true) => (2000, 13000, 100000),
        (_, false) => (300, 100, 3000),
        (_, true) => (11000, 4000, 100000),
    };
    let mut v = Vec::new();
    // the witnesses of the repaired defects, always first
    // D2: store + AES-CBC, 25 bytes, 10-byte reads; D3-like zero-length activity; D4: re-cut off the block grid
    v.push("rt\teb\tstore\tdef\taes\tcbc\tpbkdf2\t1\t25\t1\t0\t25\t10".to_string());
    v.push("recut\teb\tstore\tdef\taes\tcbc\tpbkdf2\t1\t25\t1\t0\t7\t4096".to_string());
    v.push("recut\teb\tstore\tdef\taes\tcbc\tpbkdf2\t1\t25\t1\t0\t1\t4096".to_string());
    // D1: the streaming writers with zstd and with CBC
    v.push("rt\tawf\tzstd\tdef\tnone\tctr\tpbkdf2\t0\t1000\t2\t0\t1000\t4096".to_string());
    v.push("rt\tawf\tstore\tdef\taes\tcbc\tpbkdf2\t0\t1000\t2\t0\t1000\t4096".to_string());
    v.push("rt\tswf\tzstd\tdef\tcamellia\tcbc\targon2\t0\t1000\t2\t1\t100\t4096".to_string());
    // D3: a zero-length read in the middle of a FlattenReader stream
    v.push("flat_read\t616263,-,646566\t0,2,0,10,10,10".to_string());
    // D9: 16-byte key handed to the CBC reader
    v.push(format!("cbcr\t{}\t{}\t{}\t16,16", "00".repeat(16), "00".repeat(16), "11".repeat(16)));
    // ChunkStreamWriter call by call (count and emitted chunks of every write)
    let mut rc = Rng::new(seed ^ 0x6373_7700);
    v.extend(gen_csw_block(&mut rc, if thorough { 2000 } else { 60 }, thorough));
    let mut k = r.below(500) as usize;
    for _ in 0..n_rt {
        v.push(gen_lib(&mut r, k, false, false));
        k += 1;
    }
    for _ in 0..n_recut {
        v.push(gen_lib(&mut r, k, true, false));
        k += 1;
    }
    // large single writes: every streaming/building writer x the CTR and CBC ciphers with store first
    let k0 = r.below(25) as usize;
    for i in 0..(if thorough { 125 } else { 25 }) {
        v.push(gen_lib_mid(&mut r, k0 + i));
    }
    // one large incompressible write() into a COMPRESSING builder: an encoder that accepts only part of a buffer
    // (deflate above ~32 KiB, zstd above ~128 KiB) makes write_all re-offer the tail; counts and content must not
    // depend on that
    for (i, (writer, codec, n)) in [("eb", "deflate", 200000usize), ("eb", "zstd", 300000), ("eb", "xz", 150001), ("awf", "deflate", 131073),
                                    ("seb", "zstd", 300000), ("sae", "deflate", 200000), ("swf", "zstd", 262145), ("eb", "deflate", 70001)].into_iter().enumerate() {
        let (cipher, mode) = [("none", "ctr"), ("aes", "ctr"), ("camellia", "cbc"), ("none", "ctr")][i % 4];
        v.push(format!("rt\t{}\t{}\tdef\t{}\t{}\tpbkdf2\t1\t{}\t{}\t0\t{}\t{}", writer, codec, cipher, mode, n, r.below(1 << 32), n, 65536));
    }
    // one write() above 1 MiB and above 4 MiB through the streaming writers with store + CTR (a cap on what a
    // writer below the cipher accepts per call shows only above the cap)
    for (i, n) in [(0usize, (1usize << 20) + 1), (1, (4 << 20) + 1), (2, (1 << 20) + 4097), (3, (2 << 20) + 1)] {
        let writer = ["awf", "sae", "swf", "awf"][i];
        let (cipher, mode) = [("aes", "ctr"), ("camellia", "ctr"), ("aes", "ctr"), ("camellia", "cbc")][i];
        v.push(format!("rt\t{}\tstore\tdef\t{}\t{}\tpbkdf2\t{}\t{}\t{}\t0\t{}\t{}", writer, cipher, mode, i % 2, n, r.below(1 << 32), n, 65536));
    }
    if thorough {
        for i in 0..6 {
            v.push(gen_lib(&mut r, k + 7 * i, i % 3 == 2, true));
        }
    }
    for _ in 0..n_sm {
        v.push(gen_sm(&mut r, prop));
    }
    v
}

fn main() {
    harness_main(gen, run);
}
