//! rawdump: the raw entries of an archive / a part chain as libpna's reader delivers them
//! (Archive::read_header, raw_entries, read_next_archive while has_next_archive), for the oracles of
//! the concat area.  usage: rawdump part1 [part2 ...]
//! One line per raw entry: the hex of its chunks as add_entry writes them (length, type, payload, CRC
//! of every chunk, FHED/SHED .. FEND/SEND).  Last line: "END OK" | "END ERR <kind>" | "END PANIC".
use libpna::*;
use pnaverif::util::*;
use std::io;

fn entry_bytes(e: impl Entry) -> io::Result<Vec<u8>> {
    let mut w = Archive::write_header(Vec::new())?;
    w.add_entry(e)?;
    let b = w.finalize()?;
    // signature 8 + AHED chunk 20 ... AEND chunk 12
    Ok(b[28..b.len() - 12].to_vec())
}

fn main() {
    quiet_panics();
    let args: Vec<String> = std::env::args().skip(1).collect();
    let r = guard(|| -> io::Result<()> {
        let mut parts = args.iter();
        let first = std::fs::read(parts.next().ok_or_else(|| io::Error::new(io::ErrorKind::NotFound, "no archive"))?)?;
        let mut a = Archive::read_header(io::Cursor::new(first))?;
        loop {
            for e in a.raw_entries() {
                println!("{}", hex(&entry_bytes(e?)?));
            }
            if !a.has_next_archive() {
                break;
            }
            let next = std::fs::read(parts.next().ok_or_else(|| io::Error::new(io::ErrorKind::NotFound, "next part missing"))?)?;
            a = a.read_next_archive(io::Cursor::new(next))?;
        }
        Ok(())
    });
    match r {
        Ok(Ok(())) => println!("END OK"),
        Ok(Err(e)) => println!("END ERR {}", ekind(&e)),
        Err(()) => println!("END PANIC"),
    }
}
