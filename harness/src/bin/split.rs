//! split area (C04): `EntryPart::split`, `split_to_parts`, `write_split_archive_writer`.
//! Text formats (mirrored byte for byte in coq/Model/SplitRun.v):
//!   chunk      = TYPE:hex        TYPE = the 4 type bytes verbatim (ASCII letters only), hex = payload
//!   chunk list = chunk,chunk,... ("" = no chunk); entries / part files = chunk lists joined by ';'
//!   split max chunks             -> OK first|rest      rest = "-" when split returned None
//!   write_split max entries pw   -> OK file;file;...   (file = AHED, entry chunks, [ANXT,] AEND)
//!                                   | ERR <kind> | PANIC | TIMEOUT   (pw = hex password, oracle only)
//!   merge chunks                 -> OK chunks          (the oracle's normal form)
//!   read_parts file;file;...     -> OK e;e;...         raw entries the library's reader chain finds in the
//!                                   part files (read_header, raw_entries, has_next_archive,
//!                                   read_next_archive) | ERR <kind>  (NotFound = a next part is announced
//!                                   but there is no further file)
//! Process structure: the parent (`gen`/`run` of `harness_main`) keeps one `worker` child alive
//! and talks to it over pipes, so a hang (5 s) or a crash of the code under test costs one case.
use libpna::prelude::*;
use libpna::{
    Archive, CipherMode, Compression, Encryption, EntryBuilder, EntryPart, ExtendedAttribute,
    HashAlgorithm, NormalEntry, Permission, RawChunk, ReadOptions, SolidEntryBuilder, WriteOptions,
};
use pnaverif::util::*;
use portable_network_archive::verif_hooks_split::split_archive_bytes;
use std::collections::BTreeSet;
use std::io::{self, BufRead, BufReader, Read, Write};
use std::panic::AssertUnwindSafe;
use std::process::{Child, ChildStdin, Command, Stdio};
use std::sync::atomic::{AtomicUsize, Ordering};
use std::sync::mpsc::{self, Receiver, RecvTimeoutError};
use std::sync::Mutex;
use std::time::Duration;

/// (chunk type, payload)
type Ck = (Vec<u8>, Vec<u8>);

const SIG: &[u8; 8] = b"\x89PNA\r\n\x1a\n";
/// PNA_HEADER + AHED (12 + 8) + ANXT + AEND
const PART_OVERHEAD: u64 = 52;

// ---- text protocol ---------------------------------------------------------------------------
fn show_chunk(c: &Ck) -> String {
    format!("{}:{}", String::from_utf8_lossy(&c.0), hex(&c.1))
}
fn show_chunks(p: &[Ck]) -> String {
    p.iter().map(show_chunk).collect::<Vec<_>>().join(",")
}
fn show_files(fs: &[Vec<Ck>]) -> String {
    fs.iter().map(|f| show_chunks(f)).collect::<Vec<_>>().join(";")
}
fn parse_chunk(s: &str) -> Option<Ck> {
    let b = s.as_bytes();
    if b.len() < 5 || b[4] != b':' {
        return None;
    }
    let d = unhex(std::str::from_utf8(&b[5..]).ok()?)?;
    Some((b[..4].to_vec(), d))
}
fn parse_chunks(s: &str) -> Option<Vec<Ck>> {
    if s.is_empty() {
        return Some(Vec::new());
    }
    s.split(',').map(parse_chunk).collect()
}
fn parse_entries(s: &str) -> Option<Vec<Vec<Ck>>> {
    if s.is_empty() {
        return Some(Vec::new());
    }
    s.split(';').map(parse_chunks).collect()
}

// ---- hand serialiser / parser ----------------------------------------------------------------
fn crc(ty: &[u8], data: &[u8]) -> u32 {
    let mut h = crc32fast::Hasher::new();
    h.update(ty);
    h.update(data);
    h.finalize()
}
fn chunk_bytes(ty: &[u8], data: &[u8]) -> Vec<u8> {
    let mut v = Vec::with_capacity(12 + data.len());
    v.extend_from_slice(&(data.len() as u32).to_be_bytes());
    v.extend_from_slice(ty);
    v.extend_from_slice(data);
    v.extend_from_slice(&crc(ty, data).to_be_bytes());
    v
}
fn archive_bytes(chunks: &[Ck]) -> Vec<u8> {
    let mut v = SIG.to_vec();
    v.extend(chunk_bytes(b"AHED", &[0; 8]));
    for (t, d) in chunks {
        v.extend(chunk_bytes(t, d));
    }
    v.extend(chunk_bytes(b"AEND", &[]));
    v
}
/// signature, then chunks up to the end of the input; every length and CRC is verified
fn parse_file(b: &[u8]) -> Result<Vec<Ck>, String> {
    if b.len() < 8 || &b[..8] != SIG {
        return Err("bad signature".into());
    }
    let mut i = 8usize;
    let mut out = Vec::new();
    while i < b.len() {
        if b.len() - i < 12 {
            return Err(format!("truncated chunk at offset {}", i));
        }
        let len = u32::from_be_bytes([b[i], b[i + 1], b[i + 2], b[i + 3]]) as usize;
        if b.len() - i - 12 < len {
            return Err(format!("chunk at offset {} runs past the end", i));
        }
        let ty = b[i + 4..i + 8].to_vec();
        let data = b[i + 8..i + 8 + len].to_vec();
        let c = u32::from_be_bytes([b[i + 8 + len], b[i + 9 + len], b[i + 10 + len], b[i + 11 + len]]);
        if c != crc(&ty, &data) {
            return Err(format!("bad CRC at offset {}", i));
        }
        out.push((ty, data));
        i += 12 + len;
    }
    Ok(out)
}
/// chunks of a one-part archive without the leading AHED and the trailing AEND
fn strip_archive(bytes: &[u8]) -> io::Result<Vec<Ck>> {
    let cs = parse_file(bytes).map_err(io::Error::other)?;
    if cs.len() < 2 || cs[0].0 != b"AHED" || cs[cs.len() - 1].0 != b"AEND" {
        return Err(io::Error::other("scratch archive without AHED/AEND"));
    }
    Ok(cs[1..cs.len() - 1].to_vec())
}

// ---- specification vocabulary (twins of Split.v) ------------------------------------------------
fn chunk_len(c: &Ck) -> u64 {
    12 + c.1.len() as u64
}
fn blen(p: &[Ck]) -> u64 {
    p.iter().map(chunk_len).sum()
}
fn is_stream(c: &Ck) -> bool {
    c.0 == b"FDAT" || c.0 == b"SDAT"
}
/// fuse adjacent stream chunks of one type, drop empty stream chunks
fn merge(p: &[Ck]) -> Vec<Ck> {
    let mut out: Vec<Ck> = Vec::new();
    for c in p {
        if is_stream(c) {
            if c.1.is_empty() {
                continue;
            }
            if let Some(last) = out.last_mut() {
                if last.0 == c.0 {
                    last.1.extend_from_slice(&c.1);
                    continue;
                }
            }
        }
        out.push(c.clone());
    }
    out
}
/// None = every chunk can be placed with a per-part budget of `b` bytes
fn unfit(all: &[Ck], b: u64) -> Option<String> {
    for c in all {
        if is_stream(c) && !c.1.is_empty() {
            if b < 13 {
                return Some(format!("non-empty {} needs a budget of 13", String::from_utf8_lossy(&c.0)));
            }
        } else if chunk_len(c) > b {
            return Some(format!("{} of {} bytes", String::from_utf8_lossy(&c.0), chunk_len(c)));
        }
    }
    None
}
/// largest indivisible size of a chunk list
fn indivisible(all: &[Ck]) -> u64 {
    let mut l = 0;
    for c in all {
        let n = if is_stream(c) && !c.1.is_empty() { 13 } else { chunk_len(c) };
        l = l.max(n);
    }
    l
}
fn cut(s: &str, n: usize) -> String {
    if s.len() <= n {
        s.to_string()
    } else {
        let mut k = n;
        while !s.is_char_boundary(k) {
            k -= 1;
        }
        format!("{}...({} bytes)", &s[..k], s.len())
    }
}

// ---- op: split ------------------------------------------------------------------------------
/// the chunks of an `EntryPart` (not public) through a scratch archive; also checks the sizes
fn part_chunks<T>(part: EntryPart<T>, what: &str, o: &mut Vec<String>) -> io::Result<Vec<Ck>>
where
    RawChunk<T>: Chunk,
{
    let bl = part.bytes_len() as u64;
    let mut a = Archive::write_header(Vec::new())?;
    let n = a.add_entry_part(part)? as u64;
    let bytes = a.finalize()?;
    let body = strip_archive(&bytes)?;
    let sum = blen(&body);
    if n != sum || bl != sum {
        o.push(format!("{}: add_entry_part returned {}, bytes_len {}, serialised {} bytes", what, n, bl, sum));
    }
    Ok(body)
}
type Halves = (Vec<Ck>, Option<Vec<Ck>>);
fn halves<T>(r: (EntryPart<T>, Option<EntryPart<T>>), what: &str, o: &mut Vec<String>) -> io::Result<Halves>
where
    RawChunk<T>: Chunk,
{
    let f = part_chunks(r.0, what, o)?;
    let rest = match r.1 {
        Some(p) => Some(part_chunks(p, what, o)?),
        None => None,
    };
    Ok((f, rest))
}
fn show_halves(h: &Halves) -> String {
    format!(
        "{}|{}",
        show_chunks(&h.0),
        match &h.1 {
            Some(r) => show_chunks(r),
            None => "-".to_string(),
        }
    )
}
fn no_entry() -> io::Error {
    io::Error::other("no raw entry")
}
fn op_split(max: usize, chunks: &[Ck], o: &mut Vec<String>) -> io::Result<String> {
    let bytes = archive_bytes(chunks);
    // (a) owned copy of the function, entry through the io::Read reader
    let part: EntryPart = {
        let mut a = Archive::read_header(&bytes[..])?;
        let e = a.raw_entries().next().ok_or_else(no_entry)??;
        EntryPart::from(e)
    };
    let orig = part_chunks(part.clone(), "original", o)?;
    if orig != chunks {
        o.push(format!("raw entry differs from the input: {}", cut(&show_chunks(&orig), 300)));
    }
    let ha = halves(part.clone().split(max), "owned split", o)?;
    // (b) borrowed copy (what the CLI calls)
    let hb = halves(part.as_ref().split(max), "borrowed split", o)?;
    if hb != ha {
        o.push(format!("borrowed split differs from owned split: {}", cut(&show_halves(&hb), 300)));
    }
    // (c) entry through the slice reader, borrowed copy
    let part_c: EntryPart = {
        let mut a = Archive::read_header_from_slice(&bytes)?;
        let e = a.raw_entries_slice().next().ok_or_else(no_entry)??;
        EntryPart::from(e)
    };
    let hc = halves(part_c.as_ref().split(max), "slice-reader split", o)?;
    if hc != ha {
        o.push(format!("split of the slice-reader entry differs: {}", cut(&show_halves(&hc), 300)));
    }

    // ---- property oracles on (a)
    let max = max as u64;
    let (first, rest) = (&ha.0, &ha.1);
    let total = blen(&orig);
    if blen(first) > max {
        o.push(format!("first piece has {} bytes > max {}", blen(first), max));
    }
    match rest {
        None => {
            if *first != orig {
                o.push("split returned None but the first piece is not the original".into());
            }
            if total > max {
                o.push(format!("split returned None although the part has {} bytes > max {}", total, max));
            }
        }
        Some(r) => {
            if total <= max {
                o.push(format!("split returned a remainder although the part has {} bytes <= max {}", total, max));
            }
            if let Some(h) = orig.first() {
                let must_progress = chunk_len(h) <= max || (is_stream(h) && !h.1.is_empty() && max >= 13);
                if must_progress && first.is_empty() {
                    o.push("no progress: the head chunk fits or can be cut, yet the first piece is empty".into());
                }
            }
            if !first.is_empty() && blen(r) >= total {
                o.push(format!("no progress: remainder has {} bytes, original {}", blen(r), total));
            }
        }
    }
    let mut glued = first.clone();
    if let Some(r) = rest {
        glued.extend(r.iter().cloned());
    }
    if merge(&glued) != merge(&orig) {
        o.push("merge(first ++ rest) differs from merge(original)".into());
    }
    Ok(show_halves(&ha))
}

// ---- op: write_split --------------------------------------------------------------------------
/// chunks of one entry as the library re-serialises it
fn entry_chunks(e: impl Entry) -> io::Result<Vec<Ck>> {
    let mut a = Archive::write_header(Vec::new())?;
    a.add_entry(e)?;
    strip_archive(&a.finalize()?)
}
/// raw entries of a part chain as the library's reader reassembles them; (entries, parts consumed,
/// whether the last part read announces a successor)
fn reread_raw(files: &[&[u8]]) -> io::Result<(Vec<Vec<Ck>>, usize, bool)> {
    let mut out = Vec::new();
    let mut a = Archive::read_header(files[0])?;
    let mut k = 1;
    loop {
        for e in a.raw_entries() {
            out.push(entry_chunks(e?)?);
        }
        if a.has_next_archive() && k < files.len() {
            a = a.read_next_archive(files[k])?;
            k += 1;
        } else {
            break;
        }
    }
    Ok((out, k, a.has_next_archive()))
}
fn opt_secs(d: Option<Duration>) -> String {
    match d {
        Some(d) => d.as_secs().to_string(),
        None => "-".into(),
    }
}
/// canonical text of a fully decoded entry; the flag is false when any step failed
fn show_normal(e: &NormalEntry, pw: Option<&str>) -> (String, bool) {
    let mut ok = true;
    let h = e.header();
    let content = {
        let r = e.reader(ReadOptions::with_password(pw)).and_then(|mut rd| {
            let mut v = Vec::new();
            rd.read_to_end(&mut v)?;
            Ok(v)
        });
        match r {
            Ok(v) => hex(&v),
            Err(err) => {
                ok = false;
                format!("ERR {}", ekind(&err))
            }
        }
    };
    let xs: Vec<String> = e.xattrs().iter().map(|x| format!("{}={}", hex(x.name().as_bytes()), hex(x.value()))).collect();
    let m = e.metadata();
    let perm = match m.permission() {
        Some(p) => format!("{}:{}:{}:{}:{:o}", p.uid(), hex(p.uname().as_bytes()), p.gid(), hex(p.gname().as_bytes()), p.permissions()),
        None => "-".into(),
    };
    let extra: Vec<String> = e.extra_chunks().iter().map(|c| format!("{}:{}", c.ty(), hex(c.data()))).collect();
    let s = format!(
        "name={} kind={} comp={} enc={} mode={} data={} xattrs=[{}] c={} m={} a={} perm={} size={} csize={} extra=[{}]",
        hex(h.path().as_str().as_bytes()),
        h.data_kind() as u8,
        h.compression() as u8,
        h.encryption() as u8,
        h.cipher_mode() as u8,
        content,
        xs.join(","),
        opt_secs(m.created()),
        opt_secs(m.modified()),
        opt_secs(m.accessed()),
        perm,
        match m.raw_file_size() {
            Some(n) => n.to_string(),
            None => "-".into(),
        },
        m.compressed_size(),
        extra.join(","),
    );
    (s, ok)
}
/// every entry of a part chain decoded (solid entries expanded); the flag is true when the whole
/// chain decoded without any error
fn decode_chain(files: &[&[u8]], pw: Option<&str>) -> (Vec<String>, bool) {
    let mut out = Vec::new();
    let mut clean = true;
    let mut a = match Archive::read_header(files[0]) {
        Ok(a) => a,
        Err(e) => return (vec![format!("ERR header {}", ekind(&e))], false),
    };
    let mut k = 1;
    loop {
        let mut failed = false;
        for e in a.entries_with_password(pw) {
            match e {
                Ok(n) => {
                    let (s, ok) = show_normal(&n, pw);
                    clean &= ok;
                    out.push(s);
                }
                Err(e) => {
                    out.push(format!("ERR {}", ekind(&e)));
                    failed = true;
                    break;
                }
            }
        }
        if failed {
            clean = false;
            break;
        }
        if a.has_next_archive() && k < files.len() {
            match a.read_next_archive(files[k]) {
                Ok(n) => a = n,
                Err(e) => {
                    out.push(format!("ERR next archive {}", ekind(&e)));
                    return (out, false);
                }
            }
            k += 1;
        } else {
            if a.has_next_archive() {
                out.push("ERR missing next archive".into());
                clean = false;
            }
            break;
        }
    }
    if k != files.len() {
        out.push(format!("ERR {} of {} parts read", k, files.len()));
        clean = false;
    }
    (out, clean)
}

fn op_write_split(max: usize, entries: &[Vec<Ck>], pw: Option<&str>, o: &mut Vec<String>) -> String {
    let all: Vec<Ck> = entries.iter().flatten().cloned().collect();
    let archive = archive_bytes(&all);
    let maxn = max as u64;
    let problem = if maxn < PART_OVERHEAD {
        Some(format!("max {} < {}", maxn, PART_OVERHEAD))
    } else {
        unfit(&all, maxn - PART_OVERHEAD)
    };
    let parts = match split_archive_bytes(&archive, max) {
        Ok(p) => p,
        Err(e) => {
            let k = ekind(&e);
            if k != "InvalidInput" {
                o.push(format!("unexpected error kind {} ({})", k, cut(&e.to_string(), 200)));
            }
            if problem.is_none() {
                o.push("rejected although every chunk fits".into());
            }
            return format!("ERR {}", k);
        }
    };
    if let Some(p) = &problem {
        o.push(format!("accepted a max too small for an indivisible chunk ({})", p));
    }
    if parts.is_empty() {
        o.push("no part file at all".into());
        return "OK ".into();
    }
    for (i, p) in parts.iter().enumerate() {
        if p.len() as u64 > maxn {
            o.push(format!("part {} has {} bytes > max {}", i + 1, p.len(), maxn));
        }
    }
    let mut files: Vec<Vec<Ck>> = Vec::new();
    for (i, p) in parts.iter().enumerate() {
        match parse_file(p) {
            Ok(cs) => files.push(cs),
            Err(m) => {
                o.push(format!("part {} does not parse: {}", i + 1, m));
                return "OK <unparsable>".into();
            }
        }
    }
    // ---- framing of every part and the carried chunks
    let n = files.len();
    let mut bodies: Vec<Ck> = Vec::new();
    let mut framed = true;
    for (i, f) in files.iter().enumerate() {
        let last = i + 1 == n;
        let mut want = vec![0u8; 4];
        want.extend_from_slice(&(i as u32).to_be_bytes());
        if f.first().map(|c| c.0 == b"AHED" && c.1 == want) != Some(true) {
            o.push(format!("part {} does not start with AHED number {}", i + 1, i));
            framed = false;
        }
        let tail = if last { 1 } else { 2 };
        if f.len() < 1 + tail {
            o.push(format!("part {} has only {} chunks", i + 1, f.len()));
            framed = false;
            continue;
        }
        if f[f.len() - 1] != (b"AEND".to_vec(), Vec::new()) {
            o.push(format!("part {} does not end with AEND", i + 1));
            framed = false;
        }
        if !last && f[f.len() - 2] != (b"ANXT".to_vec(), Vec::new()) {
            o.push(format!("part {} has no ANXT before AEND", i + 1));
            framed = false;
        }
        let body = &f[1..f.len() - tail];
        if body.iter().any(|c| c.0 == b"AEND" || c.0 == b"ANXT" || c.0 == b"AHED") {
            o.push(format!("part {} has AHED/ANXT/AEND between the entry chunks", i + 1));
            framed = false;
        }
        if i > 0 && body.is_empty() {
            o.push(format!("part {} carries no entry chunk", i + 1));
        }
        bodies.extend(body.iter().cloned());
    }
    if framed && merge(&bodies) != merge(&all) {
        o.push("merge(chunks of all parts) differs from merge(input chunks)".into());
    }
    // ---- the library's own reader over the chain
    let slices: Vec<&[u8]> = parts.iter().map(|p| &p[..]).collect();
    match guard(AssertUnwindSafe(|| reread_raw(&slices))) {
        Ok(Ok((es, used, more))) => {
            if used != n {
                o.push(format!("reader consumed {} of {} parts", used, n));
            }
            if more {
                o.push("last part read announces a next archive".into());
            }
            if es.len() != entries.len() {
                o.push(format!("reader found {} raw entries, input has {}", es.len(), entries.len()));
            } else {
                for (i, (got, want)) in es.iter().zip(entries).enumerate() {
                    if merge(got) != merge(want) {
                        o.push(format!("re-read raw entry {} differs: {}", i, cut(&show_chunks(got), 300)));
                        break;
                    }
                }
            }
        }
        Ok(Err(e)) => o.push(format!("reading the parts back failed: {} ({})", ekind(&e), cut(&e.to_string(), 200))),
        Err(()) => o.push("reading the parts back panicked".into()),
    }
    // ---- decoded content before and after
    let original = guard(AssertUnwindSafe(|| decode_chain(&[&archive[..]], pw)));
    if let Ok((want, true)) = original {
        match guard(AssertUnwindSafe(|| decode_chain(&slices, pw))) {
            Ok((got, _)) => {
                if got != want {
                    let i = got.iter().zip(&want).position(|(a, b)| a != b).unwrap_or(got.len().min(want.len()));
                    o.push(format!(
                        "decoded entries differ after split: {} entries before, {} after; entry {}: before {} / after {}",
                        want.len(),
                        got.len(),
                        i,
                        cut(want.get(i).map(|s| s.as_str()).unwrap_or("<none>"), 300),
                        cut(got.get(i).map(|s| s.as_str()).unwrap_or("<none>"), 300),
                    ));
                }
            }
            Err(()) => o.push("decoded entries differ after split: decoding the parts panicked".into()),
        }
    }
    format!("OK {}", show_files(&files))
}

// ---- op: read_parts ----------------------------------------------------------------------------
fn file_bytes(chunks: &[Ck]) -> Vec<u8> {
    let mut v = SIG.to_vec();
    for c in chunks {
        v.extend(chunk_bytes(&c.0, &c.1));
    }
    v
}
/// the reader chain as `run_across_archive` drives it, on hand-serialised part files
fn op_read_parts(files: &[Vec<Ck>]) -> String {
    let bytes: Vec<Vec<u8>> = files.iter().map(|f| file_bytes(f)).collect();
    let r = guard(AssertUnwindSafe(|| -> io::Result<Vec<Vec<Ck>>> {
        if bytes.is_empty() {
            return Err(io::ErrorKind::NotFound.into());
        }
        let mut out = Vec::new();
        let mut a = Archive::read_header(&bytes[0][..])?;
        let mut k = 1;
        loop {
            for e in a.raw_entries() {
                out.push(entry_chunks(e?)?);
            }
            if !a.has_next_archive() {
                break;
            }
            if k >= bytes.len() {
                return Err(io::ErrorKind::NotFound.into());
            }
            a = a.read_next_archive(&bytes[k][..])?;
            k += 1;
        }
        Ok(out)
    }));
    show_res(r, |es| show_files(&es))
}

// ---- worker ---------------------------------------------------------------------------------
fn eval(op: &str, args: &[&str], o: &mut Vec<String>) -> String {
    let arg = |i: usize| -> &str { args.get(i).copied().unwrap_or("") };
    match op {
        "split" => {
            let (Ok(max), Some(cs)) = (arg(0).parse::<usize>(), parse_chunks(arg(1))) else {
                return "BADCASE".into();
            };
            match op_split(max, &cs, o) {
                Ok(s) => format!("OK {}", s),
                Err(e) => format!("ERR {}", ekind(&e)),
            }
        }
        "write_split" => {
            let (Ok(max), Some(es), Some(pw)) = (arg(0).parse::<usize>(), parse_entries(arg(1)), unhex(arg(2))) else {
                return "BADCASE".into();
            };
            let Ok(pw) = String::from_utf8(pw) else {
                return "BADCASE".into();
            };
            let pw = if pw.is_empty() { None } else { Some(pw.as_str()) };
            op_write_split(max, &es, pw, o)
        }
        "read_parts" => match parse_entries(arg(0)) {
            Some(fs) => op_read_parts(&fs),
            None => "BADCASE".into(),
        },
        "merge" => match parse_chunks(arg(0)) {
            Some(cs) => format!("OK {}", show_chunks(&merge(&cs))),
            None => "BADCASE".into(),
        },
        _ => "BADCASE".into(),
    }
}
fn clean(s: &str) -> String {
    s.chars().map(|c| if c == '\t' || c == '\n' || c == '\r' { ' ' } else { c }).collect()
}
fn worker() {
    quiet_panics();
    let stdin = io::stdin();
    let stdout = io::stdout();
    for line in stdin.lock().lines() {
        let Ok(line) = line else { break };
        if line.is_empty() {
            continue;
        }
        let mut it = line.split('\t');
        let _id = it.next();
        let op = it.next().unwrap_or("");
        let args: Vec<&str> = it.collect();
        let mut msgs: Vec<String> = Vec::new();
        let outcome = match guard(AssertUnwindSafe(|| eval(op, &args, &mut msgs))) {
            Ok(s) => s,
            Err(()) => {
                msgs.push("panicked".into());
                "PANIC".to_string()
            }
        };
        let mut resp = clean(&outcome);
        for m in &msgs {
            resp.push('\t');
            resp.push_str(&clean(m));
        }
        resp.push('\n');
        let mut out = stdout.lock();
        if out.write_all(resp.as_bytes()).is_err() || out.flush().is_err() {
            break;
        }
    }
}

// ---- parent side ----------------------------------------------------------------------------
struct Worker {
    child: Child,
    stdin: ChildStdin,
    rx: Receiver<String>,
}
static WORKER: Mutex<Option<Worker>> = Mutex::new(None);
static TIMEOUTS: AtomicUsize = AtomicUsize::new(0);
const CASE_TIMEOUT: Duration = Duration::from_secs(5);
const MAX_TIMEOUTS: usize = 5;

fn spawn_worker() -> Worker {
    let exe = std::env::current_exe().expect("current_exe");
    let mut child = Command::new("sh")
        .arg("-c")
        .arg("ulimit -v 8388608; exec \"$0\" worker")
        .arg(exe)
        .stdin(Stdio::piped())
        .stdout(Stdio::piped())
        .spawn()
        .expect("spawn worker");
    let stdin = child.stdin.take().expect("worker stdin");
    let stdout = child.stdout.take().expect("worker stdout");
    let (tx, rx) = mpsc::channel();
    std::thread::spawn(move || {
        for line in BufReader::new(stdout).lines() {
            match line {
                Ok(l) => {
                    if tx.send(l).is_err() {
                        break;
                    }
                }
                Err(_) => break,
            }
        }
    });
    Worker { child, stdin, rx }
}
fn discard(slot: &mut Option<Worker>) {
    if let Some(mut w) = slot.take() {
        let _ = w.child.kill();
        let _ = w.child.wait();
    }
}
fn run(c: &Case, oracle: &mut Vec<String>) -> String {
    if c.op == "write_split" && TIMEOUTS.load(Ordering::SeqCst) >= MAX_TIMEOUTS {
        return "SKIPPED".into();
    }
    let mut line = format!("{}\t{}", c.id, c.op);
    for a in &c.args {
        line.push('\t');
        line.push_str(a);
    }
    line.push('\n');
    let mut slot = WORKER.lock().unwrap_or_else(|e| e.into_inner());
    if slot.is_none() {
        *slot = Some(spawn_worker());
    }
    let w = slot.as_mut().expect("worker");
    let sent = w.stdin.write_all(line.as_bytes()).and_then(|_| w.stdin.flush());
    let resp = match sent {
        Ok(()) => w.rx.recv_timeout(CASE_TIMEOUT),
        Err(_) => Err(RecvTimeoutError::Disconnected),
    };
    match resp {
        Ok(l) => {
            let mut it = l.split('\t');
            let outcome = it.next().unwrap_or("").to_string();
            for m in it {
                oracle.push(m.to_string());
            }
            outcome
        }
        Err(RecvTimeoutError::Timeout) => {
            discard(&mut slot);
            TIMEOUTS.fetch_add(1, Ordering::SeqCst);
            oracle.push("did not terminate within 5 s".into());
            "TIMEOUT".into()
        }
        Err(RecvTimeoutError::Disconnected) => {
            discard(&mut slot);
            oracle.push("worker process died".into());
            "CRASH".into()
        }
    }
}

// ---- generator ------------------------------------------------------------------------------
const LENS: &[usize] = &[0, 1, 2, 3, 5, 8, 12, 13, 16, 17, 31, 32, 33, 64, 100, 300];
const SMALL_LENS: &[usize] = &[0, 1, 2, 3, 5, 8, 12, 13];
const NONSTREAM: &[&[u8; 4]] = &[b"FHED", b"PHSF", b"fSIZ", b"cTIM", b"xATR", b"SHED", b"abCd"];
const BIG: u64 = 1 << 40;

fn ck(ty: &[u8; 4], data: Vec<u8>) -> Ck {
    (ty.to_vec(), data)
}
/// `n` random chunks: stream types about half of the time, in runs, some of them empty
fn rand_chunks(r: &mut Rng, n: usize, lens: &[usize]) -> Vec<Ck> {
    let mut v = Vec::new();
    while v.len() < n {
        if r.chance(1, 2) {
            let ty: &[u8; 4] = if r.chance(3, 4) { b"FDAT" } else { b"SDAT" };
            let run = 1 + r.below(3) as usize;
            for _ in 0..run {
                if v.len() >= n {
                    break;
                }
                let l = if r.chance(1, 5) { 0 } else { *r.pick(lens) };
                v.push(ck(ty, r.bytes(l)));
            }
        } else {
            let ty = *r.pick(NONSTREAM);
            let l = *r.pick(lens);
            v.push(ck(ty, r.bytes(l)));
        }
    }
    v
}
fn split_maxes(cs: &[Ck]) -> Vec<u64> {
    let mut s: BTreeSet<u64> = [0u64, 1, 11, 12, 13, 14].into_iter().collect();
    let mut bounds = vec![0i64];
    let mut b = 0i64;
    for c in cs {
        b += chunk_len(c) as i64;
        bounds.push(b);
    }
    for b in &bounds {
        for d in -2..=14i64 {
            if b + d >= 0 {
                s.insert((b + d) as u64);
            }
        }
    }
    for m in [b - 1, b, b + 1] {
        if m >= 0 {
            s.insert(m as u64);
        }
    }
    s.insert(BIG);
    s.into_iter().collect()
}
/// keep `cap` of the values (random choice), in increasing order
fn thin(r: &mut Rng, mut v: Vec<u64>, cap: usize) -> Vec<u64> {
    if v.len() <= cap {
        return v;
    }
    for i in 0..cap {
        let j = i + r.below((v.len() - i) as u64) as usize;
        v.swap(i, j);
    }
    v.truncate(cap);
    v.sort();
    v
}
fn gen_split(r: &mut Rng, quota: usize, quick: bool, out: &mut Vec<String>) {
    let mut made = 0;
    while made < quota {
        let n = r.below(7) as usize;
        let mut cs = rand_chunks(r, n, LENS);
        cs.push(ck(if r.chance(3, 4) { b"FEND" } else { b"SEND" }, Vec::new()));
        let mut ms = split_maxes(&cs);
        if quick {
            ms = thin(r, ms, 16);
            // the exact fit and its two neighbours always stay (automatic change entry.rs:1150: `<=` -> `<` in the borrowed
            // copy of split returned (everything, Some(empty part)) on an exact fit and survived the thinned sample)
            let total = blen(&cs);
            for m in [total.saturating_sub(1), total, total + 1] {
                if !ms.contains(&m) {
                    ms.push(m);
                }
            }
            ms.sort();
        }
        let text = show_chunks(&cs);
        for m in ms {
            if made == quota {
                break;
            }
            out.push(format!("split\t{}\t{}", m, text));
            made += 1;
        }
    }
}
fn gen_merge(r: &mut Rng, quota: usize, out: &mut Vec<String>) {
    for i in 0..quota {
        let mut cs: Vec<Ck> = Vec::new();
        if i > 0 {
            let n = r.below(9) as usize;
            let alternating = r.chance(1, 4);
            for k in 0..n {
                let c = if alternating {
                    let l = if r.chance(1, 4) { 0 } else { *r.pick(SMALL_LENS) };
                    ck(if k % 2 == 0 { b"FDAT" } else { b"SDAT" }, r.bytes(l))
                } else {
                    match r.below(7) {
                        0 => {
                            let l = *r.pick(SMALL_LENS);
                            ck(*r.pick(NONSTREAM), r.bytes(l))
                        }
                        1 => ck(b"FDAT", Vec::new()),
                        2 => ck(b"SDAT", Vec::new()),
                        3 | 4 | 5 => {
                            let l = *r.pick(SMALL_LENS);
                            ck(b"FDAT", r.bytes(l))
                        }
                        _ => {
                            let l = *r.pick(SMALL_LENS);
                            ck(b"SDAT", r.bytes(l))
                        }
                    }
                };
                cs.push(c);
            }
        }
        out.push(format!("merge\t{}", show_chunks(&cs)));
    }
}

/// hand-made entries: random chunks closed by FEND, or one solid-looking SHED..SDAT..SEND entry
fn hand_entries(r: &mut Rng, small: bool) -> Vec<Vec<Ck>> {
    let lens = if small { SMALL_LENS } else { LENS };
    if !small && r.chance(1, 6) {
        let mut e = vec![ck(b"SHED", if r.chance(1, 2) { vec![0, 0, 0, 0, 0] } else { r.bytes(5) })];
        for _ in 0..1 + r.below(3) {
            let l = if r.chance(1, 5) { 0 } else { *r.pick(lens) };
            e.push(ck(b"SDAT", r.bytes(l)));
        }
        e.push(ck(b"SEND", Vec::new()));
        return vec![e];
    }
    let n = if small { 1 + r.below(2) } else { r.below(5) } as usize;
    let mut es = Vec::new();
    for i in 0..n {
        let k = if small { r.below(3) } else { r.below(7) } as usize;
        let mut e = Vec::new();
        if k > 0 && r.chance(1, 2) {
            // a well-formed header of a stored file, so that the decode oracle sees cut data too
            e.push(ck(b"FHED", vec![0, 0, 0, 0, 0, 0, b'a' + i as u8]));
            e.extend(rand_chunks(r, k - 1, lens));
            // An SDAT inside a decodable FHED..FEND entry is the recorded finding
            // F-C04-foreign-stream (known_findings.txt; its witness runs first in every check):
            // the generator stays on the complement of that class.
            for c in e.iter_mut() {
                if c.0 == b"SDAT" {
                    c.0 = b"FDAT".to_vec();
                }
            }
        } else {
            e.extend(rand_chunks(r, k, lens));
        }
        e.push(ck(b"FEND", Vec::new()));
        es.push(e);
    }
    es
}

const PASSWORD: &str = "pw";
/// the i-th combination of compression x encryption x cipher mode (a full cycle has 24 steps)
fn cycle_options(counter: &mut u64) -> WriteOptions {
    let c = (*counter * 7) % 24;
    *counter += 1;
    let comp = [Compression::No, Compression::Deflate, Compression::ZStandard, Compression::XZ][(c % 4) as usize];
    let enc = [Encryption::No, Encryption::Aes, Encryption::Camellia][((c / 4) % 3) as usize];
    let mode = [CipherMode::CBC, CipherMode::CTR][((c / 12) % 2) as usize];
    WriteOptions::builder()
        .compression(comp)
        .encryption(enc)
        .cipher_mode(mode)
        .hash_algorithm(HashAlgorithm::pbkdf2_sha256_with(Some(1)))
        .password(Some(PASSWORD))
        .build()
}
fn rand_name(r: &mut Rng, i: usize) -> String {
    let depth = r.below(4) as usize;
    let target = *r.pick(&[1usize, 3, 10, 60, 200, 300]);
    let mut s = "d/".repeat(depth);
    s.push_str(&i.to_string());
    while s.len() < target {
        s.push('n');
    }
    s
}
fn lib_entry(r: &mut Rng, i: usize, opts: WriteOptions) -> NormalEntry {
    let name = rand_name(r, i);
    match r.below(8) {
        0 => EntryBuilder::new_dir(name.as_str().into()).build().expect("dir entry"),
        1 => EntryBuilder::new_symbolic_link(name.as_str().into(), "some/target".into())
            .expect("symlink builder")
            .build()
            .expect("symlink entry"),
        _ => {
            let mut b = EntryBuilder::new_file(name.as_str().into(), opts).expect("file builder");
            let len = *r.pick(&[0usize, 1, 15, 16, 17, 100, 1000]);
            let content = if r.chance(1, 2) { r.bytes(len) } else { b"abcdefgh".iter().cycle().take(len).copied().collect() };
            b.write_all(&content).expect("entry content");
            for j in 0..r.below(3) {
                let l = *r.pick(&[0usize, 1, 16, 40]);
                b.add_xattr(ExtendedAttribute::new(format!("user.k{}", j), r.bytes(l)));
            }
            if r.chance(1, 2) {
                b.created(Duration::from_secs(1_600_000_000 + r.below(1000)));
                b.modified(Duration::from_secs(1_700_000_000 + r.below(1000)));
            }
            if r.chance(1, 4) {
                b.accessed(Duration::from_secs(1_700_001_000));
            }
            if r.chance(1, 3) {
                b.permission(Permission::new(1000, "user".into(), 100, "grp".into(), 0o640));
            }
            b.build().expect("file entry")
        }
    }
}
/// archive built through the public API, regrouped into entries (cut after each FEND/SEND)
fn lib_entries(r: &mut Rng, counter: &mut u64) -> Vec<Vec<Ck>> {
    let n = 1 + r.below(4) as usize;
    let solid = r.chance(1, 4);
    let mut a = Archive::write_header(Vec::new()).expect("scratch archive");
    if solid {
        let mut sb = SolidEntryBuilder::new(cycle_options(counter)).expect("solid builder");
        for i in 0..n {
            let inner = if r.chance(1, 3) { cycle_options(counter) } else { WriteOptions::store() };
            sb.add_entry(lib_entry(r, i, inner)).expect("solid add");
        }
        a.add_entry(sb.build().expect("solid entry")).expect("add solid");
        if r.chance(1, 2) {
            a.add_entry(lib_entry(r, n, cycle_options(counter))).expect("add entry");
        }
    } else {
        for i in 0..n {
            a.add_entry(lib_entry(r, i, cycle_options(counter))).expect("add entry");
        }
    }
    let bytes = a.finalize().expect("finalize");
    let cs = strip_archive(&bytes).expect("library archive parses");
    let mut es = Vec::new();
    let mut cur = Vec::new();
    for c in cs {
        let end = c.0 == b"FEND" || c.0 == b"SEND";
        cur.push(c);
        if end {
            es.push(std::mem::take(&mut cur));
        }
    }
    assert!(cur.is_empty(), "library archive with chunks after the last entry");
    es
}
fn gen_write_split(r: &mut Rng, quota: usize, quick: bool, out: &mut Vec<String>) {
    let mut made = 0;
    let mut counter = 0u64;
    let mut index = 0usize;
    let mut sweeps_left = 2usize; // quick tier: exhaustive sweeps for the first small hand-made archives
    while made < quota {
        let forced_small = quick && index < 2;
        let hand = if quick { index < 2 || index % 4 == 2 } else { index % 2 == 0 };
        index += 1;
        let (entries, pwhex) = if hand {
            let small = forced_small || (!quick && r.chance(1, 4));
            (hand_entries(r, small), String::new())
        } else {
            (lib_entries(r, &mut counter), hex(PASSWORD.as_bytes()))
        };
        let all: Vec<Ck> = entries.iter().flatten().cloned().collect();
        let l = indivisible(&all);
        let total = blen(&all);
        let s = 8 + 20 + total + 12;
        let lo = PART_OVERHEAD + l;
        let hi = (s + 20).max(lo);
        let mut ms: BTreeSet<u64> = BTreeSet::new();
        for m in [0, 51, 52, lo.saturating_sub(1), lo, lo + 1, lo + 16, s, s + 12, BIG] {
            ms.insert(m);
        }
        let sweep = if quick {
            let yes = hand && total < 150 && sweeps_left > 0;
            if yes {
                sweeps_left -= 1;
            }
            yes
        } else {
            l < 200
        };
        if sweep {
            for m in 0..=lo + 40 {
                ms.insert(m);
            }
        }
        if quick {
            ms.insert(r.range(lo, lo + 64));
            ms.insert(r.range(lo, hi));
        } else {
            for _ in 0..6 {
                ms.insert(r.range(lo, lo + 64));
            }
            for _ in 0..14 {
                ms.insert(r.range(lo, hi));
            }
        }
        let text = entries.iter().map(|e| show_chunks(e)).collect::<Vec<_>>().join(";");
        for m in ms {
            if made == quota {
                break;
            }
            out.push(format!("write_split\t{}\t{}\t{}", m, text, pwhex));
            made += 1;
        }
    }
}

/// part files for the reader chain: well-formed chains (entries cut anywhere, open entries carried
/// over) and single faults (wrong number, missing/extra ANXT, missing AEND, bad first chunk, ...)
fn gen_read_parts(r: &mut Rng, quota: usize, out: &mut Vec<String>) {
    for i in 0..quota {
        // a flat chunk sequence of 0..3 terminated entries plus, sometimes, an unterminated tail
        let mut flat: Vec<Ck> = Vec::new();
        for _ in 0..r.below(4) {
            let n = r.below(4) as usize;
            flat.extend(rand_chunks(r, n, SMALL_LENS));
            flat.push(ck(if r.chance(3, 4) { b"FEND" } else { b"SEND" }, Vec::new()));
        }
        if r.chance(1, 5) {
            let n = 1 + r.below(2) as usize;
            flat.extend(rand_chunks(r, n, SMALL_LENS));
        }
        // cut it into 1..4 bodies at random places
        let nparts = 1 + r.below(4) as usize;
        let mut cuts: Vec<usize> = (0..nparts - 1).map(|_| r.below(flat.len() as u64 + 1) as usize).collect();
        cuts.sort();
        let mut files: Vec<Vec<Ck>> = Vec::new();
        let mut at = 0;
        for k in 0..nparts {
            let end = if k + 1 == nparts { flat.len() } else { cuts[k] };
            let mut num = vec![0u8; 4];
            num.extend_from_slice(&(k as u32).to_be_bytes());
            let mut f = vec![ck(b"AHED", num)];
            f.extend(flat[at..end].iter().cloned());
            if k + 1 != nparts {
                f.push(ck(b"ANXT", Vec::new()));
            }
            f.push(ck(b"AEND", Vec::new()));
            files.push(f);
            at = end;
        }
        // every third case gets one fault
        if i % 3 == 2 {
            let k = r.below(files.len() as u64) as usize;
            match r.below(10) {
                0 => {
                    // wrong part number
                    let n = *r.pick(&[0u32, 1, 2, 5, u32::MAX]);
                    files[k][0].1[4..].copy_from_slice(&n.to_be_bytes());
                }
                1 => files[k].retain(|c| c.0 != b"ANXT"),
                2 => {
                    let at = files[k].len() - 1;
                    files[k].insert(at, ck(b"ANXT", Vec::new()));
                }
                3 => {
                    files[k].pop();
                }
                4 => files[k][0].0 = b"FHED".to_vec(),
                5 => {
                    let l = *r.pick(&[0usize, 4, 7, 9]);
                    files[k][0].1 = r.bytes(l);
                }
                6 => files[k].push(ck(b"FDAT", r.bytes(3))),
                7 => {
                    let at = 1 + r.below(files[k].len() as u64 - 1) as usize;
                    files[k].insert(at, ck(*r.pick(&[b"ANXT", b"AEND", b"AHED"]), Vec::new()));
                }
                8 => {
                    files.remove(k);
                }
                _ => files[k].clear(),
            }
        }
        out.push(format!("read_parts\t{}", show_files(&files)));
    }
}

fn gen(_prop: &str, tier: &str, seed: u64) -> Vec<String> {
    let mut r = Rng::new(seed);
    let quick = tier != "thorough";
    let (n_split, n_merge, n_write) = if quick { (240, 30, 360) } else { (16_000, 2_000, 22_000) };
    let mut v = Vec::new();
    gen_merge(&mut r, n_merge, &mut v);
    gen_split(&mut r, n_split, quick, &mut v);
    gen_write_split(&mut r, n_write, quick, &mut v);
    gen_read_parts(&mut r, if quick { 45 } else { 3_000 }, &mut v);
    v
}

fn main() {
    if std::env::args().nth(1).as_deref() == Some("worker") {
        worker();
    } else {
        harness_main(gen, run);
    }
}
