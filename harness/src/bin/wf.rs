//! wf area (C14): generator of (i) archives written by the library through every writer kind,
//! codec, cipher, mode and KDF, (ii) mutations that break exactly one well-formedness rule each;
//! the implementation side of the correspondence is the independent reference reader
//! (pnaverif::refdec), compared with the model's strict recogniser (coq/Model/Wf.v).
//! ops (formats in coq/Model/WfRun.v):
//!   wf <label> <hex> [expect]           label "lib:..": oracle = verdict 1 and the reference decode
//!                                        (primitives only) yields `expect` = namehex:contenthex,..
//!                                       label "mut:<reason>:..": oracle = verdict "0 <reason>"
//!   wfparts <label> <hex,hex..> [expect]
//!   strict <hex,hex..>                  entries in the rendering of ArchiveRun.show_entry
//!   agree <hex>                         strict reader vs the library's tolerant reader
#[path = "../libwriters.rs"]
mod libwriters;
use libwriters::*;
use pnaverif::arch;
use pnaverif::refdec::{self as rd, Chunk};
use pnaverif::util::*;

fn ser_chunk(c: &Chunk) -> Vec<u8> {
    let mut v = Vec::new();
    v.extend_from_slice(&(c.data.len() as u32).to_be_bytes());
    v.extend_from_slice(&c.ty);
    v.extend_from_slice(&c.data);
    v.extend_from_slice(&rd::crc32(&c.ty, &c.data).to_be_bytes());
    v
}
fn ser(cs: &[Chunk]) -> Vec<u8> {
    let mut v = rd::SIG.to_vec();
    for c in cs {
        v.extend(ser_chunk(c));
    }
    v
}
fn ch(ty: &[u8; 4], d: &[u8]) -> Chunk {
    Chunk { ty: *ty, data: d.to_vec() }
}
fn pos(cs: &[Chunk], ty: &[u8; 4]) -> Option<usize> {
    cs.iter().position(|c| &c.ty == ty)
}

/// every mutation: (reason the strict readers must give, mutated bytes); None when the base
/// archive has no place for it
fn mutations(base: &[u8]) -> Vec<(&'static str, &'static str, Vec<u8>)> {
    // a base archive the library wrote badly: no mutations (the lib: case itself reports it)
    let cs = match rd::part_chunks(base) {
        Ok(cs) => cs,
        Err(_) => return Vec::new(),
    };
    let mut out: Vec<(&'static str, &'static str, Vec<u8>)> = Vec::new();
    let n = cs.len();
    // whole-file mutations
    out.push(("noend", "missing_aend", base[..base.len() - 12].to_vec()));
    out.push(("chunk", "cut_mid_chunk", base[..base.len() - 5].to_vec()));
    out.push(("trailing", "byte_after_aend", [base, &[0u8][..]].concat()));
    out.push(("trailing", "second_archive_after_aend", [base, base].concat()));
    out.push(("sig", "signature_bit", { let mut b = base.to_vec(); b[0] ^= 0x80; b }));
    out.push(("crc", "crc_bit", { let mut b = base.to_vec(); let l = b.len(); b[l - 1] ^= 1; b }));
    if base.len() > 40 {
        out.push(("crc", "payload_bit", { let mut b = base.to_vec(); b[18] ^= 4; b }));
    }
    let with = |f: &dyn Fn(&mut Vec<Chunk>)| -> Vec<u8> {
        let mut v = cs.clone();
        f(&mut v);
        ser(&v)
    };
    if n > 2 {
        out.push(("order", "anxt_after_ahed", with(&|v| v.insert(1, ch(b"ANXT", b"")))));
    }
    out.push(("parts", "anxt_before_aend_single", with(&|v| v.insert(n - 1, ch(b"ANXT", b"")))));
    out.push(("order", "second_ahed", with(&|v| v.insert(1, v[0].clone()))));
    out.push(("ahed", "ahed_9_bytes", with(&|v| v[0].data.push(0))));
    out.push(("ahed", "ahed_7_bytes", with(&|v| { v[0].data.pop(); })));
    out.push(("ahed", "ahed_major_1", with(&|v| v[0].data[0] = 1)));
    out.push(("ahed", "ahed_reserved", with(&|v| v[0].data[3] = 1)));
    out.push(("ahed", "no_ahed", with(&|v| { v.remove(0); })));
    out.push(("number", "part_number_1", with(&|v| v[0].data[7] = 1)));
    out.push(("marker", "aend_payload", with(&|v| v[n - 1].data.push(1))));
    out.push(("critical", "unknown_critical_outside", with(&|v| v.insert(1, ch(b"ZZZZ", b"x")))));
    out.push(("order", "ancillary_outside", with(&|v| v.insert(1, ch(b"zzZz", b"x")))));
    out.push(("order", "fdat_outside", with(&|v| v.insert(1, ch(b"FDAT", b"x")))));
    out.push(("type", "reserved_bit_outside", with(&|v| v.insert(1, ch(b"zzzz", b"x")))));
    out.push(("type", "non_letter_type", with(&|v| v.insert(1, ch(b"zz1z", b"x")))));
    if let Some(i) = pos(&cs, b"FHED") {
        let e = i + cs[i..].iter().position(|c| &c.ty == b"FEND").unwrap();
        out.push(("order", "fend_missing", with(&|v| { v.remove(e); })));
        out.push(("order", "fhed_missing", with(&|v| { v.remove(i); })));
        out.push(("order", "nested_fhed", with(&|v| v.insert(i + 1, v[i].clone()))));
        out.push(("order", "send_in_file_entry", with(&|v| v.insert(i + 1, ch(b"SEND", b"")))));
        out.push(("critical", "unknown_critical_inside", with(&|v| v.insert(i + 1, ch(b"QQQQ", b"")))));
        out.push(("type", "reserved_bit_inside", with(&|v| v.insert(i + 1, ch(b"abcd", b"")))));
        out.push(("marker", "fend_payload", with(&|v| v[e].data.push(7))));
        out.push(("header", "fhed_bad_compression", with(&|v| v[i].data[3] = 3)));
        out.push(("header", "fhed_bad_kind", with(&|v| v[i].data[2] = 4)));
        out.push(("header", "fhed_major", with(&|v| v[i].data[0] = 1)));
        out.push(("header", "fhed_short", with(&|v| v[i].data.truncate(5))));
        out.push(("name", "name_dotdot", with(&|v| { v[i].data.truncate(6); v[i].data.extend_from_slice(b"a/../b"); })));
        out.push(("name", "name_absolute", with(&|v| { v[i].data.truncate(6); v[i].data.extend_from_slice(b"/abs"); })));
        out.push(("name", "name_empty", with(&|v| v[i].data.truncate(6))));
        out.push(("name", "name_dot", with(&|v| { v[i].data.truncate(6); v[i].data.extend_from_slice(b"./a"); })));
        out.push(("name", "name_double_slash", with(&|v| { v[i].data.truncate(6); v[i].data.extend_from_slice(b"a//b"); })));
        out.push(("name", "name_not_utf8", with(&|v| { v[i].data.truncate(6); v[i].data.extend_from_slice(&[b'a', 0xff]); })));
        out.push(("meta", "mtim_7_bytes", with(&|v| v.insert(i + 1, ch(b"mTIM", &[0; 7])))));
        out.push(("meta", "mtim_twice", with(&|v| { v.insert(i + 1, ch(b"mTIM", &[0; 8])); v.insert(i + 1, ch(b"mTIM", &[0; 8])); })));
        out.push(("meta", "fsiz_leading_zero", with(&|v| { v.retain(|c| &c.ty != b"fSIZ"); v.insert(i + 1, ch(b"fSIZ", &[0, 5])); })));
        out.push(("meta", "fsiz_17_bytes", with(&|v| { v.retain(|c| &c.ty != b"fSIZ"); v.insert(i + 1, ch(b"fSIZ", &[1; 17])); })));
        out.push(("meta", "fprm_trailing", with(&|v| { v.retain(|c| &c.ty != b"fPRM"); let mut d = vec![0u8; 8]; d.push(0); d.extend_from_slice(&[0; 8]); d.push(0); d.extend_from_slice(&[1, 0xa4, 9]); v.insert(i + 1, ch(b"fPRM", &d)); })));
        out.push(("meta", "xatr_short", with(&|v| v.insert(i + 1, ch(b"xATR", &[0, 0, 0, 9, 1])))));
        out.push(("meta", "xatr_trailing", with(&|v| v.insert(i + 1, ch(b"xATR", &[0, 0, 0, 1, b'k', 0, 0, 0, 1, b'v', 0])))));
        if cs[i].data[4] != 0 {
            // encrypted file entry
            let p = i + cs[i..].iter().position(|c| &c.ty == b"PHSF").unwrap();
            let d = i + cs[i..].iter().position(|c| &c.ty == b"FDAT").unwrap();
            let dl = i + cs[i..e].iter().rposition(|c| &c.ty == b"FDAT").unwrap();
            out.push(("phsf", "phsf_after_data", with(&|v| { let c = v.remove(p); v.insert(d, c); })));
            out.push(("phsf", "encrypted_without_phsf", with(&|v| { v.remove(p); })));
            out.push(("phsf", "phsf_twice", with(&|v| v.insert(p, v[p].clone()))));
            out.push(("phsf", "phsf_with_hash", with(&|v| v[p].data.extend_from_slice(b"$aGFzaGhhc2hoYXNoaGFzaGhhc2hoYXNoaGFzaGhhc2g"))));
            out.push(("phsf", "phsf_without_salt", with(&|v| { let k = v[p].data.iter().rposition(|b| *b == b'$').unwrap(); v[p].data.truncate(k); })));
            out.push(("phsf", "phsf_garbage", with(&|v| v[p].data = b"garbage".to_vec())));
            out.push(("data", "no_iv", with(&|v| { let k = p + 1; while k < v.len() && &v[k].ty == b"FDAT" { v.remove(k); } })));
            if cs[i].data[5] == 0 {
                out.push(("data", "cbc_not_block_multiple", with(&|v| v[dl].data.push(0))));
                out.push(("data", "cbc_iv_only", with(&|v| { let iv: Vec<u8> = v[d..=dl].iter().flat_map(|c| c.data.clone()).take(16).collect(); while &v[d].ty == b"FDAT" { v.remove(d); } v.insert(d, ch(b"FDAT", &iv)); })));
            }
        } else {
            out.push(("phsf", "phsf_in_plain_entry", with(&|v| v.insert(i + 1, ch(b"PHSF", b"$pbkdf2-sha256$i=1,l=32$c2FsdHNhbHRzYWx0c2FsdA")))));
        }
    }
    if let Some(i) = pos(&cs, b"SHED") {
        let e = i + cs[i..].iter().position(|c| &c.ty == b"SEND").unwrap();
        out.push(("order", "send_missing", with(&|v| { v.remove(e); })));
        out.push(("header", "shed_6_bytes", with(&|v| v[i].data.push(0))));
        out.push(("header", "shed_bad_mode", with(&|v| v[i].data[4] = 2)));
        out.push(("order", "fend_in_solid", with(&|v| v.insert(i + 1, ch(b"FEND", b"")))));
        out.push(("marker", "send_payload", with(&|v| v[e].data.push(7))));
        if cs[i].data[2] == 0 && cs[i].data[3] == 0 {
            if let Some(d) = cs[i..e].iter().rposition(|c| &c.ty == b"SDAT") {
                out.push(("inner", "solid_stream_cut", with(&|v| { v[i + d].data.pop(); })));
                out.push(("inner", "solid_stream_garbage", with(&|v| v[i + d].data.extend_from_slice(b"garbage garbage"))));
            }
        }
    }
    out
}

fn expect_text(files: &[(String, Vec<u8>)]) -> String {
    files.iter().map(|(n, c)| format!("{}:{}", hex(n.as_bytes()), hex(c))).collect::<Vec<_>>().join(",")
}
fn hexes(parts: &[Vec<u8>]) -> String {
    parts.iter().map(|p| hex(p)).collect::<Vec<_>>().join(",")
}

fn gen(_prop: &str, tier: &str, seed: u64) -> Vec<String> {
    let mut r = Rng::new(seed);
    let thorough = tier == "thorough";
    let mut out: Vec<String> = Vec::new();
    let mut bases: Vec<(String, Vec<u8>)> = Vec::new();
    // (i) every writer kind x codec x cipher x mode x kdf
    let reps = if thorough { 6 } else { 1 };
    for _ in 0..reps {
        for kind in WRITERS {
            for comp in [0u8, 1, 2, 4] {
                for (enc, mode) in [(0u8, 0u8), (1, 0), (1, 1), (2, 0), (2, 1)] {
                    for kdf in [Kdf::Pbkdf2(Some(1)), Kdf::Argon2(Some(1), Some(8), Some(1))] {
                        if enc == 0 && kdf != Kdf::Pbkdf2(Some(1)) {
                            continue;
                        }
                        if kind == "solid_write_file" && !thorough && (comp == 1 || comp == 4) && enc == 2 {
                            continue;
                        }
                        let nfiles = r.range(1, 3) as usize;
                        let files: Vec<(String, Vec<u8>)> = (0..nfiles)
                            .map(|i| {
                                let sz = *r.pick(&[0usize, 1, 15, 16, 17, 31, 32, 33, 100, 257]);
                                let body = if r.chance(1, 2) { r.bytes(sz) } else { b"abcabcabc ".iter().cycle().take(sz).cloned().collect() };
                                (format!("{}{}/f{}", *r.pick(&["d", "dir with space", "\u{540d}"]), i, i), body)
                            })
                            .collect();
                        let cfg = Cfg { comp, enc, mode, kdf };
                        let meta: Option<(&str, &[u8])> = if r.chance(1, 2) { Some(("user", b"v\x00\xff")) } else { None };
                        let bytes = write_with(kind, &cfg, "pw", &files, meta).expect("library writer");
                        let label = format!("lib:{}:c{}e{}m{}:{}", kind, comp, enc, mode, kdf_text(&kdf));
                        out.push(format!("wf\t{}\t{}\t{}", label, hex(&bytes), expect_text(&files)));
                        if r.chance(1, 6) {
                            out.push(format!("strict\t{}", hex(&bytes)));
                            out.push(format!("agree\t{}", hex(&bytes)));
                        }
                        if (comp == 0 || r.chance(1, 8)) && bases.len() < if thorough { 60 } else { 14 } && (kind == "builder" || kind == "write_file" || kind == "solid_builder") {
                            bases.push((label, bytes));
                        }
                    }
                }
            }
        }
    }
    // solid entries that hold no inner entry (an empty stream: the IV and, with CBC, one padding block are all the data
    // there is), built and streamed, stored and compressed, under every cipher and mode (seeded C14-4)
    for kind in ["solid_builder", "solid_archive"] {
        for comp in [0u8, 2] {
            for (enc, mode) in [(0u8, 0u8), (1, 0), (1, 1), (2, 0), (2, 1)] {
                let cfg = Cfg { comp, enc, mode, kdf: Kdf::Pbkdf2(Some(1)) };
                let files: Vec<(String, Vec<u8>)> = Vec::new();
                let bytes = write_with(kind, &cfg, "pw", &files, None).expect("library writer");
                let label = format!("lib:{}:empty:c{}e{}m{}", kind, comp, enc, mode);
                out.push(format!("wf\t{}\t{}\t{}", label, hex(&bytes), expect_text(&files)));
                out.push(format!("strict\t{}", hex(&bytes)));
                out.push(format!("agree\t{}", hex(&bytes)));
            }
        }
    }
    // the sample pool of the archive area (dirs, links, rich metadata, foreign layout)
    for (l, b) in arch::sample_archives() {
        out.push(format!("wf\t{}:{}\t{}\t", if l == "foreign" { "foreign" } else { "sample" }, l, hex(&b)));
        out.push(format!("strict\t{}", hex(&b)));
        out.push(format!("agree\t{}", hex(&b)));
        if l != "foreign" {
            bases.push((format!("sample:{}", l), b));
        }
    }
    let sp = arch::sample_parts();
    out.push(format!("wfparts\tsample:parts\t{}\t", hexes(&sp)));
    out.push(format!("strict\t{}", hexes(&sp)));
    out.push(format!("wfparts\tmut:parts:last_part_missing\t{}\t", hexes(&sp[..2])));
    out.push(format!("wfparts\tmut:number:parts_swapped\t{}\t", hexes(&[sp[0].clone(), sp[2].clone(), sp[1].clone()])));
    out.push(format!("wfparts\tmut:parts:part_after_final\t{}\t", hexes(&[sp[0].clone(), sp[1].clone(), sp[2].clone(), sp[2].clone()])));
    out.push(format!("wfparts\tmut:number:first_part_missing\t{}\t", hexes(&sp[1..])));
    out.push(format!("wf\tmut:parts:first_part_alone\t{}\t", hex(&sp[0])));
    for (i, p) in sp.iter().enumerate() {
        out.push(format!("part\t{}\t{}", i, hex(p)));
        out.push(format!("part\t{}\t{}", i + 1, hex(p)));
    }
    // multipart through the CLI's splitter on library-written archives
    for (l, b) in bases.clone().iter().take(if thorough { 40 } else { 8 }) {
        for max in [70usize, 100, 150] {
            if let Ok(parts) = portable_network_archive::verif_hooks_split::split_archive_bytes(b, max) {
                out.push(format!("wfparts\tlib:split{}:{}\t{}\t", max, l, hexes(&parts)));
                if parts.len() > 1 {
                    out.push(format!("wf\tmut:parts:split_first_alone\t{}\t", hex(&parts[0])));
                    out.push(format!("part\t0\t{}", hex(&parts[0])));
                }
            }
        }
    }
    // (ii) mutations, one broken rule each
    for (l, b) in &bases {
        for (why, name, m) in mutations(b) {
            out.push(format!("wf\tmut:{}:{}:{}\t{}\t", why, name, l, hex(&m)));
        }
    }
    // random single-byte damage and truncation: only agreement of the two strict readers is asked
    for (l, b) in &bases {
        for _ in 0..(if thorough { 40 } else { 6 }) {
            let mut m = b.clone();
            let i = r.below(m.len() as u64) as usize;
            m[i] ^= 1 << r.below(8);
            out.push(format!("wf\tfuzz:flip:{}\t{}\t", l, hex(&m)));
            let k = r.below(b.len() as u64) as usize;
            out.push(format!("wf\tfuzz:cut:{}\t{}\t", l, hex(&b[..k])));
        }
    }
    out
}

fn unhex_list(s: &str) -> Vec<Vec<u8>> {
    if s.is_empty() {
        return vec![];
    }
    s.split(',').map(|h| unhex(h).unwrap_or_default()).collect()
}

fn lib_entries(bytes: &[u8]) -> Option<String> {
    use libpna::Archive;
    guard(|| -> std::io::Result<String> {
        let mut a = Archive::read_header(bytes)?;
        let mut out = Vec::new();
        for e in a.entries() {
            out.push(arch::show_entry(&e?));
        }
        Ok(out.join(";"))
    })
    .ok()?
    .ok()
}

fn run(c: &Case, oracle: &mut Vec<String>) -> String {
    match c.op {
        "wf" | "wfparts" => {
            let label = c.args[0];
            let parts = if c.op == "wf" { vec![unhex(c.args[1]).unwrap_or_default()] } else { unhex_list(c.args[1]) };
            let r = rd::strict_decode(&parts);
            let v = rd::verdict(&r);
            if label.starts_with("lib:") || label.starts_with("sample:") {
                if v != "1" {
                    oracle.push(format!("C14: an archive written by the library is not well-formed ({}): {:?}", label, r.as_ref().err()));
                } else {
                    let (lines, wf, why) = rd::decode_all(&parts, Some(b"pw"));
                    if !wf {
                        oracle.push(format!("C14: the independent reader cannot decode a library-written archive ({}): {}", label, why));
                    } else if let Some(exp) = c.args.get(2).filter(|e| !e.is_empty()) {
                        // names and contents as decoded with primitives only
                        let got: Vec<String> = lines
                            .iter()
                            .filter(|l| l.starts_with("{\"name\""))
                            .map(|l| {
                                let f = |k: &str| -> String { let i = l.find(k).unwrap() + k.len(); l[i..].split('"').next().unwrap().to_string() };
                                format!("{}:{}", f("\"name\":\""), f("\"content\":\""))
                            })
                            .collect();
                        if got.join(",") != **exp {
                            oracle.push(format!("C14: the independent reader decodes different contents ({}): {} instead of {}", label, got.join(","), exp));
                        }
                    }
                }
            }
            if let Some(rest) = label.strip_prefix("mut:") {
                let want = format!("0 {}", rest.split(':').next().unwrap());
                if v != want {
                    oracle.push(format!("reference reader: mutation {} gives {} instead of {}", label, v, want));
                }
            }
            v
        }
        "part" => {
            let n: usize = c.args[0].parse().unwrap_or(0);
            match rd::part_body(&unhex(c.args[1]).unwrap_or_default(), n) {
                Ok(_) => "1".into(),
                Err((w, _)) => format!("0 {}", w),
            }
        }
        "strict" => match rd::strict_decode(&unhex_list(c.args[0])) {
            Ok(es) => format!("OK {}", es.iter().map(rd::show_entry).collect::<Vec<_>>().join(";")),
            Err((w, _)) => format!("NO {}", w),
        },
        "agree" => {
            let b = unhex(c.args[0]).unwrap_or_default();
            match rd::strict_decode(&[b.clone()]) {
                Err(_) => "-".into(),
                Ok(es) => {
                    let mine = es.iter().map(rd::show_entry).collect::<Vec<_>>().join(";");
                    match lib_entries(&b) {
                        Some(theirs) if theirs == mine => "1".into(),
                        other => {
                            oracle.push(format!("C14: on a well-formed archive the library's reader and the strict reader disagree: {:?} vs {}", other, mine));
                            "0".into()
                        }
                    }
                }
            }
        }
        _ => "BADCASE".into(),
    }
}

fn main() {
    harness_main(gen, run);
}
