//! craft: write a (possibly hostile) PNA archive from a small text spec, for the extraction checks
//! (C09 crafted archives).   usage: craft <spec.tsv> <out.pna>
//! One entry per spec line, tab separated:
//!     mode  kind  namehex  datahex  perm  mtime  [xattrs]
//!   mode  = api : the entry is built with libpna's public API (EntryBuilder + EntryName::from_lossy /
//!                 EntryReference::from_lossy).  Names are sanitised by the constructor; link targets keep
//!                 their root and `..` (that is what EntryReference does), so hostile *targets* are expressible.
//!           raw : the entry's chunks are assembled by hand (length ‖ type ‖ data ‖ crc32(type‖data)), the
//!                 FHED payload carries `name` verbatim (`../x`, `/abs`, `a/../../x` …) and the FDAT payload
//!                 carries `data` verbatim: shows that the *reader* sanitises.
//!   kind  = 0 file | 1 directory | 2 symbolic link | 3 hard link
//!   data  = file content, or the link target / hard-link source
//!   perm  = `-` or a decimal mode (fPRM chunk with uid/gid 0, user/group "root")
//!   mtime = `-` or decimal seconds (mTIM chunk)
//!   xattrs = optional; `-` or  namehex=valuehex;…  (xATR chunks; api mode only, any entry kind)
//! The archive is  PNA magic ‖ AHED(0,0,0) ‖ entries… ‖ AEND.
use libpna::prelude::*;
use libpna::{Archive, EntryBuilder, EntryName, EntryReference, ExtendedAttribute, Permission, WriteOptions};
use pnaverif::util::unhex;
use std::io::{self, Write};
use std::time::Duration;

fn chunk(ty: &[u8; 4], data: &[u8]) -> Vec<u8> {
    let mut v = Vec::with_capacity(12 + data.len());
    v.extend_from_slice(&(data.len() as u32).to_be_bytes());
    v.extend_from_slice(ty);
    v.extend_from_slice(data);
    let mut h = crc32fast::Hasher::new();
    h.update(ty);
    h.update(data);
    v.extend_from_slice(&h.finalize().to_be_bytes());
    v
}

fn perm_of(mode: u16) -> Permission {
    Permission::new(0, "root".into(), 0, "root".into(), mode)
}

/// all bytes of a one-entry archive written through the public API, without the
/// magic, the AHED chunk (8 + 20 bytes) and the trailing AEND chunk (12 bytes)
fn api_entry(kind: u8, name: &[u8], data: &[u8], perm: Option<u16>, mtime: Option<u64>, xattrs: &[(String, Vec<u8>)]) -> io::Result<Vec<u8>> {
    let name = EntryName::from_lossy(String::from_utf8_lossy(name).into_owned());
    let target = || EntryReference::from_lossy(String::from_utf8_lossy(data).into_owned());
    let mut b = match kind {
        0 => {
            let mut b = EntryBuilder::new_file(name, WriteOptions::store())?;
            b.write_all(data)?;
            b
        }
        1 => EntryBuilder::new_dir(name),
        2 => EntryBuilder::new_symbolic_link(name, target())?,
        _ => EntryBuilder::new_hard_link(name, target())?,
    };
    if let Some(m) = perm {
        b.permission(perm_of(m));
    }
    if let Some(t) = mtime {
        b.modified(Duration::from_secs(t));
    }
    for (k, v) in xattrs {
        b.add_xattr(ExtendedAttribute::new(k.clone(), v.clone()));
    }
    let e = b.build()?;
    let mut a = Archive::write_header(Vec::new())?;
    a.add_entry(e)?;
    let bytes = a.finalize()?;
    Ok(bytes[8 + 20..bytes.len() - 12].to_vec())
}

fn raw_entry(kind: u8, name: &[u8], data: &[u8], perm: Option<u16>, mtime: Option<u64>) -> Vec<u8> {
    // FHED: major minor kind compression encryption cipher_mode name
    let mut fhed = vec![0u8, 0, kind, 0, 0, 0];
    fhed.extend_from_slice(name);
    let mut v = chunk(b"FHED", &fhed);
    if !data.is_empty() {
        v.extend(chunk(b"FDAT", data));
    }
    if let Some(t) = mtime {
        v.extend(chunk(b"mTIM", &t.to_be_bytes()));
    }
    if let Some(m) = perm {
        v.extend(chunk(b"fPRM", &libpna::verif_hooks::permission_to_bytes(&perm_of(m))));
    }
    v.extend(chunk(b"FEND", &[]));
    v
}

fn main() -> io::Result<()> {
    let a: Vec<String> = std::env::args().collect();
    if a.len() != 3 {
        eprintln!("usage: craft <spec.tsv> <out.pna>");
        std::process::exit(2);
    }
    let spec = std::fs::read_to_string(&a[1])?;
    let mut out = Vec::new();
    out.extend_from_slice(b"\x89PNA\r\n\x1a\n");
    out.extend(chunk(b"AHED", &[0, 0, 0, 0, 0, 0, 0, 0]));
    for line in spec.lines() {
        if line.is_empty() || line.starts_with('#') {
            continue;
        }
        let f: Vec<&str> = line.split('\t').collect();
        if f.len() < 6 {
            return Err(io::Error::other(format!("bad spec line {line:?}")));
        }
        let kind: u8 = f[1].parse().map_err(io::Error::other)?;
        let name = unhex(f[2]).ok_or_else(|| io::Error::other("name hex"))?;
        let data = unhex(f[3]).ok_or_else(|| io::Error::other("data hex"))?;
        let perm = if f[4] == "-" { None } else { Some(f[4].parse::<u16>().map_err(io::Error::other)?) };
        let mtime = if f[5] == "-" { None } else { Some(f[5].parse::<u64>().map_err(io::Error::other)?) };
        let mut xattrs = Vec::new();
        if f.len() > 6 && f[6] != "-" && !f[6].is_empty() {
            for kv in f[6].split(';') {
                let (k, v) = kv.split_once('=').ok_or_else(|| io::Error::other("xattr spec"))?;
                let k = unhex(k).ok_or_else(|| io::Error::other("xattr name hex"))?;
                let v = unhex(v).ok_or_else(|| io::Error::other("xattr value hex"))?;
                xattrs.push((String::from_utf8_lossy(&k).into_owned(), v));
            }
        }
        match f[0] {
            "api" => out.extend(api_entry(kind, &name, &data, perm, mtime, &xattrs)?),
            "raw" => out.extend(raw_entry(kind, &name, &data, perm, mtime)),
            m => return Err(io::Error::other(format!("bad mode {m:?}"))),
        }
    }
    out.extend(chunk(b"AEND", &[]));
    std::fs::write(&a[2], out)
}
