use std::fmt::Write as _;
use std::io;

/// splitmix64 / xorshift PRNG: every random choice of a run derives from one seed.
#[derive(Clone)]
pub struct Rng(pub u64);
impl Rng {
    pub fn new(seed: u64) -> Self {
        Rng(seed ^ 0x9E37_79B9_7F4A_7C15)
    }
    pub fn next(&mut self) -> u64 {
        self.0 = self.0.wrapping_add(0x9E37_79B9_7F4A_7C15);
        let mut z = self.0;
        z = (z ^ (z >> 30)).wrapping_mul(0xBF58_476D_1CE4_E5B9);
        z = (z ^ (z >> 27)).wrapping_mul(0x94D0_49BB_1331_11EB);
        z ^ (z >> 31)
    }
    pub fn below(&mut self, n: u64) -> u64 {
        if n == 0 {
            0
        } else {
            self.next() % n
        }
    }
    pub fn range(&mut self, lo: u64, hi: u64) -> u64 {
        lo + self.below(hi - lo + 1)
    }
    pub fn chance(&mut self, num: u64, den: u64) -> bool {
        self.below(den) < num
    }
    pub fn pick<'a, T>(&mut self, xs: &'a [T]) -> &'a T {
        &xs[self.below(xs.len() as u64) as usize]
    }
    pub fn bytes(&mut self, n: usize) -> Vec<u8> {
        (0..n).map(|_| self.next() as u8).collect()
    }
}

pub fn hex(b: &[u8]) -> String {
    let mut s = String::with_capacity(b.len() * 2);
    for x in b {
        write!(s, "{:02x}", x).unwrap();
    }
    s
}

pub fn unhex(s: &str) -> Option<Vec<u8>> {
    if s.len() % 2 != 0 {
        return None;
    }
    (0..s.len() / 2)
        .map(|i| u8::from_str_radix(&s[2 * i..2 * i + 2], 16).ok())
        .collect()
}

/// canonical error-kind names shared with the Coq model (Base.v show_ekind)
pub fn ekind(e: &io::Error) -> &'static str {
    use io::ErrorKind::*;
    match e.kind() {
        UnexpectedEof => "UnexpectedEof",
        InvalidData => "InvalidData",
        InvalidInput => "InvalidInput",
        Unsupported => "Unsupported",
        AlreadyExists => "AlreadyExists",
        NotFound => "NotFound",
        _ => "Other",
    }
}

pub fn show_res<T>(r: Result<io::Result<T>, ()>, f: impl FnOnce(T) -> String) -> String {
    match r {
        Ok(Ok(v)) => format!("OK {}", f(v)),
        Ok(Err(e)) => format!("ERR {}", ekind(&e)),
        Err(()) => "PANIC".to_string(),
    }
}

/// run `f` catching panics (the panic message goes nowhere)
pub fn guard<T>(f: impl FnOnce() -> T + std::panic::UnwindSafe) -> Result<T, ()> {
    std::panic::catch_unwind(f).map_err(|_| ())
}

pub fn quiet_panics() {
    std::panic::set_hook(Box::new(|_| {}));
}

// ---------------------------------------------------------------------------
// common command-line shape of every harness binary:
//   <bin> gen  <prop> <tier> <seed> <cases.tsv>
//   <bin> run  <cases.tsv> <impl.out> <oracle.out>
// A case line is `id \t op \t args...`; an impl line is `id \t outcome`;
// an oracle line is `id \t message` (a property oracle failed on the implementation).
pub struct Case<'a> {
    pub id: &'a str,
    pub op: &'a str,
    pub args: Vec<&'a str>,
}

pub struct Out {
    pub impl_lines: Vec<String>,
    pub oracle_lines: Vec<String>,
}

pub fn harness_main(
    gen: impl Fn(&str, &str, u64) -> Vec<String>,
    run: impl Fn(&Case, &mut Vec<String>) -> String,
) {
    quiet_panics();
    let a: Vec<String> = std::env::args().collect();
    match a.get(1).map(|s| s.as_str()) {
        Some("gen") => {
            let seed: u64 = a[4].parse().expect("seed");
            let lines = gen(&a[2], &a[3], seed);
            let mut s = String::new();
            for (i, l) in lines.iter().enumerate() {
                s.push_str(&format!("{}\t{}\n", i, l));
            }
            std::fs::write(&a[5], s).expect("write cases");
        }
        Some("run") => {
            let text = std::fs::read_to_string(&a[2]).expect("read cases");
            let mut out = String::new();
            let mut orc = String::new();
            for line in text.lines() {
                if line.is_empty() {
                    continue;
                }
                let mut it = line.split('\t');
                let id = it.next().unwrap();
                let op = it.next().unwrap_or("");
                let args: Vec<&str> = it.collect();
                let case = Case { id, op, args };
                let mut oracle = Vec::new();
                let r = run(&case, &mut oracle);
                out.push_str(&format!("{}\t{}\n", id, r));
                for o in oracle {
                    orc.push_str(&format!("{}\t{}\n", id, o));
                }
            }
            std::fs::write(&a[3], out).expect("write impl.out");
            std::fs::write(&a[4], orc).expect("write oracle.out");
        }
        _ => {
            eprintln!("usage: gen <prop> <tier> <seed> <cases.tsv> | run <cases.tsv> <impl.out> <oracle.out>");
            std::process::exit(2);
        }
    }
}
