//! the library's writer kinds behind one function, for the generator sides of wf.rs and kdf.rs
#![allow(dead_code)]
//! (included with #[path]; uses libpna — the reference reader refdec.rs does not).
#[allow(unused_imports)]
use libpna::prelude::*;
use libpna::*;
use std::io::{self, Write};
use std::time::Duration;

#[derive(Clone, Copy, Debug, PartialEq)]
pub enum Kdf {
    Pbkdf2(Option<u32>),
    Argon2(Option<u32>, Option<u32>, Option<u32>),
}
#[derive(Clone, Copy, Debug)]
pub struct Cfg {
    pub comp: u8,
    pub enc: u8,
    pub mode: u8,
    pub kdf: Kdf,
}
pub fn kdf_text(k: &Kdf) -> String {
    let o = |x: &Option<u32>| x.map(|v| v.to_string()).unwrap_or("-".into());
    match k {
        Kdf::Pbkdf2(r) => format!("pbkdf2.{}", o(r)),
        Kdf::Argon2(t, m, p) => format!("argon2.{}.{}.{}", o(t), o(m), o(p)),
    }
}
pub fn kdf_parse(s: &str) -> Option<Kdf> {
    let f: Vec<&str> = s.split('.').collect();
    let o = |x: &str| -> Option<Option<u32>> {
        if x == "-" {
            Some(None)
        } else {
            x.parse().ok().map(Some)
        }
    };
    match (f[0], f.len()) {
        ("pbkdf2", 2) => Some(Kdf::Pbkdf2(o(f[1])?)),
        ("argon2", 4) => Some(Kdf::Argon2(o(f[1])?, o(f[2])?, o(f[3])?)),
        _ => None,
    }
}
pub fn compression(c: u8) -> Compression {
    match c {
        0 => Compression::No,
        1 => Compression::Deflate,
        2 => Compression::ZStandard,
        _ => Compression::XZ,
    }
}
pub fn options(cfg: &Cfg, pw: &str) -> WriteOptions {
    let mut b = WriteOptions::builder();
    b.compression(compression(cfg.comp));
    if cfg.enc != 0 {
        b.encryption(if cfg.enc == 1 { Encryption::Aes } else { Encryption::Camellia })
            .cipher_mode(if cfg.mode == 0 { CipherMode::CBC } else { CipherMode::CTR })
            .hash_algorithm(match cfg.kdf {
                Kdf::Pbkdf2(r) => HashAlgorithm::pbkdf2_sha256_with(r),
                Kdf::Argon2(t, m, p) => HashAlgorithm::argon2id_with(t, m, p),
            })
            .password(Some(pw));
    }
    b.build()
}

pub const WRITERS: [&str; 5] = ["builder", "write_file", "solid_builder", "solid_archive", "solid_write_file"];

pub fn rich(b: &mut EntryBuilder, uname: &str, xval: &[u8]) {
    b.created(Duration::from_secs(1_600_000_000));
    b.modified(Duration::from_secs(1_700_000_001));
    b.accessed(Duration::from_secs(1_700_000_002));
    b.permission(Permission::new(1000, uname.into(), 100, "grp".into(), 0o644));
    b.add_xattr(ExtendedAttribute::new("user.k".into(), xval.to_vec()));
}

fn plain_file(name: &str, content: &[u8], meta: Option<(&str, &[u8])>) -> io::Result<NormalEntry> {
    let mut b = EntryBuilder::new_file(name.into(), WriteOptions::store())?;
    b.write_all(content)?;
    if let Some((u, x)) = meta {
        rich(&mut b, u, x);
    }
    b.build()
}

/// one archive holding `files` written through the given writer kind; `meta` = (uname, xattr value)
/// attached to every file entry where the writer kind can carry it
pub fn write_with(kind: &str, cfg: &Cfg, pw: &str, files: &[(String, Vec<u8>)], meta: Option<(&str, &[u8])>) -> io::Result<Vec<u8>> {
    match kind {
        "builder" => {
            let mut a = Archive::write_header(Vec::new())?;
            for (n, c) in files {
                let mut b = EntryBuilder::new_file(n.as_str().into(), options(cfg, pw))?;
                b.write_all(c)?;
                if let Some((u, x)) = meta {
                    rich(&mut b, u, x);
                }
                a.add_entry(b.build()?)?;
            }
            a.finalize()
        }
        "write_file" => {
            let mut a = Archive::write_header(Vec::new())?;
            for (n, c) in files {
                let mut m = Metadata::new();
                if let Some((u, _)) = meta {
                    m = m.with_modified(Some(Duration::from_secs(1_700_000_001))).with_permission(Some(Permission::new(1000, u.into(), 100, "grp".into(), 0o600)));
                }
                a.write_file(n.as_str().into(), m, options(cfg, pw), |w| w.write_all(c))?;
            }
            a.finalize()
        }
        "solid_builder" => {
            let mut sb = SolidEntryBuilder::new(options(cfg, pw))?;
            for (n, c) in files {
                sb.add_entry(plain_file(n, c, meta)?)?;
            }
            let mut a = Archive::write_header(Vec::new())?;
            a.add_entry(sb.build()?)?;
            a.finalize()
        }
        "solid_archive" => {
            let mut a = Archive::write_solid_header(Vec::new(), options(cfg, pw))?;
            for (n, c) in files {
                a.add_entry(plain_file(n, c, meta)?)?;
            }
            a.finalize()
        }
        "solid_write_file" => {
            let mut a = Archive::write_solid_header(Vec::new(), options(cfg, pw))?;
            for (n, c) in files {
                let mut m = Metadata::new();
                if let Some((u, _)) = meta {
                    m = m.with_modified(Some(Duration::from_secs(1_700_000_001))).with_permission(Some(Permission::new(1000, u.into(), 100, "grp".into(), 0o600)));
                }
                a.write_file(n.as_str().into(), m, |w| w.write_all(c))?;
            }
            a.finalize()
        }
        _ => Err(io::Error::other("unknown writer kind")),
    }
}

/// (name, content) of every file entry as the library reads it back (solid entries expanded)
pub fn lib_read(bytes: &[u8], pw: Option<&str>) -> io::Result<Vec<(Vec<u8>, Vec<u8>)>> {
    use std::io::Read;
    let mut a = Archive::read_header(bytes)?;
    let mut out = Vec::new();
    for e in a.entries_with_password(pw) {
        let e = e?;
        let mut v = Vec::new();
        e.reader(ReadOptions::with_password(pw))?.read_to_end(&mut v)?;
        out.push((e.header().path().as_str().as_bytes().to_vec(), v));
    }
    Ok(out)
}
