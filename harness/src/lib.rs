//! shared helpers for the verification harness binaries
pub mod util;
pub mod arch;
pub mod refdec;
