//! helpers shared by the archive-level harness binaries: raw chunk assembly, an independent
//! chunk scanner, canonical rendering of parsed entries (mirrors coq/Model/ArchiveRun.v),
//! and a pool of sample archives written through the public library API.
use crate::util::*;
use libpna::prelude::*;
use libpna::verif_hooks as h;
use libpna::*;
use std::io::{self, Write};
use std::time::Duration;

pub const SIG: &[u8; 8] = b"\x89PNA\r\n\x1a\n";

pub fn crc(ty: &[u8], data: &[u8]) -> u32 {
    let mut hh = crc32fast::Hasher::new();
    hh.update(ty);
    hh.update(data);
    hh.finalize()
}
pub fn raw_chunk(ty: &[u8], data: &[u8]) -> Vec<u8> {
    let mut v = Vec::with_capacity(12 + data.len());
    v.extend_from_slice(&(data.len() as u32).to_be_bytes());
    v.extend_from_slice(&ty[..4]);
    v.extend_from_slice(data);
    v.extend_from_slice(&crc(&ty[..4], data).to_be_bytes());
    v
}
pub fn raw_archive(number: u32, chunks: &[(Vec<u8>, Vec<u8>)]) -> Vec<u8> {
    let mut v = SIG.to_vec();
    let mut hd = vec![0u8; 4];
    hd.extend_from_slice(&number.to_be_bytes());
    v.extend(raw_chunk(b"AHED", &hd));
    for (t, d) in chunks {
        v.extend(raw_chunk(t, d));
    }
    v
}

/// independent chunk scanner: (offset, type, payload) of every chunk up to and including AEND;
/// None if the bytes are not a well-delimited chunk sequence
pub fn scan(bytes: &[u8]) -> Option<Vec<(usize, [u8; 4], Vec<u8>)>> {
    if bytes.len() < 8 || &bytes[..8] != SIG {
        return None;
    }
    let mut out = Vec::new();
    let mut p = 8;
    loop {
        if p + 12 > bytes.len() {
            return None;
        }
        let l = u32::from_be_bytes(bytes[p..p + 4].try_into().unwrap()) as usize;
        if p + 12 + l > bytes.len() {
            return None;
        }
        let ty: [u8; 4] = bytes[p + 4..p + 8].try_into().unwrap();
        let d = bytes[p + 8..p + 8 + l].to_vec();
        let c = u32::from_be_bytes(bytes[p + 8 + l..p + 12 + l].try_into().unwrap());
        if c != crc(&ty, &d) {
            return None;
        }
        out.push((p, ty, d));
        p += 12 + l;
        if &ty == b"AEND" {
            return Some(out);
        }
    }
}

/// byte spans [start, end) of the entries of a well-formed single archive (FHED..FEND / SHED..SEND)
pub fn entry_spans(bytes: &[u8]) -> Option<Vec<(usize, usize)>> {
    let cs = scan(bytes)?;
    let mut spans = Vec::new();
    let mut start: Option<usize> = None;
    for (off, ty, d) in &cs {
        match ty {
            b"AHED" | b"AEND" | b"ANXT" => {}
            _ => {
                if start.is_none() {
                    start = Some(*off);
                }
                if ty == b"FEND" || ty == b"SEND" {
                    spans.push((start.take().unwrap(), off + 12 + d.len()));
                }
            }
        }
    }
    Some(spans)
}

// ---- canonical rendering ------------------------------------------------------------
pub fn show_chunk(ty: &[u8], data: &[u8]) -> String {
    format!("{}:{}", hex(ty), hex(data))
}
pub fn chunk_type_bytes<C: Chunk>(c: &C) -> [u8; 4] {
    h::chunk_type_bytes(c.ty())
}
pub fn show_raw_chunks<C: Chunk>(cs: &[C]) -> String {
    cs.iter().map(|c| show_chunk(&chunk_type_bytes(c), c.data())).collect::<Vec<_>>().join(",")
}

fn opt<T>(o: Option<T>, f: impl Fn(T) -> String) -> String {
    match o {
        Some(v) => f(v),
        None => "-".into(),
    }
}
pub fn show_perm(p: &Permission) -> String {
    format!("{}.{}.{}.{}.{}", p.uid(), hex(p.uname().as_bytes()), p.gid(), hex(p.gname().as_bytes()), p.permissions())
}
pub fn show_normal<T: AsRef<[u8]>>(e: &NormalEntry<T>) -> String
where
    RawChunk<T>: Chunk,
{
    let hd = e.header();
    // major/minor are not public: a parsed NormalEntry always has 0.0 (anything else is rejected)
    let (phsf, data) = h::normal_entry_parts(e);
    let m = e.metadata();
    format!(
        "N/0.0.{}.{}.{}.{}.{}/{}/{}/{}/{}.{}.{}.{}.{}/{}/{}",
        hd.data_kind() as u8,
        hd.compression() as u8,
        hd.encryption() as u8,
        hd.cipher_mode() as u8,
        hex(hd.path().as_str().as_bytes()),
        opt(phsf, |s| hex(s.as_bytes())),
        show_raw_chunks(e.extra_chunks()),
        data.iter().map(|d| hex(d)).collect::<Vec<_>>().join("."),
        opt(m.raw_file_size(), |v| v.to_string()),
        m.compressed_size(),
        opt(m.created(), |d| d.as_secs().to_string()),
        opt(m.modified(), |d| d.as_secs().to_string()),
        opt(m.accessed(), |d| d.as_secs().to_string()),
        opt(m.permission(), show_perm),
        e.xattrs().iter().map(|x| format!("{}={}", hex(x.name().as_bytes()), hex(x.value()))).collect::<Vec<_>>().join(","),
    )
}
pub fn show_solid<T: AsRef<[u8]>>(e: &SolidEntry<T>) -> String
where
    RawChunk<T>: Chunk,
{
    let hd = e.header();
    let (phsf, data) = h::solid_entry_parts(e);
    format!(
        "S/0.0.{}.{}.{}/{}/{}/{}",
        hd.compression() as u8,
        hd.encryption() as u8,
        hd.cipher_mode() as u8,
        opt(phsf, |s| hex(s.as_bytes())),
        show_raw_chunks(e.extra_chunks()),
        data.iter().map(|d| hex(d)).collect::<Vec<_>>().join("."),
    )
}
pub fn show_entry<T: AsRef<[u8]>>(e: &ReadEntry<T>) -> String
where
    RawChunk<T>: Chunk,
{
    match e {
        ReadEntry::Normal(n) => show_normal(n),
        ReadEntry::Solid(s) => show_solid(s),
    }
}
pub fn show_fin(r: &Result<(), io::Error>) -> String {
    match r {
        Ok(()) => "OK".into(),
        Err(e) => format!("ERR {}", ekind(e)),
    }
}

// ---- sample archives through the public API ------------------------------------------------
pub fn priv_chunk(ty: &[u8; 4], data: &[u8]) -> RawChunk {
    RawChunk::from_data(ChunkType::private(*ty).unwrap(), data.to_vec())
}
fn file_entry(name: &str, content: &[u8], opt_: WriteOptions, rich: bool) -> NormalEntry {
    let mut b = EntryBuilder::new_file(name.into(), opt_).unwrap();
    b.write_all(content).unwrap();
    if rich {
        b.created(Duration::from_secs(1_600_000_000));
        b.modified(Duration::from_secs(1_700_000_001));
        b.accessed(Duration::from_secs(1_700_000_002));
        b.permission(Permission::new(1000, "user".into(), 100, "grp".into(), 0o644));
        b.add_xattr(ExtendedAttribute::new("user.k".into(), b"v\x00\xff".to_vec()));
        b.add_extra_chunk(priv_chunk(b"abCd", b"private"));
    }
    b.build().unwrap()
}
pub fn enc_options(enc: Encryption, mode: CipherMode, comp: Compression) -> WriteOptions {
    WriteOptions::builder()
        .compression(comp)
        .encryption(enc)
        .cipher_mode(mode)
        .hash_algorithm(HashAlgorithm::pbkdf2_sha256_with(Some(1)))
        .password(Some("pw"))
        .build()
}
/// (label, bytes) — small well-formed archives of every flavour the readers must handle
pub fn sample_archives() -> Vec<(&'static str, Vec<u8>)> {
    let mut v: Vec<(&'static str, Vec<u8>)> = Vec::new();
    v.push(("empty", Archive::write_header(Vec::new()).unwrap().finalize().unwrap()));
    {
        let mut a = Archive::write_header(Vec::new()).unwrap();
        a.add_entry(EntryBuilder::new_dir("d".into()).build().unwrap()).unwrap();
        v.push(("dir", a.finalize().unwrap()));
    }
    {
        let mut a = Archive::write_header(Vec::new()).unwrap();
        a.add_entry(file_entry("a/b.txt", b"hello world", WriteOptions::store(), true)).unwrap();
        v.push(("rich", a.finalize().unwrap()));
    }
    {
        let mut a = Archive::write_header(Vec::new()).unwrap();
        a.add_entry(EntryBuilder::new_dir("dir".into()).build().unwrap()).unwrap();
        a.add_entry(file_entry("dir/f", b"0123456789abcdef0123", WriteOptions::store(), false)).unwrap();
        a.add_entry(EntryBuilder::new_symbolic_link("dir/l".into(), "f".into()).unwrap().build().unwrap()).unwrap();
        a.add_entry(EntryBuilder::new_hard_link("dir/h".into(), "dir/f".into()).unwrap().build().unwrap()).unwrap();
        a.add_entry(file_entry("z", b"", WriteOptions::store(), false)).unwrap();
        v.push(("multi", a.finalize().unwrap()));
    }
    {
        let mut sb = SolidEntryBuilder::new(WriteOptions::store()).unwrap();
        sb.add_entry(file_entry("s1", b"solid one", WriteOptions::store(), false)).unwrap();
        sb.add_entry(file_entry("s2", b"two", WriteOptions::store(), true)).unwrap();
        let mut a = Archive::write_header(Vec::new()).unwrap();
        a.add_entry(sb.build().unwrap()).unwrap();
        a.add_entry(file_entry("after", b"x", WriteOptions::store(), false)).unwrap();
        v.push(("solid", a.finalize().unwrap()));
    }
    {
        let mut a = Archive::write_header(Vec::new()).unwrap();
        a.add_entry(file_entry("e1", b"secret secret secret", enc_options(Encryption::Aes, CipherMode::CTR, Compression::ZStandard), false)).unwrap();
        a.add_entry(file_entry("e2", b"0123456789abcdefX", enc_options(Encryption::Camellia, CipherMode::CBC, Compression::No), false)).unwrap();
        v.push(("enc", a.finalize().unwrap()));
    }
    {
        let mut sb = SolidEntryBuilder::new(enc_options(Encryption::Aes, CipherMode::CTR, Compression::No)).unwrap();
        sb.add_entry(file_entry("hidden-name", b"hidden content", WriteOptions::store(), true)).unwrap();
        let mut a = Archive::write_header(Vec::new()).unwrap();
        a.add_entry(sb.build().unwrap()).unwrap();
        v.push(("solidenc", a.finalize().unwrap()));
    }
    {
        let mut a = Archive::write_solid_header(Vec::new(), WriteOptions::store()).unwrap();
        a.add_entry(file_entry("w1", b"in solid archive", WriteOptions::store(), false)).unwrap();
        a.write_file("w2".into(), Metadata::new(), |w| w.write_all(b"streamed")).unwrap();
        v.push(("solidarchive", a.finalize().unwrap()));
    }
    {
        // foreign layout: metadata before data, several data chunks incl. an empty one, unknown
        // ancillary and private chunks, duplicated metadata
        let cs: Vec<(Vec<u8>, Vec<u8>)> = vec![
            (b"FHED".to_vec(), vec![0, 0, 0, 0, 0, 0, b'f', b'/', b'x']),
            (b"mTIM".to_vec(), 5u64.to_be_bytes().to_vec()),
            (b"zzZz".to_vec(), b"unknown ancillary".to_vec()),
            (b"FDAT".to_vec(), b"ab".to_vec()),
            (b"FDAT".to_vec(), vec![]),
            (b"xATR".to_vec(), { let mut x = vec![0, 0, 0, 1, b'k', 0, 0, 0, 2, 1, 2]; x.push(9); x }),
            (b"FDAT".to_vec(), b"cde".to_vec()),
            (b"mTIM".to_vec(), 7u64.to_be_bytes().to_vec()),
            (b"fSIZ".to_vec(), vec![0, 0, 5]),
            (b"abCd".to_vec(), vec![1, 2, 3]),
            (b"myTY".to_vec(), b"unknown, not safe to copy".to_vec()),
            (b"QRST".to_vec(), b"unknown critical public".to_vec()),
            (b"FEND".to_vec(), vec![]),
            (b"SHED".to_vec(), vec![0, 0, 0, 0, 0]),
            (b"qqQq".to_vec(), b"solid extra".to_vec()),
            (b"qqQQ".to_vec(), b"solid extra, not safe to copy".to_vec()),
            (b"SDAT".to_vec(), raw_chunk(b"FHED", &[0, 0, 0, 0, 0, 0, b'i'])),
            (b"SDAT".to_vec(), { let mut x = raw_chunk(b"inNr", b"inner unknown"); x.extend(raw_chunk(b"inNR", b"inner unknown 2")); x.extend(raw_chunk(b"FDAT", b"q")); x.extend(raw_chunk(b"FEND", b"")); x }),
            (b"SEND".to_vec(), vec![]),
            (b"AEND".to_vec(), vec![]),
        ];
        v.push(("foreign", raw_archive(0, &cs)));
    }
    {
        // solid blocks that hold no entry (a SolidEntryBuilder nobody added to; what delete --keep-solid leaves of a block
        // whose entries are all gone) in front of, between and behind other items, stored and compressed
        let empty = |o: WriteOptions| SolidEntryBuilder::new(o).unwrap().build().unwrap();
        let mut a = Archive::write_header(Vec::new()).unwrap();
        a.add_entry(empty(WriteOptions::store())).unwrap();
        a.add_entry(file_entry("behind-empty", b"one", WriteOptions::store(), false)).unwrap();
        a.add_entry(empty(WriteOptions::builder().compression(Compression::ZStandard).build())).unwrap();
        a.add_entry(empty(WriteOptions::store())).unwrap();
        let mut sb = SolidEntryBuilder::new(WriteOptions::store()).unwrap();
        sb.add_entry(file_entry("in-block", b"two", WriteOptions::store(), false)).unwrap();
        a.add_entry(sb.build().unwrap()).unwrap();
        a.add_entry(EntryBuilder::new_dir("last".into()).build().unwrap()).unwrap();
        a.add_entry(empty(WriteOptions::store())).unwrap();
        v.push(("emptysolid", a.finalize().unwrap()));
    }
    v
}

/// a two/three-part set: entries with an entry straddling a part boundary
pub fn sample_parts() -> Vec<Vec<u8>> {
    let p0: Vec<(Vec<u8>, Vec<u8>)> = vec![
        (b"FHED".to_vec(), vec![0, 0, 0, 0, 0, 0, b'a']),
        (b"FDAT".to_vec(), b"one".to_vec()),
        (b"FEND".to_vec(), vec![]),
        (b"FHED".to_vec(), vec![0, 0, 0, 0, 0, 0, b'b']),
        (b"FDAT".to_vec(), b"strad".to_vec()),
        (b"ANXT".to_vec(), vec![]),
        (b"AEND".to_vec(), vec![]),
    ];
    let p1: Vec<(Vec<u8>, Vec<u8>)> = vec![
        (b"FDAT".to_vec(), b"dling".to_vec()),
        (b"FEND".to_vec(), vec![]),
        (b"ANXT".to_vec(), vec![]),
        (b"AEND".to_vec(), vec![]),
    ];
    let p2: Vec<(Vec<u8>, Vec<u8>)> = vec![
        (b"FHED".to_vec(), vec![0, 0, 1, 0, 0, 0, b'c']),
        (b"FEND".to_vec(), vec![]),
        (b"AEND".to_vec(), vec![]),
    ];
    vec![raw_archive(0, &p0), raw_archive(1, &p1), raw_archive(2, &p2)]
}

/// a part set written through the library's own split writer (write_header / add_entry_part /
/// split_to_next_archive / finalize) with EntryPart::split cutting the entries: `room` bytes of
/// entry chunks per part; entries with metadata, a data stream cut across parts, a directory
pub fn sample_parts_api(room: usize) -> Vec<Vec<u8>> {
    let es: Vec<NormalEntry> = vec![
        file_entry("p/one", b"0123456789abcdefghijklmnopqrst", WriteOptions::store(), true),
        file_entry("p/two", &(0..90u8).collect::<Vec<u8>>(), WriteOptions::store(), false),
        EntryBuilder::new_dir("p/d".into()).build().unwrap(),
        file_entry("p/three", b"tail", WriteOptions::store(), false),
    ];
    let mut bufs: Vec<Vec<u8>> = (0..16).map(|_| Vec::new()).collect();
    let mut used = 1;
    {
        let mut it = bufs.iter_mut();
        let mut w = Archive::write_header(it.next().unwrap()).unwrap();
        let mut written = 0usize;
        for e in es {
            let mut p = EntryPart::from(e);
            let mut guard_rounds = 0;
            loop {
                guard_rounds += 1;
                assert!(guard_rounds < 64, "sample_parts_api: room too small");
                let (a, rest) = p.split(room - written);
                if a.bytes_len() > 0 {
                    written += w.add_entry_part(a).unwrap();
                }
                match rest {
                    None => break,
                    Some(r) => {
                        w = w.split_to_next_archive(it.next().expect("enough part buffers")).unwrap();
                        used += 1;
                        written = 0;
                        p = r;
                    }
                }
            }
        }
        w.finalize().unwrap();
    }
    bufs.truncate(used);
    bufs
}

/// for a well-formed part set: for every entry (closed by FEND / SEND, possibly straddling parts) the position
/// (part index, end offset in that part) of the end of its closing chunk; None if a part does not scan
pub fn part_entry_ends(parts: &[Vec<u8>]) -> Option<Vec<(usize, usize)>> {
    let mut ends = Vec::new();
    for (k, p) in parts.iter().enumerate() {
        for (off, ty, d) in scan(p)? {
            if &ty == b"FEND" || &ty == b"SEND" {
                ends.push((k, off + 12 + d.len()));
            }
        }
    }
    Some(ends)
}
/// offset `n` of a scannable part lies in the 4-byte length field of one of its chunks
pub fn in_length_field(part: &[u8], n: usize) -> bool {
    scan(part).map(|cs| cs.iter().any(|(off, _, _)| *off <= n && n < off + 4)).unwrap_or(false)
}

// ---- chunk grammar (C07 a): CRC-valid chunks with adversarial payloads -------------------------
pub fn grammar_archive(r: &mut Rng) -> Vec<u8> {
    let mut cs: Vec<(Vec<u8>, Vec<u8>)> = Vec::new();
    let n = r.below(9);
    let types: &[&[u8; 4]] = &[
        b"FHED", b"FHED", b"FDAT", b"FEND", b"FEND", b"SHED", b"SDAT", b"SEND", b"PHSF", b"fSIZ", b"cTIM", b"mTIM",
        b"aTIM", b"fPRM", b"xATR", b"ANXT", b"AHED", b"faCl", b"faCe", b"abCd", b"ZZZZ", b"\xe3\x81\x82\xe3", b"\0\0\0\0",
    ];
    for _ in 0..n {
        let t = **r.pick(types);
        let d: Vec<u8> = match &t {
            b"FHED" => match r.below(6) {
                4 => vec![0, 0, r.below(4) as u8, 0, r.below(3) as u8, r.below(2) as u8],          // empty name
                5 => vec![0, 0, r.below(4) as u8, 0, 0, 0, b'.', b'.', b'/', b'/', b'.'],           // sanitises to an empty name
                0 => vec![0, 0, r.below(5) as u8, r.below(6) as u8, r.below(4) as u8, r.below(3) as u8, b'n'],
                1 => r.bytes(r.clone().below(8) as usize),
                2 => vec![r.below(2) as u8, r.below(2) as u8, 0, 0, 0, 0, b'a', b'/', b'.', b'.', b'/', b'b'],
                _ => vec![0, 0, 0, 0, 0, 0, 0xff, 0xfe],
            },
            b"SHED" => match r.below(3) {
                0 => vec![0, 0, 0, 0, 0],
                1 => vec![0, 0, r.below(6) as u8, r.below(4) as u8, r.below(3) as u8],
                _ => r.bytes(r.clone().below(8) as usize),
            },
            b"PHSF" => match r.below(9) {
                6 => b"$argon2id$v=19$m=8,t=1,p=536870912$c2FsdHNhbHRzYWx0".to_vec(),
                7 => b"$argon2id$v=19$m=4294967295,t=1,p=1$c2FsdHNhbHRzYWx0".to_vec(),
                8 => b"$argon2id$v=19$m=134217720,t=1,p=16777215$c2FsdHNhbHRzYWx0".to_vec(),
                0 => b"$argon2id$v=19$m=8,t=1,p=1".to_vec(),
                1 => b"$pbkdf2-sha256$i=1,l=32".to_vec(),
                2 => b"$pbkdf2-sha256$i=1,l=16$c2FsdHNhbHQ".to_vec(),
                3 => b"$pbkdf2-sha256$i=1,l=32$c2FsdHNhbHQ".to_vec(),
                4 => vec![0xff, 0xfe],
                _ => b"garbage".to_vec(),
            },
            b"cTIM" | b"mTIM" | b"aTIM" => match r.below(3) {
                // extreme seconds: beyond SystemTime (i64), beyond chrono's range, far future
                0 => (*r.pick(&[u64::MAX, i64::MAX as u64, 1u64 << 62, 8_210_298_412_805, 1u64 << 33, 0])).to_be_bytes().to_vec(),
                _ => { let k = *r.pick(&[0usize, 7, 8, 8, 9]); r.bytes(k) }
            },
            b"fSIZ" => { let k = r.below(20) as usize; r.bytes(k) }
            b"fPRM" => { let k = *r.pick(&[0usize, 8, 9, 18, 20, 25]); let mut b = r.bytes(k); if k > 8 { b[8] = r.below(6) as u8; } b }
            b"xATR" => match r.below(4) {
                0 => vec![0, 0, 0, 9, 1],
                1 => vec![0, 0, 0, 1, b'k', 0, 0, 0, 1, b'v'],
                2 => vec![0xff, 0xff, 0xff, 0xff],
                _ => { let k = r.below(12) as usize; r.bytes(k) }
            },
            b"AHED" => { let k = *r.pick(&[0usize, 8, 8, 9]); r.bytes(k) }
            _ => { let k = r.below(6) as usize; r.bytes(k) }
        };
        cs.push((t.to_vec(), d));
    }
    if r.chance(3, 4) {
        cs.push((b"AEND".to_vec(), vec![]));
    }
    let number = if r.chance(1, 6) { u32::MAX } else { r.below(3) as u32 };
    raw_archive(number, &cs)
}

/// C07 (field sweep): every structured payload the readers parse — fPRM, xATR, fSIZ, cTIM/mTIM/aTIM, FHED, SHED,
/// PHSF — taken from a valid instance and damaged systematically: truncated at every length, extended by 1..3
/// bytes, and every byte that belongs to a length prefix set to each of 0..=len+2, 0x7f, 0x80, 0xff; each damaged
/// payload sits in an otherwise well-formed entry, once at the top level and once inside a plain solid stream.
pub fn field_sweep_archives() -> Vec<Vec<u8>> {
    fn variants(valid: &[u8], len_positions: &[usize]) -> Vec<Vec<u8>> {
        let mut out: Vec<Vec<u8>> = (0..=valid.len()).map(|k| valid[..k].to_vec()).collect();
        for extra in 1..=3usize {
            let mut v = valid.to_vec();
            v.extend(std::iter::repeat(0x41).take(extra));
            out.push(v);
        }
        for &p in len_positions {
            let mut vals: Vec<u8> = (0..=(valid.len() as u8).saturating_add(2)).collect();
            vals.extend_from_slice(&[0x7f, 0x80, 0xff]);
            for x in vals {
                if x != valid[p] {
                    let mut v = valid.to_vec();
                    v[p] = x;
                    out.push(v.clone());
                    // the same damage on a record cut short behind the damaged prefix: the declared length
                    // fits the bytes that are there, the fixed-width field behind it does not
                    for cut in [p + 1 + x as usize, p + 1 + x as usize + 3, p + 1 + x as usize + 7] {
                        if cut < v.len() {
                            out.push(v[..cut].to_vec());
                        }
                    }
                }
            }
        }
        out
    }
    let mut prm = 1000u64.to_be_bytes().to_vec();
    prm.push(4); prm.extend_from_slice(b"user");
    prm.extend_from_slice(&100u64.to_be_bytes());
    prm.push(3); prm.extend_from_slice(b"grp");
    prm.extend_from_slice(&0o644u16.to_be_bytes());
    let mut xat = 6u32.to_be_bytes().to_vec();
    xat.extend_from_slice(b"user.k");
    xat.extend_from_slice(&3u32.to_be_bytes());
    xat.extend_from_slice(b"val");
    let fhed: Vec<u8> = vec![0, 0, 0, 0, 0, 0, b'd', b'/', b'f'];
    let targets: Vec<(&[u8; 4], Vec<u8>, Vec<usize>)> = vec![
        (b"fPRM", prm, vec![8, 21]),
        (b"xATR", xat, vec![0, 1, 2, 3, 10, 11, 12, 13]),
        (b"fSIZ", vec![0, 0, 1, 2, 3, 4, 5, 6, 7, 8, 9, 10, 11, 12, 13, 14], vec![]),
        (b"cTIM", 1_600_000_000u64.to_be_bytes().to_vec(), vec![]),
        (b"mTIM", 1_600_000_001u64.to_be_bytes().to_vec(), vec![]),
        (b"aTIM", 1_600_000_002u64.to_be_bytes().to_vec(), vec![]),
        (b"PHSF", b"$pbkdf2-sha256$i=1,l=32$c2FsdHNhbHRzYWx0".to_vec(), vec![]),
    ];
    let mut out = Vec::new();
    for (ty, valid, lens) in &targets {
        for d in variants(valid, lens) {
            let entry: Vec<(Vec<u8>, Vec<u8>)> = vec![
                (b"FHED".to_vec(), fhed.clone()),
                (ty.to_vec(), d.clone()),
                (b"FDAT".to_vec(), b"data".to_vec()),
                (b"FEND".to_vec(), vec![]),
            ];
            let mut top = entry.clone();
            top.push((b"AEND".to_vec(), vec![]));
            out.push(raw_archive(0, &top));
            let mut inner = Vec::new();
            for (t, x) in &entry {
                inner.extend(raw_chunk(t, x));
            }
            out.push(raw_archive(0, &[
                (b"SHED".to_vec(), vec![0, 0, 0, 0, 0]),
                (b"SDAT".to_vec(), inner),
                (b"SEND".to_vec(), vec![]),
                (b"AEND".to_vec(), vec![]),
            ]));
        }
    }
    // the two entry headers themselves
    for d in variants(&fhed, &[]) {
        out.push(raw_archive(0, &[(b"FHED".to_vec(), d), (b"FDAT".to_vec(), b"data".to_vec()), (b"FEND".to_vec(), vec![]), (b"AEND".to_vec(), vec![])]));
    }
    for b in 0..=7u8 {
        for pos in 0..6usize {
            let mut d = fhed.clone();
            d[pos] = b;
            out.push(raw_archive(0, &[(b"FHED".to_vec(), d), (b"FDAT".to_vec(), b"data".to_vec()), (b"FEND".to_vec(), vec![]), (b"AEND".to_vec(), vec![])]));
        }
    }
    for d in variants(&[0, 0, 0, 0, 0], &[]) {
        out.push(raw_archive(0, &[(b"SHED".to_vec(), d), (b"SDAT".to_vec(), vec![]), (b"SEND".to_vec(), vec![]), (b"AEND".to_vec(), vec![])]));
    }
    out
}

/// a chunk type the library does not know: four ASCII letters in any case pattern (all sixteen
/// combinations of the critical / private / reserved / safe-to-copy bits)
pub fn unknown_type(r: &mut Rng) -> Vec<u8> {
    const KNOWN: &[&[u8; 4]] = &[b"AHED", b"AEND", b"ANXT", b"FHED", b"PHSF", b"FDAT", b"FEND", b"SHED", b"SDAT", b"SEND",
        b"fSIZ", b"cTIM", b"mTIM", b"aTIM", b"fPRM", b"xATR"];
    loop {
        let t: Vec<u8> = (0..4).map(|_| { let c = b'a' + r.below(26) as u8; if r.chance(1, 2) { c.to_ascii_uppercase() } else { c } }).collect();
        if !KNOWN.iter().any(|k| &k[..] == &t[..]) {
            return t;
        }
    }
}
