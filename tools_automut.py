#!/usr/bin/env python3
"""tools_automut.py <n> [seed] — a sweep of small automatic changes (one token each) over the library files the model
mirrors, as a supplement to the hand-made seeded changes of seeded/: how many of those that still compile AND pass the
existing libpna tests do the registered checks catch?

For each sampled change: apply it in one fixed scratch worktree (/tmp/automut_wt, so builds stay incremental), build,
run `cargo test -p libpna` and compare with /root/.vp/BASELINE.json (a change the test suite notices is dropped: the
question is what the suite cannot see), then run the quick tier of the checks mapped to the file with VERIF_REPO
pointing at the worktree (the checks registered in MANIFEST.json never do that).  Results: .work/automut/results.jsonl
(one line per change: file, line, before, after, tests, per-check exit status), summary in .work/automut/SUMMARY.md.
Only lines that the checks execute (coverage report of tools_coverage.sh) are changed.  Not a registered check."""
import json, os, random, re, subprocess, sys, hashlib, shutil, time

V = "/verif"
WT = "/tmp/automut_wt"
TD = "/tmp/automut_target"
OUT = os.path.join(V, ".work", "automut")
N = int(sys.argv[1]) if len(sys.argv) > 1 else 20
SEED = int(sys.argv[2]) if len(sys.argv) > 2 else 1

# file -> checks whose model mirrors it
MAP = {
    "lib/src/chunk/read.rs": ["C05", "C06", "C03"],
    "lib/src/chunk/write.rs": ["C01", "C14"],
    "lib/src/chunk.rs": ["C13", "C18", "C15"],
    "lib/src/archive/read.rs": ["C06", "C05", "C03", "C13"],
    "lib/src/archive/read/slice.rs": ["C03", "C06", "C05"],
    "lib/src/archive/write.rs": ["C01", "C14", "C18"],
    "lib/src/archive/header.rs": ["C15", "C05"],
    "lib/src/cipher/block/read.rs": ["C01", "C03", "C16"],
    "lib/src/cipher/block/write.rs": ["C01", "C14"],
    "lib/src/cipher/stream/read.rs": ["C01", "C03"],
    "lib/src/cipher/stream/write.rs": ["C01", "C14"],
    "lib/src/io.rs": ["C01", "C03"],
    "lib/src/entry.rs": ["C13", "C03", "C04", "C18", "C10"],
    "lib/src/entry/meta.rs": ["C15", "C07", "C10"],      # with_created/with_modified/with_accessed: strip only
    "lib/src/entry/attr.rs": ["C15", "C07"],
    "lib/src/entry/header.rs": ["C15", "C07"],
    "lib/src/entry/name.rs": ["C09", "C15"],
    "lib/src/entry/reference.rs": ["C09", "C15"],
    "lib/src/entry/builder.rs": ["C01", "C18", "C14"],
    "lib/src/entry/write.rs": ["C08", "C16", "C01"],
    "lib/src/entry/read.rs": ["C16", "C01", "C07"],
    "lib/src/hash.rs": ["C16", "C08", "C07"],
}

OPS = [
    # comparison operators as rustfmt writes them (blanks on both sides: generics and arrows are not touched)
    (r" <= ", " < "), (r" < ", " <= "), (r" >= ", " > "), (r" > ", " >= "), (r" == ", " != "), (r" != ", " == "),
    (r" && ", " || "), (r" \|\| ", " && "),
    (r"\+ 1\b", "+ 0"), (r"- 1\b", "- 0"), (r"\b16\b", "15"), (r"\b12\b", "13"), (r"\b4\b", "5"), (r"\b8\b", "7"),
    (r"^(\s*)(self\.\w+(\.\w+)* (=|\+=|-=) [^;]*;|\w+(\.\w+)*\.(push|extend|insert|extend_from_slice|update|truncate|clear)\([^;]*\);)\s*$", r"\1// (statement removed)"),
    (r" \+= ", " -= "), (r"\bSome\((\w+)\)$", "None"),
    (r"\btrue\b", "false"), (r"\bfalse\b", "true"), (r"\.min\(", ".max("), (r"\.max\(", ".min("),
]


def covered_lines():
    cov = {}
    rep = os.path.join(V, ".build", "cov", "report.txt")
    if not os.path.exists(rep):
        return None
    cur = None
    for line in open(rep):
        m = re.match(r"^(\S+)\s+\d+/\d+", line)
        if m:
            cur = m.group(1); cov[cur] = set(); continue
        m = re.match(r"\s+uncovered: (.*)", line)
        if m and cur:
            for part in m.group(1).strip().split(","):
                if not part: continue
                a, _, b = part.partition("-")
                for k in range(int(a), int(b or a) + 1):
                    cov[cur].add(k)
    return cov      # file -> UNcovered lines


def candidates():
    unc = covered_lines() or {}
    out = []
    for f in MAP:
        src = open(os.path.join("/repo", f)).read().split("\n")
        in_test = False
        skip_depth = None      # inside an item behind #[cfg(feature = "unstable-async")]: not compiled in these builds
        pending = False
        depth = 0
        for ln, text in enumerate(src, 1):
            if "#[cfg(test)]" in text:
                in_test = True
            if 'cfg(feature = "unstable-async")' in text:
                pending = True
            opens, closes = text.count("{"), text.count("}")
            if pending and skip_depth is None and opens and not text.strip().startswith("#"):
                skip_depth = depth
                pending = False
            depth += opens - closes
            inside = skip_depth is not None
            if skip_depth is not None and depth <= skip_depth:
                skip_depth = None
            if pending and text.strip().endswith(";") and not text.strip().startswith("#"):
                pending = False; inside = True      # a one-line item (use ...;)
            if in_test or inside or pending or ".await" in text or "async fn" in text or ln in unc.get(f, set()):
                continue
            code = text.split("//")[0]
            if not code.strip() or code.strip().startswith(("#", "use ", "///", "pub use")) or "verif" in code:
                continue
            for pat, rep in OPS:
                for m in re.finditer(pat, code):
                    new = code[:m.start()] + re.sub(pat, rep, code[m.start():], count=1) + text[len(code):]
                    if new != text:
                        out.append((f, ln, text, new))
    return out


def sh(cmd, cwd=None, timeout=3000, env=None):
    e = dict(os.environ, CARGO_NET_OFFLINE="true")
    if env: e.update(env)
    p = subprocess.run(cmd, cwd=cwd, shell=isinstance(cmd, str), stdout=subprocess.PIPE, stderr=subprocess.STDOUT, text=True,
                       errors="replace", timeout=timeout, env=e)
    return p.returncode, p.stdout


def main():
    os.makedirs(OUT, exist_ok=True)
    cands = candidates()
    rnd = random.Random(SEED)
    rnd.shuffle(cands)
    if not os.path.isdir(WT):
        sh(["git", "-C", "/repo", "worktree", "add", "--detach", "-q", WT, "HEAD"])
    if not os.path.isdir(TD) and os.path.isdir("/repo/target"):
        sh(["cp", "-r", "--reflink=auto", "/repo/target", TD])
    done = 0
    res_path = os.path.join(OUT, "results.jsonl")
    seen = set()
    if os.path.exists(res_path):
        for l in open(res_path):
            r = json.loads(l); seen.add((r["file"], r["line"], r["after"]))
    for f, ln, old, new in cands:
        if done >= N:
            break
        if (f, ln, new) in seen:
            continue
        sh("git checkout -q -- . && git reset -q --hard HEAD", cwd=WT)
        head = sh(["git", "-C", "/repo", "rev-parse", "HEAD"])[1].strip()
        sh(["git", "checkout", "-q", "--detach", head], cwd=WT)
        p = os.path.join(WT, f)
        lines = open(p).read().split("\n")
        if lines[ln - 1] != old:
            continue
        lines[ln - 1] = new
        open(p, "w").write("\n".join(lines))
        rec = {"file": f, "line": ln, "before": old.strip(), "after": new.strip(), "t": time.strftime("%H:%M:%S")}
        rc, out = sh(["cargo", "build", "--offline", "-q", "-p", "libpna", "--target-dir", TD], cwd=WT)
        if rc != 0:
            rec["status"] = "does-not-compile"
        else:
            rc, out = sh(["cargo", "test", "--offline", "--no-fail-fast", "-p", "libpna", "--target-dir", TD], cwd=WT, timeout=3000)
            log = os.path.join(OUT, "test.log"); open(log, "w").write(out)
            rc2, cmp_ = sh(["python3", os.path.join(V, "tools_baseline_compare.py"), log, "--subset"])
            if rc2 != 0:
                rec["status"] = "killed-by-existing-tests"
            else:
                rec["status"] = "passes-tests"
                rec["checks"] = {}
                for prop in MAP[f]:
                    ev = os.path.join(V, "evidence", prop + ".json")
                    keep = os.path.join(OUT, "keep_" + prop + ".json")
                    if os.path.exists(ev): shutil.copy(ev, keep)
                    try:
                        rc3, out3 = sh([os.path.join(V, "check"), prop, "--tier", "quick"], cwd=V, timeout=2400, env={"VERIF_REPO": WT})
                    except subprocess.TimeoutExpired:
                        rc3, out3 = 1, "VIOLATION (the check did not finish in 40 minutes on the changed tree)\n  (timeout) hang or run-away"
                    if os.path.exists(keep): shutil.copy(keep, ev)
                    msgs = [l.strip() for l in out3.split("\n") if l.startswith("  (")][:2]
                    rec["checks"][prop] = {"exit": rc3, "violations": out3.count("\nVIOLATION") + out3.startswith("VIOLATION"),
                                           "concrete": sum(1 for l in out3.split("\n") if l.startswith("VIOLATION") and "no-failing-input-found" not in l),
                                           "first": msgs}
                    if rc3 != 0:
                        break       # caught: no need to run the other checks
                rec["caught"] = any(c["exit"] != 0 for c in rec["checks"].values())
                done += 1
        with open(res_path, "a") as fh:
            fh.write(json.dumps(rec) + "\n")
        print(json.dumps(rec)[:300], flush=True)
    shutil.rmtree(os.path.join(V, "replays"), ignore_errors=True)
    # summary
    rs = [json.loads(l) for l in open(res_path)]
    pt = [r for r in rs if r.get("status") == "passes-tests"]
    with open(os.path.join(OUT, "SUMMARY.md"), "w") as fh:
        fh.write("changes tried: %d; do not compile: %d; noticed by the existing libpna tests: %d; pass the tests: %d, of which caught by the checks: %d\n\n"
                 % (len(rs), sum(r["status"] == "does-not-compile" for r in rs), sum(r["status"] == "killed-by-existing-tests" for r in rs),
                    len(pt), sum(bool(r.get("caught")) for r in pt)))
        fh.write("| file:line | change | caught by | note |\n|---|---|---|---|\n")
        for r in pt:
            by = ", ".join(k for k, c in r["checks"].items() if c["exit"] != 0) or "**survived**"
            fh.write("| `%s:%d` | `%s` → `%s` | %s | |\n" % (r["file"], r["line"], r["before"][:70].replace("|", "\\|"), r["after"][:70].replace("|", "\\|"), by))
    print(open(os.path.join(OUT, "SUMMARY.md")).read()[:400])


main()
