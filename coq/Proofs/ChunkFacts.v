(* ChunkFacts.v — the chunk parsers and the chunk serialiser (Model/Chunk.v):
   the two parsers agree, parse . serialise = id, a successful parse means the input starts
   with the canonical serialisation, truncation gives UnexpectedEof, and every altered byte
   outside the length field gives InvalidData (through crc32_single_byte). *)
From PNA Require Import Base Crc32 Codec Chunk BaseFacts Crc32Facts CodecFacts.
From PNA Require ArchiveRun.
Require Import ZArith ZifyN ZifyNat ZifyBool.
Open Scope N_scope.

Notation xor_at := ArchiveRun.xor_at.

(* ---- 1. the slice parser is the stream parser ---------------------------------------- *)
Lemma read_chunk_slice_eq : forall bs, read_chunk_slice bs = read_chunk_stream bs.
Proof. intros bs. reflexivity. Qed.

(* ---- lists --------------------------------------------------------------------------------- *)
Lemma app_inv_len {A} (a a' b b' : list A) :
  length a = length a' -> a ++ b = a' ++ b' -> a = a' /\ b = b'.
Proof.
  revert a'. induction a as [|x a IH]; intros [|y a'] L E; try discriminate L.
  - split; [reflexivity|exact E].
  - cbn [app] in E. injection E as -> E. cbn [length] in L.
    destruct (IH a' (eq_add_S _ _ L) E) as [-> ->]. split; reflexivity.
Qed.

Lemma of_be_inj_len a b : length a = length b -> of_be a = of_be b -> a = b.
Proof. intros L E. rewrite <- (be_of_be a), <- (be_of_be b), L, E. reflexivity. Qed.

Lemma be32_length n : length (be32 n) = 4%nat.
Proof. apply be_length. Qed.

Lemma len_be32 n : len (be32 n) = 4.
Proof. unfold len. rewrite be32_length. reflexivity. Qed.

Lemma of_be_be32 n : n < 2 ^ 32 -> of_be (be32 n) = n.
Proof. intros H. apply of_be_be. exact H. Qed.

(* ---- 2. well-formed chunks and their size ---------------------------------------------------- *)
Definition wf_chunk (c : chunk) : Prop := length (cty c) = 4%nat /\ len (cdata c) < 2 ^ 32.

Lemma ser_chunk_length c : length (cty c) = 4%nat -> length (ser_chunk c) = (12 + length (cdata c))%nat.
Proof. intros H. unfold ser_chunk. rewrite !app_length, !be32_length, H. lia. Qed.

Lemma ser_chunk_len c : wf_chunk c -> len (ser_chunk c) = bytes_len c.
Proof. intros [H _]. unfold bytes_len, len. rewrite ser_chunk_length by exact H. lia. Qed.

(* ---- 3. parse . serialise --------------------------------------------------------------------- *)
(* the parser on an input with a consistent frame *)
Lemma read_chunk_framed l ty d c rest :
  length l = 4%nat -> length ty = 4%nat -> of_be l = len d -> length c = 4%nat ->
  read_chunk_stream (l ++ ty ++ d ++ c ++ rest) =
  if N.eqb (of_be c) (crc32 (ty ++ d)) then Ok (mk ty d, rest) else Err InvalidData.
Proof.
  intros Hl Ht Hd Hc. unfold read_chunk_stream.
  rewrite take_app by exact Hl. cbn [bind].
  rewrite take_app by exact Ht. cbn [bind].
  rewrite Hd, takeN_app. cbn [bind].
  rewrite take_app by exact Hc. cbn [bind]. reflexivity.
Qed.

Lemma ser_chunk_app c rest :
  ser_chunk c ++ rest = be32 (len (cdata c)) ++ cty c ++ cdata c ++ be32 (chunk_crc c) ++ rest.
Proof. unfold ser_chunk. rewrite <- !app_assoc. reflexivity. Qed.

Lemma chunk_crc_lt c : chunk_crc c < 2 ^ 32.
Proof. apply crc32_w32. Qed.

Lemma mk_eta c : mk (cty c) (cdata c) = c.
Proof. destruct c; reflexivity. Qed.

Lemma read_chunk_ser c : wf_chunk c -> forall rest, read_chunk_stream (ser_chunk c ++ rest) = Ok (c, rest).
Proof.
  intros [Ht Hd] rest. rewrite ser_chunk_app.
  rewrite read_chunk_framed; try apply be32_length; try exact Ht; [|apply of_be_be32; exact Hd].
  rewrite of_be_be32 by apply chunk_crc_lt. unfold chunk_crc. rewrite N.eqb_refl, mk_eta. reflexivity.
Qed.

(* ---- 4. a successful parse ------------------------------------------------------------------------ *)
Lemma read_chunk_ok_inv bs c r : read_chunk_stream bs = Ok (c, r) -> wf_chunk c /\ bs = ser_chunk c ++ r.
Proof.
  unfold read_chunk_stream.
  destruct (take 4 bs) as [[l r1]| |] eqn:E1; try discriminate; cbn [bind].
  destruct (take 4 r1) as [[ty r2]| |] eqn:E2; try discriminate; cbn [bind].
  destruct (takeN (of_be l) r2) as [[d r3]| |] eqn:E3; try discriminate; cbn [bind].
  destruct (take 4 r3) as [[cr r4]| |] eqn:E4; try discriminate; cbn [bind].
  destruct (N.eqb_spec (of_be cr) (crc32 (ty ++ d))) as [Ec|]; [|discriminate].
  intros [= <- <-].
  apply take_ok in E1, E2, E4. apply takeN_ok in E3.
  destruct E1 as [-> L1], E2 as [-> L2], E3 as [-> L3], E4 as [-> L4].
  pose proof (of_be_lt_len _ _ L1) as B1. change (256 ^ N.of_nat 4) with (2 ^ 32) in B1.
  split.
  - split; cbn [mk cty cdata]; [exact L2|lia].
  - rewrite ser_chunk_app. cbn [mk cty cdata]. unfold chunk_crc, be32. cbn [mk cty cdata].
    rewrite L3, <- Ec. rewrite <- L1 at 1. rewrite <- L4 at 1. rewrite !be_of_be. reflexivity.
Qed.

Lemma read_chunk_consumes bs c r : read_chunk_stream bs = Ok (c, r) -> (length r + 12 <= length bs)%nat.
Proof.
  intros H. apply read_chunk_ok_inv in H. destruct H as [[Ht _] ->].
  rewrite app_length, ser_chunk_length by exact Ht. lia.
Qed.

Lemma read_chunk_shorter bs c r : read_chunk_stream bs = Ok (c, r) -> (length r < length bs)%nat.
Proof. intros H. apply read_chunk_consumes in H. lia. Qed.

(* ---- 5. totality ------------------------------------------------------------------------------------- *)
Lemma take_cases n bs : (exists a r, take n bs = Ok (a, r)) \/ take n bs = Err UnexpectedEof.
Proof. unfold take. destruct (Nat.leb n (length bs)); [left; eauto|right; reflexivity]. Qed.

Lemma takeN_cases n bs : (exists a r, takeN n bs = Ok (a, r)) \/ takeN n bs = Err UnexpectedEof.
Proof. unfold takeN. destruct (N.leb n (len bs)); [left; eauto|right; reflexivity]. Qed.

Lemma read_chunk_cases bs :
  (exists c r, read_chunk_stream bs = Ok (c, r)) \/
  read_chunk_stream bs = Err UnexpectedEof \/ read_chunk_stream bs = Err InvalidData.
Proof.
  unfold read_chunk_stream.
  destruct (take_cases 4 bs) as [(l & r1 & ->)| ->]; [|right; left; reflexivity]. cbn [bind].
  destruct (take_cases 4 r1) as [(ty & r2 & ->)| ->]; [|right; left; reflexivity]. cbn [bind].
  destruct (takeN_cases (of_be l) r2) as [(d & r3 & ->)| ->]; [|right; left; reflexivity]. cbn [bind].
  destruct (take_cases 4 r3) as [(cr & r4 & ->)| ->]; [|right; left; reflexivity]. cbn [bind].
  destruct (N.eqb (of_be cr) (crc32 (ty ++ d))); [left; eauto|right; right; reflexivity].
Qed.

Lemma read_chunk_no_panic : forall bs, read_chunk_stream bs <> Panic.
Proof.
  intros bs. destruct (read_chunk_cases bs) as [(c & r & ->)|[-> | ->]]; discriminate.
Qed.

Lemma read_chunk_err bs e : read_chunk_stream bs = Err e -> e = UnexpectedEof \/ e = InvalidData.
Proof.
  destruct (read_chunk_cases bs) as [(c & r & ->)|[-> | ->]]; [discriminate| |]; intros [= <-]; auto.
Qed.

Lemma read_chunk_slice_no_panic : forall bs, read_chunk_slice bs <> Panic.
Proof. exact read_chunk_no_panic. Qed.

(* ---- 6. truncation -------------------------------------------------------------------------------------- *)
Lemma take_short n bs : (length bs < n)%nat -> take n bs = Err UnexpectedEof.
Proof. intros H. unfold take. destruct (Nat.leb_spec n (length bs)); [lia|reflexivity]. Qed.

Lemma read_chunk_short_hdr bs : (length bs < 8)%nat -> read_chunk_stream bs = Err UnexpectedEof.
Proof.
  intros H. unfold read_chunk_stream.
  destruct (take_cases 4 bs) as [(l & r1 & E1)| ->]; [|reflexivity]. rewrite E1. cbn [bind].
  apply take_ok in E1. destruct E1 as [-> L1]. rewrite app_length in H.
  rewrite take_short by lia. reflexivity.
Qed.

Lemma read_chunk_short_body l ty r :
  length l = 4%nat -> length ty = 4%nat -> len r < of_be l + 4 ->
  read_chunk_stream (l ++ ty ++ r) = Err UnexpectedEof.
Proof.
  intros Hl Ht Hr. unfold read_chunk_stream.
  rewrite take_app by exact Hl. cbn [bind]. rewrite take_app by exact Ht. cbn [bind].
  destruct (takeN_cases (of_be l) r) as [(d & r3 & E3)| ->]; [|reflexivity]. rewrite E3. cbn [bind].
  apply takeN_ok in E3. destruct E3 as [-> L3]. rewrite len_app in Hr.
  rewrite take_short by (unfold len in *; lia). reflexivity.
Qed.

Lemma read_chunk_trunc c n : wf_chunk c -> (n < length (ser_chunk c))%nat ->
  read_chunk_stream (firstn n (ser_chunk c)) = Err UnexpectedEof.
Proof.
  intros [Ht Hd] Hn. rewrite ser_chunk_length in Hn by exact Ht.
  destruct (Nat.lt_ge_cases n 8) as [Hs|Hs].
  - apply read_chunk_short_hdr. rewrite firstn_length. lia.
  - unfold ser_chunk.
    rewrite firstn_app, be32_length. rewrite (firstn_all2 (be32 _)) by (rewrite be32_length; lia).
    rewrite firstn_app, Ht. rewrite (firstn_all2 (cty c)) by lia.
    apply read_chunk_short_body; [apply be32_length|exact Ht|].
    rewrite of_be_be32 by exact Hd. unfold len. rewrite firstn_length, app_length, be32_length. lia.
Qed.

(* ---- 7. alteration ------------------------------------------------------------------------------------------ *)
Lemma xor_at_length bs : forall i m, length (xor_at bs i m) = length bs.
Proof.
  induction bs as [|b bs IH]; intros [|i] m; cbn [ArchiveRun.xor_at length]; try reflexivity.
  rewrite IH. reflexivity.
Qed.

Lemma xor_at_app_l a b : forall i m, (i < length a)%nat -> xor_at (a ++ b) i m = xor_at a i m ++ b.
Proof.
  induction a as [|x a IH]; intros i m H; [cbn [length] in H; lia|].
  destruct i as [|i]; cbn [ArchiveRun.xor_at app]; [reflexivity|].
  rewrite IH by (cbn [length] in H; lia). reflexivity.
Qed.

Lemma xor_at_app_r a b : forall i m, (length a <= i)%nat -> xor_at (a ++ b) i m = a ++ xor_at b (i - length a) m.
Proof.
  induction a as [|x a IH]; intros i m H.
  - cbn [app length]. rewrite Nat.sub_0_r. reflexivity.
  - destruct i as [|i]; [cbn [length] in H; lia|].
    cbn [ArchiveRun.xor_at app length Nat.sub]. rewrite IH by (cbn [length] in H; lia). reflexivity.
Qed.

Lemma xor_at_split a : forall i m, (i < length a)%nat ->
  exists p x q, a = p ++ x :: q /\ length p = i /\ xor_at a i m = p ++ n2b (N.lxor (b2n x) m) :: q.
Proof.
  induction a as [|y a IH]; intros i m H; [cbn [length] in H; lia|].
  destruct i as [|i].
  - exists [], y, a. repeat split.
  - destruct (IH i m) as (p & x & q & -> & L & E); [cbn [length] in H; lia|].
    exists (y :: p), x, q. cbn [ArchiveRun.xor_at app length]. rewrite E, L. repeat split.
Qed.

Lemma lxor_lt_256 a m : a < 256 -> m < 256 -> N.lxor a m < 256.
Proof.
  intros Ha Hm. destruct (N.eq_dec (N.lxor a m) 0) as [->|H]; [lia|].
  change 256 with (2 ^ 8). apply N.log2_lt_pow2; [lia|].
  pose proof (N.log2_lxor a m) as Hl.
  assert (N.log2 a < 8) by (destruct (N.eq_dec a 0) as [->|]; [cbn; lia | apply N.log2_lt_pow2; lia]).
  assert (N.log2 m < 8) by (destruct (N.eq_dec m 0) as [->|]; [cbn; lia | apply N.log2_lt_pow2; lia]).
  lia.
Qed.

Lemma xor_byte_neq x m : 0 < m < 256 -> n2b (N.lxor (b2n x) m) <> x.
Proof.
  intros [H0 H1] E. apply (f_equal b2n) in E.
  rewrite b2n_n2b_small in E by (apply lxor_lt_256; [apply b2n_lt|exact H1]).
  apply (f_equal (N.lxor (b2n x))) in E.
  rewrite <- N.lxor_assoc, !N.lxor_nilpotent, N.lxor_0_l in E. lia.
Qed.

Lemma xor_at_neq a i m : (i < length a)%nat -> 0 < m < 256 -> xor_at a i m <> a.
Proof.
  intros H Hm. destruct (xor_at_split a i m H) as (p & x & q & -> & _ & ->).
  intros E. apply app_inv_head in E. injection E as E. exact (xor_byte_neq x m Hm E).
Qed.

Lemma xor_at_crc a i m : (i < length a)%nat -> 0 < m < 256 -> crc32 (xor_at a i m) <> crc32 a.
Proof.
  intros H Hm. destruct (xor_at_split a i m H) as (p & x & q & -> & _ & ->).
  apply crc32_single_byte. apply xor_byte_neq. exact Hm.
Qed.

(* an altered byte in the type, data or CRC field: the CRC comparison fails *)
Theorem read_chunk_altered c i m : wf_chunk c -> (4 <= i < length (ser_chunk c))%nat -> 0 < m < 256 ->
  forall rest, read_chunk_stream (xor_at (ser_chunk c ++ rest) i m) = Err InvalidData.
Proof.
  intros [Ht Hd] [Hi1 Hi2] Hm rest. rewrite ser_chunk_length in Hi2 by exact Ht.
  rewrite ser_chunk_app.
  rewrite xor_at_app_r by (rewrite be32_length; lia). rewrite be32_length.
  destruct (Nat.lt_ge_cases (i - 4) (4 + length (cdata c))) as [Hb|Hb].
  - (* inside type ++ data *)
    rewrite (app_assoc (cty c)).
    rewrite xor_at_app_l by (rewrite app_length, Ht; lia).
    set (td := xor_at (cty c ++ cdata c) (i - 4) m).
    assert (Ltd : length td = (4 + length (cdata c))%nat)
      by (unfold td; rewrite xor_at_length, app_length, Ht; reflexivity).
    rewrite <- (firstn_skipn 4 td), <- app_assoc.
    rewrite read_chunk_framed.
    + rewrite (firstn_skipn 4 td). rewrite of_be_be32 by apply chunk_crc_lt.
      destruct (N.eqb_spec (chunk_crc c) (crc32 td)) as [E|]; [|reflexivity].
      exfalso. symmetry in E. revert E. apply xor_at_crc; [rewrite app_length, Ht; lia|exact Hm].
    + apply be32_length.
    + rewrite firstn_length. lia.
    + rewrite of_be_be32 by exact Hd. unfold len. rewrite skipn_length. lia.
    + apply be32_length.
  - (* inside the CRC field *)
    rewrite xor_at_app_r by (rewrite Ht; lia). rewrite Ht.
    rewrite xor_at_app_r by lia.
    rewrite xor_at_app_l by (rewrite be32_length; lia).
    set (cr := xor_at (be32 (chunk_crc c)) (i - 4 - 4 - length (cdata c)) m).
    rewrite read_chunk_framed.
    + destruct (N.eqb_spec (of_be cr) (crc32 (cty c ++ cdata c))) as [E|]; [|reflexivity].
      exfalso. fold (chunk_crc c) in E. rewrite <- (of_be_be32 (chunk_crc c)) in E by apply chunk_crc_lt.
      apply of_be_inj_len in E; [|unfold cr; rewrite xor_at_length; reflexivity].
      revert E. apply xor_at_neq; [rewrite be32_length; lia|exact Hm].
    + apply be32_length.
    + exact Ht.
    + apply of_be_be32. exact Hd.
    + unfold cr. rewrite xor_at_length. apply be32_length.
Qed.

(* an altered byte in the length field: the frame moves; the parse can only succeed if the four
   bytes that now stand in the CRC position equal the CRC of the re-framed payload *)
Definition crc_coincidence (c : chunk) (rest : bytes) (n' : N) : Prop :=
  let tail := cdata c ++ be32 (chunk_crc c) ++ rest in
  n' <> len (cdata c) /\ n' + 4 <= len tail /\
  of_be (firstn 4 (skipn (N.to_nat n') tail)) = crc32 (cty c ++ firstn (N.to_nat n') tail).

Theorem read_chunk_altered_len c i m rest c' r' :
  wf_chunk c -> (i < 4)%nat -> 0 < m < 256 ->
  read_chunk_stream (xor_at (ser_chunk c ++ rest) i m) = Ok (c', r') ->
  let tail := cdata c ++ be32 (chunk_crc c) ++ rest in
  crc_coincidence c rest (len (cdata c')) /\
  cty c' = cty c /\ cdata c' = firstn (length (cdata c')) tail /\
  r' = skipn (length (cdata c') + 4) tail.
Proof.
  intros [Ht Hd] Hi Hm H. cbv zeta. unfold crc_coincidence. cbv zeta.
  set (tail := cdata c ++ be32 (chunk_crc c) ++ rest).
  apply read_chunk_ok_inv in H. destruct H as [[Ht' Hd'] E].
  rewrite ser_chunk_app in E. rewrite xor_at_app_l in E by (rewrite be32_length; exact Hi).
  rewrite ser_chunk_app in E.
  apply app_inv_len in E; [|rewrite xor_at_length, !be32_length; reflexivity]. destruct E as [El E].
  apply app_inv_len in E; [|rewrite Ht, Ht'; reflexivity]. destruct E as [Ety E].
  fold tail in E.
  assert (Hne : len (cdata c') <> len (cdata c)).
  { intros Heq. rewrite <- Heq in El. revert El. apply xor_at_neq; [rewrite be32_length; exact Hi|exact Hm]. }
  assert (F : firstn (length (cdata c')) tail = cdata c').
  { rewrite E, firstn_app, Nat.sub_diag, firstn_all. cbn [firstn]. apply app_nil_r. }
  assert (S : skipn (length (cdata c')) tail = be32 (chunk_crc c') ++ r').
  { rewrite E, skipn_app, Nat.sub_diag, skipn_all. reflexivity. }
  repeat split.
  - exact Hne.
  - rewrite E, !len_app, len_be32. lia.
  - unfold len. rewrite Nat2N.id, F, S.
    rewrite firstn_app, be32_length, Nat.sub_diag, firstn_all2 by (rewrite be32_length; lia).
    cbn [firstn]. rewrite app_nil_r, of_be_be32 by apply chunk_crc_lt.
    unfold chunk_crc. rewrite Ety. reflexivity.
  - symmetry. exact Ety.
  - symmetry. exact F.
  - rewrite E at 1. rewrite skipn_app, skipn_all2 by lia.
    replace (length (cdata c') + 4 - length (cdata c'))%nat with 4%nat by lia.
    rewrite skipn_app, be32_length, skipn_all2 by (rewrite be32_length; lia). reflexivity.
Qed.

(* both theorems for the slice parser *)
Corollary read_chunk_slice_altered c i m : wf_chunk c -> (4 <= i < length (ser_chunk c))%nat -> 0 < m < 256 ->
  forall rest, read_chunk_slice (xor_at (ser_chunk c ++ rest) i m) = Err InvalidData.
Proof. exact (read_chunk_altered c i m). Qed.

(* ---- examples ---------------------------------------------------------------------------------------------------- *)
Definition ex_chunk : chunk := mk FDAT [xaa; xbb; xcc; xdd].

Example ex_chunk_wf : wf_chunk ex_chunk.
Proof. split; [reflexivity|vm_compute; reflexivity]. Qed.
Example ex_chunk_ser : ser_chunk ex_chunk =
  [x00; x00; x00; x04] ++ lit "FDAT" ++ [xaa; xbb; xcc; xdd] ++ [x47; xf3; x2b; x10].
Proof. vm_compute. reflexivity. Qed.
Example ex_chunk_read : read_chunk_stream (ser_chunk ex_chunk ++ [x01; x02]) = Ok (ex_chunk, [x01; x02]).
Proof. vm_compute. reflexivity. Qed.
Example ex_chunk_trunc : read_chunk_stream (firstn 15 (ser_chunk ex_chunk)) = Err UnexpectedEof.
Proof. vm_compute. reflexivity. Qed.
Example ex_chunk_altered : read_chunk_stream (xor_at (ser_chunk ex_chunk ++ [x01]) 9 128) = Err InvalidData.
Proof. vm_compute. reflexivity. Qed.
(* the conditional statement for the length field is not vacuous: a frame can be moved onto
   another valid frame.  A chunk whose payload is the CRC of its own type alone parses, after
   its length 4 is altered to 0, as an empty chunk of that type *)
Definition ex_nested : chunk := mk FDAT (be32 (crc32 FDAT)).
Example ex_chunk_altered_len_ok :
  wf_chunk ex_nested /\
  read_chunk_stream (xor_at (ser_chunk ex_nested) 3 4) = Ok (mk FDAT [], be32 (chunk_crc ex_nested)).
Proof. split; [split; [reflexivity|vm_compute; reflexivity]|vm_compute; reflexivity]. Qed.
Example ex_chunk_altered_len_err : read_chunk_stream (xor_at (ser_chunk ex_chunk) 3 1) = Err UnexpectedEof.
Proof. vm_compute. reflexivity. Qed.
