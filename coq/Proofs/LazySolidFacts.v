(* LazySolidFacts.v — SolidEntry::entries seen lazily (Pipeline.decode_solid_lazy): the iterator pulls its chunks
   from decrypt(FlattenReader) as it goes, so a stored CBC stream whose END is damaged (a partial last block, bad
   PKCS#7 padding) yields the inner entries in front of the damage and only then the error.  EntryIterator is the one
   after the fixes a1692e54 (an error is yielded once) and 66ed01cc (one-byte probe; every error is yielded).

   0. inner_entries_lazy over a clean end = Entry.inner_entries_loop; it terminates; in front of a pending error it
      never ends cleanly.
   1. (no cipher law) the partial view and the eager one are the same reads (decode_stream_of_partial); lazy = eager
      whenever the eager reader succeeds (lazy_agrees_on_success); a clean lazy end is a clean eager end, a lazy
      error after es means the eager reader says the same or fails as a whole (lazy_tells_eager); never Panic
      (decode_solid_lazy_no_panic); the reader depends on its source only through the concatenation (same_src);
      framing independence for equal draining buffers (decode_stream_partial_cut_indep, decode_solid_lazy_cut_indep).
   4. (block function keeps the block length: real_D_len) the decrypting reader is a byte-stream reader over
      `avail`: the plaintext of the blocks in front of the first bad one, then the error (cbcr_read_avail).  Every
      read sequence delivers a prefix of it; 16-byte reads (what PipelineRun uses) deliver all of it
      (decode_stream_partial_spec, decode_stream_partial_prefix, reads16_deliver_all).
   5. EntryIterator::next with the code's own read calls (probe, read_exact of 4, 4, length, 4 bytes through the
      Chain) over ANY reader that refines an abstract one = inner_entries_lazy over what that reader has (it_all_spec);
      instance: the CBC reader (cbc_iterator_spec, chunk_reader_refines, show_solid_is_the_iterator).
   6. the entries of a prefix are a prefix of the entries (lazy_entries_prefix).
   7. real-cipher instances, examples (a two-entry CBC solid entry cut between / inside its entries), and the refuted
      independence of the buffer sizes (lazy_buffer_independence_refuted).
   8. cutting a stored solid entry that decodes: the lazy reader yields a prefix of its entries (lazy_cut_yields_prefix). *)
From PNA Require Import Base Crc32 Name Codec Chunk Archive Entry Flatten Cbc Ctr Pipeline
  BaseFacts ChunkFacts ArchiveFacts EntryFacts FlattenFacts CbcFacts CtrFacts StreamFacts PipelineFacts DecodeTotalFacts.
From PNA Require Import Aes Camellia AesFacts CamelliaFacts PipelineRun RecutFacts.
Require Import ZArith ZifyN ZifyNat ZifyBool Lia.
Open Scope N_scope.

(* how a sequence of reads ended, as the outcome of the caller that wanted all of it *)
Definition res_of_fin {A} (a : A) (f : fin) : res A :=
  match f with FinOk => Ok a | FinErr e => Err e | FinPanic => Panic end.

(* ================================================================================================= *)
(* 0. the entry iterator over a reader that ends with sf                                                *)
(* ================================================================================================= *)
(* over a reader that ends cleanly it is the iterator of Entry.v *)
Lemma inner_item_lazy_ok : forall fuel bs acc, inner_item_lazy FinOk fuel bs acc = inner_item fuel bs acc.
Proof.
  induction fuel as [|f IH]; intros bs acc; cbn [inner_item_lazy inner_item]; [reflexivity|].
  destruct (read_chunk_stream bs) as [[c r]|k|]; [|reflexivity|reflexivity].
  destruct (ty_is c FEND); [reflexivity|apply IH].
Qed.
Lemma inner_entries_lazy_ok : forall fuel bs, inner_entries_lazy FinOk fuel bs = inner_entries_loop fuel bs.
Proof.
  induction fuel as [|f IH]; intros bs; cbn [inner_entries_lazy inner_entries_loop]; [reflexivity|].
  rewrite inner_item_lazy_ok. destruct (inner_item (S (length bs)) bs []) as [[[cs r]|]| |]; try reflexivity.
  destruct (parse_normal cs); try reflexivity. rewrite IH. reflexivity.
Qed.

(* one entry: it consumes bytes, and never runs out of fuel *)
Lemma inner_item_lazy_spec sf : sf <> FinPanic -> forall fuel bs acc, (length bs < fuel)%nat ->
  match inner_item_lazy sf fuel bs acc with
  | Ok (Some (_, r)) => (length r < length bs)%nat
  | Ok None => sf = FinOk /\ bs = [] /\ acc = []
  | Err _ => True
  | Panic => False
  end.
Proof.
  intros Hsf. induction fuel as [|fuel IH]; intros bs acc H; [lia|]. cbn [inner_item_lazy].
  destruct (read_chunk_cases bs) as [(c & r & E)|[E | E]]; rewrite E; try exact I.
  - apply read_chunk_shorter in E. destruct (ty_is c FEND); [exact E|].
    specialize (IH r (acc ++ [c])). destruct (inner_item_lazy sf fuel r (acc ++ [c])) as [[[cs r']|]| |]; try exact I; try (apply IH; lia).
    + assert (length r' < length r)%nat by (apply IH; lia). lia.
    + destruct (IH ltac:(lia)) as (_ & _ & Ha). destruct acc; discriminate.
  - destruct sf; [|exact I|contradiction]. destruct acc; [destruct bs|]; try exact I. repeat split.
Qed.

Lemma inner_entries_lazy_np sf : sf <> FinPanic -> forall fuel bs, (length bs < fuel)%nat ->
  snd (inner_entries_lazy sf fuel bs) <> FinPanic.
Proof.
  intros Hsf. induction fuel as [|fuel IH]; intros bs H; [lia|]. cbn [inner_entries_lazy].
  pose proof (inner_item_lazy_spec sf Hsf (S (length bs)) bs [] (Nat.lt_succ_diag_r _)) as Hi.
  destruct (inner_item_lazy sf (S (length bs)) bs []) as [[[cs r]|]| |]; [| | |contradiction]; try (cbn [snd]; discriminate).
  pose proof (parse_normal_np cs) as Hp. destruct (parse_normal cs); [|cbn [snd]; discriminate|contradiction].
  specialize (IH r). destruct (inner_entries_lazy sf fuel r) as [es k]. cbn [snd] in *. apply IH. lia.
Qed.

(* in front of a pending error the iteration never ends cleanly: nothing is silently cut off *)
Lemma inner_item_lazy_err_not_none e : forall fuel bs acc, inner_item_lazy (FinErr e) fuel bs acc <> Ok None.
Proof.
  induction fuel as [|fuel IH]; intros bs acc; cbn [inner_item_lazy]; [discriminate|].
  destruct (read_chunk_stream bs) as [[c r]|k|]; [| |discriminate].
  - destruct (ty_is c FEND); [discriminate|apply IH].
  - destruct k; discriminate.
Qed.
Lemma inner_entries_lazy_err_not_ok e : forall fuel bs, snd (inner_entries_lazy (FinErr e) fuel bs) <> FinOk.
Proof.
  induction fuel as [|fuel IH]; intros bs; cbn [inner_entries_lazy]; [discriminate|].
  pose proof (inner_item_lazy_err_not_none e (S (length bs)) bs []) as Hn.
  destruct (inner_item_lazy (FinErr e) (S (length bs)) bs []) as [[[cs r]|]| |]; [|congruence|discriminate|discriminate].
  destruct (parse_normal cs); [|discriminate|discriminate].
  specialize (IH r). destruct (inner_entries_lazy (FinErr e) fuel r). exact IH.
Qed.

(* ================================================================================================= *)
(* 1. partial view = eager view, read by read (any block function)                                     *)
(* ================================================================================================= *)
Section Any.
Variable D : bytes -> bytes -> bytes.

Lemma cbcr_reads_of_partial : forall ns st,
  cbcr_reads D st ns = res_of_fin (fst (cbcr_reads_partial D st ns)) (snd (cbcr_reads_partial D st ns)).
Proof.
  induction ns as [|n r IH]; intros st; cbn [cbcr_reads cbcr_reads_partial]; [reflexivity|].
  destruct (cbcr_read D st n) as [[st' out]| |]; cbn [bind fst snd res_of_fin]; try reflexivity.
  rewrite IH. destruct (cbcr_reads_partial D st' r) as [rest f]. cbn [fst snd]. destruct f; reflexivity.
Qed.

Lemma cbcr_reads_partial_np : forall ns st, snd (cbcr_reads_partial D st ns) <> FinPanic.
Proof.
  induction ns as [|n r IH]; intros st; cbn [cbcr_reads_partial]; [discriminate|].
  pose proof (cbcr_read_np D st n) as Hn. destruct (cbcr_read D st n) as [[st' out]| |]; [|discriminate|contradiction].
  specialize (IH st'). destruct (cbcr_reads_partial D st' r) as [rest f]. exact IH.
Qed.

(* ---- the reader depends on its source only through the concatenation of the pieces --------------------- *)
Definition same_src (a b : cbcr) : Prop :=
  r_key a = r_key b /\ concat (r_src a) = concat (r_src b) /\ r_prev a = r_prev b /\ r_look a = r_look b /\
  r_rem a = r_rem b /\ r_eof a = r_eof b.
Definition same_out (x y : cbcr * bytes) : Prop := same_src (fst x) (fst y) /\ snd x = snd y.

Lemma read_block_same s1 s2 : concat s1 = concat s2 ->
  snd (read_block s1) = snd (read_block s2) /\ concat (fst (read_block s1)) = concat (fst (read_block s2)).
Proof.
  intros H. destruct (read_block s1) as [a x] eqn:E1. destruct (read_block s2) as [b y] eqn:E2.
  destruct (read_block_spec _ _ _ E1) as [Hx Ha]. destruct (read_block_spec _ _ _ E2) as [Hy Hb].
  cbn [fst snd]. rewrite Hx, Hy, Ha, Hb, H. split; reflexivity.
Qed.

Lemma cbcr_loop_same : forall fuel a b want, same_src a b ->
  res_rel same_out (cbcr_loop D fuel a want) (cbcr_loop D fuel b want).
Proof.
  induction fuel as [|f IH]; intros a b want H; cbn [cbcr_loop].
  - cbn [res_rel]. split; [exact H|reflexivity].
  - destruct H as (Hk & Hs & Hp & Hl & Hr & He).
    destruct (read_block_same _ _ Hs) as [Hnx Hsrc].
    destruct (read_block (r_src a)) as [sa nx]. destruct (read_block (r_src b)) as [sb ny].
    cbn [fst snd] in Hnx, Hsrc. subst ny. rewrite <- Hk, <- Hp, <- Hl, <- Hr.
    destruct (negb (len nx =? 0) && negb (len nx =? 16)); [reflexivity|].
    destruct (if len nx =? 0 then pkcs7_unpad_block (xor_bytes (D (r_key a) (r_look a)) (r_prev a))
              else Ok (xor_bytes (D (r_key a) (r_look a)) (r_prev a))) as [blk|e|]; cbn [bind res_rel]; try reflexivity.
    destruct ((len nx =? 0) || (want <=? N.min (N.min 16 want) (len blk))).
    + cbn [res_rel]. split; [|reflexivity]. cbn [fst]. repeat split; cbn [r_key r_src r_prev r_look r_rem r_eof]; assumption.
    + match goal with |- res_rel _ (bind (cbcr_loop D f ?x ?w) _) (bind (cbcr_loop D f ?y _) _) =>
        assert (Hxy : same_src x y) by (repeat split; cbn [r_key r_src r_prev r_look r_rem r_eof]; assumption);
        pose proof (IH x y w Hxy) as Hi; destruct (cbcr_loop D f x w) as [[x2 m1]| |]; destruct (cbcr_loop D f y w) as [[y2 m2]| |];
        cbn [res_rel bind] in *; try contradiction; try assumption; auto end.
      destruct Hi as [Hi1 Hi2]. cbn [fst snd] in *. subst m2. split; [exact Hi1|reflexivity].
Qed.

Lemma cbcr_read_same a b n : same_src a b -> res_rel same_out (cbcr_read D a n) (cbcr_read D b n).
Proof.
  intros H. unfold cbcr_read. destruct (n =? 0); [split; [exact H|reflexivity]|].
  destruct H as (Hk & Hs & Hp & Hl & Hr & He). rewrite <- Hr, <- He.
  set (l := N.min (len (r_rem a)) n).
  assert (H0 : same_src {| r_key := r_key a; r_src := r_src a; r_prev := r_prev a; r_look := r_look a; r_rem := fdrop l (r_rem a); r_eof := r_eof a |}
                        {| r_key := r_key b; r_src := r_src b; r_prev := r_prev b; r_look := r_look b; r_rem := fdrop l (r_rem a); r_eof := r_eof a |})
    by (repeat split; cbn [r_key r_src r_prev r_look r_rem r_eof]; assumption).
  destruct (n <=? l); [split; [exact H0|reflexivity]|]. destruct (r_eof a); [split; [exact H0|reflexivity]|].
  pose proof (cbcr_loop_same (N.to_nat ((n - l + 15) / 16)) _ _ (n - l) H0) as Hi.
  match type of Hi with res_rel _ ?x ?y => destruct x as [[x2 m1]| |]; destruct y as [[y2 m2]| |] end;
    cbn [res_rel bind] in *; try contradiction; try assumption; auto.
  destruct Hi as [Hi1 Hi2]. cbn [fst snd] in *. subst m2. split; [exact Hi1|reflexivity].
Qed.

Lemma cbcr_reads_partial_same : forall ns a b, same_src a b -> cbcr_reads_partial D a ns = cbcr_reads_partial D b ns.
Proof.
  induction ns as [|n r IH]; intros a b H; cbn [cbcr_reads_partial]; [reflexivity|].
  pose proof (cbcr_read_same a b n H) as Hr.
  destruct (cbcr_read D a n) as [[a' o1]| |]; destruct (cbcr_read D b n) as [[b' o2]| |]; cbn [res_rel] in Hr; try contradiction; try reflexivity.
  - destruct Hr as [H1 H2]. cbn [fst snd] in *. subst o2. rewrite (IH a' b' H1). reflexivity.
  - congruence.
Qed.

Lemma cbcr_new_same key iv s1 s2 : concat s1 = concat s2 ->
  res_rel same_src (cbcr_new key iv s1) (cbcr_new key iv s2).
Proof.
  intros H. unfold cbcr_new. destruct (read_block_same _ _ H) as [Hb Hs].
  destruct (read_block s1) as [a x]. destruct (read_block s2) as [b y]. cbn [fst snd] in *. subst y.
  destruct (negb (len x =? 16)); [reflexivity|]. destruct (negb (key_iv_ok key iv)); [reflexivity|].
  cbn [res_rel]. repeat split; cbn [r_key r_src r_prev r_look r_rem r_eof]; try reflexivity. exact Hs.
Qed.
End Any.

(* ================================================================================================= *)
(* 4. the decrypting reader as a byte-stream reader (block function that keeps the block length)       *)
(* ================================================================================================= *)
(* an abstract reader: the bytes it can still deliver, and how it ends behind them *)
Definition areader := (bytes * fin)%type.
(* Read::read with a buffer of n bytes: n bytes while there are that many; at a clean end what is left (then
   nothing); in front of an error: the error, as soon as a read needs a byte that is not there *)
Definition aread (a : areader) (n : N) : res (areader * bytes) :=
  let (P, f) := a in
  if n <=? len P then Ok ((fdrop n P, f), ftake n P)
  else match f with FinOk => Ok (([], FinOk), P) | FinErr e => Err e | FinPanic => Panic end.
Fixpoint areads (a : areader) (ns : list N) : list bytes * fin :=
  match ns with
  | [] => ([], FinOk)
  | n :: r =>
    match aread a n with
    | Ok (a', out) => let (rest, f) := areads a' r in (out :: rest, f)
    | Err e => ([], FinErr e)
    | Panic => ([], FinPanic)
    end
  end.

(* every read sequence delivers a prefix of what the reader has *)
Lemma areads_prefix : forall ns a, exists rest, fst a = concat (fst (areads a ns)) ++ rest.
Proof.
  induction ns as [|n r IH]; intros [P f]; cbn [areads fst]; [exists P; reflexivity|].
  unfold aread. destruct (N.leb_spec n (len P)) as [Hle|Hgt].
  - destruct (IH (fdrop n P, f)) as (rest & Hr). destruct (areads (fdrop n P, f) r) as [outs g]. cbn [fst concat] in *.
    exists rest. rewrite <- app_assoc, <- Hr, ftake_fdrop. reflexivity.
  - destruct f as [|e|]; cbn [fst concat]; try (exists P; reflexivity).
    destruct (IH ([], FinOk)) as (rest & Hr). destruct (areads ([], FinOk) r) as [outs g]. cbn [fst concat] in *.
    symmetry in Hr. apply app_eq_nil in Hr. destruct Hr as [-> ->]. exists []. rewrite !app_nil_r. reflexivity.
Qed.

Lemma areads_nil : forall ns, concat (fst (areads ([], FinOk) ns)) = [] /\ snd (areads ([], FinOk) ns) = FinOk.
Proof.
  induction ns as [|n r IH]; cbn [areads fst snd concat]; [split; reflexivity|].
  unfold aread. change (len (@nil byte)) with 0.
  destruct (N.leb_spec n 0) as [Hle|Hgt].
  - rewrite fdrop_nil, ftake_nil. destruct (areads ([], FinOk) r) as [outs g]. cbn [fst snd concat app] in *. exact IH.
  - destruct (areads ([], FinOk) r) as [outs g]. cbn [fst snd concat app] in *. exact IH.
Qed.

(* a clean stream read with draining buffers: all of it, and a clean end *)
Lemma areads_clean : forall ns P, Forall (fun n => 0 < n) ns -> len P < len ns ->
  concat (fst (areads (P, FinOk) ns)) = P /\ snd (areads (P, FinOk) ns) = FinOk.
Proof.
  induction ns as [|n r IH]; intros P Hpos Hl; [unfold len in Hl; cbn [length] in Hl; lia|].
  inversion Hpos as [|? ? Hn Hr]; subst. rewrite len_cons in Hl. cbn [areads]. unfold aread.
  destruct (N.leb_spec n (len P)) as [Hle|Hgt].
  - destruct (IH (fdrop n P) Hr) as [A B]; [rewrite len_fdrop; lia|].
    destruct (areads (fdrop n P, FinOk) r) as [outs g]. cbn [fst snd concat] in *. rewrite A, ftake_fdrop. split; [reflexivity|exact B].
  - destruct (areads_nil r) as [A B]. destruct (areads ([], FinOk) r) as [outs g]. cbn [fst snd concat] in *.
    rewrite A, app_nil_r. split; [reflexivity|exact B].
Qed.

(* 16-byte reads: nothing is lost in front of an error either (the reader hands out whole blocks there) *)
Lemma areads16 : forall k P f, f <> FinPanic -> (f <> FinOk -> len P mod 16 = 0) -> len P < N.of_nat k ->
  concat (fst (areads (P, f) (repeat 16 k))) = P /\ snd (areads (P, f) (repeat 16 k)) = f.
Proof.
  induction k as [|k IH]; intros P f Hnp Hmod Hl; [lia|].
  cbn [repeat areads]. unfold aread. destruct (N.leb_spec 16 (len P)) as [Hle|Hgt].
  - destruct (IH (fdrop 16 P) f Hnp) as [A B].
    + intros Hf. specialize (Hmod Hf). rewrite len_fdrop.
      replace (len P) with (len P - 16 + 1 * 16) in Hmod by lia. rewrite N.mod_add in Hmod by lia. exact Hmod.
    + rewrite len_fdrop. lia.
    + destruct (areads (fdrop 16 P, f) (repeat 16 k)) as [outs g]. cbn [fst snd concat] in *.
      rewrite A, ftake_fdrop. split; [reflexivity|exact B].
  - destruct f as [|e|]; [| |contradiction].
    + destruct (areads_nil (repeat 16 k)) as [A B]. destruct (areads ([], FinOk) (repeat 16 k)) as [outs g].
      cbn [fst snd concat] in *. rewrite A, app_nil_r. split; [reflexivity|exact B].
    + specialize (Hmod ltac:(discriminate)). rewrite N.mod_small in Hmod by lia.
      destruct P; [|rewrite len_cons in Hmod; lia]. split; reflexivity.
Qed.

Lemma len16_len b : len16 b -> len b = 16.
Proof. unfold len16, len. intros ->. reflexivity. Qed.
Lemma len_len16 b : len b = 16 -> len16 b.
Proof. unfold len16, len. lia. Qed.

Section Avail.
Variable D : bytes -> bytes -> bytes.
Hypothesis D_len : forall k c, len16 c -> len16 (D k c).

(* the plaintext of the blocks in front of the first one that cannot be delivered, and why it cannot: a short
   piece behind it (found when it is fetched as look-ahead), or the last block does not unpad *)
Fixpoint avail_blocks (k prev look : bytes) (rest : list bytes) : areader :=
  let p := xor_bytes (D k look) prev in
  match rest with
  | [] => match pkcs7_unpad_block p with Ok b => (b, FinOk) | Err e => ([], FinErr e) | Panic => ([], FinPanic) end
  | nx :: r => if len nx =? 16 then let (t, f) := avail_blocks k look nx r in (p ++ t, f) else ([], FinErr UnexpectedEof)
  end.
Definition avail (st : cbcr) : areader :=
  if r_eof st then (r_rem st, FinOk)
  else let (t, f) := avail_blocks (r_key st) (r_prev st) (r_look st) (chunks 16 (concat (r_src st))) in (r_rem st ++ t, f).

Definition winv (st : cbcr) : Prop := r_eof st = false -> len16 (r_prev st) /\ len16 (r_look st).

(* the eager specification of RecutFacts is the abstract reader read to its end *)
Lemma owed_blocks_avail k : forall rest prev look,
  owed_blocks D k prev look rest = res_of_fin (fst (avail_blocks k prev look rest)) (snd (avail_blocks k prev look rest)).
Proof.
  induction rest as [|nx r IH]; intros prev look; cbn [owed_blocks avail_blocks].
  - destruct (pkcs7_unpad_block _); reflexivity.
  - destruct (len nx =? 16); [|reflexivity]. rewrite IH. destruct (avail_blocks k look nx r) as [t f]. cbn [fst snd].
    destruct f; reflexivity.
Qed.
Lemma owed_avail st : owed D st = res_of_fin (fst (avail st)) (snd (avail st)).
Proof.
  unfold owed, avail. destruct (r_eof st); [reflexivity|]. rewrite owed_blocks_avail.
  destruct (avail_blocks _ _ _ _) as [t f]. cbn [fst snd]. destruct f; reflexivity.
Qed.


(* in front of an error the reader delivers whole blocks *)
Lemma avail_blocks_whole k : forall rest prev look, len16 prev -> len16 look ->
  snd (avail_blocks k prev look rest) <> FinOk -> len (fst (avail_blocks k prev look rest)) mod 16 = 0.
Proof.
  induction rest as [|nx r IH]; intros prev look Hp Hl; cbn [avail_blocks].
  - destruct (pkcs7_unpad_block _); cbn [fst snd]; [congruence|reflexivity|reflexivity].
  - destruct (N.eqb_spec (len nx) 16) as [E|E]; [|reflexivity].
    specialize (IH look nx Hl (len_len16 _ E)). destruct (avail_blocks k look nx r) as [t f]. cbn [fst snd] in *.
    intros Hf. specialize (IH Hf). rewrite len_app.
    assert (L : len (xor_bytes (D k look) prev) = 16) by (apply len16_len, xor_len16; [apply D_len|]; assumption).
    rewrite L. rewrite <- (N.mod_add (len t) 1 16) in IH by lia. rewrite <- IH. f_equal. lia.
Qed.

Lemma avail_blocks_np k : forall rest prev look, snd (avail_blocks k prev look rest) <> FinPanic.
Proof.
  induction rest as [|nx r IH]; intros prev look; cbn [avail_blocks].
  - pose proof (pkcs7_unpad_block_np (xor_bytes (D k look) prev)) as Hn.
    destruct (pkcs7_unpad_block _); cbn [snd]; [discriminate|discriminate|contradiction].
  - destruct (len nx =? 16); [|discriminate]. specialize (IH look nx). destruct (avail_blocks k look nx r). exact IH.
Qed.

(* it never delivers more than the ciphertext it was given *)
Lemma avail_blocks_len k : forall rest prev look, len16 prev -> len16 look ->
  len (fst (avail_blocks k prev look rest)) <= 16 + len (concat rest).
Proof.
  induction rest as [|nx r IH]; intros prev look Hp Hl; cbn [avail_blocks concat].
  - destruct (pkcs7_unpad_block _) as [b| |] eqn:Eu; cbn [fst]; [apply unpad_len in Eu; change (len (@nil byte)) with 0; lia| |];
      change (len (@nil byte)) with 0; lia.
  - destruct (N.eqb_spec (len nx) 16) as [E|E]; [|cbn [fst]; change (len (@nil byte)) with 0; lia].
    specialize (IH look nx Hl (len_len16 _ E)). destruct (avail_blocks k look nx r) as [t f]. cbn [fst] in *.
    rewrite !len_app, E.
    assert (L : len (xor_bytes (D k look) prev) = 16) by (apply len16_len, xor_len16; [apply D_len|]; assumption).
    lia.
Qed.

(* the block loop of one read *)
Lemma cbcr_loop_avail : forall fuel st want, r_eof st = false -> r_rem st = [] -> winv st ->
  0 < want -> want <= 16 * N.of_nat fuel ->
  match aread (avail st) want with
  | Ok (a', out) => exists st', cbcr_loop D fuel st want = Ok (st', out) /\ avail st' = a' /\ winv st'
  | Err e => cbcr_loop D fuel st want = Err e
  | Panic => False
  end.
Proof.
  induction fuel as [|fu IH]; intros st want He Hrem Hinv Hw Hf; [lia|].
  destruct (Hinv He) as (Lp & Ll). cbn [cbcr_loop].
  set (p := xor_bytes (D (r_key st) (r_look st)) (r_prev st)).
  assert (Hp16 : len16 p) by (apply xor_len16; [apply D_len|]; assumption).
  assert (Hp : len p = 16) by (apply len16_len; exact Hp16).
  destruct (read_block (r_src st)) as [src' nx] eqn:Erb.
  destruct (read_block_spec _ _ _ Erb) as [Hnx Hsrc'].
  assert (Hav : avail st = avail_blocks (r_key st) (r_prev st) (r_look st) (chunks 16 (concat (r_src st)))).
  { unfold avail. rewrite He, Hrem. destruct (avail_blocks _ _ _ _); reflexivity. }
  rewrite Hav. clear Hav.
  destruct (concat (r_src st)) as [|c0 ct0] eqn:Ect.
  - (* the source is exhausted: `look` is the last block *)
    cbn [firstn] in Hnx. subst nx. change (len (@nil byte)) with 0. change (0 =? 0) with true. cbn [negb andb orb].
    cbn [chunks chunks_fuel length avail_blocks]. fold p.
    pose proof (pkcs7_unpad_block_np p) as Hnp.
    destruct (pkcs7_unpad_block p) as [blk|e|] eqn:Eu; cbn [bind]; [| |contradiction].
    + pose proof (unpad_len _ _ Eu) as Hb. unfold aread.
      destruct (N.leb_spec want (len blk)) as [Hle|Hgt].
      * replace (N.min (N.min 16 want) (len blk)) with want by lia. eexists. split; [reflexivity|].
        split; [unfold avail; cbn [r_eof r_rem]; rewrite Hrem; reflexivity|unfold winv; cbn [r_eof]; discriminate].
      * replace (N.min (N.min 16 want) (len blk)) with (len blk) by lia. rewrite (ftake_all (len blk) blk) by lia.
        eexists. split; [reflexivity|].
        split; [unfold avail; cbn [r_eof r_rem]; rewrite Hrem, fdrop_all by lia; reflexivity|unfold winv; cbn [r_eof]; discriminate].
    + unfold aread. change (len (@nil byte)) with 0. destruct (N.leb_spec want 0); [lia|reflexivity].
  - (* a further piece follows *)
    rewrite <- Ect in *.
    assert (Hne : concat (r_src st) <> []) by (rewrite Ect; discriminate). clear Ect c0 ct0.
    rewrite (chunks_cons16 _ Hne), <- Hnx, <- Hsrc'. cbn [avail_blocks]. fold p.
    assert (Hnz : (len nx =? 0) = false).
    { apply N.eqb_neq. subst nx. destruct (concat (r_src st)); [congruence|]. cbn [firstn]. rewrite len_cons. lia. }
    rewrite Hnz. cbn [negb andb orb].
    destruct (N.eqb_spec (len nx) 16) as [E16|E16]; cbn [negb bind].
    2:{ unfold aread. change (len (@nil byte)) with 0. destruct (N.leb_spec want 0); [lia|reflexivity]. }
    rewrite Hp.
    set (st1 := {| r_key := r_key st; r_src := src'; r_prev := r_look st; r_look := nx; r_rem := r_rem st; r_eof := false |}).
    assert (Hav1 : avail st1 = avail_blocks (r_key st) (r_look st) nx (chunks 16 (concat src'))).
    { unfold avail. cbn [r_eof r_key r_prev r_look r_src r_rem st1]. rewrite Hrem.
      destruct (avail_blocks (r_key st) (r_look st) nx (chunks 16 (concat src'))); reflexivity. }
    assert (Hinv1 : winv st1) by (unfold winv; cbn [r_eof r_prev r_look st1]; intros _; split; [exact Ll|apply len_len16; exact E16]).
    destruct (avail_blocks (r_key st) (r_look st) nx (chunks 16 (concat src'))) as [t f] eqn:Eab.
    destruct (N.leb_spec want (N.min (N.min 16 want) 16)) as [Hle|Hgt].
    + (* the caller's buffer ends inside this block *)
      assert (Hw16 : want <= 16) by lia. replace (N.min (N.min 16 want) 16) with want by lia.
      unfold aread. rewrite len_app, Hp. destruct (N.leb_spec want (16 + len t)) as [_|?]; [|lia].
      rewrite (ftake_app_le want p t) by lia.
      eexists. split; [reflexivity|]. split.
      * unfold avail. cbn [r_eof r_key r_prev r_look r_src r_rem]. rewrite Hrem, Eab. cbn [app].
        rewrite fdrop_app_le by lia. reflexivity.
      * unfold winv. cbn [r_eof r_prev r_look]. intros _. split; [exact Ll|apply len_len16; exact E16].
    + (* go round *)
      assert (Hw16 : 16 < want) by lia. replace (N.min (N.min 16 want) 16) with 16 by lia.
      assert (Hpt : ftake 16 p = p) by (apply ftake_all; lia).
      specialize (IH st1 (want - 16) eq_refl Hrem Hinv1 ltac:(lia) ltac:(lia)). rewrite Hav1 in IH.
      unfold aread in *. rewrite len_app, Hp.
      destruct (N.leb_spec (want - 16) (len t)) as [H1|H1]; destruct (N.leb_spec want (16 + len t)) as [H2|H2]; try lia.
      * destruct IH as (st' & Hl' & Ha' & Hi'). fold st1. rewrite Hl'. cbn [bind]. eexists. split; [|split; [|exact Hi']].
        -- rewrite Hpt, ftake_app_ge by lia. rewrite Hp. reflexivity.
        -- rewrite Ha', fdrop_app_ge by lia. rewrite Hp. reflexivity.
      * destruct f as [|e|].
        -- destruct IH as (st' & Hl' & Ha' & Hi'). fold st1. rewrite Hl'. cbn [bind]. eexists. split; [|split; [exact Ha'|exact Hi']].
           rewrite Hpt. reflexivity.
        -- fold st1. rewrite IH. reflexivity.
        -- exact IH.
Qed.

(* one read of the decrypting reader is one read of the abstract reader over `avail` *)
Theorem cbcr_read_avail st n : winv st ->
  match aread (avail st) n with
  | Ok (a', out) => exists st', cbcr_read D st n = Ok (st', out) /\ avail st' = a' /\ winv st'
  | Err e => cbcr_read D st n = Err e
  | Panic => False
  end.
Proof.
  intros Hinv. unfold cbcr_read. destruct (N.eqb_spec n 0) as [->|Hn].
  - destruct (avail st) as [P f] eqn:Ea. unfold aread. destruct (N.leb_spec 0 (len P)) as [_|?]; [|lia].
    exists st. rewrite fdrop_0, ftake_0. split; [reflexivity|split; [exact Ea|exact Hinv]].
  - set (l := N.min (len (r_rem st)) n).
    set (st0 := {| r_key := r_key st; r_src := r_src st; r_prev := r_prev st; r_look := r_look st;
                   r_rem := fdrop l (r_rem st); r_eof := r_eof st |}).
    assert (Hinv0 : winv st0) by exact Hinv.
    destruct (r_eof st) eqn:He.
    + (* the last block has been unpadded: only `remaining` is left *)
      assert (Ha : avail st = (r_rem st, FinOk)) by (unfold avail; rewrite He; reflexivity).
      assert (Ha0 : avail st0 = (fdrop l (r_rem st), FinOk)) by (unfold avail; cbn [r_eof r_rem st0]; rewrite ?He; reflexivity).
      rewrite Ha. unfold aread. destruct (N.leb_spec n l) as [Hle|Hgt].
      * destruct (N.leb_spec n (len (r_rem st))) as [_|?]; [|lia]. replace l with n in * by lia.
        exists st0. split; [reflexivity|split; [exact Ha0|exact Hinv0]].
      * destruct (N.leb_spec n (len (r_rem st))) as [?|_]; [lia|]. exists st0.
        replace l with (len (r_rem st)) in * by lia. rewrite ftake_all by lia. rewrite fdrop_all in Ha0 by lia.
        split; [reflexivity|split; [exact Ha0|exact Hinv0]].
    + destruct (avail_blocks (r_key st) (r_prev st) (r_look st) (chunks 16 (concat (r_src st)))) as [t f] eqn:Eab.
      assert (Ha : avail st = (r_rem st ++ t, f)) by (unfold avail; rewrite He, Eab; reflexivity).
      assert (Ha0 : avail st0 = (fdrop l (r_rem st) ++ t, f)).
      { unfold avail. cbn [r_eof r_key r_prev r_look r_src r_rem st0]. rewrite ?He, Eab. reflexivity. }
      rewrite Ha. unfold aread. rewrite len_app. destruct (N.leb_spec n l) as [Hle|Hgt].
      * destruct (N.leb_spec n (len (r_rem st) + len t)) as [_|?]; [|lia].
        assert (Hn' : n <= len (r_rem st)) by lia. assert (Hln : l = n) by lia.
        exists st0. rewrite ftake_app_le, fdrop_app_le by lia. rewrite <- Hln. split; [reflexivity|split; [exact Ha0|exact Hinv0]].
      * assert (Hl : l = len (r_rem st)) by lia.
        assert (Hrem0 : r_rem st0 = []) by (cbn [r_rem st0]; apply fdrop_all; lia).
        rewrite Hl, (fdrop_all (len (r_rem st))) in Ha0 by lia. cbn [app] in Ha0.
        assert (Hfuel : n - l <= 16 * N.of_nat (N.to_nat ((n - l + 15) / 16))).
        { rewrite N2Nat.id. pose proof (N.div_mod (n - l + 15) 16 ltac:(lia)) as Hd.
          pose proof (N.mod_lt (n - l + 15) 16 ltac:(lia)). lia. }
        pose proof (cbcr_loop_avail (N.to_nat ((n - l + 15) / 16)) st0 (n - l) eq_refl Hrem0 Hinv0 ltac:(lia) Hfuel) as Hloop.
        rewrite Ha0 in Hloop. unfold aread in Hloop. rewrite (ftake_all l (r_rem st)) by lia.
        destruct (N.leb_spec (n - l) (len t)) as [H1|H1]; destruct (N.leb_spec n (len (r_rem st) + len t)) as [H2|H2]; try lia.
        -- destruct Hloop as (st' & Hl' & Ha' & Hi'). fold st0. rewrite Hl'. cbn [bind]. exists st'.
           rewrite ftake_app_ge, fdrop_app_ge by lia. rewrite <- Hl. split; [reflexivity|split; [exact Ha'|exact Hi']].
        -- destruct f as [|e|].
           ++ destruct Hloop as (st' & Hl' & Ha' & Hi'). fold st0. rewrite Hl'. cbn [bind]. exists st'.
              split; [reflexivity|split; [exact Ha'|exact Hi']].
           ++ fold st0. rewrite Hloop. reflexivity.
           ++ exact Hloop.
Qed.

(* every sequence of reads: the partial view is the abstract reader's *)
Theorem cbcr_reads_partial_avail : forall ns st, winv st -> cbcr_reads_partial D st ns = areads (avail st) ns.
Proof.
  induction ns as [|n r IH]; intros st Hinv; cbn [cbcr_reads_partial areads]; [reflexivity|].
  pose proof (cbcr_read_avail st n Hinv) as Hr.
  destruct (aread (avail st) n) as [[a' out]|e|]; [|rewrite Hr; reflexivity|contradiction].
  destruct Hr as (st' & -> & <- & Hi'). rewrite (IH st' Hi'). reflexivity.
Qed.

(* a fresh reader *)
Lemma cbcr_new_avail key iv src st : cbcr_new key iv src = Ok st ->
  winv st /\ r_rem st = [] /\ r_eof st = false /\
  avail st = avail_blocks key iv (firstn 16 (concat src)) (chunks 16 (skipn 16 (concat src))).
Proof.
  unfold cbcr_new. destruct (read_block src) as [s1 blk] eqn:Erb. destruct (read_block_spec _ _ _ Erb) as [Hb Hs].
  destruct (N.eqb_spec (len blk) 16) as [E16|]; cbn [negb]; [|discriminate].
  destruct (key_iv_ok key iv) eqn:Hok; cbn [negb]; [|discriminate]. intros H. injection H as <-.
  unfold winv, avail. cbn [r_eof r_key r_prev r_look r_src r_rem]. rewrite Hs, <- Hb.
  split; [|split; [reflexivity|split; [reflexivity|destruct (avail_blocks _ _ _ _); reflexivity]]].
  intros _. split; [|apply len_len16; exact E16].
  unfold key_iv_ok in Hok. apply andb_prop in Hok. destruct Hok as [_ Hiv]. apply N.eqb_eq in Hiv. apply len_len16. exact Hiv.
Qed.
End Avail.

Section PipeCut.
Variables E D : encryption -> bytes -> bytes -> bytes.
Variable verify : bytes -> bytes -> res bytes.
Notation decode_stream_partial := (decode_stream_partial E D verify).

(* ---- framing independence (any block function) --------------------------------------------------------- *)
Lemma partial_enc_cut_indep a mode phsf pw data1 data2 rbufs :
  concat data1 = concat data2 -> drains data1 rbufs -> drains data2 rbufs ->
  match phsf with
  | None => Err InvalidData
  | Some s =>
    do key <- verify s pw;
    let (src, iv) := read_block data1 in
    if negb (N.eqb (len iv) 16) then Err UnexpectedEof else
    match mode with
    | MCbc => do st <- cbcr_new key iv src;
              let (outs, f) := cbcr_reads_partial (D a) st rbufs in Ok (concat outs, f)
    | MCtr => do st <- ctrr_new key iv src; Ok (concat (ctrr_reads (E a) st rbufs), FinOk)
    end
  end =
  match phsf with
  | None => Err InvalidData
  | Some s =>
    do key <- verify s pw;
    let (src, iv) := read_block data2 in
    if negb (N.eqb (len iv) 16) then Err UnexpectedEof else
    match mode with
    | MCbc => do st <- cbcr_new key iv src;
              let (outs, f) := cbcr_reads_partial (D a) st rbufs in Ok (concat outs, f)
    | MCtr => do st <- ctrr_new key iv src; Ok (concat (ctrr_reads (E a) st rbufs), FinOk)
    end
  end.
Proof.
  intros Hc (Hpos & Hl1) (_ & Hl2). destruct phsf as [p|]; [|reflexivity].
  destruct (verify p pw) as [key| |]; cbn [bind]; try reflexivity.
  destruct (read_block data1) as [s1 iv1] eqn:E1. destruct (read_block data2) as [s2 iv2] eqn:E2.
  destruct (read_block_spec _ _ _ E1) as [Hi1 Hs1]. destruct (read_block_spec _ _ _ E2) as [Hi2 Hs2].
  replace iv2 with iv1 by (rewrite Hi1, Hi2, Hc; reflexivity).
  assert (Hs : concat s1 = concat s2) by (rewrite Hs1, Hs2, Hc; reflexivity).
  destruct (negb (len iv1 =? 16)); [reflexivity|]. destruct mode.
  - pose proof (cbcr_new_same key iv1 s1 s2 Hs) as Hn.
    destruct (cbcr_new key iv1 s1) as [st1| |]; destruct (cbcr_new key iv1 s2) as [st2| |]; cbn [res_rel bind] in *;
      try contradiction; try reflexivity; try congruence.
    rewrite (cbcr_reads_partial_same (D a) rbufs st1 st2 Hn). reflexivity.
  - unfold ctrr_new. destruct (key_iv_ok key iv1); cbn [bind]; [|reflexivity].
    destruct (ctrr_seq_spec (E a) rbufs {| cr_key := key; cr_iv := of_be iv1; cr_pos := 0; cr_src := s1 |}) as [A1 _].
    destruct (ctrr_seq_spec (E a) rbufs {| cr_key := key; cr_iv := of_be iv1; cr_pos := 0; cr_src := s2 |}) as [A2 _].
    cbn [cr_key cr_iv cr_pos cr_src] in A1, A2. rewrite <- ctrr_reads_eq in A1, A2. rewrite A1, A2.
    assert (L1 : len (concat s1) <= len (concat data1)) by (rewrite Hs1; unfold len; rewrite skipn_length; lia).
    assert (L2 : len (concat s2) <= len (concat data2)) by (rewrite Hs2; unfold len; rewrite skipn_length; lia).
    rewrite (flat_reads_complete rbufs s1 Hpos) by (apply flat_reads_reach_end; [exact Hpos|lia]).
    rewrite (flat_reads_complete rbufs s2 Hpos) by (apply flat_reads_reach_end; [exact Hpos|lia]).
    rewrite Hs. reflexivity.
Qed.

(* the partial view is a function of the concatenation of the data chunks (and of the buffer sizes) *)
Theorem decode_stream_partial_cut_indep enc mode phsf pw data1 data2 rbufs :
  concat data1 = concat data2 -> drains data1 rbufs -> drains data2 rbufs ->
  decode_stream_partial enc mode phsf pw data1 rbufs = decode_stream_partial enc mode phsf pw data2 rbufs.
Proof.
  intros Hc H1 H2. unfold Pipeline.decode_stream_partial. destruct enc.
  - destruct H1 as (Hpos & L1). destruct H2 as (_ & L2).
    rewrite (flat_reads_complete rbufs data1 Hpos) by (apply flat_reads_reach_end; assumption).
    rewrite (flat_reads_complete rbufs data2 Hpos) by (apply flat_reads_reach_end; assumption).
    rewrite Hc. reflexivity.
  - exact (partial_enc_cut_indep EAes mode phsf pw data1 data2 rbufs Hc H1 H2).
  - exact (partial_enc_cut_indep ECamellia mode phsf pw data1 data2 rbufs Hc H1 H2).
Qed.

End PipeCut.

Section Pipe.
Variables E D : encryption -> bytes -> bytes -> bytes.
Variable decompress : compression -> bytes -> res bytes.
Variable verify : bytes -> bytes -> res bytes.

Notation decode_stream := (decode_stream E D decompress verify).
Notation decode_stream_partial := (decode_stream_partial E D verify).
Notation decode_solid := (decode_solid E D decompress verify).
Notation decode_solid_lazy := (decode_solid_lazy E D decompress verify).

Lemma decode_stream_of_partial enc mode phsf pw data rbufs :
  decode_stream CNo enc mode phsf pw data rbufs =
  (do gf <- decode_stream_partial enc mode phsf pw data rbufs; res_of_fin (fst gf) (snd gf)).
Proof.
  unfold Pipeline.decode_stream, Pipeline.decode_stream_partial.
  assert (K : forall r : res bytes, (do got <- r; Ok got) = r) by (intros [?| |]; reflexivity).
  rewrite K. destruct enc; [reflexivity| |];
    (destruct phsf as [s|]; [|reflexivity]; destruct (verify s pw) as [key| |]; cbn [bind]; try reflexivity;
     destruct (read_block data) as [src iv]; destruct (negb (len iv =? 16)); [reflexivity|];
     destruct mode;
     [ destruct (cbcr_new key iv src) as [st| |]; cbn [bind]; try reflexivity;
       rewrite cbcr_reads_of_partial;
       match goal with |- context [cbcr_reads_partial ?d st rbufs] => destruct (cbcr_reads_partial d st rbufs) as [outs f] end;
       cbn [fst snd bind]; destruct f; reflexivity
     | destruct (ctrr_new key iv src) as [st| |]; reflexivity ]).
Qed.

(* the partial view of an unencrypted or CTR stream never ends with an error *)
Lemma partial_clean enc mode phsf pw data rbufs got f :
  (enc = ENo \/ mode = MCtr) -> decode_stream_partial enc mode phsf pw data rbufs = Ok (got, f) -> f = FinOk.
Proof.
  unfold Pipeline.decode_stream_partial. intros Hc H.
  destruct enc; [injection H as _ <-; reflexivity| |];
    (destruct Hc as [Hc|Hc]; [discriminate|subst mode];
     destruct phsf as [s|]; [|discriminate]; destruct (verify s pw) as [key| |]; cbn [bind] in H; try discriminate;
     destruct (read_block data) as [src iv]; destruct (negb (len iv =? 16)); [discriminate|];
     destruct (ctrr_new key iv src) as [st| |]; cbn [bind] in H; try discriminate; injection H as _ <-; reflexivity).
Qed.

(* ---- lazy against eager ------------------------------------------------------------------------------ *)
(* whenever the eager reader answers with entries (the stream decodes to its end), the lazy one gives the same
   entries and the same ending: every theorem about successful decodes transfers *)
Theorem lazy_agrees_on_success e pw rbufs r :
  decode_solid e pw rbufs = Ok r -> decode_solid_lazy e pw rbufs = Ok r.
Proof.
  unfold Pipeline.decode_solid_lazy. destruct (s_comp (so_hdr e)) eqn:Ec; try (intro H; exact H).
  unfold Pipeline.decode_solid. rewrite Ec, decode_stream_of_partial.
  destruct (decode_stream_partial _ _ _ _ _ _) as [[got sf]| |]; cbn [bind fst snd]; try discriminate.
  destruct sf; cbn [res_of_fin bind]; try discriminate. rewrite inner_entries_lazy_ok. intros H; exact H.
Qed.

Lemma partial_np enc mode phsf pw data rbufs got sf :
  decode_stream_partial enc mode phsf pw data rbufs = Ok (got, sf) -> sf <> FinPanic.
Proof.
  unfold Pipeline.decode_stream_partial. intros H.
  destruct enc; [injection H as _ <-; discriminate| |];
    (destruct phsf as [s|]; [|discriminate]; destruct (verify s pw) as [key| |]; cbn [bind] in H; try discriminate;
     destruct (read_block data) as [src iv]; destruct (negb (len iv =? 16)); [discriminate|];
     destruct mode;
     [ destruct (cbcr_new key iv src) as [st| |]; cbn [bind] in H; try discriminate;
       match type of H with context [cbcr_reads_partial ?d st rbufs] =>
         pose proof (cbcr_reads_partial_np d rbufs st) as Hn; destruct (cbcr_reads_partial d st rbufs) as [outs f] end;
       injection H as _ <-; exact Hn
     | destruct (ctrr_new key iv src) as [st| |]; cbn [bind] in H; try discriminate; injection H as _ <-; discriminate ]).
Qed.

(* what a lazy answer says about the eager one:
   - the iterator cannot be constructed: the eager reader fails with the same error;
   - the iteration ends CLEANLY after es: so does the eager reader, with the same entries — the lazy reader never
     cuts a damaged stream off silently;
   - the iteration ends with the error k after es: the eager reader gives the same, or fails as a whole (the
     stream's end is damaged; the lazy reader has yielded the entries in front of the damage).
   And the other way round: when the eager reader fails, the lazy one cannot be constructed either, or ends with
   an error. *)
Theorem lazy_tells_eager e pw rbufs :
  (forall k, decode_solid_lazy e pw rbufs = Err k -> decode_solid e pw rbufs = Err k) /\
  (forall es, decode_solid_lazy e pw rbufs = Ok (es, FinOk) -> decode_solid e pw rbufs = Ok (es, FinOk)) /\
  (forall es k, decode_solid_lazy e pw rbufs = Ok (es, FinErr k) ->
     decode_solid e pw rbufs = Ok (es, FinErr k) \/ exists k', decode_solid e pw rbufs = Err k') /\
  (forall k, decode_solid e pw rbufs = Err k ->
     decode_solid_lazy e pw rbufs = Err k \/ exists es k', decode_solid_lazy e pw rbufs = Ok (es, FinErr k')).
Proof.
  unfold Pipeline.decode_solid_lazy. destruct (s_comp (so_hdr e)) eqn:Ec.
  2-4: (split; [intros k H; exact H|split; [intros es H; exact H|split; [intros es k H; left; exact H|intros k H; left; exact H]]]).
  unfold Pipeline.decode_solid. rewrite Ec, decode_stream_of_partial.
  destruct (decode_stream_partial _ _ _ _ _ _) as [[got sf]| |] eqn:Ep; cbn [bind fst snd].
  2:{ split; [intros k H; exact H|split; [intros; discriminate|split; [intros; discriminate|intros k H; left; exact H]]]. }
  2:{ split; [intros k H; discriminate|split; [intros; discriminate|split; intros; discriminate]]. }
  pose proof (partial_np _ _ _ _ _ _ _ _ Ep) as Hnp.
  destruct sf as [|k'|]; cbn [res_of_fin bind]; [| |contradiction].
  - rewrite inner_entries_lazy_ok.
    split; [intros k H; discriminate|split; [intros es H; exact H|split; [intros es k H; left; exact H|intros k H; discriminate]]].
  - pose proof (inner_entries_lazy_err_not_ok k' (S (length got)) got) as Hne.
    pose proof (inner_entries_lazy_np (FinErr k') ltac:(discriminate) (S (length got)) got (Nat.lt_succ_diag_r _)) as Hnp2.
    destruct (inner_entries_lazy (FinErr k') (S (length got)) got) as [es0 f]. cbn [snd] in *.
    split; [intros k H; discriminate|]. split; [intros es H; injection H as _ H; congruence|].
    split; [intros es k H; right; exists k'; reflexivity|].
    intros k H. right. destruct f as [|kf|]; [congruence| |congruence]. exists es0, kf. reflexivity.
Qed.

(* never Panic, and the iterator terminates (its fuel is never exhausted) *)
Theorem decode_solid_lazy_no_panic :
  (forall s pw, verify s pw <> Panic) -> (forall c bs, decompress c bs <> Panic) ->
  forall e pw rbufs,
  decode_solid_lazy e pw rbufs <> Panic /\
  forall es f, decode_solid_lazy e pw rbufs = Ok (es, f) -> f <> FinPanic.
Proof.
  intros Hv Hd e pw rbufs. unfold Pipeline.decode_solid_lazy. destruct (s_comp (so_hdr e)) eqn:Ec.
  2-4: exact (decode_solid_no_panic E D decompress verify Hv Hd e pw rbufs).
  pose proof (decode_stream_no_panic E D decompress verify Hv Hd CNo (s_enc (so_hdr e)) (s_mode (so_hdr e)) (so_phsf e) pw (so_data e) rbufs) as Hs.
  rewrite decode_stream_of_partial in Hs.
  destruct (decode_stream_partial _ _ _ _ _ _) as [[got sf]| |] eqn:Ep; cbn [bind fst snd] in *;
    [|split; [discriminate|intros; discriminate]|contradiction].
  pose proof (partial_np _ _ _ _ _ _ _ _ Ep) as Hnp.
  pose proof (inner_entries_lazy_np sf Hnp (S (length got)) got (Nat.lt_succ_diag_r _)) as Hl.
  revert Hl. generalize (inner_entries_lazy sf (S (length got)) got). intros r Hl.
  split; [discriminate|]. intros es f H. injection H as ->. exact Hl.
Qed.

(* C03 for the lazy reader: two solid entries that differ only in how their data is cut into SDAT chunks, read with
   the same draining buffer sizes, give the same inner entries and the same ending *)
Theorem decode_solid_lazy_cut_indep s1 s2 pw rbufs :
  so_hdr s1 = so_hdr s2 -> so_phsf s1 = so_phsf s2 -> concat (so_data s1) = concat (so_data s2) ->
  drains (so_data s1) rbufs -> drains (so_data s2) rbufs ->
  decode_solid_lazy s1 pw rbufs = decode_solid_lazy s2 pw rbufs.
Proof.
  intros Hh Hp Hc H1 H2. unfold Pipeline.decode_solid_lazy, Pipeline.decode_solid. rewrite Hh, Hp.
  destruct (s_comp (so_hdr s2));
    [rewrite (decode_stream_partial_cut_indep E D verify _ _ _ _ _ _ _ Hc H1 H2); reflexivity| | |];
    rewrite (decode_stream_cut_indep E D decompress verify _ _ _ _ _ _ _ _ _ Hc H1 H2); reflexivity.
Qed.

End Pipe.

(* ================================================================================================= *)
(* 6. the entries of a prefix are a prefix of the entries                                              *)
(* ================================================================================================= *)
Lemma take_app n bs more a r : take n bs = Ok (a, r) -> take n (bs ++ more) = Ok (a, r ++ more).
Proof.
  unfold take. destruct (Nat.leb_spec n (length bs)) as [Hle|]; [|discriminate]. intros H. injection H as <- <-.
  rewrite app_length. destruct (Nat.leb_spec n (length bs + length more)) as [_|?]; [|lia].
  rewrite firstn_app, skipn_app. replace (n - length bs)%nat with 0%nat by lia. cbn [firstn skipn]. rewrite app_nil_r. reflexivity.
Qed.
Lemma takeN_app n bs more a r : takeN n bs = Ok (a, r) -> takeN n (bs ++ more) = Ok (a, r ++ more).
Proof.
  unfold takeN. destruct (N.leb_spec n (len bs)) as [Hle|]; [|discriminate]. intros H. injection H as <- <-.
  rewrite len_app. destruct (N.leb_spec n (len bs + len more)) as [_|?]; [|lia].
  rewrite firstn_app, skipn_app. replace (N.to_nat n - length bs)%nat with 0%nat by (unfold len in *; lia).
  cbn [firstn skipn]. rewrite app_nil_r. reflexivity.
Qed.
Lemma read_chunk_stream_app bs more c r :
  read_chunk_stream bs = Ok (c, r) -> read_chunk_stream (bs ++ more) = Ok (c, r ++ more).
Proof.
  unfold read_chunk_stream.
  destruct (take 4 bs) as [[l r1]| |] eqn:E1; cbn [bind]; try discriminate. rewrite (take_app _ _ more _ _ E1). cbn [bind].
  destruct (take 4 r1) as [[ty r2]| |] eqn:E2; cbn [bind]; try discriminate. rewrite (take_app _ _ more _ _ E2). cbn [bind].
  destruct (takeN (of_be l) r2) as [[d r3]| |] eqn:E3; cbn [bind]; try discriminate. rewrite (takeN_app _ _ more _ _ E3). cbn [bind].
  destruct (take 4 r3) as [[cr r4]| |] eqn:E4; cbn [bind]; try discriminate. rewrite (take_app _ _ more _ _ E4). cbn [bind].
  destruct (of_be cr =? crc32 (ty ++ d)); [|discriminate]. intros H. injection H as <- <-. reflexivity.
Qed.

(* an entry the lazy iterator has read from the delivered bytes is the entry the iterator reads from any stream that
   begins with these bytes *)
Lemma inner_item_lazy_app sf more : forall f1 bs acc cs r f2,
  inner_item_lazy sf f1 bs acc = Ok (Some (cs, r)) -> (length (bs ++ more) < f2)%nat ->
  inner_item f2 (bs ++ more) acc = Ok (Some (cs, r ++ more)).
Proof.
  induction f1 as [|f1 IH]; intros bs acc cs r f2 H Hf; cbn [inner_item_lazy] in H; [discriminate|].
  destruct f2 as [|f2]; [lia|]. cbn [inner_item].
  destruct (read_chunk_stream bs) as [[c r0]|k|] eqn:E; [| |discriminate].
  - rewrite (read_chunk_stream_app _ more _ _ E). destruct (ty_is c FEND).
    + injection H as <- <-. reflexivity.
    + apply (IH _ _ _ _ f2 H). apply read_chunk_shorter in E. rewrite app_length in *. lia.
  - destruct k; try discriminate. destruct sf; try discriminate. destruct acc; [destruct bs|]; discriminate.
Qed.

Theorem lazy_entries_prefix sf more : forall f1 bs f2, (length (bs ++ more) < f2)%nat ->
  exists tail, fst (inner_entries_loop f2 (bs ++ more)) = fst (inner_entries_lazy sf f1 bs) ++ tail.
Proof.
  induction f1 as [|f1 IH]; intros bs f2 Hf; cbn [inner_entries_lazy]; [eexists; reflexivity|].
  destruct (inner_item_lazy sf (S (length bs)) bs []) as [[[cs r]|]| |] eqn:Ei; try (eexists; reflexivity).
  destruct f2 as [|f2]; [lia|]. cbn [inner_entries_loop].
  rewrite (inner_item_lazy_app sf more _ _ _ _ _ (S (length (bs ++ more))) Ei (Nat.lt_succ_diag_r _)).
  destruct (parse_normal cs) as [e| |]; try (eexists; reflexivity).
  assert (Hr : (length r < length bs)%nat).
  { pose proof (inner_item_lazy_app sf [] _ _ _ _ _ (S (length (bs ++ []))) Ei (Nat.lt_succ_diag_r _)) as Hx.
    rewrite !app_nil_r in Hx. pose proof (inner_item_spec (S (length bs)) bs [] (Nat.lt_succ_diag_r _)) as Hs.
    rewrite Hx in Hs. exact Hs. }
  destruct (IH r f2) as (tail & Ht); [rewrite app_length in *; lia|].
  destruct (inner_entries_loop f2 (r ++ more)) as [es2 k2]. destruct (inner_entries_lazy sf f1 r) as [es1 k1].
  cbn [fst] in *. exists tail. rewrite Ht. reflexivity.
Qed.

(* ================================================================================================= *)
(* 4b. the partial view of the whole decrypting pipeline as a function of the concatenated data        *)
(* ================================================================================================= *)
Section PipeLen.
Variables E D : encryption -> bytes -> bytes -> bytes.
Variable verify : bytes -> bytes -> res bytes.
Hypothesis D_len : forall a k c, len16 c -> len16 (D a k c).

Notation decode_stream_partial := (decode_stream_partial E D verify).

(* decrypt_reader over the bytes s of the data chunks, as an abstract reader: what it can deliver, how it ends *)
Definition partial_spec (enc : encryption) (mode : cipher_mode) (phsf : option bytes) (pw : bytes) (s : bytes) : res areader :=
  match enc with
  | ENo => Ok (s, FinOk)
  | a =>
    match phsf with
    | None => Err InvalidData
    | Some p =>
      do key <- verify p pw;
      let iv := firstn 16 s in
      if negb (len iv =? 16) then Err UnexpectedEof else
      match mode with
      | MCbc => let c := skipn 16 s in
                let blk := firstn 16 c in
                if negb (len blk =? 16) then Err UnexpectedEof
                else if negb (key_iv_ok key iv) then Err InvalidData
                else Ok (avail_blocks (D a) key iv blk (chunks 16 (skipn 16 c)))
      | MCtr => if key_iv_ok key iv then Ok (ctr_xor (E a) key (of_be iv) 0 (skipn 16 s), FinOk) else Err InvalidData
      end
    end
  end.

Lemma partial_any a mode phsf pw data rbufs : drains data rbufs ->
  match phsf with
  | None => Err InvalidData
  | Some s =>
    do key <- verify s pw;
    let (src, iv) := read_block data in
    if negb (N.eqb (len iv) 16) then Err UnexpectedEof else
    match mode with
    | MCbc => do st <- cbcr_new key iv src;
              let (outs, f) := cbcr_reads_partial (D a) st rbufs in Ok (concat outs, f)
    | MCtr => do st <- ctrr_new key iv src; Ok (concat (ctrr_reads (E a) st rbufs), FinOk)
    end
  end =
  (do ar <- match phsf with
            | None => Err InvalidData
            | Some p =>
              do key <- verify p pw;
              let iv := firstn 16 (concat data) in
              if negb (len iv =? 16) then Err UnexpectedEof else
              match mode with
              | MCbc => let c := skipn 16 (concat data) in
                        let blk := firstn 16 c in
                        if negb (len blk =? 16) then Err UnexpectedEof
                        else if negb (key_iv_ok key iv) then Err InvalidData
                        else Ok (avail_blocks (D a) key iv blk (chunks 16 (skipn 16 c)))
              | MCtr => if key_iv_ok key iv then Ok (ctr_xor (E a) key (of_be iv) 0 (skipn 16 (concat data)), FinOk) else Err InvalidData
              end
            end;
   Ok (concat (fst (areads ar rbufs)), snd (areads ar rbufs))).
Proof.
  intros (Hpos & Hlen). destruct phsf as [p|]; [|reflexivity].
  destruct (verify p pw) as [key| |]; cbn [bind]; try reflexivity.
  destruct (read_block data) as [src iv] eqn:Erb. destruct (read_block_spec _ _ _ Erb) as [Hiv Hsrc].
  rewrite <- Hiv, <- Hsrc. destruct (N.eqb_spec (len iv) 16) as [E16|E16]; cbn [negb]; [|reflexivity].
  assert (Hl : len (concat src) + 16 <= len (concat data)).
  { rewrite Hsrc. rewrite Hiv in E16. unfold len in *. rewrite firstn_length in E16. rewrite skipn_length. lia. }
  destruct mode.
  - destruct (cbcr_new key iv src) as [st| |] eqn:En.
    + destruct (cbcr_new_avail (D a) _ _ _ _ En) as (Hi & _ & _ & Ha).
      unfold cbcr_new in En. destruct (read_block src) as [s1 blk] eqn:Erb2. destruct (read_block_spec _ _ _ Erb2) as [Hb _].
      rewrite <- Hb in *. destruct (negb (len blk =? 16)); [discriminate|]. destruct (negb (key_iv_ok key iv)); [discriminate|].
      cbn [bind]. rewrite (cbcr_reads_partial_avail (D a) (D_len a) rbufs st Hi), Ha.
      destruct (areads _ rbufs) as [outs f]. reflexivity.
    + unfold cbcr_new in En. destruct (read_block src) as [s1 blk] eqn:Erb2. destruct (read_block_spec _ _ _ Erb2) as [Hb _].
      rewrite <- Hb. destruct (negb (len blk =? 16)); [injection En as <-; reflexivity|].
      destruct (negb (key_iv_ok key iv)); [injection En as <-; reflexivity|discriminate].
    + exfalso. exact (cbcr_new_np key iv src En).
  - unfold ctrr_new. destruct (key_iv_ok key iv); cbn [bind]; [|reflexivity].
    rewrite ctrr_reads_eq.
    destruct (ctrr_seq_spec (E a) rbufs {| cr_key := key; cr_iv := of_be iv; cr_pos := 0; cr_src := src |}) as [A _].
    cbn [cr_key cr_iv cr_pos cr_src] in A. rewrite A.
    rewrite (flat_reads_complete rbufs src Hpos) by (apply flat_reads_reach_end; [exact Hpos|lia]).
    destruct (areads_clean rbufs (ctr_xor (E a) key (of_be iv) 0 (concat src)) Hpos) as [B C]; [rewrite ctr_xor_len; lia|].
    f_equal. f_equal; [symmetry; exact B|symmetry; exact C].
Qed.

(* the partial view over ANY data chunks, read with ANY draining buffer sequence: the abstract reader over
   partial_spec of their concatenation, read with the same buffers *)
Theorem decode_stream_partial_spec enc mode phsf pw data rbufs : drains data rbufs ->
  decode_stream_partial enc mode phsf pw data rbufs =
  (do ar <- partial_spec enc mode phsf pw (concat data); Ok (concat (fst (areads ar rbufs)), snd (areads ar rbufs))).
Proof.
  intros Hd. unfold Pipeline.decode_stream_partial, partial_spec. destruct enc.
  - cbn [bind]. destruct Hd as (Hpos & Hlen).
    rewrite (flat_reads_complete rbufs data Hpos) by (apply flat_reads_reach_end; assumption).
    destruct (areads_clean rbufs (concat data) Hpos Hlen) as [B C]. f_equal. f_equal; [symmetry; exact B|symmetry; exact C].
  - exact (partial_any EAes mode phsf pw data rbufs Hd).
  - exact (partial_any ECamellia mode phsf pw data rbufs Hd).
Qed.

(* whatever the buffer sizes, what has been delivered is a prefix of what the reader has *)
Theorem decode_stream_partial_prefix enc mode phsf pw data rbufs got f : drains data rbufs ->
  decode_stream_partial enc mode phsf pw data rbufs = Ok (got, f) ->
  exists P f' rest, partial_spec enc mode phsf pw (concat data) = Ok (P, f') /\ P = got ++ rest.
Proof.
  intros Hd. rewrite (decode_stream_partial_spec _ _ _ _ _ _ Hd).
  destruct (partial_spec enc mode phsf pw (concat data)) as [[P f']| |]; cbn [bind]; try discriminate.
  intros H. injection H as <- _. destruct (areads_prefix rbufs (P, f')) as (rest & Hr). exists P, f', rest. split; [reflexivity|exact Hr].
Qed.

(* 16-byte reads deliver all of it, and end as the reader ends *)
Lemma partial_spec_shape enc mode phsf pw s P f : partial_spec enc mode phsf pw s = Ok (P, f) ->
  f <> FinPanic /\ (f <> FinOk -> len P mod 16 = 0) /\ len P <= len s.
Proof.
  unfold partial_spec. destruct enc; [intros H; injection H as <- <-; split; [discriminate|split; [congruence|lia]]| |];
    (destruct phsf as [p|]; [|discriminate]; destruct (verify p pw) as [key| |]; cbn [bind]; try discriminate;
     destruct (N.eqb_spec (len (firstn 16 s)) 16) as [Ei|Ei]; cbn [negb]; [|discriminate];
     assert (Hs16 : 16 <= len s) by (unfold len in *; rewrite firstn_length in Ei; lia);
     assert (Hsk : len (skipn 16 s) = len s - 16) by (unfold len; rewrite skipn_length; lia);
     destruct mode;
     [ cbv zeta; destruct (N.eqb_spec (len (firstn 16 (skipn 16 s))) 16) as [Eb|Eb]; cbn [negb]; [|discriminate];
       destruct (key_iv_ok key (firstn 16 s)) eqn:Hok; cbn [negb]; [|discriminate];
       assert (Hiv : len16 (firstn 16 s)) by (apply len_len16; exact Ei);
       assert (Hbk : len16 (firstn 16 (skipn 16 s))) by (apply len_len16; exact Eb);
       intros H;
       match type of H with Ok ?x = _ =>
         match x with avail_blocks ?d ?k ?iv ?blk ?rest =>
           pose proof (avail_blocks_np d k rest iv blk) as Hnp;
           pose proof (avail_blocks_whole d (D_len _) k rest iv blk Hiv Hbk) as Hwh;
           pose proof (avail_blocks_len d (D_len _) k rest iv blk Hiv Hbk) as Hle
         end end;
       rewrite (concat_chunks 16 (skipn 16 (skipn 16 s)) ltac:(lia)) in Hle;
       match type of H with Ok ?x = Ok ?y => assert (Hxy : x = y) by congruence end; rewrite Hxy in *; cbn [fst snd] in *;
       assert (Hsk2 : len (skipn 16 (skipn 16 s)) = len (skipn 16 s) - 16) by (unfold len; rewrite !skipn_length; lia);
       assert (16 <= len (skipn 16 s)) by (unfold len in *; rewrite firstn_length in Eb; lia);
       split; [exact Hnp|split; [exact Hwh|lia]]
     | destruct (key_iv_ok key (firstn 16 s)); [|discriminate];
       match goal with |- Ok (?x, FinOk) = _ -> _ =>
         assert (Hx : len x <= len s) by (rewrite ctr_xor_len; lia); generalize dependent x; intros cx Hx H end;
       injection H as <- <-; split; [discriminate|split; [congruence|exact Hx]] ]).
Qed.

Theorem reads16_deliver_all enc mode phsf pw data k : len (concat data) < N.of_nat k ->
  decode_stream_partial enc mode phsf pw data (repeat 16 k) = partial_spec enc mode phsf pw (concat data).
Proof.
  intros Hk.
  assert (Hd : drains data (repeat 16 k)).
  { split; [apply repeat_pos'; lia|]. rewrite len_repeat. exact Hk. }
  rewrite (decode_stream_partial_spec _ _ _ _ _ _ Hd).
  destruct (partial_spec enc mode phsf pw (concat data)) as [[P f]| |] eqn:Es; cbn [bind]; try reflexivity.
  destruct (partial_spec_shape _ _ _ _ _ _ _ Es) as (Hnp & Hwh & Hle).
  destruct (areads16 k P f Hnp Hwh ltac:(lia)) as [A B]. f_equal. f_equal; [exact A|exact B].
Qed.
End PipeLen.

(* ================================================================================================= *)
(* 5. EntryIterator::next as the code makes its reads, over any reader that refines an abstract one    *)
(* ================================================================================================= *)
(* what a read_exact / a probe gets when it needs a byte behind the end *)
Definition ending {A} (f : fin) : res A :=
  match f with FinOk => Err UnexpectedEof | FinErr e => Err e | FinPanic => Panic end.

(* take / takeN in terms of ftake / fdrop *)
Lemma take_ftake n bs : take n bs =
  if N.of_nat n <=? len bs then Ok (ftake (N.of_nat n) bs, fdrop (N.of_nat n) bs) else Err UnexpectedEof.
Proof.
  unfold take. rewrite ftake_firstn, fdrop_skipn, Nat2N.id.
  destruct (Nat.leb_spec n (length bs)); destruct (N.leb_spec (N.of_nat n) (len bs)); unfold len in *; try lia; reflexivity.
Qed.
Lemma takeN_ftake n bs : takeN n bs = if n <=? len bs then Ok (ftake n bs, fdrop n bs) else Err UnexpectedEof.
Proof. unfold takeN. rewrite ftake_firstn, fdrop_skipn. reflexivity. Qed.

(* the iterator needs no more fuel than bytes *)
Lemma inner_item_lazy_fuel sf : forall f1 f2 bs acc, (length bs < f1)%nat -> (length bs < f2)%nat ->
  inner_item_lazy sf f1 bs acc = inner_item_lazy sf f2 bs acc.
Proof.
  induction f1 as [|f1 IH]; intros f2 bs acc H1 H2; [lia|]. destruct f2 as [|f2]; [lia|]. cbn [inner_item_lazy].
  destruct (read_chunk_stream bs) as [[c r]|k|] eqn:E; try reflexivity.
  destruct (ty_is c FEND); [reflexivity|]. apply read_chunk_shorter in E. apply IH; lia.
Qed.
Lemma inner_entries_lazy_fuel sf : sf <> FinPanic -> forall f1 f2 bs, (length bs < f1)%nat -> (length bs < f2)%nat ->
  inner_entries_lazy sf f1 bs = inner_entries_lazy sf f2 bs.
Proof.
  intros Hsf. induction f1 as [|f1 IH]; intros f2 bs H1 H2; [lia|]. destruct f2 as [|f2]; [lia|]. cbn [inner_entries_lazy].
  pose proof (inner_item_lazy_spec sf Hsf (S (length bs)) bs [] (Nat.lt_succ_diag_r _)) as Hs.
  destruct (inner_item_lazy sf (S (length bs)) bs []) as [[[cs r]|]| |]; try reflexivity.
  destruct (parse_normal cs); try reflexivity. rewrite (IH f2 r) by lia. reflexivity.
Qed.

Section Iter.
Variable R : Type.
Variable rd : R -> N -> res (R * bytes).                      (* Read::read with a buffer of n bytes *)

(* Read::read_exact (the default implementation): read until the buffer is full; a read that returns nothing is
   UnexpectedEof.  `fuel` bounds the number of read calls (the loop has no bound of its own: every turn delivers
   at least one byte); rd_exact_spec: two calls always suffice for the readers below. *)
Fixpoint rd_exact (fuel : nat) (r : R) (n : N) : res (R * bytes) :=
  if n =? 0 then Ok (r, []) else
  match fuel with
  | O => Panic
  | S fu =>
    do (r', out) <- rd r n;
    if len out =? 0 then Err UnexpectedEof
    else if n <=? len out then Ok (r', out)
    else do (r'', more) <- rd_exact fu r' (n - len out); Ok (r'', out ++ more)
  end.

(* (&first[..]).chain(&mut reader): what is left of the probe byte, then the reader *)
Definition ch_exact (fuel : nat) (s : bytes * R) (n : N) : res ((bytes * R) * bytes) :=
  let (pre, r) := s in
  if n <=? len pre then Ok ((fdrop n pre, r), ftake n pre)
  else do (r', out) <- rd_exact fuel r (n - len pre); Ok (([], r'), pre ++ out).

(* ChunkReader::read_chunk: four read_exact calls, then the CRC comparison *)
Definition ch_chunk (fuel : nat) (s : bytes * R) : res ((bytes * R) * chunk) :=
  do (s1, l) <- ch_exact fuel s 4;
  do (s2, ty) <- ch_exact fuel s1 4;
  do (s3, d) <- ch_exact fuel s2 (of_be l);
  do (s4, c) <- ch_exact fuel s3 4;
  if of_be c =? crc32 (ty ++ d) then Ok (s4, mk ty d) else Err InvalidData.

(* the loop of next(): chunks up to FEND; every read_chunk error is returned *)
Fixpoint it_item (fuel cf : nat) (s : bytes * R) (acc : list chunk) : res ((bytes * R) * list chunk) :=
  match cf with
  | O => Panic
  | S cf' => do (s', c) <- ch_chunk fuel s;
             if ty_is c FEND then Ok (s', acc ++ [c]) else it_item fuel cf' s' (acc ++ [c])
  end.

(* EntryIterator::next: the one-byte probe (Ok(0) -> None, an error is yielded), then the chunks *)
Definition it_next (fuel cf : nat) (r : R) : res (option (R * list chunk)) :=
  do (r', first) <- rd r 1;
  if len first =? 0 then Ok None
  else do (s, cs) <- it_item fuel cf (first, r') []; Ok (Some (snd s, cs)).

(* the iteration up to its end or the first error it yields *)
Fixpoint it_all (fuel cf ef : nat) (r : R) : list normal_entry * fin :=
  match ef with
  | O => ([], FinPanic)
  | S ef' =>
    match it_next fuel cf r with
    | Ok None => ([], FinOk)
    | Ok (Some (r', cs)) =>
      match parse_normal cs with
      | Ok e => let (es, k) := it_all fuel cf ef' r' in (e :: es, k)
      | Err k => ([], FinErr k)
      | Panic => ([], FinPanic)
      end
    | Err k => ([], FinErr k)
    | Panic => ([], FinPanic)
    end
  end.

(* ---- the reader refines an abstract byte-stream reader ----------------------------------------------------- *)
Variable abs : R -> areader.
Variable inv : R -> Prop.
Hypothesis rd_refines : forall r n, inv r ->
  match aread (abs r) n with
  | Ok (a', out) => exists r', rd r n = Ok (r', out) /\ abs r' = a' /\ inv r'
  | Err e => rd r n = Err e
  | Panic => False
  end.

Lemma rd_exact_spec fuel r n P f : inv r -> abs r = (P, f) -> (2 <= fuel)%nat ->
  if n <=? len P then exists r', rd_exact fuel r n = Ok (r', ftake n P) /\ abs r' = (fdrop n P, f) /\ inv r'
  else rd_exact fuel r n = ending f.
Proof.
  intros Hi Ha Hf. destruct fuel as [|[|fu]]; try lia. cbn [rd_exact].
  destruct (N.eqb_spec n 0) as [->|Hn].
  - destruct (N.leb_spec 0 (len P)) as [_|?]; [|lia]. exists r. rewrite ftake_0, fdrop_0. split; [reflexivity|split; assumption].
  - pose proof (rd_refines r n Hi) as Hr. rewrite Ha in Hr. unfold aread in Hr.
    destruct (N.leb_spec n (len P)) as [Hle|Hgt].
    + destruct Hr as (r' & Hrd & Ha' & Hi'). rewrite Hrd. cbn [bind]. rewrite len_ftake.
      destruct (N.eqb_spec (N.min n (len P)) 0) as [?|_]; [lia|]. destruct (N.leb_spec n (N.min n (len P))) as [_|?]; [|lia].
      exists r'. split; [reflexivity|split; assumption].
    + destruct f as [|e|]; [| |contradiction].
      * destruct Hr as (r' & Hrd & Ha' & Hi'). rewrite Hrd. cbn [bind ending].
        destruct (N.eqb_spec (len P) 0) as [|Hp]; [reflexivity|]. destruct (N.leb_spec n (len P)) as [?|_]; [lia|].
        destruct (N.eqb_spec (n - len P) 0) as [?|_]; [lia|].
        pose proof (rd_refines r' (n - len P) Hi') as Hr2. rewrite Ha' in Hr2. unfold aread in Hr2.
        change (len (@nil byte)) with 0 in Hr2. destruct (N.leb_spec (n - len P) 0) as [?|_]; [lia|].
        destruct Hr2 as (r2 & Hrd2 & _ & _). rewrite Hrd2. reflexivity.
      * rewrite Hr. reflexivity.
Qed.

(* a chained state seen as a byte stream *)
Definition view (s : bytes * R) : bytes := fst s ++ fst (abs (snd s)).
Definition endf (s : bytes * R) : fin := snd (abs (snd s)).

Lemma ch_exact_spec fuel s n : inv (snd s) -> (2 <= fuel)%nat ->
  if n <=? len (view s)
  then exists s', ch_exact fuel s n = Ok (s', ftake n (view s)) /\ view s' = fdrop n (view s) /\ endf s' = endf s /\
                  inv (snd s') /\ len (fst s') = len (fst s) - n
  else ch_exact fuel s n = ending (endf s).
Proof.
  destruct s as [pre r]. unfold view, endf. cbn [fst snd]. intros Hi Hf. destruct (abs r) as [P f] eqn:Ha. cbn [fst snd].
  unfold ch_exact. rewrite len_app. destruct (N.leb_spec n (len pre)) as [Hle|Hgt].
  - destruct (N.leb_spec n (len pre + len P)) as [_|?]; [|lia].
    exists (fdrop n pre, r). cbn [fst snd]. rewrite Ha. cbn [fst snd].
    rewrite ftake_app_le, fdrop_app_le by lia. repeat split; try assumption. rewrite len_fdrop. reflexivity.
  - pose proof (rd_exact_spec fuel r (n - len pre) P f Hi Ha Hf) as Hr.
    destruct (N.leb_spec (n - len pre) (len P)) as [H1|H1]; destruct (N.leb_spec n (len pre + len P)) as [H2|H2]; try lia.
    + destruct Hr as (r' & Hrd & Ha' & Hi'). rewrite Hrd. cbn [bind]. exists ([], r'). cbn [fst snd]. rewrite Ha'. cbn [fst snd app].
      rewrite ftake_app_ge, fdrop_app_ge by lia. repeat split; try assumption. change (len (@nil byte)) with 0. lia.
    + rewrite Hr. destruct f; reflexivity.
Qed.

Lemma ch_chunk_spec fuel s : inv (snd s) -> (2 <= fuel)%nat -> len (fst s) < 4 ->
  match read_chunk_stream (view s) with
  | Ok (c, rest) => exists s', ch_chunk fuel s = Ok (s', c) /\ view s' = rest /\ endf s' = endf s /\ inv (snd s') /\ fst s' = []
  | Err UnexpectedEof => ch_chunk fuel s = ending (endf s)
  | Err k => ch_chunk fuel s = Err k
  | Panic => True
  end.
Proof.
  intros Hi Hf Hpre. unfold read_chunk_stream, ch_chunk.
  assert (Hend : forall A B (g : A -> res B), bind (ending (endf s)) g = ending (endf s)) by (intros; destruct (endf s); reflexivity).
  rewrite take_ftake. change (N.of_nat 4) with 4.
  pose proof (ch_exact_spec fuel s 4 Hi Hf) as H1. destruct (N.leb_spec 4 (len (view s))) as [_|_]; [|rewrite H1; apply Hend].
  destruct H1 as (s1 & -> & V1 & F1 & I1 & L1). cbn [bind]. rewrite <- V1.
  rewrite take_ftake. change (N.of_nat 4) with 4.
  pose proof (ch_exact_spec fuel s1 4 I1 Hf) as H2. destruct (N.leb_spec 4 (len (view s1))) as [_|_]; [|rewrite H2, F1; apply Hend].
  destruct H2 as (s2 & -> & V2 & F2 & I2 & L2). cbn [bind]. rewrite <- V2.
  rewrite takeN_ftake.
  pose proof (ch_exact_spec fuel s2 (of_be (ftake 4 (view s))) I2 Hf) as H3.
  destruct (N.leb_spec (of_be (ftake 4 (view s))) (len (view s2))) as [_|_]; [|rewrite H3, F2, F1; apply Hend].
  destruct H3 as (s3 & -> & V3 & F3 & I3 & L3). cbn [bind]. rewrite <- V3.
  rewrite take_ftake. change (N.of_nat 4) with 4.
  pose proof (ch_exact_spec fuel s3 4 I3 Hf) as H4. destruct (N.leb_spec 4 (len (view s3))) as [_|_]; [|rewrite H4, F3, F2, F1; apply Hend].
  destruct H4 as (s4 & -> & V4 & F4 & I4 & L4). cbn [bind].
  destruct (of_be (ftake 4 (view s3)) =? crc32 (ftake 4 (view s1) ++ ftake (of_be (ftake 4 (view s))) (view s2))); [|reflexivity].
  exists s4. split; [reflexivity|]. split; [exact V4|]. split; [congruence|]. split; [exact I4|].
  assert (Z : len (fst s4) = 0).
  { rewrite L4, L3, L2, L1. clear - Hpre. unfold bytes in *. lia. }
  destruct (fst s4); [reflexivity|rewrite len_cons in Z; lia].
Qed.

Lemma it_item_spec fuel f : (2 <= fuel)%nat -> forall cf s acc, inv (snd s) -> len (fst s) < 4 -> endf s = f ->
  (acc <> [] \/ view s <> []) ->
  match inner_item_lazy f cf (view s) acc with
  | Ok (Some (cs, rest)) => exists s', it_item fuel cf s acc = Ok (s', cs) /\ view s' = rest /\ endf s' = f /\ inv (snd s') /\ fst s' = []
  | Ok None => False
  | Err k => it_item fuel cf s acc = Err k
  | Panic => True
  end.
Proof.
  intros Hf. induction cf as [|cf IH]; intros s acc Hi Hpre He Hne; cbn [inner_item_lazy it_item]; [exact I|].
  pose proof (ch_chunk_spec fuel s Hi Hf Hpre) as Hc.
  destruct (read_chunk_stream (view s)) as [[c rest]|k|]; [| |exact I].
  - destruct Hc as (s' & -> & V' & F' & I' & P'). cbn [bind]. destruct (ty_is c FEND).
    + exists s'. split; [reflexivity|]. split; [exact V'|]. split; [congruence|]. split; assumption.
    + specialize (IH s' (acc ++ [c]) I' ltac:(unfold bytes in *; rewrite P'; change (len (@nil byte)) with 0; lia) ltac:(congruence)
                     ltac:(left; destruct acc; discriminate)).
      rewrite V' in IH. exact IH.
  - destruct k; try (rewrite Hc; reflexivity). rewrite Hc, He. destruct f; cbn [ending bind]; try reflexivity; try exact I.
    destruct acc; [|reflexivity]. destruct (view s); [|reflexivity]. destruct Hne as [Hne|Hne]; congruence.
Qed.

Lemma read_chunk_stream_nil : read_chunk_stream [] = Err UnexpectedEof.
Proof. reflexivity. Qed.

Lemma it_next_spec fuel cf r P f : (2 <= fuel)%nat -> inv r -> abs r = (P, f) ->
  match inner_item_lazy f cf P [] with
  | Ok (Some (cs, rest)) => exists r', it_next fuel cf r = Ok (Some (r', cs)) /\ abs r' = (rest, f) /\ inv r'
  | Ok None => it_next fuel cf r = Ok None
  | Err k => it_next fuel cf r = Err k
  | Panic => True
  end.
Proof.
  intros Hf Hi Ha. unfold it_next. pose proof (rd_refines r 1 Hi) as Hr. rewrite Ha in Hr. unfold aread in Hr.
  destruct (N.leb_spec 1 (len P)) as [Hle|Hgt].
  - destruct Hr as (r' & -> & Ha' & Hi'). cbn [bind]. rewrite len_ftake.
    destruct (N.eqb_spec (N.min 1 (len P)) 0) as [?|_]; [lia|].
    pose proof (it_item_spec fuel f Hf cf (ftake 1 P, r') []) as Hs. unfold view, endf in Hs. cbn [fst snd] in Hs.
    rewrite Ha' in Hs. cbn [fst snd] in Hs. rewrite ftake_fdrop in Hs.
    specialize (Hs Hi' ltac:(rewrite len_ftake; lia) eq_refl).
    assert (HP : P <> []) by (destruct P; [change (len (@nil byte)) with 0 in Hle; lia|discriminate]).
    specialize (Hs (or_intror HP)). unfold bytes in *.
    destruct (inner_item_lazy f cf P []) as [[[cs rest]|]| |]; [| contradiction | rewrite Hs; reflexivity | exact I].
    destruct Hs as ([pre' r2] & -> & V' & F' & I' & P'). unfold view, endf in *. cbn [fst snd bind] in *. subst pre'. cbn [app] in V'.
    exists r2. split; [reflexivity|]. split; [|exact I']. destruct (abs r2) as [P2 f2]. cbn [fst snd] in *. subst P2 f2. reflexivity.
  - assert (P = []) by (destruct P; [reflexivity|rewrite len_cons in Hgt; lia]). subst P.
    destruct cf as [|cf]; [exact I|]. cbn [inner_item_lazy]. rewrite read_chunk_stream_nil.
    destruct f as [|e|]; [| |exact I].
    + destruct Hr as (r' & -> & _ & _). reflexivity.
    + rewrite Hr. reflexivity.
Qed.

(* the EntryIterator over the reader, read call by read call, is the lazy iterator over what the reader has *)
Theorem it_all_spec fuel cf : (2 <= fuel)%nat -> forall ef r P f, inv r -> abs r = (P, f) -> f <> FinPanic ->
  (length P < cf)%nat -> it_all fuel cf ef r = inner_entries_lazy f ef P.
Proof.
  intros Hf. induction ef as [|ef IH]; intros r P f Hi Ha Hnp Hc; cbn [it_all inner_entries_lazy]; [reflexivity|].
  pose proof (it_next_spec fuel cf r P f Hf Hi Ha) as Hn.
  rewrite (inner_item_lazy_fuel f cf (S (length P)) P []) in Hn by lia.
  pose proof (inner_item_lazy_spec f Hnp (S (length P)) P [] (Nat.lt_succ_diag_r _)) as Hs.
  destruct (inner_item_lazy f (S (length P)) P []) as [[[cs rest]|]| |]; [| | |contradiction]; try (rewrite Hn; reflexivity).
  destruct Hn as (r' & -> & Ha' & Hi'). destruct (parse_normal cs); try reflexivity.
  rewrite (IH r' rest f Hi' Ha' Hnp) by lia. reflexivity.
Qed.
End Iter.

(* ---- the decrypting reader is such a reader: SolidEntry::entries as the code runs it ------------------------- *)
Section Code.
Variables E D : encryption -> bytes -> bytes -> bytes.
Variable decompress : compression -> bytes -> res bytes.
Variable verify : bytes -> bytes -> res bytes.
Hypothesis D_len : forall a k c, len16 c -> len16 (D a k c).

(* the EntryIterator over the CBC reader in any state that can arise *)
Theorem cbc_iterator_spec a fuel cf ef st P f : (2 <= fuel)%nat -> winv st -> avail (D a) st = (P, f) ->
  (length P < cf)%nat ->
  it_all cbcr (cbcr_read (D a)) fuel cf ef st = inner_entries_lazy f ef P.
Proof.
  intros Hf Hi Ha Hc.
  apply (it_all_spec cbcr (cbcr_read (D a)) (avail (D a)) winv (cbcr_read_avail (D a) (D_len a)) fuel cf Hf ef st P f Hi Ha); [|exact Hc].
  unfold avail in Ha. destruct (r_eof st); [injection Ha as _ <-; discriminate|].
  pose proof (avail_blocks_np (D a) (r_key st) (chunks 16 (concat (r_src st))) (r_prev st) (r_look st)) as Hn.
  destruct (avail_blocks _ _ _ _ _) as [t g]. injection Ha as _ <-. exact Hn.
Qed.

(* SolidEntry::entries(password) on a stored CBC stream: decrypt_reader constructs the reader (PHSF, key, IV, the
   first block as look-ahead), then the EntryIterator makes its reads: a one-byte probe per entry, read_exact of
   4, 4, length and 4 bytes per chunk *)
Definition solid_entries_code (fuel cf ef : nat) (e : solid_entry) (pw : bytes) : res (list normal_entry * fin) :=
  match so_phsf e with
  | None => Err InvalidData
  | Some s =>
    do key <- verify s pw;
    let (src, iv) := read_block (so_data e) in
    if negb (len iv =? 16) then Err UnexpectedEof else
    do st <- cbcr_new key iv src;
    Ok (it_all cbcr (cbcr_read (D (s_enc (so_hdr e)))) fuel cf ef st)
  end.

(* ... is the lazy model read with 16-byte buffers (what PipelineRun.solid_reads uses) *)
Theorem chunk_reader_refines e pw k fuel cf :
  s_comp (so_hdr e) = CNo -> s_enc (so_hdr e) <> ENo -> s_mode (so_hdr e) = MCbc ->
  len (concat (so_data e)) < N.of_nat k -> (2 <= fuel)%nat -> (length (concat (so_data e)) < cf)%nat ->
  solid_entries_code fuel cf (S (length (concat (so_data e)))) e pw =
  decode_solid_lazy E D decompress verify e pw (repeat 16 k).
Proof.
  intros Ec Ee Em Hk Hf Hcf. unfold Pipeline.decode_solid_lazy, solid_entries_code. rewrite Ec.
  rewrite (reads16_deliver_all E D verify D_len _ _ _ _ _ _ Hk). unfold partial_spec. rewrite Em.
  destruct (s_enc (so_hdr e)) eqn:Ea; [congruence| |];
    (destruct (so_phsf e) as [p|]; [|reflexivity]; destruct (verify p pw) as [key| |]; cbn [bind]; try reflexivity;
     destruct (read_block (so_data e)) as [src iv] eqn:Erb; destruct (read_block_spec _ _ _ Erb) as [Hiv Hsrc];
     rewrite <- Hiv; destruct (N.eqb_spec (len iv) 16) as [E16|E16]; cbn [negb]; [|reflexivity];
     cbv zeta; rewrite <- Hsrc;
     destruct (cbcr_new key iv src) as [st| |] eqn:En;
     [ match goal with |- context [avail_blocks ?d _ _ _ _] => destruct (cbcr_new_avail d _ _ _ _ En) as (Hi & _ & _ & Hav) end;
       unfold cbcr_new in En; destruct (read_block src) as [s1 blk] eqn:Erb2; destruct (read_block_spec _ _ _ Erb2) as [Hb _];
       rewrite <- Hb in *; destruct (negb (len blk =? 16)); [discriminate|]; destruct (negb (key_iv_ok key iv)); [discriminate|];
       cbn [bind];
       match goal with |- context [avail_blocks ?d key iv blk ?rest] =>
         pose proof (avail_blocks_len d (D_len _) key rest iv blk) as Hlen;
         destruct (avail_blocks d key iv blk rest) as [P f] eqn:Eab end;
       assert (Hiv16 : len16 iv) by (apply len_len16; exact E16);
       assert (Hlk : len16 blk) by (destruct Hi as [_ Hl]; [injection En as <-; reflexivity|injection En as <-; exact Hl]);
       specialize (Hlen Hiv16 Hlk); cbn [fst] in Hlen; rewrite concat_chunks in Hlen by lia;
       assert (HP : (length P <= length (concat (so_data e)))%nat);
       [ assert (len (concat src) + 16 <= len (concat (so_data e)))
           by (rewrite Hsrc; rewrite Hiv in E16; unfold len in *; rewrite firstn_length in E16; rewrite skipn_length; lia);
         assert (16 <= len (concat src))
           by (apply len16_len in Hlk; rewrite Hb in Hlk; unfold len in *; rewrite firstn_length in Hlk; lia);
         assert (len (skipn 16 (concat src)) = len (concat src) - 16) by (unfold len; rewrite skipn_length; lia);
         unfold len in *; lia |];
       f_equal;
       match type of Hav with avail (D ?a) _ = _ => rewrite (cbc_iterator_spec a fuel cf (S (length (concat (so_data e)))) st P f Hf Hi Hav) by lia end;
       apply inner_entries_lazy_fuel; [|lia|lia];
       match type of Eab with avail_blocks ?d _ _ _ ?rest = _ => pose proof (avail_blocks_np d key rest iv blk) as Hn end;
       rewrite Eab in Hn; exact Hn
     | unfold cbcr_new in En; destruct (read_block src) as [s1 blk] eqn:Erb2; destruct (read_block_spec _ _ _ Erb2) as [Hb _];
       rewrite <- Hb; destruct (negb (len blk =? 16)); [injection En as <-; reflexivity|];
       destruct (negb (key_iv_ok key iv)); [injection En as <-; reflexivity|discriminate]
     | exfalso; exact (cbcr_new_np key iv src En) ]).
Qed.
End Code.

(* ================================================================================================= *)
(* 7. the instance the correspondence runs with (AES-256 / Camellia-256), and examples                  *)
(* ================================================================================================= *)
Lemma cycle_to_16 : forall fuel, cycle_to fuel [] [16] = repeat 16 fuel /\ cycle_to fuel [16] [16] = repeat 16 fuel.
Proof.
  induction fuel as [|f [A B]]; [split; reflexivity|]. cbn [cycle_to repeat]. rewrite A. split; reflexivity.
Qed.
(* the reads PipelineRun.show_solid makes on a stored solid stream *)
Lemma solid_reads_store s : s_comp (so_hdr s) = CNo -> solid_reads s = repeat 16 (S (S (length (concat (so_data s))))).
Proof. intros H. unfold solid_reads, reads_for. rewrite H. apply cycle_to_16. Qed.

Section Real.
Variable decompress : compression -> bytes -> res bytes.
Variable verify : bytes -> bytes -> res bytes.

(* what the model prints for a stored CBC solid entry is what the EntryIterator yields with its own reads *)
Theorem show_solid_is_the_iterator e pw fuel cf :
  s_comp (so_hdr e) = CNo -> s_enc (so_hdr e) <> ENo -> s_mode (so_hdr e) = MCbc ->
  (2 <= fuel)%nat -> (length (concat (so_data e)) < cf)%nat ->
  decode_solid_lazy real_E_of real_D_of decompress verify e pw (solid_reads e) =
  solid_entries_code real_D_of verify fuel cf (S (length (concat (so_data e)))) e pw.
Proof.
  intros Ec Ee Em Hf Hc. rewrite (solid_reads_store e Ec). symmetry.
  apply (chunk_reader_refines real_E_of real_D_of decompress verify real_D_len); try assumption. unfold len. lia.
Qed.

End Real.

(* the model's stored solid stream read with 16-byte buffers gets everything the decrypting reader has *)
Theorem solid_reads_deliver_all (verify : bytes -> bytes -> res bytes) e pw :
  s_comp (so_hdr e) = CNo ->
  decode_stream_partial real_E_of real_D_of verify (s_enc (so_hdr e)) (s_mode (so_hdr e)) (so_phsf e) pw (so_data e) (solid_reads e) =
  partial_spec real_E_of real_D_of verify (s_enc (so_hdr e)) (s_mode (so_hdr e)) (so_phsf e) pw (concat (so_data e)).
Proof.
  intros Ec. rewrite (solid_reads_store e Ec). apply (reads16_deliver_all real_E_of real_D_of verify real_D_len). unfold len. lia.
Qed.

(* ---- examples (toy block cipher): a stored CBC solid entry with two inner entries, its data cut short ------- *)
Definition lx_cfg : config := {| g_comp := CNo; g_level := 0; g_enc := EAes; g_mode := MCbc |}.
Definition lx_spec (nm ct : bytes) : spec :=
  {| sp_kind := KFile; sp_name := nm; sp_content := ct; sp_ctime := None; sp_mtime := None; sp_atime := None;
     sp_perm := None; sp_xattrs := []; sp_extra := [] |}.
(* the first inner entry serialises to 64 bytes: it ends on a cipher-block boundary *)
Definition lx_in1 : normal_entry :=
  build_normal toy_E_of id_compress store_file_cfg rx_ctx (lx_spec (lit "a") (lit "first678")) [lit "first678"].
Definition lx_in2 : normal_entry :=
  build_normal toy_E_of id_compress store_file_cfg rx_ctx (lx_spec (lit "b") (lit "second entry")) [lit "second entry"].
Definition lx_solid : solid_entry := build_solid toy_E_of id_compress lx_cfg rx_ctx [] (solid_writes [lx_in1; lx_in2]).
(* the solid entry with its data (IV and ciphertext) cut to m bytes, in one SDAT chunk *)
Definition lx_cut (m : nat) : solid_entry :=
  {| so_hdr := so_hdr lx_solid; so_phsf := so_phsf lx_solid; so_data := [firstn m (concat (so_data lx_solid))]; so_extra := [] |}.
Definition lx_names (r : res (list normal_entry * fin)) : res (list bytes * fin) :=
  match r with Ok (es, f) => Ok (map (fun e => f_name (n_hdr e)) es, f) | Err k => Err k | Panic => Panic end.
Definition lx_lazy (e : solid_entry) (rbufs : list N) := lx_names (decode_solid_lazy toy_E_of toy_D_of id_decompress toy_verify e rx_pw rbufs).
Definition lx_eager (e : solid_entry) (rbufs : list N) := lx_names (decode_solid toy_E_of toy_D_of id_decompress toy_verify e rx_pw rbufs).

Example lx_shape :
  length (solid_plain_stream [lx_in1]) = 64%nat /\ length (solid_plain_stream [lx_in1; lx_in2]) = 132%nat /\
  length (concat (so_data lx_solid)) = 160%nat /\
  lx_lazy lx_solid (repeat 16 200) = Ok ([lit "a"; lit "b"], FinOk) /\ lx_eager lx_solid (repeat 16 200) = Ok ([lit "a"; lit "b"], FinOk).
Proof. vm_compute. repeat split. Qed.

(* the cut falls exactly between the two inner entries (IV + 4 blocks + the block that then fails to unpad): the
   first entry is yielded, the probe of the next next() gets the padding error; the eager reader gives nothing *)
Example lx_cut_between :
  lx_lazy (lx_cut 96) (repeat 16 200) = Ok ([lit "a"], FinErr InvalidData) /\ lx_eager (lx_cut 96) (repeat 16 200) = Err InvalidData.
Proof. vm_compute. split; reflexivity. Qed.
(* the cut falls inside the second entry: whole blocks (padding error), or a partial last block (UnexpectedEof) *)
Example lx_cut_inside :
  lx_lazy (lx_cut 128) (repeat 16 200) = Ok ([lit "a"], FinErr InvalidData) /\ lx_eager (lx_cut 128) (repeat 16 200) = Err InvalidData /\
  lx_lazy (lx_cut 135) (repeat 16 200) = Ok ([lit "a"], FinErr UnexpectedEof) /\ lx_eager (lx_cut 135) (repeat 16 200) = Err UnexpectedEof.
Proof. vm_compute. repeat split. Qed.
(* the cut falls inside the first entry, or leaves no whole block behind the IV *)
Example lx_cut_early :
  lx_lazy (lx_cut 64) (repeat 16 200) = Ok ([], FinErr InvalidData) /\ lx_lazy (lx_cut 31) (repeat 16 200) = Err UnexpectedEof /\
  lx_eager (lx_cut 31) (repeat 16 200) = Err UnexpectedEof.
Proof. vm_compute. repeat split. Qed.
(* the delivery depends on the caller's buffer sizes: a read that meets the error returns no byte count, so what it
   had already decrypted is lost — with one 4096-byte read the caller never sees the first entry.  (Framing
   independence therefore holds for equal buffer sizes only; the code's buffer sizes are ChunkReader's.) *)
Example lx_buffers_matter :
  lx_lazy (lx_cut 128) (repeat 4096 200) = Ok ([], FinErr InvalidData) /\ lx_lazy (lx_cut 128) (repeat 16 200) = Ok ([lit "a"], FinErr InvalidData).
Proof. vm_compute. split; reflexivity. Qed.
(* the premises of decode_solid_lazy_cut_indep are satisfiable: the same cut stream in 1-, 7- and 16-byte SDAT chunks *)
Definition lx_recut (sizes : list nat) (e : solid_entry) : solid_entry :=
  {| so_hdr := so_hdr e; so_phsf := so_phsf e; so_data := cut_sizes sizes (concat (so_data e)); so_extra := so_extra e |}.
Example lx_recut_same :
  concat (so_data (lx_recut [1; 7; 16; 0; 30; 200]%nat (lx_cut 128))) = concat (so_data (lx_cut 128)) /\
  lx_lazy (lx_recut [1; 7; 16; 0; 30; 200]%nat (lx_cut 128)) (repeat 16 200) = lx_lazy (lx_cut 128) (repeat 16 200).
Proof. vm_compute. split; reflexivity. Qed.

(* independence of the buffer sizes does NOT hold for the lazy view (it does for the eager one, decode_stream_cut_indep):
   both sequences drain the stream, the answers differ *)
Theorem lazy_buffer_independence_refuted :
  exists e rb1 rb2, drains (so_data e) rb1 /\ drains (so_data e) rb2 /\
    decode_solid_lazy toy_E_of toy_D_of id_decompress toy_verify e rx_pw rb1 <>
    decode_solid_lazy toy_E_of toy_D_of id_decompress toy_verify e rx_pw rb2.
Proof.
  exists (lx_cut 128), (repeat 4096 200), (repeat 16 200).
  split; [split; [apply repeat_pos'; lia|vm_compute; reflexivity]|].
  split; [split; [apply repeat_pos'; lia|vm_compute; reflexivity]|].
  intros H. apply (f_equal lx_names) in H. vm_compute in H. discriminate.
Qed.

(* ================================================================================================= *)
(* 8. cutting a stored solid entry that decodes: the lazy reader yields a prefix of its entries         *)
(* ================================================================================================= *)
Lemma ok_inj {A} (a b : A) : @Ok A a = Ok b -> a = b.
Proof. intros H. injection H as H. exact H. Qed.

Section CutPrefix.
Variables E D : encryption -> bytes -> bytes -> bytes.
Variable decompress : compression -> bytes -> res bytes.
Variable verify : bytes -> bytes -> res bytes.
Hypothesis D_len : forall a k c, len16 c -> len16 (D a k c).

(* CBC: the reader over a cut of a ciphertext that decodes delivers a prefix of its plaintext *)
Lemma avail_blocks_cut d k : forall n x, (length x <= n)%nat -> forall j prev look P2,
  avail_blocks d k prev look (chunks 16 x) = (P2, FinOk) ->
  exists rest, P2 = fst (avail_blocks d k prev look (chunks 16 (firstn j x))) ++ rest.
Proof.
  induction n as [|n IH]; intros x Hn j prev look P2 H.
  - destruct x; [|cbn [length] in Hn; lia]. rewrite firstn_nil. rewrite H. exists []. cbn [fst]. rewrite app_nil_r. reflexivity.
  - destruct x as [|b x]; [rewrite firstn_nil, H; exists []; cbn [fst]; rewrite app_nil_r; reflexivity|].
    rewrite chunks_cons16 in H by discriminate. cbn [avail_blocks] in H.
    set (p := xor_bytes (d k look) prev) in *.
    destruct (N.eqb_spec (len (firstn 16 (b :: x))) 16) as [E16|E16]; [|discriminate].
    destruct (avail_blocks d k look (firstn 16 (b :: x)) (chunks 16 (skipn 16 (b :: x)))) as [t f] eqn:Et.
    injection H as <- ->.
    destruct j as [|j].
    + (* nothing behind the look-ahead block: it is taken for the last one *)
      cbn [firstn chunks chunks_fuel length avail_blocks]. fold p.
      unfold pkcs7_unpad_block. destruct (_ || _); [exists (p ++ t); reflexivity|].
      destruct (forallb _ _); [|exists (p ++ t); reflexivity]. cbn [fst].
      exists (fdrop (16 - b2n (last p x00)) p ++ t). rewrite app_assoc, ftake_fdrop. reflexivity.
    + rewrite chunks_cons16 by (cbn [firstn]; discriminate). cbn [avail_blocks]. fold p.
      rewrite firstn_firstn.
      destruct (Nat.le_gt_cases 16 (S j)) as [Hj|Hj].
      * rewrite Nat.min_l by exact Hj. replace (len (firstn 16 (b :: x)) =? 16) with true by (symmetry; apply N.eqb_eq; exact E16).
        rewrite skipn_firstn_comm.
        assert (Hl : (length (skipn 16 (b :: x)) <= n)%nat) by (rewrite skipn_length; cbn [length] in *; lia).
        destruct (IH _ Hl (S j - 16)%nat look (firstn 16 (b :: x)) t Et) as (rest & Hr).
        destruct (avail_blocks d k look (firstn 16 (b :: x)) (chunks 16 (firstn (S j - 16) (skipn 16 (b :: x))))) as [t1 f1].
        cbn [fst] in *. exists rest. rewrite Hr, app_assoc. reflexivity.
      * rewrite Nat.min_r by lia.
        assert (Hs : len (firstn (S j) (b :: x)) <> 16).
        { unfold len. rewrite firstn_length. lia. }
        apply N.eqb_neq in Hs. rewrite Hs. cbn [fst app]. exists (p ++ t). reflexivity.
Qed.

(* every mode: the abstract reader over a cut of a stream that decodes cleanly has a prefix of its plaintext *)
Lemma partial_spec_cut enc mode phsf pw s m P2 P1 f1 :
  partial_spec E D verify enc mode phsf pw s = Ok (P2, FinOk) ->
  partial_spec E D verify enc mode phsf pw (firstn m s) = Ok (P1, f1) ->
  exists rest, P2 = P1 ++ rest.
Proof.
  unfold partial_spec. destruct enc.
  - intros H2 H1. injection H2 as <-. injection H1 as <- _. exists (skipn m s). rewrite firstn_skipn. reflexivity.
  - destruct phsf as [p|]; [|discriminate]. destruct (verify p pw) as [key| |]; cbn [bind]; try discriminate.
    destruct (N.eqb_spec (len (firstn 16 (firstn m s))) 16) as [Ei|Ei]; cbn [negb]; [|intros _ H; discriminate].
    assert (Hm : (16 <= m)%nat /\ (16 <= length s)%nat) by (unfold len in Ei; rewrite !firstn_length in Ei; lia).
    rewrite firstn_firstn, Nat.min_l in * by lia. rewrite Ei. cbn [negb]. rewrite skipn_firstn_comm.
    destruct mode.
    + cbv zeta. rewrite skipn_firstn_comm, firstn_firstn.
      destruct (N.eqb_spec (len (firstn (Nat.min 16 (m - 16)) (skipn 16 s))) 16) as [Eb|Eb]; cbn [negb]; [|intros _ H; discriminate].
      assert (Hm2 : (16 <= m - 16)%nat) by (unfold len in Eb; rewrite firstn_length in Eb; lia).
      rewrite Nat.min_l in * by lia. rewrite Eb. cbn [negb].
      destruct (negb (key_iv_ok key (firstn 16 s))); [discriminate|]. intros H2 H1. apply ok_inj in H2. apply ok_inj in H1.
      destruct (avail_blocks_cut (D EAes) key _ (skipn 16 (skipn 16 s)) (le_n _) (m - 16 - 16) _ _ _ H2) as (rest & Hr).
      rewrite H1 in Hr. exact (ex_intro _ rest Hr).
    + destruct (key_iv_ok key (firstn 16 s)); [|discriminate]. intros H2 H1. injection H2 as <-. injection H1 as <- _.
      exists (ctr_xor (E EAes) key (of_be (firstn 16 s)) (0 + len (firstn (m - 16) (skipn 16 s))) (skipn (m - 16) (skipn 16 s))).
      rewrite <- ctr_xor_app, firstn_skipn. reflexivity.
  - destruct phsf as [p|]; [|discriminate]. destruct (verify p pw) as [key| |]; cbn [bind]; try discriminate.
    destruct (N.eqb_spec (len (firstn 16 (firstn m s))) 16) as [Ei|Ei]; cbn [negb]; [|intros _ H; discriminate].
    assert (Hm : (16 <= m)%nat /\ (16 <= length s)%nat) by (unfold len in Ei; rewrite !firstn_length in Ei; lia).
    rewrite firstn_firstn, Nat.min_l in * by lia. rewrite Ei. cbn [negb]. rewrite skipn_firstn_comm.
    destruct mode.
    + cbv zeta. rewrite skipn_firstn_comm, firstn_firstn.
      destruct (N.eqb_spec (len (firstn (Nat.min 16 (m - 16)) (skipn 16 s))) 16) as [Eb|Eb]; cbn [negb]; [|intros _ H; discriminate].
      assert (Hm2 : (16 <= m - 16)%nat) by (unfold len in Eb; rewrite firstn_length in Eb; lia).
      rewrite Nat.min_l in * by lia. rewrite Eb. cbn [negb].
      destruct (negb (key_iv_ok key (firstn 16 s))); [discriminate|]. intros H2 H1. apply ok_inj in H2. apply ok_inj in H1.
      destruct (avail_blocks_cut (D ECamellia) key _ (skipn 16 (skipn 16 s)) (le_n _) (m - 16 - 16) _ _ _ H2) as (rest & Hr).
      rewrite H1 in Hr. exact (ex_intro _ rest Hr).
    + destruct (key_iv_ok key (firstn 16 s)); [|discriminate]. intros H2 H1. injection H2 as <-. injection H1 as <- _.
      exists (ctr_xor (E ECamellia) key (of_be (firstn 16 s)) (0 + len (firstn (m - 16) (skipn 16 s))) (skipn (m - 16) (skipn 16 s))).
      rewrite <- ctr_xor_app, firstn_skipn. reflexivity.
Qed.

(* the eager specification of RecutFacts in terms of the abstract reader *)
Lemma decode_spec_partial enc mode phsf pw s :
  decode_spec E D decompress verify CNo enc mode phsf pw s =
  (do a <- partial_spec E D verify enc mode phsf pw s; res_of_fin (fst a) (snd a)).
Proof.
  unfold decode_spec, partial_spec, decrypt_spec, cbc_spec.
  assert (K : forall r : res bytes, (do got <- r; Ok got) = r) by (intros [?| |]; reflexivity). rewrite K.
  destruct enc; [reflexivity| |];
    (destruct phsf as [p|]; [|reflexivity]; destruct (verify p pw) as [key| |]; cbn [bind]; try reflexivity;
     destruct (negb (len (firstn 16 s) =? 16)); [reflexivity|]; destruct mode;
     [ cbv zeta; destruct (negb (len (firstn 16 (skipn 16 s)) =? 16)); [reflexivity|];
       destruct (negb (key_iv_ok key (firstn 16 s))); [reflexivity|]; cbn [bind]; apply owed_blocks_avail
     | destruct (key_iv_ok key (firstn 16 s)); reflexivity ]).
Qed.

(* a stored solid entry e that the eager reader decodes to `ents`; e' = e with its data cut after m bytes (framed in
   any way): whatever the lazy reader yields from e' before it ends (with an error, unless nothing is missing) is a
   prefix of `ents` — entries are not invented, altered or reordered by cutting the stream *)
Theorem lazy_cut_yields_prefix e e' pw rb m k ents fin es f :
  s_comp (so_hdr e) = CNo -> so_hdr e' = so_hdr e -> so_phsf e' = so_phsf e ->
  concat (so_data e') = firstn m (concat (so_data e)) ->
  drains (so_data e) rb -> len (concat (so_data e')) < N.of_nat k ->
  decode_solid E D decompress verify e pw rb = Ok (ents, fin) ->
  decode_solid_lazy E D decompress verify e' pw (repeat 16 k) = Ok (es, f) ->
  exists tail, ents = es ++ tail.
Proof.
  intros Ec Hh Hp Hd Hdr Hk He Hl.
  unfold Pipeline.decode_solid in He. rewrite (decode_stream_spec E D decompress verify _ _ _ _ _ _ _ Hdr), Ec, decode_spec_partial in He.
  unfold Pipeline.decode_solid_lazy in Hl. rewrite Hh, Hp, Ec in Hl.
  rewrite (reads16_deliver_all E D verify D_len _ _ _ _ _ _ Hk), Hd in Hl.
  destruct (partial_spec E D verify (s_enc (so_hdr e)) (s_mode (so_hdr e)) (so_phsf e) pw (concat (so_data e))) as [[P2 f2]| |] eqn:E2;
    cbn [bind fst snd] in He; try discriminate.
  destruct f2; cbn [res_of_fin bind] in He; try discriminate.
  destruct (partial_spec E D verify (s_enc (so_hdr e)) (s_mode (so_hdr e)) (so_phsf e) pw (firstn m (concat (so_data e)))) as [[P1 f1]| |] eqn:E1;
    cbn [bind] in Hl; try discriminate.
  destruct (partial_spec_cut _ _ _ _ _ _ _ _ _ E2 E1) as (rest & Hr). subst P2.
  destruct (lazy_entries_prefix f1 rest (S (length P1)) P1 (S (length (P1 ++ rest))) (Nat.lt_succ_diag_r _)) as (tail & Ht).
  apply ok_inj in He. apply ok_inj in Hl. rewrite He, Hl in Ht. cbn [fst] in Ht. exists tail. exact Ht.
Qed.
End CutPrefix.

(* the instance with the model's AES-256 / Camellia-256 *)
Theorem lazy_cut_yields_prefix_real (decompress : compression -> bytes -> res bytes) (verify : bytes -> bytes -> res bytes)
  e e' pw rb m k ents fin es f :
  s_comp (so_hdr e) = CNo -> so_hdr e' = so_hdr e -> so_phsf e' = so_phsf e ->
  concat (so_data e') = firstn m (concat (so_data e)) ->
  drains (so_data e) rb -> len (concat (so_data e')) < N.of_nat k ->
  decode_solid real_E_of real_D_of decompress verify e pw rb = Ok (ents, fin) ->
  decode_solid_lazy real_E_of real_D_of decompress verify e' pw (repeat 16 k) = Ok (es, f) ->
  exists tail, ents = es ++ tail.
Proof. exact (lazy_cut_yields_prefix real_E_of real_D_of decompress verify real_D_len e e' pw rb m k ents fin es f). Qed.

(* the premises of lazy_cut_yields_prefix are satisfiable (toy block cipher): the two-entry solid entry cut inside its
   second entry; lx_eager / lx_lazy = decode_solid / decode_solid_lazy with the entries shown by name *)
Example lx_cut_prefix_premises :
  s_comp (so_hdr lx_solid) = CNo /\ so_hdr (lx_cut 128) = so_hdr lx_solid /\ so_phsf (lx_cut 128) = so_phsf lx_solid /\
  concat (so_data (lx_cut 128)) = firstn 128 (concat (so_data lx_solid)) /\
  drains (so_data lx_solid) (repeat 16 200) /\ len (concat (so_data (lx_cut 128))) < N.of_nat 200 /\
  lx_eager lx_solid (repeat 16 200) = Ok ([lit "a"; lit "b"], FinOk) /\
  lx_lazy (lx_cut 128) (repeat 16 200) = Ok ([lit "a"], FinErr InvalidData).
Proof.
  split; [reflexivity|]. split; [reflexivity|]. split; [reflexivity|].
  split; [cbn [lx_cut so_data concat]; rewrite app_nil_r; reflexivity|].
  split; [split; [apply repeat_pos'; lia|vm_compute; reflexivity]|]. split; [vm_compute; reflexivity|].
  split; [exact (proj2 (proj2 (proj2 (proj2 lx_shape))))|exact (proj1 lx_cut_inside)].
Qed.
