(* CamelliaFacts.v — the Camellia-256 model of Model/Camellia.v is a length-preserving permutation of 16-byte
   blocks: cam_dec k (cam_enc k m) = m for every key.  The Feistel rounds cancel whatever F is (xor is an
   involution), FL and FLINV undo each other on 8-byte halves, the whitening keys cancel.  Together with AesFacts
   this discharges the block-cipher premises of the C01 theorems for real_E_of / real_D_of. *)
From PNA Require Import Base Name Codec Flatten Aes Camellia BaseFacts CodecFacts CbcFacts AesFacts.
Require Import ZArith ZifyN ZifyNat ZifyBool.
Open Scope N_scope.

(* ---- FL / FLINV ----------------------------------------------------------------------------------------- *)
Lemma split4 {A} (x u v : list A) : length u = length (firstn 4 x) -> length v = length (skipn 4 x) ->
  firstn 4 (u ++ v) = u /\ skipn 4 (u ++ v) = v.
Proof.
  intros Hu Hv. rewrite firstn_length in Hu. rewrite skipn_length in Hv.
  destruct (Nat.le_gt_cases 4 (length x)) as [H|H].
  - assert (L : length u = 4%nat) by lia.
    split; [rewrite firstn_app, L, Nat.sub_diag, <- L, firstn_all; cbn [firstn]; apply app_nil_r|].
    rewrite skipn_app, L, Nat.sub_diag, <- L, skipn_all. reflexivity.
  - assert (L : length v = 0%nat) by lia. destruct v; [|discriminate L]. rewrite app_nil_r.
    split; [apply firstn_all2; lia|apply skipn_all2; lia].
Qed.

Lemma flinv_fl x k : flinv (fl x k) k = x.
Proof.
  unfold fl. set (x1 := firstn 4 x). set (x2 := skipn 4 x). set (k1 := firstn 4 k). set (k2 := skipn 4 k).
  set (x2' := bxs x2 (rotl_bits 1 (zipw band x1 k1))). set (x1' := bxs x1 (zipw bor x2' k2)).
  unfold flinv. fold k1 k2.
  destruct (split4 x x1' x2') as [A B]; [apply bxs_length|apply bxs_length|].
  rewrite A, B. unfold x1' at 1 2. rewrite bxs_invol. unfold x2'. rewrite bxs_invol.
  apply firstn_skipn.
Qed.
Lemma fl_flinv y k : fl (flinv y k) k = y.
Proof.
  unfold flinv. set (y1 := firstn 4 y). set (y2 := skipn 4 y). set (k1 := firstn 4 k). set (k2 := skipn 4 k).
  set (y1' := bxs y1 (zipw bor y2 k2)). set (y2' := bxs y2 (rotl_bits 1 (zipw band y1' k1))).
  unfold fl. fold k1 k2.
  destruct (split4 y y1' y2') as [A B]; [apply bxs_length|apply bxs_length|].
  rewrite A, B. unfold y2' at 1 2. rewrite bxs_invol. unfold y1'. rewrite bxs_invol.
  apply firstn_skipn.
Qed.
Lemma fl_length x k : length (fl x k) = length x.
Proof. unfold fl. rewrite app_length, !bxs_length, <- app_length, firstn_skipn. reflexivity. Qed.
Lemma flinv_length x k : length (flinv x k) = length x.
Proof. unfold flinv. rewrite app_length, !bxs_length, <- app_length, firstn_skipn. reflexivity. Qed.

(* ---- Feistel rounds ------------------------------------------------------------------------------------------ *)
Lemma inv_fround_fround s k : inv_fround (fround s k) k = s.
Proof. destruct s as [d1 d2]. unfold fround, inv_fround. rewrite bxs_invol. reflexivity. Qed.
Lemma inv_frounds_frounds : forall ks s, fold_left inv_fround (rev ks) (fold_left fround ks s) = s.
Proof.
  induction ks as [|k ks IH]; intros s; [reflexivity|].
  cbn [rev fold_left]. rewrite fold_left_app. cbn [fold_left]. rewrite IH. apply inv_fround_fround.
Qed.
Lemma inv_fl_layer_fl_layer s ka kb : inv_fl_layer (fl_layer s ka kb) ka kb = s.
Proof. destruct s as [d1 d2]. unfold fl_layer, inv_fl_layer. rewrite flinv_fl, fl_flinv. reflexivity. Qed.

(* both halves of the state are 8 bytes *)
Definition halves (s : bytes * bytes) : Prop := length (fst s) = 8%nat /\ length (snd s) = 8%nat.
Lemma fround_halves s k : halves s -> halves (fround s k).
Proof. destruct s as [d1 d2]. intros [A B]. unfold fround, halves. cbn [fst snd] in *. rewrite bxs_length. split; assumption. Qed.
Lemma frounds_halves : forall ks s, halves s -> halves (fold_left fround ks s).
Proof. induction ks as [|k ks IH]; intros s H; [exact H|]. cbn [fold_left]. apply IH, fround_halves, H. Qed.
Lemma inv_fround_halves s k : halves s -> halves (inv_fround s k).
Proof. destruct s as [a b]. intros [A B]. unfold inv_fround, halves. cbn [fst snd] in *. rewrite bxs_length. split; assumption. Qed.
Lemma inv_frounds_halves : forall ks s, halves s -> halves (fold_left inv_fround ks s).
Proof. induction ks as [|k ks IH]; intros s H; [exact H|]. cbn [fold_left]. apply IH, inv_fround_halves, H. Qed.
Lemma fl_layer_halves s ka kb : halves s -> halves (fl_layer s ka kb).
Proof. destruct s as [d1 d2]. intros [A B]. unfold fl_layer, halves. cbn [fst snd] in *. rewrite fl_length, flinv_length. split; assumption. Qed.
Lemma inv_fl_layer_halves s ka kb : halves s -> halves (inv_fl_layer s ka kb).
Proof. destruct s as [d1 d2]. intros [A B]. unfold inv_fl_layer, halves. cbn [fst snd] in *. rewrite fl_length, flinv_length. split; assumption. Qed.

(* ---- the whole cipher ------------------------------------------------------------------------------------------- *)
Lemma hi_lo_app (a b : bytes) : length a = 8%nat -> hi (a ++ b) = a /\ lo (a ++ b) = b.
Proof.
  intros L. unfold hi, lo. split.
  - rewrite firstn_app, L, Nat.sub_diag, <- L, firstn_all. cbn [firstn]. apply app_nil_r.
  - rewrite skipn_app, L, Nat.sub_diag, <- L, skipn_all. reflexivity.
Qed.

Theorem cam_dec_enc key m : length m = 16%nat -> cam_dec key (cam_enc key m) = m.
Proof.
  intros Lm. unfold cam_dec, cam_enc. set (ks := cam_keys key).
  set (s0 := (bxs (hi m) (kw1 ks), bxs (lo m) (kw2 ks))).
  assert (H0 : halves s0).
  { unfold halves, s0, hi, lo. cbn [fst snd]. rewrite !bxs_length, firstn_length, skipn_length. lia. }
  set (s1 := fold_left fround (g1 ks) s0). assert (H1 : halves s1) by (apply frounds_halves, H0).
  set (s2 := fl_layer s1 (ke1 ks) (ke2 ks)). assert (H2 : halves s2) by (apply fl_layer_halves, H1).
  set (s3 := fold_left fround (g2 ks) s2). assert (H3 : halves s3) by (apply frounds_halves, H2).
  set (s4 := fl_layer s3 (ke3 ks) (ke4 ks)). assert (H4 : halves s4) by (apply fl_layer_halves, H3).
  set (s5 := fold_left fround (g3 ks) s4). assert (H5 : halves s5) by (apply frounds_halves, H4).
  set (s6 := fl_layer s5 (ke5 ks) (ke6 ks)). assert (H6 : halves s6) by (apply fl_layer_halves, H5).
  set (s7 := fold_left fround (g4 ks) s6). assert (H7 : halves s7) by (apply frounds_halves, H6).
  destruct s7 as [d1 d2] eqn:E7. destruct H7 as [L1 L2]. cbn [fst snd] in L1, L2.
  destruct (hi_lo_app (bxs d2 (kw3 ks)) (bxs d1 (kw4 ks))) as [A B]; [rewrite bxs_length; exact L2|].
  rewrite A, B, !bxs_invol. rewrite <- E7. unfold s7.
  rewrite inv_frounds_frounds. unfold s6. rewrite inv_fl_layer_fl_layer. unfold s5.
  rewrite inv_frounds_frounds. unfold s4. rewrite inv_fl_layer_fl_layer. unfold s3.
  rewrite inv_frounds_frounds. unfold s2. rewrite inv_fl_layer_fl_layer. unfold s1.
  rewrite inv_frounds_frounds. unfold s0. rewrite !bxs_invol. apply firstn_skipn.
Qed.

Theorem cam_enc_length key m : length m = 16%nat -> length (cam_enc key m) = 16%nat.
Proof.
  intros Lm. unfold cam_enc. set (ks := cam_keys key).
  set (s0 := (bxs (hi m) (kw1 ks), bxs (lo m) (kw2 ks))).
  assert (H0 : halves s0).
  { unfold halves, s0, hi, lo. cbn [fst snd]. rewrite !bxs_length, firstn_length, skipn_length. lia. }
  match goal with |- length (let (d1, d2) := ?s in _) = _ => assert (H : halves s) end.
  { apply frounds_halves, fl_layer_halves, frounds_halves, fl_layer_halves, frounds_halves, fl_layer_halves, frounds_halves, H0. }
  match goal with |- length (let (d1, d2) := ?s in _) = _ => destruct s as [d1 d2] end.
  destruct H as [A B]. cbn [fst snd] in A, B. rewrite app_length, !bxs_length. lia.
Qed.
Theorem cam_dec_length key c : length c = 16%nat -> length (cam_dec key c) = 16%nat.
Proof.
  intros Lc. unfold cam_dec. set (ks := cam_keys key).
  set (s0 := (bxs (lo c) (kw4 ks), bxs (hi c) (kw3 ks))).
  assert (H0 : halves s0).
  { unfold halves, s0, hi, lo. cbn [fst snd]. rewrite !bxs_length, firstn_length, skipn_length. lia. }
  match goal with |- length (let (d1, d2) := ?s in _) = _ => assert (H : halves s) end.
  { apply inv_frounds_halves, inv_fl_layer_halves, inv_frounds_halves, inv_fl_layer_halves, inv_frounds_halves, inv_fl_layer_halves, inv_frounds_halves, H0. }
  match goal with |- length (let (d1, d2) := ?s in _) = _ => destruct s as [d1 d2] end.
  destruct H as [A B]. cbn [fst snd] in A, B. rewrite app_length, !bxs_length. lia.
Qed.

(* ---- the premises of the pipeline theorems, for the ciphers the library uses ----------------------------------- *)
Theorem real_DE : forall (a : encryption) (k b : bytes), len16 b -> real_D_of a k (real_E_of a k b) = b.
Proof. intros a k b L. destruct a; cbn [real_D_of real_E_of]; try apply aes_dec_enc. apply cam_dec_enc. exact L. Qed.
Theorem real_E_len : forall (a : encryption) (k b : bytes), len16 b -> len16 (real_E_of a k b).
Proof.
  intros a k b L. unfold len16 in *. destruct a; cbn [real_E_of]; try (rewrite aes_enc_length; exact L).
  apply cam_enc_length. exact L.
Qed.
Theorem real_D_len : forall (a : encryption) (k c : bytes), len16 c -> len16 (real_D_of a k c).
Proof.
  intros a k c L. unfold len16 in *. destruct a; cbn [real_D_of]; try (rewrite aes_dec_length; exact L).
  apply cam_dec_length. exact L.
Qed.
