(* CreateWalkFacts.v — C02 for walks that reach a path more than once (overlapping file arguments: `-r t t/a`,
   `./t/a t/a`).  Since 4cfc8ff5 collect_items keeps the first walked path of every entry name
   (Model/Extract.v create_from_walk); on trees of Normal components the entry name determines the path
   (name_comps (path_str p) = p), so create_from_walk c walk t = create_from_tree c (uniq_paths walk) t and the
   distinct paths in walk order are an order in the sense of walk_order_ok: every theorem about
   create_from_tree c order t (C02, C02_split, C02_overlay, C14_create) applies with order := uniq_paths walk.
   The premise "the order lists every path of the tree ONCE" (Permutation) becomes "the walk reaches exactly the
   paths of the tree" (repetitions allowed).  The code before the repair archived a path walked twice twice, and
   the extraction of that archive fails on the second copy (create_overlap_unrepaired). *)
From PNA Require Import Base Name Fs Extract BaseFacts NameFacts ExtractFacts CreateExtractFacts.
Require Import ZArith ZifyN ZifyNat ZifyBool Permutation.
Open Scope N_scope.

Lemma name_seen_In x seen : name_seen x seen = true <-> In x seen.
Proof.
  induction seen as [|y r IH]; cbn [name_seen In]; [split; [discriminate|tauto]|].
  rewrite Bool.orb_true_iff, IH, bytes_eqb_eq. split; intros [H|H]; auto.
Qed.

Lemma path_str_inj p q : Forall normal_component p -> Forall normal_component q -> path_str p = path_str q -> p = q.
Proof. intros Hp Hq E. rewrite <- (name_roundtrip p Hp), <- (name_roundtrip q Hq), E. reflexivity. Qed.

Definition wf_walk (walk : list path) : Prop := Forall (Forall normal_component) walk.

(* ---- the distinct paths of a walk -------------------------------------------------------------------------- *)
Lemma uniq_seen_In : forall walk seen p, In p (uniq_seen seen walk) -> In p walk /\ ~ In (path_str p) seen.
Proof.
  induction walk as [|q r IH]; intros seen p; cbn [uniq_seen]; [intros []|].
  destruct (name_seen (path_str q) seen) eqn:S.
  - intros H. destruct (IH _ _ H). split; [right|]; assumption.
  - intros [<-|H].
    + split; [left; reflexivity|]. intro Hin. apply name_seen_In in Hin. rewrite Hin in S. discriminate.
    + destruct (IH _ _ H) as (H1 & H2). split; [right; exact H1|]. intro Hin. apply H2. right. exact Hin.
Qed.
Lemma uniq_seen_NoDup : forall walk seen, NoDup (uniq_seen seen walk).
Proof.
  induction walk as [|q r IH]; intros seen; cbn [uniq_seen]; [constructor|].
  destruct (name_seen (path_str q) seen); [apply IH|]. constructor; [|apply IH].
  intro H. apply uniq_seen_In in H. destruct H as (_ & H). apply H. left. reflexivity.
Qed.
Lemma uniq_seen_complete : forall walk seen p, wf_walk walk -> In p walk -> ~ In (path_str p) seen ->
  In p (uniq_seen seen walk).
Proof.
  induction walk as [|q r IH]; intros seen p W; [intros []|]. inversion W as [|? ? Wq Wr]; subst.
  cbn [uniq_seen]. intros Hin Hs. destruct (name_seen (path_str q) seen) eqn:S.
  - destruct Hin as [<-|Hin]; [exfalso; apply Hs; apply name_seen_In; exact S|]. apply IH; assumption.
  - destruct Hin as [<-|Hin]; [left; reflexivity|].
    destruct (list_eq_dec (list_eq_dec Byte.byte_eq_dec) q p) as [->|NE]; [left; reflexivity|]. right.
    apply IH; [exact Wr|exact Hin|]. intros [E|H]; [|exact (Hs H)].
    apply NE. apply path_str_inj; [exact Wq| |exact E]. rewrite Forall_forall in Wr. exact (Wr p Hin).
Qed.
Lemma uniq_paths_NoDup walk : NoDup (uniq_paths walk).
Proof. apply uniq_seen_NoDup. Qed.
Lemma uniq_paths_In walk p : wf_walk walk -> (In p (uniq_paths walk) <-> In p walk).
Proof.
  intros W. split; [intro H; exact (proj1 (uniq_seen_In _ _ _ H))|]. intro H. apply uniq_seen_complete; auto.
Qed.
(* a walk that reaches every path once is its own list of distinct paths *)
Lemma uniq_seen_id : forall walk seen, wf_walk walk -> NoDup walk -> (forall p, In p walk -> ~ In (path_str p) seen) ->
  uniq_seen seen walk = walk.
Proof.
  induction walk as [|q r IH]; intros seen W ND Hs; [reflexivity|]. cbn [uniq_seen].
  inversion W as [|? ? Wq Wr]; subst. inversion ND as [|? ? Hq NDr]; subst.
  destruct (name_seen (path_str q) seen) eqn:S; [exfalso; apply (Hs q (or_introl eq_refl)); apply name_seen_In; exact S|].
  f_equal. apply IH; [exact Wr|exact NDr|]. intros p Hp [E|H]; [|exact (Hs p (or_intror Hp) H)].
  apply Hq. rewrite Forall_forall in Wr. rewrite (path_str_inj q p Wq (Wr p Hp) E). exact Hp.
Qed.
Lemma uniq_paths_id walk : wf_walk walk -> NoDup walk -> uniq_paths walk = walk.
Proof. intros W ND. apply uniq_seen_id; auto. Qed.

(* ---- collect_items with the `seen` set = create over the distinct paths ------------------------------------------ *)
Lemma create_walk_seen_eq c t : forall walk seenf seena, wf_walk walk ->
  (forall p, In p walk -> kept c t p = true -> name_seen (path_str p) seenf = name_seen (path_str p) seena) ->
  create_walk_seen c seenf walk t = create_from_tree c (uniq_seen seena walk) t.
Proof.
  induction walk as [|p r IH]; intros seenf seena W Hinv; [reflexivity|].
  inversion W as [|? ? Wp Wr]; subst. cbn [create_walk_seen uniq_seen].
  assert (Hr : forall q, In q r -> kept c t q = true -> name_seen (path_str q) seenf = name_seen (path_str q) seena)
    by (intros q Hq; apply Hinv; right; exact Hq).
  destruct (kept c t p) eqn:K.
  - pose proof (Hinv p (or_introl eq_refl) K) as E. unfold kept in K.
    destruct (tget t p) as [n|] eqn:G; [|discriminate]. rewrite K, E.
    destruct (name_seen (path_str p) seena); [apply IH; assumption|].
    cbn [create_from_tree]. rewrite G, K. f_equal. apply IH; [exact Wr|].
    intros q Hq Kq. cbn [name_seen]. rewrite (Hr q Hq Kq). reflexivity.
  - assert (L : create_walk_seen c seenf (p :: r) t = create_walk_seen c seenf r t).
    { cbn [create_walk_seen]. unfold kept in K. destruct (tget t p) as [n|]; [rewrite K|]; reflexivity. }
    cbn [create_walk_seen] in L. rewrite L. clear L.
    destruct (name_seen (path_str p) seena); [apply IH; assumption|].
    assert (R : create_from_tree c (p :: uniq_seen (path_str p :: seena) r) t
                = create_from_tree c (uniq_seen (path_str p :: seena) r) t).
    { cbn [create_from_tree]. unfold kept in K. destruct (tget t p) as [n|]; [rewrite K|]; reflexivity. }
    refine (eq_trans _ (eq_sym R)). apply IH; [exact Wr|].
    intros q Hq Kq. cbn [name_seen]. rewrite (Hr q Hq Kq).
    destruct (bytes_eqb (path_str q) (path_str p)) eqn:E; [|reflexivity]. exfalso.
    apply bytes_eqb_eq in E. rewrite Forall_forall in Wr.
    rewrite (path_str_inj q p (Wr q Hq) Wp E) in Kq. rewrite Kq in K. discriminate.
Qed.
Theorem create_from_walk_eq c t walk : wf_walk walk ->
  create_from_walk c walk t = create_from_tree c (uniq_paths walk) t.
Proof. intros W. apply create_walk_seen_eq; [exact W|reflexivity]. Qed.
(* nothing changes for a walk that reaches every path once *)
Corollary create_from_walk_nodup c t walk : wf_walk walk -> NoDup walk ->
  create_from_walk c walk t = create_from_tree c walk t.
Proof. intros W ND. rewrite create_from_walk_eq by exact W. rewrite uniq_paths_id by assumption. reflexivity. Qed.

(* no name twice in what create archives, whatever the walk and the tree (no premise) *)
Lemma create_walk_seen_names c t : forall walk seen e, In e (create_walk_seen c seen walk t) -> ~ In (e_name e) seen.
Proof.
  induction walk as [|p r IH]; intros seen e; cbn [create_walk_seen]; [intros []|].
  destruct (tget t p) as [n|]; [|apply IH]. destruct (collected c n); [|apply IH].
  destruct (name_seen (path_str p) seen) eqn:S; [apply IH|]. intros [<-|H].
  - assert (e_name (entry_of c p n) = path_str p) as -> by (destruct n; reflexivity).
    intro Hin. apply name_seen_In in Hin. rewrite Hin in S. discriminate.
  - intro Hin. apply (IH _ _ H). right. exact Hin.
Qed.
Theorem create_from_walk_names_nodup c t walk : NoDup (map e_name (create_from_walk c walk t)).
Proof.
  unfold create_from_walk. generalize (@nil bytes) as seen. induction walk as [|p r IH]; intros seen; cbn [create_walk_seen]; [constructor|].
  destruct (tget t p) as [n|]; [|apply IH]. destruct (collected c n); [|apply IH].
  destruct (name_seen (path_str p) seen); [apply IH|]. cbn [map]. constructor; [|apply IH].
  intro H. apply in_map_iff in H. destruct H as (e & E & He). apply (create_walk_seen_names _ _ _ _ _ He).
  left. rewrite E. destruct n; reflexivity.
Qed.

(* ---- the premises of C02 for a walk ----------------------------------------------------------------------------- *)
(* the walker reaches exactly the paths of the tree, any of them perhaps more than once; with --keep-dir and without
   --overwrite no path is first reached before a directory above it *)
Definition walk_ok (c : copts) (o : xopts) (t : tree) (walk : list path) : Prop :=
  (forall p, In p walk <-> In p (map fst t)) /\
  (c_keep_dir c = true -> o_overwrite o = false -> parents_first (uniq_paths walk)).

Lemma walk_ok_unfolded c o t walk :
  walk_ok c o t walk <->
    (forall p, In p walk <-> In p (map fst t)) /\
    (c_keep_dir c = true -> o_overwrite o = false ->
     forall l1 p l2 q, uniq_paths walk = l1 ++ p :: l2 -> In q l1 -> ~ strictly_below p q).
Proof. apply iff_refl. Qed.
Lemma uniq_paths_spec walk :
  NoDup (uniq_paths walk) /\ (wf_walk walk -> forall p, In p (uniq_paths walk) <-> In p walk).
Proof. split; [apply uniq_paths_NoDup|]. intros W p. apply uniq_paths_In. exact W. Qed.

Lemma wf_walk_of_tree t walk : wf_tree t -> (forall p, In p walk -> In p (map fst t)) -> wf_walk walk.
Proof.
  intros WF H. apply Forall_forall. intros p Hp. apply H in Hp. apply in_map_iff in Hp. destruct Hp as ([q n] & <- & Hq).
  unfold wf_tree in WF. rewrite Forall_forall in WF. exact (WF _ Hq).
Qed.

Theorem walk_order_of_walk c o t walk : wf_tree t -> tree_ok t -> walk_ok c o t walk ->
  walk_order_ok c o t (uniq_paths walk) /\ create_from_walk c walk t = create_from_tree c (uniq_paths walk) t.
Proof.
  intros WF TOK (Hcov & PF).
  assert (W : wf_walk walk) by (apply (wf_walk_of_tree t); [exact WF|intros p; apply Hcov]).
  split; [|apply create_from_walk_eq; exact W]. split; [|exact PF].
  apply NoDup_Permutation; [exact (proj1 TOK)|apply uniq_paths_NoDup|].
  intros p. rewrite uniq_paths_In by exact W. symmetry. apply Hcov.
Qed.
(* an order in the old sense is a walk *)
Lemma walk_ok_of_order c o t order : wf_tree t -> walk_order_ok c o t order -> tree_ok t ->
  walk_ok c o t order /\ uniq_paths order = order.
Proof.
  intros WF (Perm & PF) TOK.
  assert (Hcov : forall p, In p order <-> In p (map fst t)).
  { intros p. split; [apply (Permutation_in _ (Permutation_sym Perm))|apply (Permutation_in _ Perm)]. }
  assert (W : wf_walk order) by (apply (wf_walk_of_tree t); [exact WF|intros p; apply Hcov]).
  assert (U : uniq_paths order = order).
  { apply uniq_paths_id; [exact W|]. eapply Permutation_NoDup; [exact Perm|exact (proj1 TOK)]. }
  split; [|exact U]. split; [exact Hcov|]. rewrite U. exact PF.
Qed.

(* C02 for every walk: create, then extract into an empty directory *)
Theorem create_extract_walk : forall c o out walk t,
  o_guarded o = true -> wf_tree t -> tree_ok t -> walk_ok c o t walk ->
  Forall plain out -> out <> [] ->
  tree_of c o out (uniq_paths walk) (extract_all o out (create_from_walk c walk t) (empty_dir out))
    = expected c o (uniq_paths walk) t /\
  snd (extract_run o out (create_from_walk c walk t) (empty_dir out)) = true.
Proof.
  intros c o out walk t G WF TOK WK OP ON. destruct (walk_order_of_walk c o t walk WF TOK WK) as (WO & ->).
  apply create_extract; assumption.
Qed.

(* ---- the defect, on create as it was ----------------------------------------------------------------------------- *)
(* pna create a.pna t/a t/a (also -r t t/a): the walker yields t/a twice, create archived it twice, and
   pna extract of that archive fails on the second copy (AlreadyExists) *)
Definition ov_tree : tree := [ ([lit "t"], TDir 493); ([lit "t"; lit "a"], TFile (lit "one") 420 1 []) ].
Definition ov_walk : list path := [ [lit "t"]; [lit "t"; lit "a"]; [lit "t"; lit "a"] ].
Definition ov_c := mk_copts false false false false.
Definition ov_o := mk_xopts false false false false true.
Lemma ov_premises : wf_tree ov_tree /\ tree_ok ov_tree /\ walk_ok ov_c ov_o ov_tree ov_walk.
Proof.
  split; [apply wf_treeb_sound; vm_compute; reflexivity|]. split; [apply tree_okb_sound; vm_compute; reflexivity|].
  split; [|discriminate]. intros p. cbn. tauto.
Qed.
Lemma create_overlap_unrepaired :
  wf_tree ov_tree /\ tree_ok ov_tree /\ walk_ok ov_c ov_o ov_tree ov_walk /\
  map e_name (create_from_walk_orig ov_c ov_walk ov_tree) = [lit "t/a"; lit "t/a"] /\
  ~ NoDup (map e_name (create_from_walk_orig ov_c ov_walk ov_tree)) /\
  snd (extract_run ov_o ex_out (create_from_walk_orig ov_c ov_walk ov_tree) (empty_dir ex_out)) = false.
Proof.
  destruct ov_premises as (A & B & C). split; [exact A|]. split; [exact B|]. split; [exact C|].
  split; [vm_compute; reflexivity|]. split; [|vm_compute; reflexivity].
  replace (map e_name (create_from_walk_orig ov_c ov_walk ov_tree)) with [lit "t/a"; lit "t/a"] by (vm_compute; reflexivity).
  intro ND. inversion ND as [|x l H _]; subst. apply H. left. reflexivity.
Qed.
Lemma create_overlap_repaired :
  map e_name (create_from_walk ov_c ov_walk ov_tree) = [lit "t/a"] /\
  snd (extract_run ov_o ex_out (create_from_walk ov_c ov_walk ov_tree) (empty_dir ex_out)) = true.
Proof. split; vm_compute; reflexivity. Qed.
