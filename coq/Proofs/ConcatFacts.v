(* ConcatFacts.v — facts about the commands `pna concat` and `pna split` + `pna concat` of Model/Concat.v. *)
From PNA Require Import Base Crc32 Name Codec Chunk Archive Entry Wf Concat.
From PNA Require Import BaseFacts NameFacts CodecFacts Crc32Facts ChunkFacts ArchiveFacts EntryFacts WfFacts
  WfWriterFacts WfAgreeFacts WfSplitFacts OffsetFacts PartsFacts.
From PNA Require Split SplitFacts.
Require Import ZArith ZifyN ZifyNat ZifyBool.
Open Scope N_scope.

(* the definitions of Model/Concat.v in the vocabulary of the proof files *)
Lemma rd_eq : rd = rds. Proof. reflexivity. Qed.
Lemma ser_entries_eq es : Concat.ser_entries es = ArchiveFacts.ser_entries es.
Proof. reflexivity. Qed.
Lemma c_of_eq : c_of = of_c. Proof. reflexivity. Qed.
Lemma c_to_eq : c_to = to_c. Proof. reflexivity. Qed.
Lemma part_file_eq f : part_file f = ser_pfile f. Proof. reflexivity. Qed.

(* ================================================================================================= *)
(* 1. for ALL inputs: what the raw-entry reader delivers is a well-formed raw entry                    *)
(* ================================================================================================= *)
Definition buf_ok (b : list chunk) : Prop := Forall wf_chunk b /\ Forall (fun c => is_term c = false) b.

Lemma buf_ok_nil : buf_ok []. Proof. split; constructor. Qed.
Lemma buf_ok_snoc b c : buf_ok b -> wf_chunk c -> is_term c = false -> buf_ok (b ++ [c]).
Proof. intros (W & T) Wc Tc. split; apply Forall_app; split; try assumption; constructor; try assumption; constructor. Qed.

Lemma next_item_wf : forall fuel bs acc nxt o b n r, next_item_loop rds fuel bs acc nxt = Ok (o, b, n, r) ->
  buf_ok acc -> match o with Some e => wf_entry e /\ b = [] | None => buf_ok b end.
Proof.
  induction fuel as [|fuel IH]; intros bs acc nxt o b n r H B; [discriminate H|]. cbn [next_item_loop] in H.
  destruct (rds bs) as [[c r1]|e|] eqn:E; cbn [bind] in H; try discriminate H.
  apply read_chunk_ok_inv in E. destruct E as [Wc _].
  destruct (ty_is c FEND || ty_is c SEND) eqn:Ee.
  { injection H as <- <- <- <-. split; [|reflexivity]. exists acc, c. split; [reflexivity|]. split; [exact Ee|].
    destruct B as (W & T). split; [apply Forall_app; split; [exact W|constructor; [exact Wc|constructor]]|exact T]. }
  destruct (ty_is c ANXT) eqn:En; [exact (IH _ _ _ _ _ _ _ H B)|].
  destruct (ty_is c AEND) eqn:Ea.
  { injection H as <- <- <- <-. exact B. }
  apply (IH _ _ _ _ _ _ _ H). apply buf_ok_snoc; [exact B|exact Wc|]. unfold is_term. rewrite Ee, En, Ea. reflexivity.
Qed.

Lemma raw_loop_wf : forall fuel s es f s', raw_entries_loop rds fuel s = (es, f, s') -> buf_ok (r_buf s) ->
  Forall wf_entry es /\ buf_ok (r_buf s').
Proof.
  induction fuel as [|fuel IH]; intros s es f s' H B; cbn [raw_entries_loop] in H.
  { injection H as <- <- <-. split; [constructor|exact B]. }
  unfold next_raw_item in H.
  destruct (next_item_loop rds (S (length (r_rest s))) (r_rest s) (r_buf s) (r_next s)) as [[[[o b] n'] r]| |] eqn:E;
    cbn [bind] in H.
  - pose proof (next_item_wf _ _ _ _ _ _ _ _ E B) as W. destruct o as [e|].
    + destruct W as (We & ->).
      destruct (raw_entries_loop rds fuel _) as [[es1 f1] s1] eqn:E1. injection H as <- <- <-.
      destruct (IH _ _ _ _ E1 buf_ok_nil) as (W1 & B1). split; [constructor; assumption|exact B1].
    + injection H as <- <- <-. split; [constructor|exact W].
  - injection H as <- <- <-. split; [constructor|exact B].
  - injection H as <- <- <-. split; [constructor|exact B].
Qed.

Lemma open_archive_buf buf p s : open_archive rds buf p = Ok s -> r_buf s = buf.
Proof.
  unfold open_archive. destruct (read_header rds p) as [[h r]| |]; cbn [bind]; try discriminate.
  intros [= <-]. reflexivity.
Qed.

Lemma rpl_wf : forall parts s cur es f, read_parts_loop rds s fo parts cur = (es, f) -> buf_ok (r_buf s) ->
  Forall wf_entry es.
Proof.
  induction parts as [|p ps IH]; intros s cur es f H B; cbn [read_parts_loop] in H;
    destruct (raw_entries_loop rds cur s) as [[es0 f0] s'] eqn:E; destruct (raw_loop_wf _ _ _ _ _ E B) as (W0 & B0).
  - destruct f0; [destruct (r_next s')|..]; injection H as <- _; exact W0.
  - destruct f0; [destruct (r_next s')|..]; try (injection H as <- _; exact W0).
    destruct (read_next_archive rds s' p) as [s2| |] eqn:E2; try (injection H as <- _; exact W0).
    destruct (read_parts_loop rds s2 fo ps (S (length p))) as [es2 e2] eqn:E3. injection H as <- _.
    apply Forall_app. split; [exact W0|]. apply (IH _ _ _ _ E3).
    unfold read_next_archive in E2. destruct (open_archive rds (r_buf s') p) as [s3| |] eqn:E4; cbn [bind] in E2; try discriminate E2.
    destruct (_ && _) in E2; [|discriminate E2]. injection E2 as <-. rewrite (open_archive_buf _ _ _ E4). exact B0.
Qed.

(* whatever byte strings are handed in as parts and however the read ends *)
Theorem read_parts_wf parts es f : read_parts rds parts = Ok (es, f) -> Forall wf_entry es.
Proof.
  destruct parts as [|p ps]; cbn [read_parts]; [discriminate|].
  destruct (open_archive rds [] p) as [s| |] eqn:E; cbn [bind]; try discriminate. intros [= H].
  apply (rpl_wf _ _ _ _ _ H). rewrite (open_archive_buf _ _ _ E). exact buf_ok_nil.
Qed.

(* ================================================================================================= *)
(* 2. the command in terms of the reader: it succeeds exactly when every argument reads to a          *)
(*    successful end, and then writes header 0, every raw entry read, in order, and the end marker     *)
(* ================================================================================================= *)
(* the part chain of one argument reads to a successful end with the raw entries es *)
Definition reads (i : list bytes) (es : list (list chunk)) : Prop := read_parts rds i = Ok (es, FinOk).

Lemma is_pna_sig r : is_pna (sig ++ r) = Ok true.
Proof. reflexivity. Qed.

Lemma reads_first i es f : read_parts rds i = Ok (es, f) -> exists p ps, i = p :: ps /\ is_pna p = Ok true.
Proof.
  destruct i as [|p ps]; cbn [read_parts]; [discriminate|].
  destruct (open_archive rds [] p) as [s| |] eqn:E; cbn [bind]; try discriminate. intros _.
  apply open_archive_ok_inv in E. destruct E as (h & -> & _). exists (sig ++ ser_chunk h ++ r_rest s), ps.
  split; [reflexivity|apply is_pna_sig].
Qed.

Lemma ser_entries_app a b : ArchiveFacts.ser_entries (a ++ b) = ArchiveFacts.ser_entries a ++ ArchiveFacts.ser_entries b.
Proof. unfold ArchiveFacts.ser_entries. rewrite map_app, concat_app. reflexivity. Qed.

Lemma check_inputs_reads inputs ess : Forall2 reads inputs ess -> check_inputs inputs = Ok tt.
Proof.
  induction 1 as [|i es inputs ess R _ IH]; [reflexivity|]. cbn [check_inputs].
  destruct (reads_first _ _ _ R) as (p & ps & -> & P). rewrite P. cbn [bind]. exact IH.
Qed.

Lemma check_inputs_app a b :
  check_inputs (a ++ b) = match check_inputs a with Ok _ => check_inputs b | r => r end.
Proof.
  induction a as [|i a IH]; [reflexivity|]. cbn [app check_inputs]. destruct i as [|p ps]; [reflexivity|].
  destruct (is_pna p) as [[|]| |]; cbn [bind]; try reflexivity. exact IH.
Qed.

Lemma copy_inputs_reads inputs ess : Forall2 reads inputs ess -> forall rest acc,
  copy_inputs (inputs ++ rest) acc = copy_inputs rest (acc ++ ArchiveFacts.ser_entries (concat ess)).
Proof.
  induction 1 as [|i es inputs ess R _ IH]; intros rest acc.
  - cbn [app concat]. change (ArchiveFacts.ser_entries []) with (@nil byte). rewrite app_nil_r. reflexivity.
  - cbn [app copy_inputs concat]. rewrite rd_eq. unfold reads in R. rewrite R. rewrite IH, ser_entries_eq, ser_entries_app, app_assoc.
    reflexivity.
Qed.

Lemma copy_inputs_ok_inv inputs : forall acc out, copy_inputs inputs acc = (out, FinOk) ->
  exists ess, Forall2 reads inputs ess /\ out = acc ++ ArchiveFacts.ser_entries (concat ess) ++ finalize.
Proof.
  induction inputs as [|i inputs IH]; intros acc out; cbn [copy_inputs].
  - intros [= <-]. exists []. split; [constructor|reflexivity].
  - rewrite rd_eq. destruct (read_parts rds i) as [[es f]| |] eqn:R; try discriminate.
    destruct f; try discriminate. intro H. destruct (IH _ _ H) as (ess & F & ->).
    exists (es :: ess). split; [constructor; assumption|]. cbn [concat]. rewrite ser_entries_eq, ser_entries_app, <- !app_assoc. reflexivity.
Qed.

(* what `pna concat` writes when it succeeds, and when it succeeds *)
Theorem concat_spec inputs out :
  concat_cmd inputs = Ok out <->
  exists ess, Forall2 reads inputs ess /\ out = write_raw_archive 0 (concat ess).
Proof.
  unfold concat_cmd, concat_run. split.
  - destruct (check_inputs inputs) as [[]| |]; try discriminate.
    destruct (copy_inputs inputs (write_header 0)) as [f e] eqn:C. destruct e; try discriminate. intros [= <-].
    destruct (copy_inputs_ok_inv _ _ _ C) as (ess & F & ->). exists ess. split; [exact F|]. rewrite write_raw_archive_eq. reflexivity.
  - intros (ess & F & ->). rewrite (check_inputs_reads _ _ F).
    rewrite <- (app_nil_r inputs), (copy_inputs_reads _ _ F). cbn [copy_inputs].
    rewrite write_raw_archive_eq, <- app_assoc. reflexivity.
Qed.

Corollary concat_ok inputs ess : Forall2 reads inputs ess -> concat_cmd inputs = Ok (write_raw_archive 0 (concat ess)).
Proof. intro F. apply concat_spec. exists ess. split; [exact F|reflexivity]. Qed.

(* no argument at all: the empty archive *)
Example concat_nothing : concat_cmd [] = Ok (write_raw_archive 0 []).
Proof. reflexivity. Qed.

Lemma reads_wf inputs ess : Forall2 reads inputs ess -> Forall wf_entry (concat ess).
Proof.
  induction 1 as [|i es inputs ess R _ IH]; [constructor|]. cbn [concat]. apply Forall_app. split; [|exact IH].
  exact (read_parts_wf _ _ _ R).
Qed.

Lemma reads_written es : Forall wf_entry es -> reads [write_raw_archive 0 es] es.
Proof.
  intro W. unfold reads. rewrite <- single_part_is_archive.
  exact (chain_read_entries es [] (concat es) 0 W (app_nil_r _) ltac:(cbn; lia)).
Qed.

(* (a) concat_entries — for ALL inputs on which the command succeeds: reading the result back delivers
   exactly the raw entries that reading the arguments delivers, in order, chunk for chunk (type and
   payload; length field and CRC are functions of these): nothing unknown is dropped, nothing is lost,
   duplicated or reordered *)
Theorem concat_entries inputs out : concat_cmd inputs = Ok out ->
  exists ess, Forall2 reads inputs ess /\ reads [out] (concat ess) /\
    raw_entries rds out = Ok (concat ess, FinOk, {| r_rest := []; r_buf := []; r_next := false;
                                                     r_hdr := {| a_major := 0; a_minor := 0; a_number := 0 |} |}).
Proof.
  intro H. apply concat_spec in H. destruct H as (ess & F & ->). exists ess. split; [exact F|].
  pose proof (reads_wf _ _ F) as W. split; [exact (reads_written _ W)|]. apply read_written; [reflexivity|exact W].
Qed.

(* ================================================================================================= *)
(* 3. (d) concatenating in steps                                                                       *)
(* ================================================================================================= *)
Lemma copy_inputs_middle pre X Y : (forall acc, copy_inputs X acc = copy_inputs Y acc) ->
  forall acc, copy_inputs (pre ++ X) acc = copy_inputs (pre ++ Y) acc.
Proof.
  intro H. induction pre as [|i pre IH]; intro acc; [apply H|]. cbn [app copy_inputs].
  destruct (read_parts rd i) as [[es f]| |]; try reflexivity. destruct f; try reflexivity. apply IH.
Qed.

(* an argument that is itself the result of a concat can be replaced by the arguments it was made
   from, wherever it stands and whether or not the other arguments read: same output file, same status *)
Theorem concat_flatten pre xs post a : concat_cmd xs = Ok a ->
  concat_run (pre ++ [a] :: post) = concat_run (pre ++ xs ++ post).
Proof.
  intro H. apply concat_spec in H. destruct H as (ess & F & ->).
  pose proof (reads_written _ (reads_wf _ _ F)) as RA.
  assert (Forall2 reads [[write_raw_archive 0 (concat ess)]] [concat ess]) as FA by (constructor; [exact RA|constructor]).
  unfold concat_run. rewrite !check_inputs_app.
  change ([write_raw_archive 0 (concat ess)] :: post) with ([[write_raw_archive 0 (concat ess)]] ++ post).
  rewrite !check_inputs_app. rewrite (check_inputs_reads _ _ F), (check_inputs_reads _ _ FA).
  destruct (check_inputs pre) as [[]| |]; try reflexivity. destruct (check_inputs post) as [[]| |]; try reflexivity.
  rewrite (copy_inputs_middle pre ([[write_raw_archive 0 (concat ess)]] ++ post) (xs ++ post)); [reflexivity|].
  intro acc. rewrite (copy_inputs_reads _ _ FA), (copy_inputs_reads _ _ F). cbn [concat]. rewrite app_nil_r. reflexivity.
Qed.

Lemma concat_cmd_run a b : concat_run a = concat_run b -> concat_cmd a = concat_cmd b.
Proof. unfold concat_cmd. intros ->. reflexivity. Qed.

(* concat_assoc: two steps = one step *)
Theorem concat_assoc xs ys a b : concat_cmd xs = Ok a -> concat_cmd ys = Ok b ->
  concat_cmd [[a]; [b]] = concat_cmd (xs ++ ys).
Proof.
  intros Ha Hb. apply concat_cmd_run.
  pose proof (concat_flatten [] xs [[b]] a Ha) as E1. cbn [app] in E1. rewrite E1.
  pose proof (concat_flatten xs ys [] b Hb) as E2. rewrite app_nil_r in E2. exact E2.
Qed.

Corollary concat_assoc_left xs ys a : concat_cmd xs = Ok a -> concat_cmd ([a] :: ys) = concat_cmd (xs ++ ys).
Proof. intro Ha. apply concat_cmd_run. exact (concat_flatten [] xs ys a Ha). Qed.

Corollary concat_assoc3 xs ys zs a b : concat_cmd xs = Ok a -> concat_cmd ([a] :: ys) = Ok b ->
  concat_cmd ([b] :: zs) = concat_cmd (xs ++ ys ++ zs).
Proof.
  intros Ha Hb. rewrite (concat_assoc_left _ zs _ Hb). cbn [app].
  apply concat_cmd_run. exact (concat_flatten [] xs (ys ++ zs) a Ha).
Qed.

(* ================================================================================================= *)
(* 4. (f) the size of the result                                                                       *)
(* ================================================================================================= *)
Lemma wf_entries_ty4 es : Forall wf_entry es -> Forall (Forall ty4) es.
Proof.
  intro W. eapply Forall_impl; [|exact W]. intros e He. apply Forall_wf_ty4. exact (proj1 (wf_entry_chunks e He)).
Qed.

(* signature 8 + header chunk 20 + the byte counts add_entry returns for the raw entries + end marker 12 *)
Theorem concat_size inputs out : concat_cmd inputs = Ok out ->
  exists ess, Forall2 reads inputs ess /\
    len out = 8 + 20 + sumN (map (fun e => snd (add_chunks e)) (concat ess)) + 12.
Proof.
  intro H. apply concat_spec in H. destruct H as (ess & F & ->). exists ess. split; [exact F|].
  apply archive_len_counts. apply wf_entries_ty4. exact (reads_wf _ _ F).
Qed.

(* in terms of the input files when every argument is one file written by the model writer (any part number):
   40 bytes of framing per file, of which one set remains *)
Lemma sumN_map_app {A} (f : A -> N) a b : sumN (map f (a ++ b)) = sumN (map f a) + sumN (map f b).
Proof. rewrite map_app. apply sumN_app. Qed.

Theorem concat_size_files (args : list (N * list (list chunk))) :
  Forall (fun x => fst x < 2 ^ 32 /\ Forall wf_entry (snd x)) args ->
  exists out, concat_cmd (map (fun x => [write_raw_archive (fst x) (snd x)]) args) = Ok out /\
    len out + 40 * len args = 40 + sumN (map (fun x => len (write_raw_archive (fst x) (snd x))) args).
Proof.
  intro H.
  assert (Forall2 reads (map (fun x => [write_raw_archive (fst x) (snd x)]) args) (map snd args)) as F.
  { induction H as [|[n es] args (Hn & Hw) _ IH]; [constructor|]. cbn [map fst snd]. constructor; [|exact IH].
    cbn [fst snd] in *. unfold reads. rewrite <- single_part_is_archive.
    exact (chain_read_entries es [] (concat es) n Hw (app_nil_r _) ltac:(change (len (@nil (list chunk))) with 0; lia)). }
  exists (write_raw_archive 0 (concat (map snd args))). split; [exact (concat_ok _ _ F)|].
  rewrite archive_len_counts by (apply wf_entries_ty4; exact (reads_wf _ _ F)).
  clear F. induction H as [|[n es] args (Hn & Hw) _ IH]; [reflexivity|]. cbn [map fst snd concat] in *.
  rewrite sumN_map_app, sumN_cons, len_cons. rewrite (archive_len_counts n es) by (apply wf_entries_ty4; exact Hw). lia.
Qed.

(* ================================================================================================= *)
(* 5. (e) failures: nothing is reported as success, and what stays behind is not an archive            *)
(* ================================================================================================= *)
(* an argument that does not read to a successful end makes the command fail *)
Theorem concat_needs_every_input inputs out : concat_cmd inputs = Ok out -> Forall (fun i => exists es, reads i es) inputs.
Proof.
  intro H. apply concat_spec in H. destruct H as (ess & F & _).
  induction F; constructor; [eexists; eassumption|assumption].
Qed.

Corollary concat_bad_input_fails inputs i : In i inputs -> (forall es, ~ reads i es) -> forall out, concat_cmd inputs <> Ok out.
Proof.
  intros I B out H. pose proof (concat_needs_every_input _ _ H) as F. rewrite Forall_forall in F.
  destruct (F i I) as (es & R). exact (B es R).
Qed.

(* the exact outcome when argument i is the first that fails, after the is_pna tests passed: the entries read
   so far are in the file that stays behind, the status is the reader's error *)
Theorem concat_fails_at pre i post ess es e : Forall2 reads pre ess -> read_parts rds i = Ok (es, FinErr e) ->
  check_inputs post = Ok tt ->
  concat_run (pre ++ i :: post) = (Some (write_header 0 ++ ArchiveFacts.ser_entries (concat ess ++ es)), FinErr e) /\
  concat_cmd (pre ++ i :: post) = Err e.
Proof.
  intros F R C.
  assert (concat_run (pre ++ i :: post) = (Some (write_header 0 ++ ArchiveFacts.ser_entries (concat ess ++ es)), FinErr e)) as E.
  { unfold concat_run. rewrite check_inputs_app, (check_inputs_reads _ _ F). cbn [check_inputs].
    destruct (reads_first _ _ _ R) as (p & ps & -> & P). rewrite P. cbn [bind]. rewrite C.
    rewrite (copy_inputs_reads _ _ F). cbn [copy_inputs]. rewrite rd_eq, R.
    change (Concat.ser_entries es) with (ArchiveFacts.ser_entries es). rewrite ser_entries_app, app_assoc. reflexivity. }
  split; [exact E|]. unfold concat_cmd. rewrite E. reflexivity.
Qed.

(* instances for part chains written by the model writer (bodies: any chunks but ANXT/AEND, cut anywhere
   between chunks).  A continuation part that is announced but not there: *)
Corollary concat_missing_part pre post ess n0 b bodies : Forall2 reads pre ess -> check_inputs post = Ok tt ->
  Forall body_ok (b :: bodies) -> n0 + len bodies < 2 ^ 32 ->
  concat_cmd (pre ++ chain_nl n0 (b :: bodies) :: post) = Err NotFound.
Proof.
  intros F C B N. exact (proj2 (concat_fails_at pre _ post ess _ NotFound F (chain_missing_part bodies b n0 B N) C)).
Qed.

(* a part whose number is not its predecessor's + 1 (a part of another set, parts swapped or duplicated,
   or the chain entered at a later part so that `with_part(2)` finds that very part again): *)
Corollary concat_misnumbered_part pre post ess n0 b bodies m bk lf later : Forall2 reads pre ess -> check_inputs post = Ok tt ->
  Forall body_ok (b :: bodies) -> n0 + len bodies < 2 ^ 32 -> m < 2 ^ 32 -> m <> n0 + len bodies + 1 ->
  concat_cmd (pre ++ (chain_nl n0 (b :: bodies) ++ part_bytes m bk lf :: later) :: post) = Err InvalidData.
Proof.
  intros F C B N M NE.
  exact (proj2 (concat_fails_at pre _ post ess _ InvalidData F (chain_number_mismatch bodies b n0 m bk lf later B N M NE) C)).
Qed.

(* a chain whose last file is cut short at any byte behind the first 28 *)
Corollary concat_truncated_part pre post ess n0 bodies bk lf n : Forall2 reads pre ess -> check_inputs post = Ok tt ->
  Forall body_ok bodies -> body_ok bk -> n0 + len bodies < 2 ^ 32 ->
  (28 <= n < length (part_bytes (n0 + len bodies) bk lf))%nat ->
  concat_cmd (pre ++ (chain_nl n0 bodies ++ [firstn n (part_bytes (n0 + len bodies) bk lf)]) :: post) = Err UnexpectedEof.
Proof.
  intros F C B Bk N (L1 & L2).
  pose proof (truncation_multipart bodies bk lf n0 n B Bk N L2) as T.
  replace (PartsFacts.is_nil bodies && (n <? 28)%nat) with false in T
    by (symmetry; apply andb_false_iff; right; apply Nat.ltb_ge; exact L1).
  exact (proj2 (concat_fails_at pre _ post ess _ UnexpectedEof F T C)).
Qed.

(* header + entries without an end marker reads as exactly these entries and then UnexpectedEof *)
Lemma open_loop : forall es fuel s, Forall wf_entry es -> r_rest s = ArchiveFacts.ser_entries es -> r_buf s = [] ->
  (length es < fuel)%nat ->
  raw_entries_loop rds fuel s = (es, FinErr UnexpectedEof, {| r_rest := []; r_buf := []; r_next := r_next s; r_hdr := r_hdr s |}).
Proof.
  induction es as [|e es IH]; intros fuel s Hw Hr Hb Hf; (destruct fuel as [|fuel]; [cbn [length] in Hf; lia|]);
    cbn [raw_entries_loop].
  - unfold next_raw_item. rewrite Hr, Hb. cbn. destruct s; cbn in *; subst. reflexivity.
  - inversion Hw as [|? ? He Hw']; subst. rewrite ser_entries_cons in Hr.
    rewrite (good_raw_item e _ s He Hr Hb).
    rewrite IH by (try assumption; try reflexivity; cbn [length] in Hf; lia). reflexivity.
Qed.

Theorem unterminated_not_an_archive es : Forall wf_entry es ->
  read_parts rds [write_header 0 ++ ArchiveFacts.ser_entries es] = Ok (es, FinErr UnexpectedEof) /\
  wf_archive (write_header 0 ++ ArchiveFacts.ser_entries es) = false.
Proof.
  intro W.
  assert (read_parts rds [write_header 0 ++ ArchiveFacts.ser_entries es] = Ok (es, FinErr UnexpectedEof)) as R.
  { cbn [read_parts]. rewrite open_written by reflexivity. cbn [bind read_parts_loop].
    rewrite (raw_entries_loop_fuel rds read_chunk_shorter read_chunk_no_panic _ (S (length (ser_entries es)) + length es))
      by (cbn [r_rest]; rewrite ?app_length; lia).
    rewrite (open_loop es) by (try assumption; try reflexivity; lia). reflexivity. }
  split; [exact R|]. destruct (wf_archive _) eqn:WF; [|reflexivity].
  destruct (wf_parts_read _ WF) as (xs & raws & _ & R' & _). pose proof (eq_trans (eq_sym R) R') as X. discriminate X.
Qed.

Lemma copy_inputs_fail_inv inputs : forall acc out f, copy_inputs inputs acc = (out, f) -> f <> FinOk ->
  exists es, Forall wf_entry es /\ out = acc ++ ArchiveFacts.ser_entries es.
Proof.
  induction inputs as [|i inputs IH]; intros acc out f; cbn [copy_inputs].
  - intros [= <- <-] H. contradiction H. reflexivity.
  - rewrite rd_eq. destruct (read_parts rds i) as [[es f0]| |] eqn:R.
    + pose proof (read_parts_wf _ _ _ R) as W. destruct f0.
      * intros H NF. destruct (IH _ _ _ H NF) as (es' & W' & ->). exists (es ++ es'). split; [apply Forall_app; split; assumption|].
        rewrite ser_entries_eq, ser_entries_app, app_assoc. reflexivity.
      * intros [= <- <-] _. exists es. split; [exact W|reflexivity].
      * intros [= <- <-] _. exists es. split; [exact W|reflexivity].
    + intros [= <- <-] _. exists []. split; [constructor|]. rewrite app_nil_r. reflexivity.
    + intros [= <- <-] _. exists []. split; [constructor|]. rewrite app_nil_r. reflexivity.
Qed.

(* for ALL inputs: when the command does not succeed, either no output file was created, or the file
   that stays behind is header + complete raw entries without an end marker: every reader reports
   UnexpectedEof on it and the strict recogniser rejects it — it is never mistaken for a result *)
Theorem concat_failure_leaves_no_archive inputs o st : concat_run inputs = (o, st) -> st <> FinOk ->
  (forall out, concat_cmd inputs <> Ok out) /\
  match o with
  | None => True
  | Some f => exists es, Forall wf_entry es /\ f = write_header 0 ++ ArchiveFacts.ser_entries es /\
                         read_parts rds [f] = Ok (es, FinErr UnexpectedEof) /\ wf_archive f = false
  end.
Proof.
  intros H NF. split.
  - intros out. unfold concat_cmd. rewrite H. destruct o, st; try discriminate. contradiction NF. reflexivity.
  - destruct o as [f|]; [|exact I]. unfold concat_run in H. destruct (check_inputs inputs) as [[]| |]; try discriminate H.
    destruct (copy_inputs inputs (write_header 0)) as [f' e] eqn:C. injection H as <- <-.
    destruct (copy_inputs_fail_inv _ _ _ _ C NF) as (es & W & ->). exists es. split; [exact W|]. split; [reflexivity|].
    exact (unterminated_not_an_archive es W).
Qed.

(* and the converse bookkeeping: status Ok = a file = the command's result *)
Lemma concat_run_ok inputs o : concat_run inputs = (o, FinOk) -> exists out, o = Some out /\ concat_cmd inputs = Ok out.
Proof.
  intro H. unfold concat_cmd. rewrite H. unfold concat_run in H. destruct (check_inputs inputs) as [[]| |]; try discriminate H.
  destruct (copy_inputs inputs (write_header 0)) as [f e]. injection H as <- ->. exists f. split; reflexivity.
Qed.

(* ================================================================================================= *)
(* 6. (b) inputs the strict recogniser accepts                                                         *)
(* ================================================================================================= *)
Lemma part_body_chunks idx bs b n : part_body idx bs = SOk (b, n) -> Forall body_chunk b.
Proof.
  intro PB. destruct (part_body_inv _ _ _ _ PB) as (h & t & _ & _ & _ & _ & SC & NM & _).
  assert (Forall (fun c => ty_is c AHED = false) b) as NA.
  { revert PB. unfold part_body. destruct (Wf.part_chunks bs) as [cs|]; cbn [sbind]; [|discriminate].
    destruct cs as [|h' rest]; [discriminate|]. destruct (negb (ahed_ok h')); [discriminate|].
    destruct (negb (of_be (skipn 4 (cdata h')) =? idx)); [discriminate|]. intro BS.
    destruct (body_scan_inv _ _ _ BS) as (F & _). eapply Forall_impl; [|exact F]. intros c Hc. apply Hc. }
  rewrite Forall_forall in *. intros c Hc. destruct (NM c Hc) as (N1 & N2).
  split; [exact (SC c Hc)|]. split; [exact N2|]. split; [exact (NA c Hc)|exact N1].
Qed.

Lemma bodies_body_chunks : forall parts idx cs, bodies idx parts = SOk cs -> Forall body_chunk cs.
Proof.
  induction parts as [|p ps IH]; intros idx cs; [discriminate|]. rewrite bodies_cons.
  destruct (part_body idx p) as [[b n]|] eqn:PB; cbn [sbind]; [|discriminate].
  pose proof (part_body_chunks _ _ _ _ PB) as Bb. destruct ps as [|p2 ps].
  - destruct n; [discriminate|]. intros [= <-]. exact Bb.
  - destruct n; [|discriminate]. destruct (bodies (idx + 1) (p2 :: ps)) as [r|] eqn:BR; cbn [sbind]; [|discriminate].
    intros [= <-]. apply Forall_app. split; [exact Bb|exact (IH _ _ BR)].
Qed.

(* an accepted part chain: its body chunks (everything between the header and the ANXT/AEND markers of every
   part, in order) are a sequence of delimited entries, and the reader delivers exactly these *)
Lemma strict_reads parts xs : strict_parts parts = SOk xs ->
  exists groups, bodies 0 parts = SOk (concat groups) /\ Forall2 group_of groups xs /\ reads parts groups /\
                 Forall body_chunk (concat groups).
Proof.
  unfold strict_parts. destruct (bodies 0 parts) as [cs|] eqn:B; cbn [sbind]; [|discriminate]. intro E.
  destruct (entries_sm_groups cs None xs E) as (groups & -> & F).
  exists groups. split; [reflexivity|]. split; [exact F|]. split; [|exact (bodies_body_chunks _ _ _ B)].
  destruct parts as [|p parts]; [discriminate|].
  destruct (chain_agree parts p 0 _ [] B) as (s & OA & _ & _ & RP).
  unfold reads, read_parts. rewrite OA. cbn [bind]. rewrite RP, (cut_groups _ _ F). reflexivity.
Qed.

Lemma Forall2_app_concat {A B} (R : A -> B -> Prop) a b c d : Forall2 R a b -> Forall2 R c d -> Forall2 R (a ++ c) (b ++ d).
Proof. induction 1; intros; [assumption|]. cbn [app]. constructor; auto. Qed.

Lemma strict_inputs inputs xss : Forall2 (fun i xs => strict_parts i = SOk xs) inputs xss ->
  exists ess, Forall2 reads inputs ess /\ Forall2 group_of (concat ess) (concat xss) /\
              Forall body_chunk (concat (concat ess)) /\
              Forall2 (fun i es => bodies 0 i = SOk (concat es)) inputs ess.
Proof.
  induction 1 as [|i xs inputs xss S _ (ess & F & G & B & BO)].
  - exists []. repeat split; constructor.
  - destruct (strict_reads _ _ S) as (groups & B0 & G0 & R0 & C0). exists (groups :: ess).
    split; [constructor; assumption|]. cbn [concat]. split; [apply Forall2_app_concat; assumption|].
    split; [rewrite concat_app; apply Forall_app; split; assumption|constructor; assumption].
Qed.

(* concat_wf: the result of concatenating accepted archives (single files or part chains) is accepted, and
   its strictly decoded entries are the concatenation of the inputs' strictly decoded entries *)
Theorem concat_wf inputs xss : Forall2 (fun i xs => strict_parts i = SOk xs) inputs xss ->
  exists out, concat_cmd inputs = Ok out /\ strict_parts [out] = SOk (concat xss) /\
              wf_archive out = true /\ strict_decode out = Ok (concat xss).
Proof.
  intro H. destruct (strict_inputs _ _ H) as (ess & F & G & B & _).
  exists (write_raw_archive 0 (concat ess)). split; [exact (concat_ok _ _ F)|].
  assert (strict_parts [write_raw_archive 0 (concat ess)] = SOk (concat xss)) as S.
  { unfold strict_parts. cbn [bodies]. rewrite part_body_written by (reflexivity || exact B). cbn [sbind].
    exact (entries_of_groups _ _ G). }
  split; [exact S|]. unfold wf_archive, wf_parts, strict_decode. rewrite S. split; reflexivity.
Qed.

Corollary concat_wf_bool inputs : Forall (fun i => wf_parts i = true) inputs ->
  exists out, concat_cmd inputs = Ok out /\ wf_archive out = true.
Proof.
  intro H. assert (exists xss, Forall2 (fun i xs => strict_parts i = SOk xs) inputs xss) as (xss & F).
  { induction H as [|i inputs Hi _ (xss & F)]; [exists []; constructor|].
    unfold wf_parts in Hi. destruct (strict_parts i) as [xs|] eqn:S; [|discriminate]. exists (xs :: xss). constructor; assumption. }
  destruct (concat_wf _ _ F) as (out & C & _ & W & _). exists out. split; assumption.
Qed.

(* C13 on accepted inputs, at chunk level: the output is header 0, then EVERY chunk that stands between the header
   and the ANXT/AEND markers of every part of every argument, in order, then the end marker: no chunk is dropped,
   whatever its type *)
Theorem concat_keeps_every_chunk inputs xss : Forall2 (fun i xs => strict_parts i = SOk xs) inputs xss ->
  exists css, Forall2 (fun i cs => bodies 0 i = SOk cs) inputs css /\
              concat_cmd inputs = Ok (write_header 0 ++ ser_chunks (concat css) ++ finalize).
Proof.
  intro H. destruct (strict_inputs _ _ H) as (ess & F & _ & _ & BO).
  exists (map (@concat chunk) ess). split.
  - clear -BO. induction BO; [constructor|]. cbn [map]. constructor; assumption.
  - rewrite (concat_ok _ _ F), write_raw_archive_eq, ser_entries_concat.
    replace (concat (map (@concat chunk) ess)) with (concat (concat ess)); [reflexivity|].
    clear. induction ess as [|e ess IH]; [reflexivity|]. cbn [concat map]. rewrite concat_app, IH. reflexivity.
Qed.

(* ================================================================================================= *)
(* 7. (c) one archive: the exact copy, and split followed by concat                                   *)
(* ================================================================================================= *)
Lemma body_scan_last_inv : forall cs b, body_scan cs = SOk (b, false) -> exists e, cs = b ++ [e] /\ cdata e = [].
Proof.
  induction cs as [|c rest IH]; intros b; cbn [body_scan]; [discriminate|]. destruct rest as [|e rest'].
  - destruct (cdata c) eqn:D; cbn [Wf.is_nil]; [|discriminate]. intros [= <-]. exists c. split; [reflexivity|exact D].
  - destruct (ty_is c AHED); [discriminate|]. destruct (ty_is c ANXT).
    + destruct rest'; cbn [Wf.is_nil negb]; [|discriminate]. destruct (negb (Wf.is_nil (cdata c))); [discriminate|].
      destruct (negb (Wf.is_nil (cdata e))); discriminate.
    + destruct (body_scan (e :: rest')) as [[b' n']|] eqn:BS; cbn [sbind]; [|discriminate]. intros [= <- ->].
      destruct (IH _ eq_refl) as (e' & -> & D). exists e'. split; [reflexivity|exact D].
Qed.

Lemma ahed_ok_zero h : ahed_ok h = true -> of_be (skipn 4 (cdata h)) = 0 -> h = hdr_chunk 0.
Proof.
  unfold ahed_ok. intros A Z. apply andb_prop in A. destruct A as (T & A). apply ty_is_eq in T.
  destruct h as [ty d]. cbn [cty cdata] in *. subst ty.
  destruct d as [|a [|b [|r1 [|r2 [|b4 [|b5 [|b6 [|b7 [|]]]]]]]]]; try discriminate.
  apply andb_prop in A. destruct A as (A & Z3). apply andb_prop in A. destruct A as (A & Z2).
  apply andb_prop in A. destruct A as (Z0 & Z1). apply N.eqb_eq in Z0, Z1, Z2, Z3.
  cbn [skipn] in Z. pose proof (be_of_be [b4; b5; b6; b7]) as BE. rewrite Z in BE. cbn [length] in BE.
  rewrite (b2n_inj a x00 Z0), (b2n_inj b x00 Z1), (b2n_inj r1 x00 Z2), (b2n_inj r2 x00 Z3), <- BE. reflexivity.
Qed.

(* a single file the strict recogniser accepts is, byte for byte, what the model writer writes for the
   raw entries the reader finds in it *)
Lemma strict_single_written a xs : strict_parts [a] = SOk xs ->
  exists groups, a = write_raw_archive 0 groups /\ Forall2 group_of groups xs /\ reads [a] groups /\
                 Forall body_chunk (concat groups).
Proof.
  intro S. destruct (strict_reads _ _ S) as (groups & B & G & R & C). exists groups. split; [|auto].
  cbn [bodies] in B. destruct (part_body 0 a) as [[b n]|] eqn:PB; cbn [sbind] in B; [|discriminate].
  destruct n; [discriminate|]. injection B as ->.
  unfold part_body in PB. destruct (Wf.part_chunks a) as [cs|] eqn:PC; cbn [sbind] in PB; [|discriminate].
  destruct (part_chunks_inv _ _ PC) as (init & e0 & E & AE & _ & _ & ->).
  destruct cs as [|h rest]; [discriminate|]. destruct (negb (ahed_ok h)) eqn:AO; [discriminate|]. apply negb_false_iff in AO.
  destruct (negb (of_be (skipn 4 (cdata h)) =? 0)) eqn:NB; [discriminate|]. apply negb_false_iff, N.eqb_eq in NB.
  destruct (body_scan_last_inv _ _ PB) as (e & -> & D).
  change (h :: concat groups ++ [e]) with ((h :: concat groups) ++ [e]) in E. apply app_inj_tail in E. destruct E as (_ & <-).
  apply ty_is_eq in AE. destruct e as [ty d]. cbn [cty cdata] in *. subst ty d.
  rewrite (ahed_ok_zero h AO NB). rewrite write_raw_archive_chunks. reflexivity.
Qed.

(* the exact copy: `pna concat out a` reproduces an accepted single-file archive byte for byte *)
Theorem concat_single_exact a : wf_archive a = true -> concat_cmd [[a]] = Ok a.
Proof.
  unfold wf_archive, wf_parts. destruct (strict_parts [a]) as [xs|] eqn:S; [|discriminate]. intros _.
  destruct (strict_single_written _ _ S) as (groups & E & _ & R & _).
  rewrite (concat_ok [[a]] [groups]) by (constructor; [exact R|constructor]). cbn [concat]. rewrite app_nil_r, <- E. reflexivity.
Qed.

(* ... and so it does for everything the chunk-level model writer writes with number 0, whatever the chunk
   types (only the archive markers are excluded from entries); another part number is replaced by 0 *)
Theorem concat_written_exact num es : num < 2 ^ 32 -> Forall wf_entry es ->
  concat_cmd [[write_raw_archive num es]] = Ok (write_raw_archive 0 es).
Proof.
  intros N W. rewrite (concat_ok [[write_raw_archive num es]] [es]); [cbn [concat]; rewrite app_nil_r; reflexivity|].
  constructor; [|constructor]. unfold reads. rewrite <- single_part_is_archive.
  exact (chain_read_entries es [] (concat es) num W (app_nil_r _) ltac:(change (len (@nil (list chunk))) with 0; lia)).
Qed.

(* any distribution of the chunk stream of well-formed entries over part files (cuts between chunks) is
   concatenated back to the single archive *)
Theorem concat_chain_exact es pre b n0 : Forall wf_entry es -> concat (pre ++ [b]) = concat es -> n0 + len pre < 2 ^ 32 ->
  concat_cmd [chain n0 (pre ++ [b])] = Ok (write_raw_archive 0 es).
Proof.
  intros W E N. rewrite (concat_ok [chain n0 (pre ++ [b])] [es]); [cbn [concat]; rewrite app_nil_r; reflexivity|].
  constructor; [|constructor]. exact (chain_read_entries es pre b n0 W E N).
Qed.

Lemma Forall2_single {A B} (R : A -> B -> Prop) a l : Forall2 R [a] l -> exists b, l = [b] /\ R a b.
Proof. intro H. inversion H as [|? b ? l' Rab F']; subst. inversion F'; subst. exists b. split; [reflexivity|exact Rab]. Qed.

Lemma map_to_of_concat groups : map to_c (concat (map (map of_c) groups)) = concat groups.
Proof. induction groups as [|g groups IH]; [reflexivity|]. cbn [map concat]. rewrite map_app, map_to_of_c, IH. reflexivity. Qed.

Lemma raw_entries_inv bs r : raw_entries rds bs = Ok r ->
  exists s, open_archive rds [] bs = Ok s /\ raw_entries_loop rds (S (length bs)) s = r.
Proof.
  unfold raw_entries. destruct (open_archive rds [] bs) as [s| |]; cbn [bind]; try discriminate.
  intro H. exists s. split; [reflexivity|congruence].
Qed.

(* what split_cmd does on an accepted part chain (a single file or the parts of a multipart archive): the chain is
   read to its end, the raw entries — an entry straddling a part boundary reassembled — go through the splitter *)
Lemma split_cmd_strict chain max xs : strict_parts chain = SOk xs ->
  exists groups, bodies 0 chain = SOk (concat groups) /\ Forall2 group_of groups xs /\ Forall body_chunk (concat groups) /\
    reads chain groups /\
    split_cmd max chain = (do sp <- Split.write_split max (map (map of_c) groups); Ok (map ser_pfile sp)).
Proof.
  intro S. destruct (strict_reads _ _ S) as (groups & B & G & R & C). exists groups.
  split; [exact B|]. split; [exact G|]. split; [exact C|]. split; [exact R|].
  unfold split_cmd. rewrite rd_eq. unfold reads in R. rewrite R. cbn [bind].
  rewrite c_of_eq. destruct (Split.write_split max (map (map of_c) groups)); reflexivity.
Qed.

(* cutting data chunks twice is cutting them *)
Lemma crefines_trans : forall y z, crefines y z -> forall x, crefines x y -> crefines x z.
Proof.
  induction 1 as [|c y z _ IH|t a b y z T _ IH]; intros x H.
  - inversion H; subst. constructor.
  - inversion H as [|c0 x' y0 H'|t0 a0 b0 x' y0 T0 H']; subst.
    + apply cr_keep. exact (IH _ H').
    + apply cr_cut; [exact T0|]. exact (IH _ H').
  - inversion H; subst.
    + apply cr_cut; [exact T|]. apply IH. apply cr_keep. assumption.
    + rewrite <- app_assoc. apply cr_cut; [exact T|]. apply IH. apply cr_cut; [exact T|assumption].
Qed.

Lemma entry_same_trans' x y z : entry_same x y -> entry_same y z -> entry_same x z.
Proof.
  destruct x, y, z; cbn; try contradiction.
  - intros (A1 & A2 & A3 & A4 & A5 & A6) (B1 & B2 & B3 & B4 & B5 & B6). repeat split; congruence.
  - intros (A1 & A2 & A3 & A4) (B1 & B2 & B3 & B4). repeat split; congruence.
Qed.
Lemma Forall2_entry_same_trans : forall xs ys, Forall2 entry_same xs ys -> forall zs, Forall2 entry_same ys zs -> Forall2 entry_same xs zs.
Proof.
  induction 1 as [|x y xs ys H _ IH]; intros zs F; inversion F; subst; constructor.
  - exact (entry_same_trans' _ _ _ H ltac:(eassumption)).
  - apply IH. assumption.
Qed.

(* concat_split_inverse, for every accepted input CHAIN (f4d9f833: `pna split` follows the parts of its input): split
   with any size the splitter accepts, concatenate the parts: the parts form an accepted chain, the result is an
   accepted archive, its chunk sequence is the chunk sequence of the input chain (everything between the headers and the
   ANXT/AEND markers of all its parts, in order) with some FDAT/SDAT payloads cut in pieces and nothing else changed,
   and both decode to the same entries: no entry is dropped, none is truncated at a part boundary *)
Theorem concat_split_inverse_chain chain max parts xs : strict_parts chain = SOk xs -> split_cmd max chain = Ok parts ->
  exists cs cs' b xs',
    bodies 0 chain = SOk cs /\
    bodies 0 parts = SOk cs' /\ crefines cs cs' /\
    concat_cmd [parts] = Ok b /\ b = write_header 0 ++ ser_chunks cs' ++ finalize /\
    strict_parts parts = SOk xs' /\ strict_parts [b] = SOk xs' /\ Forall2 entry_same xs xs'.
Proof.
  intros S H. destruct (split_cmd_strict chain max xs S) as (groups & E & G & C & _ & SC). rewrite SC in H.
  destruct (Split.write_split max (map (map of_c) groups)) as [sp| |] eqn:WS; cbn [bind] in H; try discriminate H.
  injection H as <-.
  destruct (split_wf_chunks max _ sp xs WS) as (xs' & S' & ES).
  { rewrite map_to_of_concat. exact C. }
  { rewrite map_to_of_concat. exact (entries_of_groups _ _ G). }
  destruct (write_split_refines _ _ _ WS) as (bds & lastb & EP & L & CR). rewrite map_to_of_concat in CR.
  assert (bodies 0 (map ser_pfile sp) = SOk (map to_c (concat bds ++ lastb))) as BO.
  { rewrite EP. unfold SplitFacts.assemble. pose proof (bodies_assemble bds 0 lastb) as BA. rewrite N.add_0_l in BA.
    apply BA; [lia|]. exact (crefines_body_chunks _ _ CR C). }
  destruct (concat_keeps_every_chunk [map ser_pfile sp] [xs']) as (css & FB & CC); [constructor; [exact S'|constructor]|].
  destruct (Forall2_single _ _ _ FB) as (cs1 & -> & B1). rewrite BO in B1. injection B1 as <-.
  cbn [concat] in CC. rewrite app_nil_r in CC.
  destruct (concat_wf [map ser_pfile sp] [xs']) as (out & CO & SO & _); [constructor; [exact S'|constructor]|].
  rewrite CC in CO. injection CO as <-. cbn [concat] in SO. rewrite app_nil_r in SO.
  exists (concat groups), (map to_c (concat bds ++ lastb)), (write_header 0 ++ ser_chunks (map to_c (concat bds ++ lastb)) ++ finalize), xs'.
  split; [exact E|].
  split; [exact BO|]. split; [exact CR|]. split; [exact CC|]. split; [reflexivity|]. split; [exact S'|]. split; [exact SO|exact ES].
Qed.

(* the single-file case, with the file spelled out *)
Theorem concat_split_inverse a max parts xs : strict_parts [a] = SOk xs -> split_cmd max [a] = Ok parts ->
  exists cs cs' b xs',
    a = write_header 0 ++ ser_chunks cs ++ finalize /\
    bodies 0 parts = SOk cs' /\ crefines cs cs' /\
    concat_cmd [parts] = Ok b /\ b = write_header 0 ++ ser_chunks cs' ++ finalize /\
    strict_parts parts = SOk xs' /\ strict_parts [b] = SOk xs' /\ Forall2 entry_same xs xs'.
Proof.
  intros S H. destruct (concat_split_inverse_chain [a] max parts xs S H) as (cs & cs' & b & xs' & B & R).
  exists cs, cs', b, xs'. split; [|exact R].
  destruct (strict_single_written _ _ S) as (groups & E & _ & _ & _).
  destruct (strict_reads _ _ S) as (groups' & B' & _ & R' & _).
  destruct (split_cmd_strict [a] max xs S) as (g2 & B2 & _). rewrite B in B2. injection B2 as ->.
  (* the groups of strict_single_written are the reader's *)
  destruct (strict_single_written _ _ S) as (g3 & E3 & _ & R3 & _).
  destruct (strict_reads _ _ S) as (g4 & B4 & _ & R4 & _). unfold reads in R3, R4. rewrite R3 in R4. injection R4 as <-.
  rewrite B in B4. injection B4 as ->.
  rewrite E3 at 1. rewrite write_raw_archive_eq, ser_entries_concat. reflexivity.
Qed.

(* RE-SPLITTING loses nothing: the chain `pna split --max-size max1` wrote, given to `pna split --max-size max2`
   (the command names its first part and follows the chain), yields parts that form an accepted chain whose chunk
   sequence is the ORIGINAL's with some FDAT/SDAT payloads cut in pieces, and that decode to the original's entries *)
Theorem resplit_inverse chain max1 max2 parts1 parts2 xs :
  strict_parts chain = SOk xs -> split_cmd max1 chain = Ok parts1 -> split_cmd max2 parts1 = Ok parts2 ->
  exists cs cs2 b xs2,
    bodies 0 chain = SOk cs /\
    bodies 0 parts2 = SOk cs2 /\ crefines cs cs2 /\
    concat_cmd [parts2] = Ok b /\ b = write_header 0 ++ ser_chunks cs2 ++ finalize /\
    strict_parts parts2 = SOk xs2 /\ strict_parts [b] = SOk xs2 /\ Forall2 entry_same xs xs2.
Proof.
  intros S H1 H2.
  destruct (concat_split_inverse_chain chain max1 parts1 xs S H1) as (cs & cs1 & b1 & xs1 & B & B1 & CR1 & _ & _ & S1 & _ & ES1).
  destruct (concat_split_inverse_chain parts1 max2 parts2 xs1 S1 H2) as (cs1' & cs2 & b & xs2 & B1' & B2 & CR2 & CC & Eb & S2 & SB & ES2).
  rewrite B1 in B1'. injection B1' as <-.
  exists cs, cs2, b, xs2. split; [exact B|]. split; [exact B2|]. split; [exact (crefines_trans _ _ CR2 _ CR1)|].
  split; [exact CC|]. split; [exact Eb|]. split; [exact S2|]. split; [exact SB|]. exact (Forall2_entry_same_trans _ _ ES1 _ ES2).
Qed.

(* the same through the composed command of the model, with the verdicts of the recogniser, for every accepted chain *)
Corollary splitcat_wf_chain chain max parts b : wf_parts chain = true -> splitcat max chain = Ok (parts, b) ->
  wf_parts parts = true /\ wf_archive b = true /\
  exists xs xs', strict_parts chain = SOk xs /\ strict_decode b = Ok xs' /\ Forall2 entry_same xs xs'.
Proof.
  unfold wf_parts at 1. destruct (strict_parts chain) as [xs|] eqn:S; [|discriminate]. intros _.
  unfold splitcat. destruct (split_cmd max chain) as [ps| |] eqn:SP; cbn [bind]; try discriminate.
  destruct (concat_split_inverse_chain chain max ps xs S SP) as (cs & cs' & b' & xs' & _ & _ & _ & CC & _ & SP' & SB & ES).
  rewrite CC. cbn [bind]. intros [= <- <-].
  unfold wf_parts, wf_archive, wf_parts, strict_decode. rewrite SP', SB. repeat split. exists xs, xs'. repeat split. exact ES.
Qed.
Corollary splitcat_wf a max parts b : wf_archive a = true -> splitcat max [a] = Ok (parts, b) ->
  wf_parts parts = true /\ wf_archive b = true /\
  exists xs xs', strict_decode a = Ok xs /\ strict_decode b = Ok xs' /\ Forall2 entry_same xs xs'.
Proof.
  intros W H. destruct (splitcat_wf_chain [a] max parts b W H) as (W1 & W2 & xs & xs' & S & D & ES).
  split; [exact W1|]. split; [exact W2|]. exists xs, xs'. split; [unfold strict_decode; rewrite S; reflexivity|]. split; assumption.
Qed.

(* ================================================================================================= *)
(* 8. the premises are satisfiable; concrete runs                                                     *)
(* ================================================================================================= *)
Definition ex_a : bytes := write_raw_archive 0 (map ser_entry [RNormal ex_plain; RNormal ex_enc; RSolid ex_solid]).

Example ex_a_strict : strict_parts [ex_a] = SOk (map normalize_entry [RNormal ex_plain; RNormal ex_enc; RSolid ex_solid]).
Proof. exact (writer_strict _ ex_writable). Qed.

(* split at 120 bytes (12 parts), concatenate: accepted, 72 bytes longer than the original (six cuts), and the
   exact copy of the original through concat alone *)
Definition ex_split : res (list bytes) := Eval vm_compute in split_cmd 120 [ex_a].
Definition ex_parts : list bytes := Eval vm_compute in match ex_split with Ok p => p | _ => [] end.
Definition ex_cat : res bytes := Eval vm_compute in concat_cmd [ex_parts].
Definition ex_b : bytes := Eval vm_compute in match ex_cat with Ok b => b | _ => [] end.
Example concat_split_inverse_ex :
  split_cmd 120 [ex_a] = Ok ex_parts /\ length ex_parts = 12%nat /\ forallb (fun p => Nat.leb (length p) 120) ex_parts = true /\
  concat_cmd [ex_parts] = Ok ex_b /\ wf_archive ex_b = true /\ length ex_b = (length ex_a + 72)%nat /\
  concat_cmd [[ex_a]] = Ok ex_a.
Proof.
  split; [vm_compute; reflexivity|]. split; [vm_compute; reflexivity|]. split; [vm_compute; reflexivity|].
  split; [vm_compute; reflexivity|]. split; [vm_compute; reflexivity|]. split; [vm_compute; reflexivity|].
  apply concat_single_exact. unfold wf_archive, wf_parts. rewrite ex_a_strict. reflexivity.
Qed.

(* two arguments, the second a three-part chain with an entry straddling both boundaries; the first has
   part number 7: five entries, number 0 *)
Example concat_two_ex : concat_cmd [[ex_arch]; exp_chain] = Ok (write_raw_archive 0 [ex_e1; ex_e2; exp_e1; exp_e2; exp_e3]).
Proof.
  apply (concat_ok [[ex_arch]; exp_chain] [[ex_e1; ex_e2]; [exp_e1; exp_e2; exp_e3]]).
  constructor; [|constructor; [exact exp_read|constructor]].
  unfold reads, ex_arch. rewrite <- single_part_is_archive.
  exact (chain_read_entries _ [] _ 7 ex_wf (app_nil_r _) ltac:(vm_compute; reflexivity)).
Qed.

(* the last part of the chain is missing / the second part is skipped / the chain is entered at part 2 whose
   successor by name is part 2 itself: an error, and a file with the entries copied so far and no end marker *)
Example concat_errors_ex :
  concat_run [[ex_arch]; firstn 2 exp_chain] = (Some (write_header 0 ++ ser_entries [ex_e1; ex_e2; exp_e1]), FinErr NotFound) /\
  concat_cmd [[ex_arch]; [nth 0 exp_chain []; nth 2 exp_chain []]] = Err InvalidData /\
  concat_cmd [[nth 1 exp_chain []; nth 1 exp_chain []; nth 2 exp_chain []]] = Err InvalidData /\
  concat_cmd [[ex_arch]; []] = Err NotFound /\
  concat_run [[ex_arch]; [lit "not a pna file"]] = (None, FinErr InvalidData) /\
  concat_run [[ex_arch]; [firstn 100 ex_arch]] = (Some (write_header 0 ++ ser_entries [ex_e1; ex_e2; ex_e1]), FinErr UnexpectedEof).
Proof. vm_compute. repeat split. Qed.

(* outside the format (the strict recogniser rejects both inputs), recorded because the command accepts them:
   chunks that follow the last entry terminator — an entry never closed, or an unknown chunk at archive level —
   are dropped without an error, and whatever follows AEND is never read; an unknown chunk standing between two
   entries is kept, as the first chunk of the raw entry that follows it *)
Example concat_tolerant_reader_ex :
  let u := mk (T "abCd") [x01] in
  concat_cmd [[write_header 0 ++ ser_chunks (ex_e1 ++ [u]) ++ finalize ++ lit "anything"]] = Ok (write_raw_archive 0 [ex_e1]) /\
  wf_archive (write_header 0 ++ ser_chunks (ex_e1 ++ [u]) ++ finalize) = false /\
  concat_cmd [[write_header 0 ++ ser_chunks (ex_e1 ++ [u] ++ ex_e2) ++ finalize]] = Ok (write_raw_archive 0 [ex_e1; u :: ex_e2]).
Proof. vm_compute. repeat split. Qed.

(* ---- `pna split` as it was before f4d9f833 (split_cmd_orig: one file, no part chaining) ------------------------ *)
(* a two-part chain holding ONE entry that straddles the part boundary *)
Definition sp_b0 : list chunk := [mk FHED (lit "b"); mk FDAT [x04]].
Definition sp_b1 : list chunk := [mk FDAT [x05; x06]; mk FEND []].
Definition sp_chain : list bytes := chain 0 [sp_b0; sp_b1].
Definition sp_e : list chunk := sp_b0 ++ sp_b1.
(* `pna split <part 1>`: the old command succeeds and writes an archive without any entry (the chunks of the entry open
   at the AEND of part 1 are dropped, the ANXT marker is ignored); the repaired one follows the chain and writes the entry *)
Lemma split_part1_unrepaired :
  read_parts rds sp_chain = Ok ([sp_e], FinOk) /\
  (exists p, split_cmd_orig 1000 (nth 0 sp_chain []) = Ok [p] /\ read_parts rds [p] = Ok ([], FinOk)) /\
  (exists p, split_cmd 1000 sp_chain = Ok [p] /\ read_parts rds [p] = Ok ([sp_e], FinOk)).
Proof.
  split; [vm_compute; reflexivity|]. split; eexists; (split; [vm_compute; reflexivity|vm_compute; reflexivity]).
Qed.
(* part 2 alone (`pna split x.part2.pna`): with_part(2) of that name is the file itself, so the chain the command can
   reach is part 2 twice; part 2 is the last one here (no successor announced): its chunks, a headless entry, are
   copied — the number of the first file opened is not checked.  A missing successor is NotFound, a wrongly numbered
   one InvalidData, a size below the minimum InvalidInput before any entry is pulled *)
Example split_chain_errors_ex :
  split_cmd 1000 [nth 0 sp_chain []] = Err NotFound /\
  split_cmd 1000 [nth 0 sp_chain []; nth 0 sp_chain []] = Err InvalidData /\
  split_cmd 1000 [] = Err NotFound /\
  split_cmd 10 [nth 0 sp_chain []] = Err InvalidInput /\
  (exists p, split_cmd 1000 [nth 1 sp_chain []; nth 1 sp_chain []] = Ok [p] /\ read_parts rds [p] = Ok ([sp_b1], FinOk)) /\
  split_cmd 1000 [nth 0 exp_chain []; nth 2 exp_chain []] = Err InvalidData /\
  split_cmd 1000 [nth 1 exp_chain []; nth 1 exp_chain []; nth 2 exp_chain []] = Err InvalidData.
Proof.
  split; [vm_compute; reflexivity|]. split; [vm_compute; reflexivity|]. split; [vm_compute; reflexivity|].
  split; [vm_compute; reflexivity|]. split; [eexists; split; [vm_compute; reflexivity|vm_compute; reflexivity]|].
  split; vm_compute; reflexivity.
Qed.

(* re-splitting the 12 parts of ex_a (120 bytes each) at 200 bytes, and then concatenating: an accepted archive with the
   three entries of ex_a; the old command on part 1 alone wrote an archive with no entry at all *)
Definition ex_split2 : res (list bytes) := Eval vm_compute in split_cmd 200 ex_parts.
Definition ex_parts2 : list bytes := Eval vm_compute in match ex_split2 with Ok p => p | _ => [] end.
Definition ex_cat2 : res bytes := Eval vm_compute in concat_cmd [ex_parts2].
Definition ex_b2 : bytes := Eval vm_compute in match ex_cat2 with Ok b => b | _ => [] end.
Example resplit_ex :
  wf_parts ex_parts = true /\
  split_cmd 200 ex_parts = Ok ex_parts2 /\ (1 < length ex_parts2 < 12)%nat /\ forallb (fun p => Nat.leb (length p) 200) ex_parts2 = true /\
  wf_parts ex_parts2 = true /\ concat_cmd [ex_parts2] = Ok ex_b2 /\ wf_archive ex_b2 = true /\
  (exists xs xs', strict_decode ex_a = Ok xs /\ strict_decode ex_b2 = Ok xs' /\ length xs = 3%nat /\ Forall2 entry_same xs xs') /\
  (exists p, split_cmd_orig 200 (nth 0 ex_parts []) = Ok [p] /\ read_parts rds [p] = Ok ([], FinOk)).
Proof.
  assert (S1 : split_cmd 120 [ex_a] = Ok ex_parts) by (vm_compute; reflexivity).
  assert (S2 : split_cmd 200 ex_parts = Ok ex_parts2) by (vm_compute; reflexivity).
  destruct (resplit_inverse [ex_a] 120 200 ex_parts ex_parts2 _ ex_a_strict S1 S2) as (cs & cs2 & b & xs2 & _ & _ & _ & CC & _ & SP & SB & ES).
  assert (CB : concat_cmd [ex_parts2] = Ok ex_b2) by (vm_compute; reflexivity).
  rewrite CB in CC. injection CC as <-.
  destruct (concat_split_inverse_chain [ex_a] 120 ex_parts _ ex_a_strict S1) as (_ & _ & _ & xs1 & _ & _ & _ & _ & _ & SP1 & _).
  split; [unfold wf_parts; rewrite SP1; reflexivity|]. split; [exact S2|]. split; [vm_compute; split; repeat constructor|].
  split; [vm_compute; reflexivity|]. split; [unfold wf_parts; rewrite SP; reflexivity|]. split; [exact CB|].
  split; [unfold wf_archive, wf_parts; rewrite SB; reflexivity|].
  split; [|eexists; split; [vm_compute; reflexivity|vm_compute; reflexivity]].
  eexists _, xs2. split; [unfold strict_decode; rewrite ex_a_strict; reflexivity|].
  split; [unfold strict_decode; rewrite SB; reflexivity|]. split; [reflexivity|exact ES].
Qed.
