(* AtomicContainerFacts.v — C12 at the container level: "a command that fails part-way leaves the archive intact",
   for the commands as they exist at byte level (Proofs/AppendContainerFacts.v: append_at; Proofs/UpdateContainerFacts.v:
   delete = WfTransformFacts.run_edit ... CDelete, update_bytes; Proofs/EditContainerFacts.v: the other run_edit commands).

   1. a file system with bytes (path -> bytes) and the two ways the CLI changes an archive file:
        rewrite (cli/src/command/commons.rs run_transform_entry: delete, update, chmod, chown, xattr, acl, strip,
                 migrate): create `<random>.pna.tmp` in TMPDIR, write the output there entry by entry, finalize,
                 rename it over the target.  The byte-level command is a function f : bytes -> res bytes of the
                 input archive's bytes; an Err of f is a `?` in front of the rename: the command returns with the
                 temporary file holding what had been written so far (`partial`: header, the entries before the
                 failing one — any bytes, the theorems quantify over it) and nothing else touched;
        append  (append.rs after fix db651618): open, read_header, seek_to_end, THEN build every new entry, THEN
                 add_entry* and finalize in place (ArchiveRun.overwrite: the file is never truncated).
      rewrite_fail / rewrite_ok, append_fail / append_ok: Err (ANY kind: a solid block that cannot be opened, an entry
      the reader rejects, an input that cannot be built) => the target's bytes and every other pre-existing path are
      unchanged; the temporary file of a rewriting command REMAINS (the CLI does not remove it; props/C12.py
      observes and reports it) and is the only path that may differ.  Ok b' => the target holds exactly b'.
   2. delete_ok_certifies_blocks / update_ok_certifies_blocks / wrong_password_leaves_file: with SolidEntry::entries as
      repaired by 66ed01cc (Entry.inner_item, Pipeline.decode_solid run to FinOk), a rewriting command succeeds only
      if, for EVERY solid block of the input, what the given password makes of the block's stream is byte for byte
      a sequence of well-formed chunks (DecodeTotalFacts.decode_solid_ok_shape = C07_solid_clean_end_certifies_stream).
      So a wrong password on a stored CTR block (the cipher reader cannot fail, the output is garbage) leaves the
      file untouched UNLESS the garbage is such a sequence.  Before 66ed01cc the garbage was taken for an empty block
      and the rewritten archive silently lost the block's entries (DESIGN 14.9).
   3. the two levels side by side: `refines` reads Update.v's `mkF a true` as "a file whose bytes are accepted and
      abstract (AppendContainerFacts.logical) to a".  A failing run keeps the relation at the target on both levels
      (fail_refines_rewrite / _update / _append); for delete, append and update the successful runs of the two
      levels end in related states (delete_ok_refines, append_ok_refines, update_ok_refines).
   4. examples evaluated in the kernel: delete on an archive with a CTR-encrypted stored solid block, AES-256, a
      key-deriving "KDF" that (like Argon2 / PBKDF2) cannot tell a wrong password.
   stdlib only, no axioms. *)
From PNA Require Import Base Crc32 Name Codec Chunk Archive Entry Flatten Cbc Ctr Pipeline Aes Camellia
  BaseFacts NameFacts CodecFacts Crc32Facts ChunkFacts ArchiveFacts EntryFacts OffsetFacts PartsFacts
  CbcFacts PipelineFacts AesFacts CamelliaFacts CliCodecFacts.
From PNA Require Import Fs Extract CreateTransportFacts AppendContainerFacts.
From PNA Require Import Wf WfFacts WfWriterFacts WfAgreeFacts WfRewriteFacts WfPipelineFacts WfTransformFacts RecutFacts
  UpdateContainerFacts DecodeTotalFacts.
From PNA Require Update UpdateFacts ArchiveRun Transform.
Require Import ZArith ZifyN ZifyNat ZifyBool Lia.
Open Scope N_scope.

(* ================================================================================================= *)
(* 1. a file system with bytes                                                                         *)
(* ================================================================================================= *)
Definition bfs := list (bytes * bytes).                      (* path -> content, first match wins *)

Fixpoint bfile (fs : bfs) (p : bytes) : option bytes :=
  match fs with
  | [] => None
  | (q, b) :: r => if bytes_eqb p q then Some b else bfile r p
  end.
Fixpoint bremove (fs : bfs) (p : bytes) : bfs :=
  match fs with
  | [] => []
  | (q, b) :: r => if bytes_eqb p q then bremove r p else (q, b) :: bremove r p
  end.
Definition bput (fs : bfs) (p : bytes) (b : bytes) : bfs := (p, b) :: bremove fs p.

Inductive beff :=
  | BCreate (p : bytes)                          (* File::create: a new, or truncated, empty file *)
  | BWrite (p : bytes) (d : bytes)               (* write at the end of the file *)
  | BPatch (p : bytes) (pos : nat) (d : bytes)   (* write in place from offset pos on; nothing is truncated *)
  | BMv (src dst : bytes).                       (* utils::fs::mv = rename *)

Definition bapply (fs : bfs) (x : beff) : bfs :=
  match x with
  | BCreate p => bput fs p []
  | BWrite p d => match bfile fs p with Some b => bput fs p (b ++ d) | None => fs end
  | BPatch p pos d => match bfile fs p with Some b => bput fs p (ArchiveRun.overwrite b pos d) | None => fs end
  | BMv s d => match bfile fs s with Some b => bput (bremove fs s) d b | None => fs end
  end.
Definition brun (s : list beff) (fs : bfs) : bfs := fold_left bapply s fs.

Lemma bfile_remove_other fs p q : p <> q -> bfile (bremove fs q) p = bfile fs p.
Proof.
  intro H. induction fs as [|[r f] fs IH]; cbn [bremove bfile]; [reflexivity|].
  destruct (bytes_eqb q r) eqn:E.
  - apply bytes_eqb_eq in E. subst r. rewrite IH. rewrite (bytes_eqb_neq p q H). reflexivity.
  - cbn [bfile]. rewrite IH. reflexivity.
Qed.
Lemma bfile_remove_same fs p : bfile (bremove fs p) p = None.
Proof.
  induction fs as [|[r f] fs IH]; cbn [bremove bfile]; [reflexivity|].
  destruct (bytes_eqb p r) eqn:E; [exact IH|]. cbn [bfile]. rewrite E. exact IH.
Qed.
Lemma bfile_put_same fs p b : bfile (bput fs p b) p = Some b.
Proof. unfold bput. cbn [bfile]. rewrite bytes_eqb_refl. reflexivity. Qed.
Lemma bfile_put_other fs p q b : p <> q -> bfile (bput fs q b) p = bfile fs p.
Proof. intro H. unfold bput. cbn [bfile]. rewrite (bytes_eqb_neq p q H). apply bfile_remove_other. exact H. Qed.

(* ---- the rewriting commands ---------------------------------------------------------------------------------- *)
(* run_transform_entry around a byte-level command f.  `partial`: what the temporary file holds when the command
   returns early.  The temporary file is created before the input is opened. *)
Definition outcome {A} (r : res A) : res unit :=
  match r with Ok _ => Ok tt | Err k => Err k | Panic => Panic end.

Definition rewrite_effects (f : bytes -> res bytes) (partial : bytes) (tmp target : bytes) (input : option bytes) : list beff :=
  BCreate tmp ::
  match input with
  | Some b => match f b with
              | Ok out => [BWrite tmp out; BMv tmp target]
              | _ => [BWrite tmp partial]
              end
  | None => [BWrite tmp partial]
  end.
Definition rewrite_result (f : bytes -> res bytes) (input : option bytes) : res unit :=
  match input with Some b => outcome (f b) | None => Err NotFound end.
Definition rewrite_cmd (f : bytes -> res bytes) (partial : bytes) (tmp target : bytes) (fs : bfs) : bfs * res unit :=
  (brun (rewrite_effects f partial tmp target (bfile fs target)) fs, rewrite_result f (bfile fs target)).

(* FAILURE: every path except the temporary one holds what it held — the target in particular; the temporary
   file remains, holding `partial` *)
Theorem rewrite_fail f partial tmp target fs : tmp <> target ->
  snd (rewrite_cmd f partial tmp target fs) <> Ok tt ->
  bfile (fst (rewrite_cmd f partial tmp target fs)) target = bfile fs target /\
  (forall q, q <> tmp -> bfile (fst (rewrite_cmd f partial tmp target fs)) q = bfile fs q) /\
  bfile (fst (rewrite_cmd f partial tmp target fs)) tmp = Some partial.
Proof.
  intros NE F. unfold rewrite_cmd in *. cbn [fst snd] in *.
  assert (S : rewrite_effects f partial tmp target (bfile fs target) = [BCreate tmp; BWrite tmp partial]).
  { unfold rewrite_effects, rewrite_result in *. destruct (bfile fs target) as [b|]; [|reflexivity].
    destruct (f b) as [out| |]; [exfalso; apply F; reflexivity|reflexivity|reflexivity]. }
  rewrite S. unfold brun. cbn [fold_left bapply]. rewrite bfile_put_same. cbn [app].
  assert (O : forall q, q <> tmp -> bfile (bput (bput fs tmp []) tmp partial) q = bfile fs q).
  { intros q Hq. rewrite !bfile_put_other by exact Hq. reflexivity. }
  split; [apply O; intros E; apply NE; symmetry; exact E|]. split; [exact O|apply bfile_put_same].
Qed.

(* SUCCESS: the target holds exactly the command's output, the temporary file is gone, nothing else changed *)
Theorem rewrite_ok f partial tmp target fs b out : tmp <> target ->
  bfile fs target = Some b -> f b = Ok out ->
  snd (rewrite_cmd f partial tmp target fs) = Ok tt /\
  bfile (fst (rewrite_cmd f partial tmp target fs)) target = Some out /\
  bfile (fst (rewrite_cmd f partial tmp target fs)) tmp = None /\
  (forall q, q <> tmp -> q <> target -> bfile (fst (rewrite_cmd f partial tmp target fs)) q = bfile fs q).
Proof.
  intros NE Hb Hf. unfold rewrite_cmd, rewrite_effects, rewrite_result. rewrite Hb, Hf. cbn [fst snd outcome].
  split; [reflexivity|]. unfold brun. cbn [fold_left bapply]. rewrite bfile_put_same. cbn [app].
  rewrite bfile_put_same.
  split; [apply bfile_put_same|]. split.
  - rewrite bfile_put_other by exact NE. apply bfile_remove_same.
  - intros q Q1 Q2. rewrite bfile_put_other by exact Q2. rewrite bfile_remove_other by exact Q1.
    rewrite !bfile_put_other by exact Q1. reflexivity.
Qed.

(* a command can only end in one of the two ways *)
Lemma rewrite_result_cases f partial tmp target fs :
  (exists b out, bfile fs target = Some b /\ f b = Ok out /\ snd (rewrite_cmd f partial tmp target fs) = Ok tt) \/
  snd (rewrite_cmd f partial tmp target fs) <> Ok tt.
Proof.
  unfold rewrite_cmd, rewrite_result. cbn [snd]. destruct (bfile fs target) as [b|]; [|right; discriminate].
  destruct (f b) as [out| |] eqn:Hf; [left; exists b, out; auto|right; discriminate|right; discriminate].
Qed.

(* ---- append --------------------------------------------------------------------------------------------------- *)
(* where append writes: read_header, seek_to_end *)
Definition append_pos (b : bytes) : res (nat * bool) :=
  do (_, r) <- read_header rds b;
  do (off, nxt) <- seek_loop (S (length r)) r 0 false;
  Ok ((28 + N.to_nat off)%nat, nxt).
Notation new_bytes news := (concat (map (fun e => fst (add_chunks e)) news) ++ finalize).

Lemma append_at_pos b news :
  append_at b news = do (pos, nxt) <- append_pos b; Ok (ArchiveRun.overwrite b pos (new_bytes news), nxt).
Proof.
  unfold append_at, append_pos. destruct (read_header rds b) as [[h r]| |]; cbn [bind]; try reflexivity.
  destruct (seek_loop (S (length r)) r 0 false) as [[off nxt]| |]; reflexivity.
Qed.

(* `built`: create_entry of every input, collected (rx.into_iter().collect::<io::Result<Vec<_>>>()?): the first
   failing input is the result and nothing has been written yet *)
Definition append_cmd (built : res (list (list chunk))) (target : bytes) (fs : bfs) : bfs * res bool :=
  match bfile fs target with
  | None => (fs, Err NotFound)
  | Some b =>
    match append_pos b with
    | Ok (pos, nxt) =>
      match built with
      | Ok news => (brun [BPatch target pos (new_bytes news)] fs, Ok nxt)
      | Err k => (fs, Err k)
      | Panic => (fs, Panic)
      end
    | Err k => (fs, Err k)
    | Panic => (fs, Panic)
    end
  end.

(* FAILURE (no archive, unreadable header, no end marker, an input that cannot be built): the whole file system is
   as it was *)
Theorem append_fail built target fs : (forall nxt, snd (append_cmd built target fs) <> Ok nxt) ->
  fst (append_cmd built target fs) = fs.
Proof.
  unfold append_cmd. destruct (bfile fs target) as [b|]; [|reflexivity].
  destruct (append_pos b) as [[pos nxt]| |]; try reflexivity.
  destruct built as [news| |]; try reflexivity. cbn [snd]. intros H. exfalso. exact (H nxt eq_refl).
Qed.

(* SUCCESS: the target holds exactly the bytes append_at computes, nothing else changed *)
Theorem append_ok built target fs nxt : snd (append_cmd built target fs) = Ok nxt ->
  exists b news b', bfile fs target = Some b /\ built = Ok news /\ append_at b news = Ok (b', nxt) /\
    bfile (fst (append_cmd built target fs)) target = Some b' /\
    forall q, q <> target -> bfile (fst (append_cmd built target fs)) q = bfile fs q.
Proof.
  unfold append_cmd. destruct (bfile fs target) as [b|] eqn:Hb; [|discriminate].
  destruct (append_pos b) as [[pos nx]| |] eqn:Hp; try discriminate.
  destruct built as [news| |]; try discriminate. cbn [fst snd]. intros [= <-].
  exists b, news, (ArchiveRun.overwrite b pos (new_bytes news)).
  split; [reflexivity|]. split; [reflexivity|]. split; [rewrite append_at_pos, Hp; reflexivity|].
  unfold brun. cbn [fold_left bapply]. rewrite Hb.
  split; [apply bfile_put_same|]. intros q Hq. apply bfile_put_other. exact Hq.
Qed.

(* ... and reads back as C11_append_container says: the old raw entries followed by the new ones, for both
   readers, every byte in front of the old end marker unchanged *)
Theorem append_ok_reads_back news target fs b es s : bfile fs target = Some b ->
  raw_entries rds b = Ok (es, FinOk, s) -> r_buf s = [] -> Forall wf_entry news ->
  exists b' pos s',
    snd (append_cmd (Ok news) target fs) = Ok (r_next s) /\
    bfile (fst (append_cmd (Ok news) target fs)) target = Some b' /\
    (forall q, q <> target -> bfile (fst (append_cmd (Ok news) target fs)) q = bfile fs q) /\
    firstn pos b' = firstn pos b /\ (pos + 12 <= length b)%nat /\
    raw_entries rds b' = Ok (es ++ news, FinOk, s') /\ raw_entries read_chunk_slice b' = Ok (es ++ news, FinOk, s') /\
    r_buf s' = [] /\ r_next s' = r_next s.
Proof.
  intros Hb R B W. destruct (append_container b es s news R B W) as (b' & pos & a & tail & s' & AP & _ & _ & L & F & R1 & R2 & B' & N' & _).
  assert (SN : snd (append_cmd (Ok news) target fs) = Ok (r_next s)).
  { unfold append_cmd. rewrite Hb. rewrite append_at_pos in AP.
    destruct (append_pos b) as [[p nx]| |]; cbn [bind] in AP; try discriminate AP. injection AP as _ <-. reflexivity. }
  destruct (append_ok (Ok news) target fs (r_next s) SN) as (b0 & news0 & b1 & Hb0 & [= <-] & AP1 & T & O).
  rewrite Hb in Hb0. injection Hb0 as <-. rewrite AP in AP1. injection AP1 as <-.
  exists b', pos, s'. repeat split; assumption.
Qed.

(* ================================================================================================= *)
(* 2. a rewriting command that succeeds has opened every solid block                                   *)
(* ================================================================================================= *)
Section Opens.
Variable expand : solid_entry -> res (list normal_entry).
Variable rebuild : solid_entry -> list normal_entry -> solid_entry.
Variables hdr_tok content_tok : normal_entry -> bytes.
Variables keep pwb : bool.

Lemma edit_ok_opens_blocks c sl : forall es es', edit_archive hdr_tok content_tok expand rebuild keep pwb c sl es = Ok es' ->
  forall s, In (RSolid s) es -> exists inner, expand s = Ok inner.
Proof.
  induction es as [|x es IH]; intros es' H s Hin; [destruct Hin|]. cbn [edit_archive] in H.
  destruct (edit_item hdr_tok content_tok expand rebuild keep pwb c sl x) as [l| |] eqn:EI; cbn [bind] in H; try discriminate H.
  destruct (edit_archive hdr_tok content_tok expand rebuild keep pwb c sl es) as [r'| |] eqn:EA; cbn [bind] in H; try discriminate H.
  destruct Hin as [->|Hin]; [|exact (IH r' eq_refl s Hin)].
  cbn [edit_item] in EI. destruct (encrypted (s_enc (so_hdr s)) && negb pwb); [discriminate EI|].
  destruct (expand s) as [inner| |]; cbn [bind] in EI; try discriminate EI. exists inner. reflexivity.
Qed.

Lemma flat_ok_opens_blocks : forall es ns, flat expand es = Ok ns ->
  forall s, In (RSolid s) es -> exists inner, expand s = Ok inner.
Proof.
  induction es as [|x es IH]; intros ns H s Hin; [destruct Hin|]. cbn [flat] in H. destruct x as [n|s0].
  - destruct (flat expand es) as [t| |] eqn:Ft; cbn [bind] in H; try discriminate H.
    destruct Hin as [Hx|Hin]; [discriminate Hx|exact (IH t eq_refl s Hin)].
  - destruct (expand s0) as [inner| |] eqn:Ex; cbn [bind] in H; try discriminate H.
    destruct (flat expand es) as [t| |] eqn:Ft; cbn [bind] in H; try discriminate H.
    destruct Hin as [Hx|Hin]; [injection Hx as <-; exists inner; exact Ex|exact (IH t eq_refl s Hin)].
Qed.

(* the command really rewrites: not the "chmod / chown / xattr / acl without a pattern" case, which returns the
   input as it is *)
Definition rewrites (c : Transform.cmd) (nf : N) : Prop := Transform.needs_files c && N.eqb nf 0 = false.

Lemma run_edit_ok_opens_blocks c nf sl b b' es : rewrites c nf -> read_archive b = Ok es ->
  run_edit hdr_tok content_tok expand rebuild keep pwb c nf sl b = Ok b' ->
  forall s, In (RSolid s) es -> exists inner, expand s = Ok inner.
Proof.
  unfold rewrites, run_edit. intros -> RA. change (read_all b) with (read_archive b). rewrite RA. cbn [bind].
  destruct (edit_archive hdr_tok content_tok expand rebuild keep pwb c (Transform.eff_sel c nf sl) es) as [es'| |] eqn:EA; cbn [bind]; try discriminate.
  intros _. exact (edit_ok_opens_blocks c _ es es' EA).
Qed.

Lemma update_ok_opens_blocks excl cond targets news b b' es : read_archive b = Ok es ->
  update_bytes expand rebuild keep pwb excl cond targets news b = Ok b' ->
  forall s, In (RSolid s) es -> exists inner, expand s = Ok inner.
Proof.
  unfold update_bytes. intros RA. rewrite RA. cbn [bind].
  destruct (flat expand es) as [ns| |] eqn:F; cbn [bind]; try discriminate.
  intros _. exact (flat_ok_opens_blocks es ns F).
Qed.
End Opens.

Section Certify.
Variables E D : encryption -> bytes -> bytes -> bytes.
Variable decompress : compression -> bytes -> res bytes.
Variable verify : bytes -> bytes -> res bytes.
(* the password GIVEN TO THE COMMAND: any *)
Variable pw : bytes.
Variable srb : solid_entry -> list N.
Variable rebuild : solid_entry -> list normal_entry -> solid_entry.
Variables hdr_tok content_tok : normal_entry -> bytes.
Variables keep pwb : bool.
Notation expand_p := (expand_p E D decompress verify pw srb).

(* what the password makes of a block's stream is a sequence of well-formed chunks (lengths, types, CRCs) *)
Definition opens_clean (s : solid_entry) : Prop :=
  exists st cs, decode_stream E D decompress verify (s_comp (so_hdr s)) (s_enc (so_hdr s)) (s_mode (so_hdr s))
                  (so_phsf s) pw (so_data s) (srb s) = Ok st /\ st = ser_chunks cs /\ Forall wf_chunk cs.

Lemma expand_ok_clean s inner : expand_p s = Ok inner -> opens_clean s.
Proof.
  unfold UpdateContainerFacts.expand_p.
  destruct (decode_solid E D decompress verify s pw (srb s)) as [[ns f]| |] eqn:DS; cbn [bind]; try discriminate.
  destruct f; try discriminate. intros _. exact (decode_solid_ok_shape E D decompress verify s pw (srb s) ns DS).
Qed.

Theorem delete_ok_certifies_blocks c nf sl b b' es : rewrites c nf -> read_archive b = Ok es ->
  run_edit hdr_tok content_tok expand_p rebuild keep pwb c nf sl b = Ok b' ->
  forall s, In (RSolid s) es -> opens_clean s.
Proof.
  intros RW RA H s Hin.
  destruct (run_edit_ok_opens_blocks expand_p rebuild hdr_tok content_tok keep pwb c nf sl b b' es RW RA H s Hin) as (inner & Ex).
  exact (expand_ok_clean s inner Ex).
Qed.

Theorem update_ok_certifies_blocks excl cond targets news b b' es : read_archive b = Ok es ->
  update_bytes expand_p rebuild keep pwb excl cond targets news b = Ok b' ->
  forall s, In (RSolid s) es -> opens_clean s.
Proof.
  intros RA H s Hin.
  destruct (update_ok_opens_blocks expand_p rebuild keep pwb excl cond targets news b b' es RA H s Hin) as (inner & Ex).
  exact (expand_ok_clean s inner Ex).
Qed.

(* THE COROLLARY (defect fixed by 66ed01cc): the archive holds a solid block s; a rewriting run_edit command (delete,
   chmod, ...) or update is run with password pw.  EITHER what pw makes of the block is a sequence of well-formed
   chunks (the right password; or a wrong one whose garbage happens to be such a sequence), OR the command fails,
   the target's bytes and every other path except the temporary file are unchanged, and the temporary file remains *)
Theorem wrong_password_leaves_file c nf sl partial tmp target fs b es s :
  tmp <> target -> bfile fs target = Some b -> read_archive b = Ok es -> In (RSolid s) es -> rewrites c nf ->
  let r := rewrite_cmd (run_edit hdr_tok content_tok expand_p rebuild keep pwb c nf sl) partial tmp target fs in
  opens_clean s \/
  (snd r <> Ok tt /\ bfile (fst r) target = Some b /\ (forall q, q <> tmp -> bfile (fst r) q = bfile fs q) /\
   bfile (fst r) tmp = Some partial).
Proof.
  intros NE Hb RA Hin RW r.
  destruct (rewrite_result_cases (run_edit hdr_tok content_tok expand_p rebuild keep pwb c nf sl) partial tmp target fs)
    as [(b0 & out & Hb0 & Hf & _)|F].
  - left. rewrite Hb in Hb0. injection Hb0 as <-. exact (delete_ok_certifies_blocks c nf sl b out es RW RA Hf s Hin).
  - right. destruct (rewrite_fail _ partial tmp target fs NE F) as (T & O & P). subst r.
    split; [exact F|]. split; [rewrite T; exact Hb|]. split; [exact O|exact P].
Qed.

Theorem wrong_password_leaves_file_update excl cond targets news partial tmp target fs b es s :
  tmp <> target -> bfile fs target = Some b -> read_archive b = Ok es -> In (RSolid s) es ->
  let r := rewrite_cmd (update_bytes expand_p rebuild keep pwb excl cond targets news) partial tmp target fs in
  opens_clean s \/
  (snd r <> Ok tt /\ bfile (fst r) target = Some b /\ (forall q, q <> tmp -> bfile (fst r) q = bfile fs q) /\
   bfile (fst r) tmp = Some partial).
Proof.
  intros NE Hb RA Hin r.
  destruct (rewrite_result_cases (update_bytes expand_p rebuild keep pwb excl cond targets news) partial tmp target fs)
    as [(b0 & out & Hb0 & Hf & _)|F].
  - left. rewrite Hb in Hb0. injection Hb0 as <-. exact (update_ok_certifies_blocks excl cond targets news b out es RA Hf s Hin).
  - right. destruct (rewrite_fail _ partial tmp target fs NE F) as (T & O & P). subst r.
    split; [exact F|]. split; [rewrite T; exact Hb|]. split; [exact O|exact P].
Qed.
End Certify.

(* ================================================================================================= *)
(* 3. the effect scripts of Model/Update.v (Props/C12.v) and the byte level, side by side              *)
(* ================================================================================================= *)
(* Update.v's file `mkF a true` read as: a file whose bytes are accepted and abstract to a *)
Definition refines (L : bytes -> res Update.archive) (fs : bfs) (afs : Update.fsys) (p : bytes) : Prop :=
  exists b a, bfile fs p = Some b /\ Update.file afs p = Some (Update.mkF a true) /\ L b = Ok a.

Section Fail.
Variable L : bytes -> res Update.archive.

(* a failing run on each level (whatever fails, wherever): the target is related as before *)
Theorem fail_refines_rewrite f partial tmp atmp target fs afs tr a k : tmp <> target -> atmp <> target ->
  refines L fs afs target ->
  snd (rewrite_cmd f partial tmp target fs) <> Ok tt ->
  Update.fails_at (Update.rewrite_script atmp target tr a) k ->
  refines L (fst (rewrite_cmd f partial tmp target fs))
            (Update.run_failing (Update.rewrite_script atmp target tr a) afs k) target.
Proof.
  intros N1 N2 (b & a0 & Hb & Ha & HL) F FA. exists b, a0.
  destruct (rewrite_fail f partial tmp target fs N1 F) as (T & _ & _).
  split; [rewrite T; exact Hb|]. split; [|exact HL].
  rewrite (UpdateFacts.rewrite_atomic target atmp tr a k afs N2 FA). exact Ha.
Qed.

Theorem fail_refines_update f partial tmp atmp target fs afs a kept new k : tmp <> target -> atmp <> target ->
  refines L fs afs target ->
  snd (rewrite_cmd f partial tmp target fs) <> Ok tt ->
  Update.fails_at (Update.update_script atmp target a kept new) k ->
  refines L (fst (rewrite_cmd f partial tmp target fs))
            (Update.run_failing (Update.update_script atmp target a kept new) afs k) target.
Proof.
  intros N1 N2 (b & a0 & Hb & Ha & HL) F FA. exists b, a0.
  destruct (rewrite_fail f partial tmp target fs N1 F) as (T & _ & _).
  split; [rewrite T; exact Hb|]. split; [|exact HL].
  rewrite (UpdateFacts.update_atomic target atmp a kept new k afs N2 FA). exact Ha.
Qed.

Theorem fail_refines_append built target fs afs new k :
  refines L fs afs target ->
  (forall nxt, snd (append_cmd built target fs) <> Ok nxt) ->
  Update.fails_at (Update.append_script target new) k ->
  fst (append_cmd built target fs) = fs /\ Update.run_failing (Update.append_script target new) afs k = afs /\
  refines L (fst (append_cmd built target fs)) (Update.run_failing (Update.append_script target new) afs k) target.
Proof.
  intros R F FA. pose proof (append_fail built target fs F) as E1.
  pose proof (UpdateFacts.append_atomic target new k afs FA) as E2.
  split; [exact E1|]. split; [exact E2|]. rewrite E1, E2. exact R.
Qed.
End Fail.

(* delete as a transformer of Update.v's rewrite_script *)
Definition tr_delete (matched : list bytes) (e : Update.entry) : option Update.entry :=
  if Update.mem (Update.e_path e) matched then None else Some e.
Lemma transformed_delete matched a : Update.transformed (tr_delete matched) a = Update.delete matched a.
Proof.
  unfold Update.transformed, Update.delete, Update.delete_by. induction a as [|e a IH]; [reflexivity|].
  cbn [flat_map filter]. rewrite IH. unfold tr_delete. destruct (Update.mem (Update.e_path e) matched); reflexivity.
Qed.

Section Success.
Variables E D : encryption -> bytes -> bytes -> bytes.
Variable compress : compression -> N -> list bytes -> list bytes.
Variable decompress : compression -> bytes -> res bytes.
Variable verify : bytes -> bytes -> res bytes.
Hypothesis D_len : forall a k c, len16 c -> len16 (D a k c).
Hypothesis DE : forall a k b, len16 b -> D a k (E a k b) = b.
Hypothesis E_len : forall a k b, len16 b -> len16 (E a k b).
Hypothesis compress_law : forall c lvl ws, decompress c (concat (compress c lvl ws)) = Ok (concat ws).
Hypothesis compress_det : forall c lvl (ws ws' : list bytes), concat ws = concat ws' ->
  concat (compress c lvl ws) = concat (compress c lvl ws').
Variable lvl : N.
Variable ctx : cctx.
Hypothesis ctx_strict : strict_ctx ctx.
Variable pw : bytes.
Hypothesis ctx_pw : wf_ctx verify ctx pw.
Variable rb : normal_entry -> list N.
Variable srb : solid_entry -> list N.
Variables keep pwb : bool.
Variables hdr_tok content_tok : normal_entry -> bytes.
Notation L := (logical E D decompress verify pw rb srb).
Notation expand_p := (expand_p E D decompress verify pw srb).
Notation rebuild_p := (rebuild_pipeline E compress lvl ctx).

(* delete (run_transform_entry, both solid strategies): the file of the written output abstracts to what the
   abstract script leaves at the target; both temporary files are gone *)
Theorem delete_ok_refines nf matched partial tmp atmp target fs afs b es a :
  tmp <> target -> atmp <> target ->
  bfile fs target = Some b -> Update.file afs target = Some (Update.mkF a true) -> L b = Ok a ->
  wf_archive b = true -> read_archive b = Ok es -> input_ok E D decompress verify pw rb srb pwb es ->
  (forall b', run_edit hdr_tok content_tok expand_p rebuild_p keep pwb Transform.CDelete nf (fun p => Update.mem p matched) b = Ok b' ->
              out_drains srb b') ->
  let r := rewrite_cmd (run_edit hdr_tok content_tok expand_p rebuild_p keep pwb Transform.CDelete nf (fun p => Update.mem p matched))
                       partial tmp target fs in
  let afs' := Update.run_ok (Update.rewrite_script atmp target (tr_delete matched) a) afs in
  snd r = Ok tt /\ refines L (fst r) afs' target /\
  (exists b', bfile (fst r) target = Some b' /\ wf_archive b' = true /\ L b' = Ok (Update.delete matched a)) /\
  bfile (fst r) tmp = None /\ Update.file afs' atmp = None /\
  (forall q, q <> tmp -> q <> target -> bfile (fst r) q = bfile fs q).
Proof.
  intros N1 N2 Hb Ha HL WA RA IO OD r afs'.
  destruct (delete_solid_abs E D compress decompress verify D_len DE E_len compress_law compress_det lvl ctx ctx_strict
              pw ctx_pw rb srb keep pwb hdr_tok content_tok nf matched b es a WA RA IO HL) as (b' & es' & RE & Eb & W' & WA' & X & _).
  destruct (rewrite_ok _ partial tmp target fs b b' N1 Hb RE) as (R1 & R2 & R3 & R4).
  assert (L' : L b' = Ok (Update.delete matched a)).
  { apply X. apply (out_drains_items srb es' W'). rewrite <- Eb. exact (OD b' RE). }
  destruct (UpdateFacts.rewrite_success target atmp (tr_delete matched) a afs N2) as (A1 & A2).
  subst r afs'. split; [exact R1|]. split.
  - exists b', (Update.delete matched a). split; [exact R2|]. split; [|exact L']. rewrite A1, transformed_delete. reflexivity.
  - split; [exists b'; auto|]. split; [exact R3|]. split; [exact A2|exact R4].
Qed.

(* append: in place on both levels *)
Theorem append_ok_refines target fs afs b es s a jobs new :
  bfile fs target = Some b -> Update.file afs target = Some (Update.mkF a true) -> L b = Ok a ->
  raw_entries rds b = Ok (es, FinOk, s) -> r_buf s = [] ->
  Forall2 carries jobs new -> Forall (wf_job E compress verify pw) jobs -> Forall (fun e => e_kind e <= 3) new ->
  (forall j, In j jobs -> reads_to_end E compress rb j) ->
  let r := append_cmd (Ok (new_raws E compress jobs)) target fs in
  let afs' := Update.run_ok (Update.append_script target (map abs new)) afs in
  snd r = Ok (r_next s) /\ refines L (fst r) afs' target /\
  (forall q, q <> target -> bfile (fst r) q = bfile fs q).
Proof.
  intros Hb Ha HL R B Hc Hw Hk Hr r afs'.
  destruct (append_container_abs E D compress decompress verify D_len DE E_len compress_law compress_det pw rb srb b es s a jobs new
              R B HL Hc Hw Hk Hr) as (b' & s' & AP & L' & _).
  assert (SN : snd r = Ok (r_next s)).
  { subst r. unfold append_cmd. rewrite Hb. rewrite append_at_pos in AP.
    destruct (append_pos b) as [[p nx]| |]; cbn [bind] in AP; try discriminate AP. injection AP as _ <-. reflexivity. }
  destruct (append_ok _ target fs (r_next s) SN) as (b0 & news0 & b1 & Hb0 & [= <-] & AP1 & T & O).
  rewrite Hb in Hb0. injection Hb0 as <-. rewrite AP in AP1. injection AP1 as <-.
  split; [exact SN|]. split; [|exact O].
  exists b', (Update.append a (map abs new)). split; [exact T|]. split; [|exact L'].
  subst afs'. apply UpdateFacts.append_success. exact Ha.
Qed.

(* update (run_transform_entry with the pass of update.rs, then the re-created and new entries) *)
Theorem update_ok_refines kd kt excl cond walk partial tmp atmp target fs afs b es a a' jobs new :
  tmp <> target -> atmp <> target ->
  bfile fs target = Some b -> Update.file afs target = Some (Update.mkF a true) -> L b = Ok a ->
  wf_archive b = true -> read_archive b = Ok es -> input_ok E D decompress verify pw rb srb pwb es ->
  Update.update_cmd kd kt excl cond a walk = Ok a' ->
  let targets := Update.update_targets kd walk in
  let p := Update.update_pass excl cond a targets [] in
  map abs new = map (Update.fresh kt) (snd (fst p) ++ snd p) ->
  Forall2 carries jobs new -> Forall (wf_job E compress verify pw) jobs -> Forall (fun e => e_kind e <= 3) new ->
  (forall j, In j jobs -> reads_to_end E compress rb j) ->
  Forall writable_normal (map (build_job E compress) jobs) ->
  (forall b', update_bytes expand_p rebuild_p keep pwb excl cond targets (new_raws E compress jobs) b = Ok b' -> out_drains srb b') ->
  let r := rewrite_cmd (update_bytes expand_p rebuild_p keep pwb excl cond targets (new_raws E compress jobs)) partial tmp target fs in
  let afs' := Update.run_ok (Update.update_script atmp target a (Update.pass_flags excl cond a targets []) (map abs new)) afs in
  snd r = Ok tt /\ refines L (fst r) afs' target /\
  (exists b', bfile (fst r) target = Some b' /\ wf_archive b' = true /\ L b' = Ok a') /\
  bfile (fst r) tmp = None /\ Update.file afs' atmp = None /\
  (forall q, q <> tmp -> q <> target -> bfile (fst r) q = bfile fs q).
Proof.
  intros N1 N2 Hb Ha HL WA RA IO UC targets p Cn Hc Hw Hk Hr Wj OD r afs'.
  destruct (update_container E D compress decompress verify D_len DE E_len compress_law compress_det lvl ctx ctx_strict
              pw ctx_pw rb srb keep pwb kd kt excl cond walk b es a a' jobs new WA RA IO HL UC Cn Hc Hw Hk Hr Wj)
    as (b' & es' & UF & Eb & _ & W' & WA' & X). cbv zeta in UF. fold targets in UF.
  destruct (rewrite_ok _ partial tmp target fs b b' N1 Hb UF) as (R1 & R2 & R3 & R4).
  assert (L' : L b' = Ok a').
  { apply X. pose proof (out_drains_items srb _ W') as SD. rewrite <- Eb in SD. specialize (SD (OD b' UF)).
    apply Forall_app in SD. apply SD. }
  destruct (UpdateFacts.update_success target atmp a (Update.pass_flags excl cond a targets []) (map abs new) afs N2) as (A1 & A2).
  assert (EA : UpdateFacts.select a (Update.pass_flags excl cond a targets []) ++ map abs new = a').
  { rewrite UpdateFacts.select_pass_flags. rewrite (UpdateFacts.update_cmd_ok kd kt excl cond a walk a' UC). cbv zeta.
    fold targets. fold p. rewrite Cn. reflexivity. }
  subst r afs'. split; [exact R1|]. split.
  - exists b', a'. split; [exact R2|]. split; [|exact L']. rewrite A1, EA. reflexivity.
  - split; [exists b'; auto|]. split; [exact R3|]. split; [exact A2|exact R4].
Qed.
End Success.

(* ================================================================================================= *)
(* 4. examples, evaluated in the kernel                                                                *)
(* ================================================================================================= *)
(* AES-256 (Model/Aes.v).  A "KDF" like the real ones: it derives a key from ANY password and cannot tell a wrong
   one (the right password gives the key the archive was written with) *)
Definition ax_verify (phsf pw : bytes) : res bytes :=
  if bytes_eqb pw tx_pw then Ok tx_key else Ok (firstn 32 (pw ++ repeat x00 32)).
Definition ax_ctr : config := {| g_comp := CNo; g_level := 0; g_enc := EAes; g_mode := MCtr |}.
(* the three entries of CreateTransportFacts (d, d/a.txt, d/l) inside a stored, AES-CTR-encrypted solid block, and
   again as normal entries behind it *)
Definition ax_solid : solid_entry := build_solid real_E_of px_compress ax_ctr tx_ctx [] (solid_writes (map ux_build tx_jobs)).
Definition ax_arch : bytes := write_archive_entries (RSolid ax_solid :: map RNormal (map ux_build tx_jobs)).
Definition ax_target : bytes := lit "x.pna".
Definition ax_tmp : bytes := lit "/tmp/4711.pna.tmp".
Definition ax_fs : bfs := [(ax_target, ax_arch); (lit "other", lit "data")].
(* pna experimental delete --keep-solid --password <pw> x.pna d/a.txt *)
Definition ax_delete (pw : bytes) : bytes -> res bytes :=
  run_edit (fun _ => []) (fun _ => []) (expand_p real_E_of real_D_of px_decompress ax_verify pw tx_srb) ux_rebuild true true
           Transform.CDelete 1 (fun p => Update.mem p [lit "d/a.txt"]).
Definition ax_run (pw : bytes) : bfs * res unit := rewrite_cmd (ax_delete pw) (lit "partial") ax_tmp ax_target ax_fs.
Definition ax_names (r : res (list xentry)) : res (list bytes) :=
  match r with Ok xs => Ok (map e_name xs) | Err k => Err k | Panic => Panic end.
Definition ax_view (fs : bfs) : option (res (list bytes)) :=
  option_map (fun b => ax_names (xlogical real_E_of real_D_of px_decompress ax_verify tx_pw tx_rb2 tx_srb b)) (bfile fs ax_target).

(* WRONG PASSWORD: the CTR reader delivers garbage, the repaired iterator reports it (UnexpectedEof: the first "chunk
   length" read from the garbage points behind the end of the stream), the command fails in front of the rename:
   the file system is the old one plus the temporary file; the archive still lists its six entries.
   RIGHT PASSWORD: the command succeeds, the temporary file has taken the archive's place, d/a.txt is gone from the
   block (rebuilt, --keep-solid) and from the normal entries, the other file is untouched *)
Example ax_delete_runs :
  ax_view ax_fs = Some (Ok [lit "d"; lit "d/a.txt"; lit "d/l"; lit "d"; lit "d/a.txt"; lit "d/l"]) /\
  (snd (ax_run (lit "wrong")) = Err UnexpectedEof /\
   fst (ax_run (lit "wrong")) = (ax_tmp, lit "partial") :: ax_fs /\
   bfile (fst (ax_run (lit "wrong"))) ax_target = Some ax_arch) /\
  (snd (ax_run tx_pw) = Ok tt /\
   map fst (fst (ax_run tx_pw)) = [ax_target; lit "other"] /\
   bfile (fst (ax_run tx_pw)) (lit "other") = Some (lit "data") /\
   ax_view (fst (ax_run tx_pw)) = Some (Ok [lit "d"; lit "d/l"; lit "d"; lit "d/l"])).
Proof.
  split; [vm_compute; reflexivity|]. split.
  - split; [vm_compute; reflexivity|]. split; [vm_compute; reflexivity|]. vm_compute; reflexivity.
  - split; [vm_compute; reflexivity|]. split; [vm_compute; reflexivity|]. split; vm_compute; reflexivity.
Qed.

(* the premises of wrong_password_leaves_file for that run; by the theorem and the Err above, what "wrong" makes of
   the block is reported — and the right password opens it cleanly *)
Example ax_premises :
  ax_tmp <> ax_target /\ bfile ax_fs ax_target = Some ax_arch /\
  (exists rest, read_archive ax_arch = Ok (RSolid ax_solid :: rest)) /\ rewrites Transform.CDelete 1 /\
  s_enc (so_hdr ax_solid) = EAes /\ s_mode (so_hdr ax_solid) = MCtr /\ s_comp (so_hdr ax_solid) = CNo /\
  opens_clean real_E_of real_D_of px_decompress ax_verify tx_pw tx_srb ax_solid.
Proof.
  split; [discriminate|]. split; [reflexivity|]. split; [eexists; vm_compute; reflexivity|]. split; [reflexivity|].
  split; [reflexivity|]. split; [reflexivity|]. split; [reflexivity|].
  assert (Ex : exists inner, expand_p real_E_of real_D_of px_decompress ax_verify tx_pw tx_srb ax_solid = Ok inner)
    by (eexists; vm_compute; reflexivity).
  destruct Ex as (inner & Ex).
  exact (expand_ok_clean real_E_of real_D_of px_decompress ax_verify tx_pw tx_srb ax_solid inner Ex).
Qed.
