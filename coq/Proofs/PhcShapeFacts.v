(* PhcShapeFacts.v — the shape test the strict recogniser applies to PHSF chunks (Wf.phsf_shape, written from the
   format description) against the crate-faithful PHC codec of Model/Kdf.v (phc_print_x / phc_parse_x, Proofs/PhcFacts.v).
   1. what the writer prints passes the shape test: every algorithm choice, every parameter value, every non-empty salt;
   2. hence the PHSF of every writer context does, and it is shorter than 2^32 bytes (phc_job / phc_ctx of
      CreateSplitFacts.v / CreateWfFacts.v are discharged for the contexts the writer makes);
   3. the reader side: a string the reader derives a key from (reader_key_x = Ok) passes the shape test PROVIDED it holds
      no hash; with a hash it does not (`_refuted`: the crates accept `$..$salt$hash`, and derive a key when the hash has
      32 bytes; the recogniser, by the format description, wants a PHSF WITHOUT hash).  So the law
      `forall p w k, verify p w = Ok k -> phsf_shape p = true` that create_split_extract_kdf assumes is false for the
      library's verify_password; phc_job, the premise about the strings actually written, is the right one.
   The shape test is otherwise laxer than the parser (leading zeros, upper-case names, over-long fields pass it):
   examples at the end. *)
From PNA Require Import Base Codec Kdf Wf BaseFacts NameFacts KdfFacts PhcFacts.
Require Import ZArith ZifyN ZifyNat ZifyBool.
Open Scope N_scope.

(* ==== the character classes of the two models, compared on all 256 bytes ====================== *)
Definition all_bytes : list byte := map (fun n => n2b (N.of_nat n)) (seq 0 256).
Lemma in_all_bytes b : In b all_bytes.
Proof.
  unfold all_bytes. apply in_map_iff. exists (N.to_nat (b2n b)). split.
  - rewrite N2Nat.id. apply n2b_b2n.
  - apply in_seq. pose proof (b2n_lt b). lia.
Qed.
Lemma byte_forall (P : byte -> bool) : forallb P all_bytes = true -> forall b, P b = true.
Proof. intros H b. rewrite forallb_forall in H. exact (H b (in_all_bytes b)). Qed.
Definition imp (a b : bool) : bool := negb a || b.
Lemma imp_elim a b : imp a b = true -> a = true -> b = true.
Proof. destruct a, b; cbn; intros; congruence. Qed.

Lemma cls_ident b : ident_char b = true -> is_idch b = true /\ is_paramch b = true /\ is_print b = true.
Proof.
  intro H. assert (imp (ident_char b) (is_idch b && is_paramch b && is_print b) = true) as A
    by (revert b H; intros b _; revert b; apply byte_forall; vm_compute; reflexivity).
  pose proof (imp_elim _ _ A H) as B. rewrite !andb_true_iff in B. tauto.
Qed.
Lemma cls_value b : value_char b = true -> is_paramch b = true /\ is_print b = true.
Proof.
  intro H. assert (imp (value_char b) (is_paramch b && is_print b) = true) as A
    by (revert b H; intros b _; revert b; apply byte_forall; vm_compute; reflexivity).
  pose proof (imp_elim _ _ A H) as B. rewrite !andb_true_iff in B. tauto.
Qed.
Lemma cls_b64val b : b64_val b <> None -> is_b64 b = true.
Proof.
  intro H. assert (imp (match b64_val b with Some _ => true | None => false end) (is_b64 b) = true) as A
    by (revert b H; intros b _; revert b; apply byte_forall; vm_compute; reflexivity).
  apply (imp_elim _ _ A). destruct (b64_val b); [reflexivity | contradiction].
Qed.
Lemma cls_b64 b : is_b64 b = true -> is_paramch b = true /\ is_print b = true.
Proof.
  intro H. assert (imp (is_b64 b) (is_paramch b && is_print b) = true) as A
    by (revert b H; intros b _; revert b; apply byte_forall; vm_compute; reflexivity).
  pose proof (imp_elim _ _ A H) as B. rewrite !andb_true_iff in B. tauto.
Qed.
Lemma cls_digit b : Wf.is_digit b = true -> is_paramch b = true /\ is_print b = true.
Proof.
  intro H. assert (imp (Wf.is_digit b) (is_paramch b && is_print b) = true) as A
    by (revert b H; intros b _; revert b; apply byte_forall; vm_compute; reflexivity).
  pose proof (imp_elim _ _ A H) as B. rewrite !andb_true_iff in B. tauto.
Qed.
Lemma cls_param b : is_paramch b = true -> is_print b = true.
Proof.
  intro H. assert (imp (is_paramch b) (is_print b) = true) as A
    by (revert b H; intros b _; revert b; apply byte_forall; vm_compute; reflexivity).
  exact (imp_elim _ _ A H).
Qed.

Lemma forallb_impl {A} (f g : A -> bool) l : (forall x, f x = true -> g x = true) -> forallb f l = true -> forallb g l = true.
Proof. intros I H. rewrite forallb_forall in *. intros x X. exact (I x (H x X)). Qed.
Lemma forallb_join (f : byte -> bool) (sep : byte) ls :
  f sep = true -> Forall (fun l => forallb f l = true) ls -> forallb f (join [sep] ls) = true.
Proof.
  intros S. induction ls as [|x [|y r] IH]; intro F.
  - reflexivity.
  - inversion F; subst. assumption.
  - inversion F as [|? ? Hx F']; subst.
    change (join [sep] (x :: y :: r)) with (x ++ sep :: join [sep] (y :: r)).
    rewrite forallb_app. cbn [forallb]. rewrite Hx, S, (IH F'). reflexivity.
Qed.

(* ==== the shape test from its parts ============================================================ *)
Definition printable (f : bytes) : Prop := forallb is_print f = true.

Lemma strip_params_print r1 saltf : strip_params r1 = Some [saltf] -> forallb is_b64 saltf = true -> Forall printable r1.
Proof.
  intros S B. assert (printable saltf) as PS by (exact (forallb_impl _ _ _ (fun b H => proj2 (cls_b64 b H)) B)).
  destruct r1 as [|f r]; [discriminate|]. unfold strip_params in S.
  destruct (existsb (byte_eqb x3d) f).
  - destruct (forallb is_paramch f) eqn:PC; [|discriminate]. inversion S; subst.
    constructor; [exact (forallb_impl _ _ _ cls_param PC) | constructor; [exact PS | constructor]].
  - inversion S; subst. constructor; [exact PS | constructor].
Qed.

Lemma strips_print rest r1 saltf :
  strip_version rest = Some r1 -> strip_params r1 = Some [saltf] -> forallb is_b64 saltf = true -> Forall printable rest.
Proof.
  intros SV SP B. pose proof (strip_params_print _ _ SP B) as P1.
  destruct rest as [|[|a [|b ds]] r]; cbn [strip_version] in SV; try (inversion SV; subst; exact P1).
  destruct (byte_eqb a x76 && byte_eqb b x3d) eqn:VE; [|inversion SV; subst; exact P1].
  destruct (negb (is_nil ds) && forallb Wf.is_digit ds) eqn:DG; [|discriminate]. inversion SV; subst.
  constructor; [|exact P1]. apply andb_true_iff in VE. destruct VE as [VA VB].
  apply byte_eqb_eq in VA, VB. subst. apply andb_true_iff in DG. destruct DG as [_ DG].
  unfold printable. cbn [forallb]. rewrite (forallb_impl _ _ _ (fun b H => proj2 (cls_digit b H)) DG). reflexivity.
Qed.

Lemma shape_intro s id rest r1 saltf :
  fields x24 s = [] :: id :: rest ->
  id <> [] -> forallb is_idch id = true -> printable id ->
  strip_version rest = Some r1 -> strip_params r1 = Some [saltf] ->
  saltf <> [] -> forallb is_b64 saltf = true ->
  phsf_shape s = true.
Proof.
  intros F NI IC IP SV SP NS B. unfold phsf_shape.
  assert (forallb is_print s = true) as PR.
  { rewrite <- (join_fields x24 s), F. apply forallb_join; [reflexivity|].
    constructor; [reflexivity|]. constructor; [exact IP|]. exact (strips_print _ _ _ SV SP B). }
  rewrite PR, F, IC, SV, SP, B. destruct id; [contradiction|]. destruct saltf; [contradiction|]. reflexivity.
Qed.

(* ==== 1. what the writer prints ================================================================= *)
Lemma b64_enc_is_b64 l : forallb is_b64 (b64_enc l) = true.
Proof.
  apply forallb_forall. intros c I.
  pose proof (b64_enc_all (fun c => is_b64 c = true) (fun n H => cls_b64val _ (b64_char_ok n H)) l) as F.
  rewrite Forall_forall in F. exact (F c I).
Qed.
Lemma b64_enc_nonempty (l : bytes) : l <> [] -> b64_enc l <> [].
Proof.
  intros N E. pose proof (b64_enc_len_lo l) as L. rewrite E in L. cbn [length] in L. destruct l; [contradiction | cbn [length] in L; lia].
Qed.

Lemma dec_paramch n : forallb is_paramch (dec n) = true.
Proof.
  apply forallb_forall. intros c I. pose proof (dec_digits n) as F. rewrite Forall_forall in F. specialize (F c I).
  apply cls_digit. unfold Wf.is_digit, in_range. unfold is_dig in F. apply andb_true_iff. split; apply N.leb_le; lia.
Qed.

Lemma writer_params_paramch h : forallb is_paramch (join [comma] (map show_param (alg_params h))) = true.
Proof.
  apply forallb_join; [reflexivity|]. apply Forall_forall. intros f I. apply in_map_iff in I. destruct I as (kv & <- & I).
  unfold alg_params in I. apply in_map_iff in I. destruct I as (kn & <- & I). unfold show_param. cbn [fst snd].
  rewrite !forallb_app, dec_paramch. cbn [forallb].
  assert (forallb is_paramch (fst kn) = true) as K
    by (destruct h; cbn [alg_params_n] in I; repeat (destruct I as [<-|I]; [vm_compute; reflexivity|]); destruct I).
  rewrite K. reflexivity.
Qed.
Lemma writer_params_nodollar h : ~ In dollar (join [comma] (map show_param (alg_params h))).
Proof.
  intro I. pose proof (writer_params_paramch h) as P. rewrite forallb_forall in P. specialize (P _ I). vm_compute in P. discriminate.
Qed.

Lemma strip_version_writer h r :
  strip_version ((match alg_version h with Some v => [lit "v=" ++ dec v] | None => [] end)
                 ++ join [comma] (map show_param (alg_params h)) :: r) =
  Some (join [comma] (map show_param (alg_params h)) :: r).
Proof.
  destruct h as [rounds|t m p]; cbn [alg_version app].
  - reflexivity.
  - set (J := join [comma] (map show_param (alg_params (Argon2Id t m p)))).
    change (strip_version ((lit "v=" ++ dec 19) :: J :: r))
      with (if negb (is_nil (dec 19)) && forallb Wf.is_digit (dec 19) then Some (J :: r) else None).
    replace (negb (is_nil (dec 19)) && forallb Wf.is_digit (dec 19)) with true by (vm_compute; reflexivity). reflexivity.
Qed.

(* every algorithm choice, every parameter value, every non-empty salt *)
Theorem writer_record_shape : forall (h : hash_alg) (salt : bytes),
  salt <> [] -> phsf_shape (phc_print_x (writer_record h salt None)) = true.
Proof.
  intros h salt NS.
  apply (shape_intro _ (alg_name h)
           ((match alg_version h with Some v => [lit "v=" ++ dec v] | None => [] end)
            ++ [join [comma] (map show_param (alg_params h)); b64_enc salt])
           [join [comma] (map show_param (alg_params h)); b64_enc salt] (b64_enc salt)).
  - exact (print_fields h salt (writer_params_nodollar h)).
  - destruct h; vm_compute; discriminate.
  - destruct h; vm_compute; reflexivity.
  - destruct h; vm_compute; reflexivity.
  - apply strip_version_writer.
  - unfold strip_params. destruct (alg_params_keys h) as (NE & _). destruct (alg_params h) as [|kv ps] eqn:E; [contradiction|].
    change (existsb (byte_eqb x3d) (join [comma] (map show_param (kv :: ps)))) with (has_eq (join [comma] (map show_param (kv :: ps)))).
    rewrite has_eq_show_join. rewrite <- E, writer_params_paramch. reflexivity.
  - exact (b64_enc_nonempty salt NS).
  - apply b64_enc_is_b64.
Qed.

(* ... and the empty salt does not (the recogniser wants a salt; no writer context has an empty one) *)
Lemma writer_record_shape_empty_salt : phsf_shape (phc_print_x (writer_record (Pbkdf2Sha256 None) [] None)) = false.
Proof. vm_compute. reflexivity. Qed.

(* the length: a printable record is short *)
Lemma print_len h salt : rt_side h salt = true -> (length (phc_print_x (writer_record h salt None)) <= 300)%nat.
Proof.
  intro S. unfold rt_side in S. rewrite !andb_true_iff in S. destruct S as (((_ & L) & _) & S48). apply Nat.leb_le in L, S48.
  pose proof (b64_enc_len_hi salt) as BL.
  assert (length (alg_name h) <= 13)%nat as LA by (destruct h; apply Nat.leb_le; vm_compute; reflexivity).
  assert (length (match alg_version h with Some v => [dollar] ++ lit "v=" ++ dec v | None => [] end) <= 5)%nat as LV
    by (destruct h; apply Nat.leb_le; vm_compute; reflexivity).
  unfold phc_print_x, writer_record. cbn [ph_alg ph_version ph_params ph_salt ph_hash].
  destruct (alg_params_keys h) as (NE & _). destruct (alg_params h) as [|kv ps] eqn:E; [contradiction|].
  rewrite !app_length. cbn [length]. lia.
Qed.

(* ==== 2. the contexts the writer makes ========================================================= *)
(* a PHSF as a writer context holds it: printed from u32 parameters and a salt of SALT_LEN bytes *)
Definition writer_phsf (p : bytes) : Prop :=
  exists h salt, fits_u32 h = true /\ length salt = SALT_LEN /\ p = phc_print_x (writer_record h salt None).

Theorem writer_phsf_shape p : writer_phsf p -> phsf_shape p = true /\ len p < 2 ^ 32.
Proof.
  intros (h & salt & F & SL & ->). split.
  - apply writer_record_shape. intros ->. discriminate.
  - pose proof (print_len h salt (fits_u32_side h salt F SL)) as L. unfold len. change (2 ^ 32) with 4294967296. lia.
Qed.

Section AnyKdf.
  Variable key : Type.
  Variable kdf : bytes -> option N -> list (bytes * bytes) -> bytes -> bytes -> key.
  Variable kdf_valid : bytes -> option N -> list (bytes * bytes) -> bytes -> option bytes -> bool.
  Hypothesis kdf_valid_u32 : forall h salt,
    kdf_valid (alg_name h) (alg_version h) (alg_params h) salt None = true -> fits_u32 h = true.

  Theorem writer_context_phsf m h pw tape c t' :
    writer_context key kdf kdf_valid phc_print_x m h pw tape = Ok (c, t') -> writer_phsf (ctx_phsf c).
  Proof.
    intro W. destruct (writer_context_inv _ _ _ _ _ _ _ _ _ _ W) as (_ & SL & V & P & _).
    exists h, (firstn SALT_LEN tape). split; [exact (kdf_valid_u32 _ _ V)|]. split; [exact SL | exact P].
  Qed.
End AnyKdf.

Theorem writer_context_x_phsf : forall m h pw tape c t',
  writer_context_x m h pw tape = Ok (c, t') -> writer_phsf (ctx_phsf c).
Proof. exact (writer_context_phsf bytes kdf_x kdf_valid_x (fun h salt => kdf_valid_x_fits h salt None)). Qed.

Theorem writer_context_x_shape : forall m h pw tape c t',
  writer_context_x m h pw tape = Ok (c, t') -> phsf_shape (ctx_phsf c) = true /\ len (ctx_phsf c) < 2 ^ 32.
Proof. intros m h pw tape c t' W. exact (writer_phsf_shape _ (writer_context_x_phsf _ _ _ _ _ _ W)). Qed.

Theorem write_all_x_shape : forall k enc m h pw n tape cs t',
  write_all_x k enc m h pw n tape = Ok (cs, t') ->
  Forall (fun c => phsf_shape (ctx_phsf c) = true /\ len (ctx_phsf c) < 2 ^ 32) cs.
Proof.
  intros k enc m h pw n tape cs t'. unfold write_all_x, write_all.
  assert (forall n tape cs t', contexts_n bytes kdf_x kdf_valid_x phc_print_x n m h pw tape = Ok (cs, t') ->
          Forall (fun c => phsf_shape (ctx_phsf c) = true /\ len (ctx_phsf c) < 2 ^ 32) cs) as G.
  { clear. induction n as [|n IH]; intros tape cs t'; cbn [contexts_n].
    - intro H; inversion H; constructor.
    - destruct (writer_context bytes kdf_x kdf_valid_x phc_print_x m h pw tape) as [[c t]| |] eqn:W; cbn [bind]; try discriminate.
      destruct (contexts_n bytes kdf_x kdf_valid_x phc_print_x n m h pw t) as [[cs' t'']| |] eqn:R; cbn [bind]; try discriminate.
      intro H; inversion H; subst. constructor; [exact (writer_context_x_shape _ _ _ _ _ _ W) | exact (IH _ _ _ R)]. }
  destruct enc; [intro H; inversion H; constructor | apply G | apply G].
Qed.

(* ==== 3. the reader side ======================================================================= *)
Lemma phc_parse_x_unfold s :
  phc_parse_x s =
  match fields dollar s with
  | [] :: alg :: rest =>
    if negb (ident_ok alg) then None else
    let '(ver, rest1) := get_ver rest in
    match ver with
    | Some None => None
    | _ =>
      let '(params, rest2) := get_params rest1 in
      match params with
      | None => None
      | Some ps => finish alg (match ver with Some (Some v) => Some v | _ => None end) ps rest2
      end
    end
  | _ => None
  end.
Proof. reflexivity. Qed.

Lemma fold_dstep_none l : fold_left dstep l None = None.
Proof. induction l; [reflexivity | exact IHl]. Qed.
Lemma fold_dstep_digits l : forall a n, fold_left dstep l (Some a) = Some n -> forallb Wf.is_digit l = true.
Proof.
  induction l as [|b l IH]; intros a n H; [reflexivity|]. cbn [fold_left forallb] in *. unfold dstep at 2 in H. cbv zeta in H.
  unfold Wf.is_digit, in_range. destruct (N.leb 48 (b2n b) && N.leb (b2n b) 57).
  - cbn [andb]. exact (IH _ _ H).
  - rewrite fold_dstep_none in H. discriminate.
Qed.
Lemma canon_dec_digits ds v : canon_dec ds = Some v -> ds <> [] /\ forallb Wf.is_digit ds = true.
Proof.
  unfold canon_dec. destruct ds as [|c r]; [discriminate|].
  destruct (byte_eqb c x30 && match r with [] => false | _ :: _ => true end); [discriminate|].
  destruct (undec (c :: r)) as [n|] eqn:U; [|discriminate]. intros _. split; [discriminate|].
  rewrite undec_fold in U by discriminate. exact (fold_dstep_digits _ _ _ U).
Qed.

(* decoding succeeds on alphabet characters only *)
Lemma list_ind4 (P : bytes -> Prop) :
  P [] -> (forall a, P [a]) -> (forall a b, P [a; b]) -> (forall a b c, P [a; b; c]) ->
  (forall a b c d l, P l -> P (a :: b :: c :: d :: l)) -> forall l, P l.
Proof.
  intros H0 H1 H2 H3 H4. fix F 1. intros [|a [|b [|c [|d l]]]];
    [exact H0 | exact (H1 a) | exact (H2 a b) | exact (H3 a b c) | exact (H4 a b c d l (F l))].
Qed.
Lemma b64_dec_chars : forall l x, b64_dec l = Some x -> forallb is_b64 l = true.
Proof.
  induction l as [| a | a b | a b c | a b c d l IH] using list_ind4; intros x H; cbn [b64_dec forallb] in *.
  - reflexivity.
  - discriminate.
  - destruct (b64_val a) eqn:A; [|discriminate]. destruct (b64_val b) eqn:B; [|discriminate].
    rewrite (cls_b64val a), (cls_b64val b) by congruence. reflexivity.
  - destruct (b64_val a) eqn:A; [|discriminate]. destruct (b64_val b) eqn:B; [|discriminate]. destruct (b64_val c) eqn:C; [|discriminate].
    rewrite (cls_b64val a), (cls_b64val b), (cls_b64val c) by congruence. reflexivity.
  - destruct (b64_val a) eqn:A; [|discriminate]. destruct (b64_val b) eqn:B; [|discriminate]. destruct (b64_val c) eqn:C; [|discriminate].
    destruct (b64_val d) eqn:D; [|discriminate]. destruct (b64_dec l) as [t|] eqn:T; [|discriminate].
    rewrite (cls_b64val a), (cls_b64val b), (cls_b64val c), (cls_b64val d) by congruence. rewrite (IH _ eq_refl). reflexivity.
Qed.

(* a parsed parameter string consists of parameter characters *)
Lemma parse_param_chars seg kv : parse_param seg = Some kv ->
  forallb is_paramch seg = true /\ ~ In eqsign (fst kv) /\ exists v, seg = fst kv ++ eqsign :: v.
Proof.
  unfold parse_param. destruct (fields eqsign seg) as [|k [|v [|]]] eqn:FE; try discriminate.
  destruct (ident_ok k && value_ok v) eqn:OK; [|discriminate]. intro H; inversion H; subst. cbn [fst].
  apply andb_true_iff in OK. destruct OK as [IK VV].
  assert (seg = k ++ eqsign :: v) as E by (rewrite <- (join_fields eqsign seg), FE; reflexivity).
  split; [|split; [apply (ident_notin _ _ IK); vm_compute; reflexivity | exists v; exact E]]. rewrite E, forallb_app. cbn [forallb].
  unfold ident_ok in IK. apply andb_true_iff in IK. destruct IK as [_ IK]. unfold value_ok in VV. apply andb_true_iff in VV. destruct VV as [_ VV].
  rewrite (forallb_impl _ _ _ (fun b H => proj1 (proj2 (cls_ident b H))) IK), (forallb_impl _ _ _ (fun b H => proj1 (cls_value b H)) VV).
  reflexivity.
Qed.
Lemma all_some_parse segs : forall ps, all_some (map parse_param segs) = Some ps ->
  Forall (fun seg => forallb is_paramch seg = true) segs /\
  (forall s0 r, segs = s0 :: r -> exists kv ps' v, ps = kv :: ps' /\ ~ In eqsign (fst kv) /\ s0 = fst kv ++ eqsign :: v).
Proof.
  induction segs as [|s0 r IH]; intros ps H; cbn [map all_some] in H.
  - split; [constructor | intros ? ? E; discriminate].
  - destruct (parse_param s0) as [kv|] eqn:P; [|discriminate].
    destruct (all_some (map parse_param r)) as [ps'|] eqn:R; [|discriminate]. inversion H; subst.
    destruct (parse_param_chars _ _ P) as (C & NI & v & E). split.
    + constructor; [exact C | exact (proj1 (IH _ eq_refl))].
    + intros s1 r1 E1. inversion E1; subst. exists kv, ps', v. split; [reflexivity | split; [exact NI | reflexivity]].
Qed.
Lemma parse_params_chars f ps : parse_params f = Some ps ->
  forallb is_paramch f = true /\ (forall t, f = x76 :: x3d :: t -> exists x ps', ps = (lit "v", x) :: ps').
Proof.
  unfold parse_params. destruct (Nat.leb (length f) 127); [|discriminate]. intro H.
  destruct (all_some_parse _ _ H) as (C & HD). split.
  - rewrite <- (join_fields comma f). apply forallb_join; [reflexivity | exact C].
  - intros t E. pose proof (fields_not_nil comma f) as NN. destruct (fields comma f) as [|s0 r] eqn:FC; [contradiction|].
    destruct (HD _ _ eq_refl) as (kv & ps' & v & -> & NI & E0).
    (* the first segment starts with "v=": its name is "v" *)
    assert (exists u, s0 = x76 :: x3d :: u) as (u & E1).
    { subst f. rewrite fields_cons_other in FC by (intro X; discriminate X).
      rewrite fields_cons_other in FC by (intro X; discriminate X). cbn [hd tl] in FC. inversion FC. eexists; reflexivity. }
    destruct kv as [k x]. cbn [fst] in E0, NI. exists x, ps'. f_equal. f_equal.
    rewrite E1 in E0. destruct k as [|k0 [|k1 k]]; cbn [app] in E0.
    + inversion E0.
    + inversion E0. reflexivity.
    + exfalso. inversion E0; subst. apply NI. right. left. reflexivity.
Qed.

(* the front-end rules know no parameter called `v` and want a decoded salt *)
Lemma kdf_valid_x_inv alg ver ps salt hash : kdf_valid_x alg ver ps salt hash = true ->
  (3 <= length salt)%nat /\ (forall x ps', ps <> (lit "v", x) :: ps').
Proof.
  unfold kdf_valid_x. destruct (is_argon2 alg).
  - intro H. rewrite !andb_true_iff in H. destruct H as (((((((((_ & F) & _) & _) & _) & _) & _) & _) & S) & _).
    apply Nat.leb_le in S. split; [lia|]. intros x ps' ->. cbn [forallb] in F. apply andb_true_iff in F. destruct F as [F _].
    vm_compute in F. discriminate.
  - destruct (is_pbkdf2 alg); [|discriminate]. intro H. rewrite !andb_true_iff in H. destruct H as (((F & _) & _) & S).
    apply Nat.leb_le in S. split; [exact S|]. intros x ps' ->. cbn [forallb] in F. apply andb_true_iff in F. destruct F as [F _].
    vm_compute in F. discriminate.
Qed.

(* a string that parses to a record WITHOUT hash whose parameters and salt the front ends accept has the shape *)
Theorem parsed_valid_shape s p salt :
  phc_parse_x s = Some p -> ph_hash p = None -> ph_salt p = Some salt ->
  kdf_valid_x (ph_alg p) (ph_version p) (ph_params p) salt (ph_hash p) = true ->
  phsf_shape s = true.
Proof.
  intros P HH HS V. rewrite phc_parse_x_unfold in P.
  destruct (fields dollar s) as [|[|] [|alg rest]] eqn:F; try discriminate.
  destruct (ident_ok alg) eqn:IA; cbn [negb] in P; [|discriminate].
  destruct (get_ver rest) as [ver rest1] eqn:GV. destruct (get_params rest1) as [params rest2] eqn:GP.
  assert (ver <> Some None) as NV by (intros ->; discriminate).
  assert (exists ps, params = Some ps /\ finish alg (match ver with Some (Some v) => Some v | _ => None end) ps rest2 = Some p) as (ps & -> & FI).
  { destruct ver as [[v|]|]; [|contradiction|]; (destruct params as [ps|]; [exists ps; split; [reflexivity | exact P] | discriminate]). }
  clear P. unfold finish in FI.
  destruct rest2 as [|sf rest3]; [inversion FI; subst; discriminate|].
  destruct (salt_text_ok sf) eqn:ST; cbn [negb] in FI; [|discriminate].
  assert (rest3 = []) as ->.
  { destruct rest3 as [|hf [|]]; [reflexivity| |discriminate].
    destruct (b64_dec hf) as [hb|]; [|discriminate]. destruct (hash_len_ok hb); [|discriminate]. inversion FI; subst. discriminate. }
  inversion FI; subst p. cbn [ph_alg ph_version ph_params ph_salt ph_hash] in *. inversion HS; subst salt. clear HS FI HH.
  destruct (kdf_valid_x_inv _ _ _ _ _ V) as (SL & NOV).
  (* the salt text decodes *)
  destruct (b64_dec sf) as [sb|] eqn:BD; [|cbn [length] in SL; lia].
  pose proof (b64_dec_chars _ _ BD) as SB.
  assert (sf <> []) as NS.
  { unfold salt_text_ok in ST. rewrite !andb_true_iff in ST. destruct ST as ((L4 & _) & _). apply Nat.leb_le in L4. intros ->. cbn [length] in L4. lia. }
  unfold ident_ok in IA. rewrite !andb_true_iff in IA. destruct IA as ((L1 & _) & IC). apply Nat.leb_le in L1.
  apply (shape_intro s alg rest rest1 sf).
  - exact F.
  - intros ->. cbn [length] in L1. lia.
  - exact (forallb_impl _ _ _ (fun b H => proj1 (cls_ident b H)) IC).
  - exact (forallb_impl _ _ _ (fun b H => proj2 (proj2 (cls_ident b H))) IC).
  - (* the version field *)
    unfold get_ver in GV. unfold strip_version.
    destruct rest as [|[|a [|b ds]] r]; try (inversion GV; subst; reflexivity).
    destruct (byte_eqb a x76 && byte_eqb b eqsign) eqn:VE.
    + change (byte_eqb b x3d) with (byte_eqb b eqsign). rewrite VE.
      destruct (has_comma ds) eqn:HC; cbn [negb andb] in GV.
      * (* `v=..,..` is a parameter string whose first name is `v`: refused by the front ends *)
        exfalso. inversion GV; subst. apply andb_true_iff in VE. destruct VE as [VA VB]. apply byte_eqb_eq in VA, VB. subst a b.
        unfold get_params in GP. replace (has_eq (x76 :: eqsign :: ds)) with true in GP
          by (symmetry; unfold has_eq; cbn [existsb]; rewrite byte_eqb_refl; apply orb_true_r).
        inversion GP as [[PP RR]]. destruct (proj2 (parse_params_chars _ _ PP) ds eq_refl) as (x & ps' & E). exact (NOV x ps' E).
      * inversion GV; subst. destruct (canon_dec ds) as [v|] eqn:CD; [|exfalso; apply NV; reflexivity].
        destruct (canon_dec_digits _ _ CD) as (ND & DG). rewrite DG. destruct ds; [contradiction|]. reflexivity.
    + change (byte_eqb b x3d) with (byte_eqb b eqsign). rewrite VE. inversion GV; subst. reflexivity.
  - (* the parameter field *)
    unfold get_params in GP. unfold strip_params. destruct rest1 as [|f r]; [inversion GP|].
    change (existsb (byte_eqb x3d) f) with (has_eq f). destruct (has_eq f).
    + inversion GP as [[PP RR]]. rewrite (proj1 (parse_params_chars _ _ PP)). reflexivity.
    + inversion GP; subst. reflexivity.
  - exact NS.
  - exact SB.
Qed.

Theorem reader_key_x_shape : forall phsf pw k p,
  reader_key_x phsf pw = Ok k -> phc_parse_x phsf = Some p -> ph_hash p = None -> phsf_shape phsf = true.
Proof.
  intros phsf pw k p R P HH. unfold reader_key_x, reader_key in R. rewrite P in R.
  destruct (alg_supported_x (ph_alg p)); cbn [negb] in R; [|discriminate].
  destruct (ph_salt p) as [salt|] eqn:S; [|discriminate].
  destruct (kdf_valid_x (ph_alg p) (ph_version p) (ph_params p) salt (ph_hash p)) eqn:V; cbn [negb] in R; [|discriminate].
  exact (parsed_valid_shape _ _ _ P HH S V).
Qed.

(* ... and with a hash it does not: the crates parse `$..$salt$hash` and derive a key when the hash has 32 bytes
   (observed on the library by the kdf read cases: OPENED same); the recogniser wants a PHSF without hash *)
Definition ex_with_hash : bytes := lit "$argon2id$v=19$m=8,t=1,p=1$MDEyMzQ1Njc4OWFiY2RlZg$AAECAwQFBgcICQoLDA0ODxAREhMUFRYXGBkaGxwdHh8".
Theorem reader_key_implies_shape_refuted :
  (exists k, reader_key_x ex_with_hash (lit "pw") = Ok k) /\ phsf_shape ex_with_hash = false.
Proof. split; [eexists; vm_compute; reflexivity | vm_compute; reflexivity]. Qed.

(* the other direction: the shape test is a lexical check, laxer than the crates' parser in many places
   (every one of these is InvalidData for the reader) *)
Definition shape_not_parsed (s : String.string) : bool :=
  phsf_shape (lit s) && match phc_parse_x (lit s) with None => true | Some _ => false end.
Arguments shape_not_parsed s%string.
Example ex_shape_laxer :
  shape_not_parsed "$argon2id$v=019$m=8,t=1,p=1$MDEyMzQ1Njc4OWFiY2RlZg" = true /\         (* leading zero in the version *)
  shape_not_parsed "$argon2id$v=4294967296$m=8,t=1,p=1$MDEyMzQ1Njc4OWFiY2RlZg" = true /\  (* version beyond u32 *)
  shape_not_parsed "$argon2id$v=19$M=8,t=1,p=1$MDEyMzQ1Njc4OWFiY2RlZg" = true /\          (* upper-case parameter name *)
  shape_not_parsed "$argon2id$v=19$m=8,,t=1,p=1$MDEyMzQ1Njc4OWFiY2RlZg" = true /\         (* empty parameter *)
  shape_not_parsed "$argon2id$v=19$m=8=8,t=1,p=1$MDEyMzQ1Njc4OWFiY2RlZg" = true /\        (* two `=` *)
  shape_not_parsed "$argon2id$v=19$m=8,t=1,p=1$MDE" = true /\                             (* salt of 3 characters *)
  shape_not_parsed "$0123456789012345678901234567890ab$ln=1$MDEyMzQ1Njc4OWFiY2RlZg" = true. (* identifier of 33 characters *)
Proof. vm_compute. repeat split. Qed.
(* parsed, but no key: leading zero in a parameter, no salt decoding, ... are refused later, by the front ends *)
Example ex_shape_no_key :
  phsf_shape (lit "$pbkdf2-sha256$i=01,l=32$MDEyMzQ1Njc4OWFiY2RlZg") = true /\
  reader_key_x (lit "$pbkdf2-sha256$i=01,l=32$MDEyMzQ1Njc4OWFiY2RlZg") (lit "pw") = Err InvalidData /\
  phsf_shape (lit "$pbkdf2-sha256$i=1,l=32$MDEyMx") = true /\
  reader_key_x (lit "$pbkdf2-sha256$i=1,l=32$MDEyMx") (lit "pw") = Err InvalidData.
Proof. vm_compute. repeat split. Qed.
