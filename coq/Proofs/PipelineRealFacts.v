(* PipelineRealFacts.v — the C01 pipeline theorems instantiated with the AES-256 / Camellia-256 models the pipeline
   area is run with (real_E_of / real_D_of): the block-cipher premises are discharged by AesFacts / CamelliaFacts;
   what remains as premises are the laws of the compressors and of the KDF. *)
From PNA Require Import Base Crc32 Name Codec Chunk Archive Entry Flatten Cbc Ctr Pipeline Aes Camellia
  BaseFacts CodecFacts ChunkFacts ArchiveFacts EntryFacts CbcFacts PipelineFacts AesFacts CamelliaFacts.
Open Scope N_scope.

Section Real.
Variable compress : compression -> N -> list bytes -> list bytes.
Variable decompress : compression -> bytes -> res bytes.
Variable verify : bytes -> bytes -> res bytes.
Hypothesis compress_law : forall c lvl ws, decompress c (concat (compress c lvl ws)) = Ok (concat ws).
Hypothesis compress_det : forall c lvl (ws ws' : list bytes), concat ws = concat ws' ->
  concat (compress c lvl ws) = concat (compress c lvl ws').

Theorem entry_roundtrip_real cfg ctx pw sp wcuts rbufs :
  wf_ctx verify ctx pw -> concat (eff_wcuts (sp_kind sp) wcuts) = sp_content sp ->
  Forall (fun n => 0 < n) rbufs -> covers compress (eff_cfg cfg (sp_kind sp)) (eff_wcuts (sp_kind sp) wcuts) rbufs ->
  decode_normal real_E_of real_D_of decompress verify (build_normal real_E_of compress cfg ctx sp wcuts) pw rbufs
  = Ok (sp_content sp).
Proof. apply (entry_roundtrip real_E_of real_D_of compress decompress verify real_D_len real_DE real_E_len compress_law). Qed.

Theorem roundtrip_real pw jobs : Forall (wf_job real_E_of compress verify pw) jobs ->
  read_archive (write_archive (map (build_job real_E_of compress) jobs)) =
  Ok (map (fun j => RNormal (build_job real_E_of compress j)) jobs) /\
  forall j, In j jobs ->
    (forall rbufs, Forall (fun n => 0 < n) rbufs ->
       covers compress (eff_cfg (j_cfg j) (sp_kind (j_spec j))) (eff_wcuts (sp_kind (j_spec j)) (j_wcuts j)) rbufs ->
       decode_normal real_E_of real_D_of decompress verify (build_job real_E_of compress j) pw rbufs = Ok (sp_content (j_spec j))) /\
    f_name (n_hdr (build_job real_E_of compress j)) = sp_name (j_spec j) /\
    f_kind (n_hdr (build_job real_E_of compress j)) = sp_kind (j_spec j) /\
    m_ctime (n_meta (build_job real_E_of compress j)) = sp_ctime (j_spec j) /\
    m_mtime (n_meta (build_job real_E_of compress j)) = sp_mtime (j_spec j) /\
    m_atime (n_meta (build_job real_E_of compress j)) = sp_atime (j_spec j) /\
    m_perm (n_meta (build_job real_E_of compress j)) = sp_perm (j_spec j) /\
    n_xattrs (build_job real_E_of compress j) = sp_xattrs (j_spec j) /\
    n_extra (build_job real_E_of compress j) = sp_extra (j_spec j).
Proof. apply (roundtrip real_E_of real_D_of compress decompress verify real_D_len real_DE real_E_len compress_law compress_det). Qed.

Theorem write_file_roundtrip_real cfg ctx pw sp wcuts :
  wf_spec sp -> wf_ctx verify ctx pw -> concat wcuts = sp_content sp ->
  exists e, parse_normal (stream_file_chunks real_E_of compress cfg ctx sp wcuts) = Ok e /\
    m_raw_size (n_meta e) = None /\
    f_name (n_hdr e) = sp_name sp /\ f_kind (n_hdr e) = KFile /\
    m_ctime (n_meta e) = sp_ctime sp /\ m_mtime (n_meta e) = sp_mtime sp /\ m_atime (n_meta e) = sp_atime sp /\
    m_perm (n_meta e) = sp_perm sp /\
    m_compressed (n_meta e) = fold_left N.add (map len (n_data e)) 0 /\
    forall rbufs, Forall (fun n => 0 < n) rbufs -> covers compress cfg wcuts rbufs ->
      decode_normal real_E_of real_D_of decompress verify e pw rbufs = Ok (sp_content sp).
Proof. apply (write_file_roundtrip real_E_of real_D_of compress decompress verify real_D_len real_DE real_E_len compress_law). Qed.

Theorem solid_builder_roundtrip_real cfg ctx pw extra inner rbufs :
  wf_ctx verify ctx pw -> Forall wf_normal inner -> Forall fits inner ->
  Forall (fun n => 0 < n) rbufs -> covers compress cfg (solid_writes inner) rbufs ->
  decode_solid real_E_of real_D_of decompress verify (build_solid real_E_of compress cfg ctx extra (solid_writes inner)) pw rbufs
  = Ok (map normalize inner, FinOk).
Proof. apply (solid_builder_roundtrip real_E_of real_D_of compress decompress verify real_D_len real_DE real_E_len compress_law compress_det). Qed.

Theorem solid_archive_add_entry_roundtrip_real cfg ctx pw inner rbufs :
  wf_ctx verify ctx pw -> Forall wf_normal inner -> Forall fits inner ->
  Forall (fun n => 0 < n) rbufs -> covers compress cfg (solid_writes inner) rbufs ->
  exists s, parse_solid (solid_archive_chunks real_E_of compress cfg ctx (solid_writes inner)) = Ok s /\
            decode_solid real_E_of real_D_of decompress verify s pw rbufs = Ok (map normalize inner, FinOk).
Proof. apply (solid_archive_add_entry_roundtrip real_E_of real_D_of compress decompress verify real_D_len real_DE real_E_len compress_law compress_det). Qed.
End Real.
