(* UpdateContainerFacts.v — C11 at the container level, second part: the commands that REWRITE the archive through
   run_transform_entry (cli/src/command/commons.rs) — `experimental delete` and `experimental update` — on the bytes
   of archive files, for archives with and without solid blocks and for both solid strategies
   (TransformStrategyUnSolid: a block is expanded and its entries are written as normal entries;
    TransformStrategyKeepSolid: a block is expanded, its entries are transformed, the block is built again with
    SolidEntryBuilder from the options of the old header).

   The transformer of both commands answers "write the entry as it is" or "drop it" for every entry the reader
   yields, in order (solid blocks expanded in place): a list of booleans.  `rw_items` is run_transform_entry driven
   by such a list; for delete the list is `map (kept sel)`, for update it is Update.pass_flags (the closure of
   update.rs over `target_items` and `refreshed`) evaluated on the names and mtimes of the entries' headers.
     1. rw_logical          decoded (password, draining buffers): the archive written holds exactly the selected
                            logical entries, unchanged and in order — both strategies; the written entries are
                            writable again (C14), so the output is of the written form;
     2. delete              WfTransformFacts.run_edit ... CDelete with expand := decode_solid, rebuild := the
                            pipeline's SolidEntryBuilder is rw_items; logical (b') = Update.delete matched (logical b);
     3. update              update_bytes; logical (b') = the result of Update.update_cmd on logical b; entries that
                            stay keep their bytes on solid-free written archives;
     4. histories           every step of Update.step (create, append, update, delete, no-op, failing command) on
                            files of the written form; the file at the end abstracts to Update.final.
   The rebuilt solid block is encrypted under a FRESH cipher context (salt, IV: the random tape): `ctx` is a
   parameter, with the premises that the password verifies against it (wf_ctx) and that it has the format's shape
   (strict_ctx).  stdlib only, no axioms. *)
From PNA Require Import Base Crc32 Name Codec Chunk Archive Entry Flatten Cbc Ctr Pipeline Aes Camellia
  BaseFacts NameFacts CodecFacts Crc32Facts ChunkFacts ArchiveFacts EntryFacts OffsetFacts PartsFacts
  CbcFacts PipelineFacts AesFacts CamelliaFacts.
From PNA Require Import Fs Extract CreateTransportFacts AppendContainerFacts.
From PNA Require Import Wf WfFacts WfWriterFacts WfAgreeFacts WfRewriteFacts WfPipelineFacts WfTransformFacts RecutFacts.
From PNA Require Update UpdateFacts ArchiveRun Transform.
Require Import ZArith ZifyN ZifyNat ZifyBool.
Open Scope N_scope.

(* ================================================================================================= *)
(* 0. selections                                                                                       *)
(* ================================================================================================= *)
(* the elements whose flag is set (UpdateFacts.select for any element type) *)
Fixpoint sel {A} (l : list A) (flags : list bool) : list A :=
  match l, flags with
  | x :: r, f :: fl => (if f then [x] else []) ++ sel r fl
  | _, _ => []
  end.

Lemma sel_select a flags : sel a flags = UpdateFacts.select a flags.
Proof. revert flags. induction a as [|e a IH]; intros [|f fl]; cbn [sel UpdateFacts.select]; try reflexivity. rewrite IH. reflexivity. Qed.

Lemma sel_map {A B} (g : A -> B) l : forall flags, sel (map g l) flags = map g (sel l flags).
Proof.
  induction l as [|x l IH]; intros [|f fl]; cbn [sel map]; try reflexivity. rewrite IH, map_app. destruct f; reflexivity.
Qed.

Lemma sel_app {A} (a b : list A) : forall flags,
  sel (a ++ b) flags = sel a flags ++ sel b (skipn (length a) flags).
Proof.
  induction a as [|x a IH]; intros flags; cbn [app sel length skipn]; [reflexivity|].
  destruct flags as [|f fl]; [destruct b; reflexivity|]. cbn [skipn]. rewrite IH, app_assoc. reflexivity.
Qed.

Lemma sel_filter {A} (g : A -> bool) l : sel l (map g l) = filter g l.
Proof. induction l as [|x l IH]; [reflexivity|]. cbn [sel map filter]. rewrite IH. destruct (g x); reflexivity. Qed.

Lemma sel_filter_app {A} (g : A -> bool) l rest : sel l (map g l ++ rest) = filter g l.
Proof. induction l as [|x l IH]; [destruct rest; reflexivity|]. cbn [sel map filter app]. rewrite IH. destruct (g x); reflexivity. Qed.

Lemma sel_In {A} (l : list A) : forall flags x, In x (sel l flags) -> In x l.
Proof.
  induction l as [|y l IH]; intros [|f fl] x H; cbn [sel] in H; try contradiction.
  apply in_app_or in H. destruct H as [H|H]; [destruct f; [destruct H as [<-|[]]; left; reflexivity|contradiction]|right; exact (IH _ _ H)].
Qed.

Lemma Forall_sel {A} (P : A -> Prop) l flags : Forall P l -> Forall P (sel l flags).
Proof. intros H. apply Forall_forall. intros x Hx. rewrite Forall_forall in H. apply H. exact (sel_In _ _ _ Hx). Qed.

(* ================================================================================================= *)
(* 1. writable entries meet the premises of the pipeline's round-trip theorems                         *)
(* ================================================================================================= *)
Lemma critical_not_term c : ty_is_critical (cty c) = false -> is_term c = false.
Proof.
  intros H. unfold is_term, ty_is.
  destruct (bytes_eqb (cty c) FEND) eqn:E1; [apply bytes_eqb_eq in E1; rewrite E1 in H; discriminate H|].
  destruct (bytes_eqb (cty c) SEND) eqn:E2; [apply bytes_eqb_eq in E2; rewrite E2 in H; discriminate H|].
  destruct (bytes_eqb (cty c) ANXT) eqn:E3; [apply bytes_eqb_eq in E3; rewrite E3 in H; discriminate H|].
  destruct (bytes_eqb (cty c) AEND) eqn:E4; [apply bytes_eqb_eq in E4; rewrite E4 in H; discriminate H|].
  reflexivity.
Qed.

Lemma writable_wf_fits n : writable_normal n -> wf_normal n /\ fits n.
Proof.
  intros (W1 & W2 & W3 & W4 & W5 & W6 & W8 & W9 & W10 & W11 & W12 & W13 & W14 & W15).
  cbv zeta in *.
  assert (U : utf8_valid (f_name (n_hdr n)) = true) by (unfold valid_name in W3; apply andb_prop in W3; apply W3).
  assert (S : sanitize_name (f_name (n_hdr n)) = f_name (n_hdr n)).
  { pose proof (valid_name_fixed _ W3) as F. unfold name_of_bytes in F. rewrite U in F. injection F as F. exact F. }
  split.
  - unfold wf_normal, wf_fhed. rewrite W1, W2.
    split; [split; [reflexivity|split; [lia|split; assumption]]|].
    split; [reflexivity|]. split; [reflexivity|].
    split.
    { destruct (n_phsf n) as [p|]; cbn [opt_all phsf_ok] in *; [|exact I]. destruct W5 as (_ & P & _).
      pose proof (phsf_shape_utf8 _ P) as F. unfold utf8_string in F. destruct (utf8_valid p); [reflexivity|discriminate F]. }
    split; [eapply Forall_impl; [|exact W6]; intros c Hc; apply Hc|].
    split; [exact W8|]. split; [exact W10|]. split; [exact W11|]. split; [exact W12|]. split; [exact W13|]. split; [exact W14|].
    eapply Forall_impl; [|exact W15]. intros x Hx. apply Hx.
  - unfold fits. split; [exact W4|].
    split; [destruct (n_phsf n) as [p|]; cbn [opt_all phsf_ok] in *; [apply W5|exact I]|].
    split; [eapply Forall_impl; [|exact W6]; intros c Hc; apply Hc|].
    split; [eapply Forall_impl; [|exact W6]; intros c (_ & Hc & _); apply critical_not_term; exact Hc|].
    eapply Forall_impl; [|exact W15]. intros x Hx. apply Hx.
Qed.

(* ================================================================================================= *)
(* 2. run_transform_entry driven by a list of flags                                                    *)
(* ================================================================================================= *)
Section Rewrite.
Variable expand : solid_entry -> res (list normal_entry).
Variable rebuild : solid_entry -> list normal_entry -> solid_entry.
(* keep: TransformStrategyKeepSolid / UnSolid; pwb: a password was given *)
Variables keep pwb : bool.

(* the entries the transformer is called with, in order *)
Fixpoint flat (es : list read_entry) : res (list normal_entry) :=
  match es with
  | [] => Ok []
  | RNormal n :: r => do t <- flat r; Ok (n :: t)
  | RSolid s :: r => do inner <- expand s; do t <- flat r; Ok (inner ++ t)
  end.

Definition locked (s : solid_entry) : bool := encrypted (s_enc (so_hdr s)) && negb pwb.

(* every item through Strategy::transform; an entry whose flag is set is written with add_entry *)
Fixpoint rw_items (es : list read_entry) (flags : list bool) : res (list read_entry) :=
  match es with
  | [] => Ok []
  | RNormal n :: r => do r' <- rw_items r (skipn 1 flags); Ok (map RNormal (sel [n] flags) ++ r')
  | RSolid s :: r =>
    if locked s then Err InvalidInput else
    do inner <- expand s;
    do r' <- rw_items r (skipn (length inner) flags);
    Ok ((if keep then [RSolid (rebuild s (sel inner flags))] else map RNormal (sel inner flags)) ++ r')
  end.

(* ---- delete is such a run ----------------------------------------------------------------------------- *)
Variables hdr_tok content_tok : normal_entry -> bytes.

Lemma edit_list_delete sl : forall ns,
  edit_list hdr_tok content_tok Transform.CDelete sl ns = Ok (filter (kept sl) ns).
Proof.
  induction ns as [|n ns IH]; [reflexivity|]. cbn [edit_list]. rewrite IH.
  unfold edit_entry, Transform.cmd_transformer. cbn [Transform.selects_all orb filter].
  change (Transform.le_name (lview hdr_tok content_tok n)) with (f_name (n_hdr n)). unfold kept.
  destruct (sl (f_name (n_hdr n))); cbn [Transform.cmd_entry bind option_map negb]; [reflexivity|].
  rewrite reentry_lview. reflexivity.
Qed.

Lemma edit_delete_rw sl : forall es ns, flat es = Ok ns ->
  forall rest, edit_archive hdr_tok content_tok expand rebuild keep pwb Transform.CDelete sl es
               = rw_items es (map (kept sl) ns ++ rest).
Proof.
  induction es as [|x es IH]; intros ns F rest; [reflexivity|].
  destruct x as [n|s]; cbn [flat] in F; cbn [edit_archive edit_item rw_items].
  - destruct (flat es) as [t| |] eqn:Ft; cbn [bind] in F; try discriminate F. injection F as <-.
    cbn [map app skipn]. rewrite (IH t eq_refl rest).
    unfold edit_entry, Transform.cmd_transformer. cbn [Transform.selects_all orb].
    change (Transform.le_name (lview hdr_tok content_tok n)) with (f_name (n_hdr n)). cbn [sel]. change (kept sl n) with (negb (sl (f_name (n_hdr n)))).
    destruct (sl (f_name (n_hdr n))); cbn [Transform.cmd_entry bind option_map negb app map].
    + destruct (rw_items es _); reflexivity.
    + rewrite reentry_lview. destruct (rw_items es _); reflexivity.
  - fold (locked s). destruct (locked s); [reflexivity|].
    destruct (expand s) as [inner| |]; cbn [bind] in F |- *; try discriminate F; try reflexivity.
    destruct (flat es) as [t| |] eqn:Ft; cbn [bind] in F; try discriminate F. injection F as <-.
    rewrite edit_list_delete. cbn [bind]. rewrite map_app, <- app_assoc.
    rewrite sel_filter_app. rewrite skipn_app, skipn_all2 by (rewrite map_length; lia).
    rewrite map_length, Nat.sub_diag. cbn [skipn app]. rewrite (IH t eq_refl rest). reflexivity.
Qed.
End Rewrite.

(* ---- update.rs: the pass over the existing entries is such a run ---------------------------------------------- *)
(* what the closure of update.rs looks at: the entry's name and its mTIM (need_update_condition); no content is decoded *)
Definition hview (n : normal_entry) : Update.entry :=
  Update.mkE (f_name (n_hdr n)) (kind_no (f_kind (n_hdr n))) [] (m_mtime (n_meta n)).

(* the archive `experimental update` writes: header, the pass (Update.pass_flags is the closure over target_items
   and refreshed, evaluated on the entries in the order the reader yields them), the re-created and the new entries
   `news` as add_entry writes them, end marker *)
Definition update_bytes (expand : solid_entry -> res (list normal_entry))
    (rebuild : solid_entry -> list normal_entry -> solid_entry) (keep pwb : bool)
    (excl : list bytes) (cond : N) (targets : list Update.node) (news : list (list chunk)) (b : bytes) : res bytes :=
  do es <- read_archive b;
  do ns <- flat expand es;
  do es' <- rw_items expand rebuild keep pwb es (Update.pass_flags excl cond (map hview ns) targets []);
  Ok (write_raw_archive 0 (map ser_entry es' ++ news)).

Definition same_view (e e' : Update.entry) : Prop :=
  Update.e_path e = Update.e_path e' /\ Update.e_mtime e = Update.e_mtime e'.

(* the pass depends on names and stored times only *)
Lemma pass_view excl cond : forall a a', Forall2 same_view a a' -> forall t r,
  Update.pass_flags excl cond a t r = Update.pass_flags excl cond a' t r /\
  snd (fst (Update.update_pass excl cond a t r)) = snd (fst (Update.update_pass excl cond a' t r)) /\
  snd (Update.update_pass excl cond a t r) = snd (Update.update_pass excl cond a' t r).
Proof.
  induction 1 as [|e e' a a' [Hp Hm] _ IH]; intros t r; [repeat split|].
  destruct e as [p k c m], e' as [p' k' c' m']. cbn [Update.e_path Update.e_mtime] in Hp, Hm. subst p' m'.
  cbn [Update.pass_flags Update.update_pass]. unfold Update.names_entry, Update.cond_holds. cbn [Update.e_path Update.e_mtime].
  destruct (find (fun n => bytes_eqb (Update.node_name n) p) t) as [n|].
  - destruct (negb (Update.mem p excl) && _).
    + destruct (IH (filter (fun m0 => negb (bytes_eqb (Update.node_name m0) p)) t) (p :: r)) as (I1 & I2 & I3).
      destruct (Update.update_pass excl cond a _ _) as [[k1 j1] t1]. destruct (Update.update_pass excl cond a' _ _) as [[k2 j2] t2].
      cbn [fst snd] in *. rewrite I1, I2, I3. repeat split.
    + destruct (IH (filter (fun m0 => negb (bytes_eqb (Update.node_name m0) p)) t) r) as (I1 & I2 & I3).
      destruct (Update.update_pass excl cond a _ _) as [[k1 j1] t1]. destruct (Update.update_pass excl cond a' _ _) as [[k2 j2] t2].
      cbn [fst snd] in *. rewrite I1, I2, I3. repeat split.
  - destruct (IH t r) as (I1 & I2 & I3). destruct (Update.mem p r).
    + rewrite I1. repeat split; assumption.
    + destruct (Update.update_pass excl cond a _ _) as [[k1 j1] t1]. destruct (Update.update_pass excl cond a' _ _) as [[k2 j2] t2].
      cbn [fst snd] in *. rewrite I1, I2, I3. repeat split.
Qed.

(* ================================================================================================= *)
(* 3. the logical content of what a flag-driven run writes, with the pipeline as expand / rebuild      *)
(* ================================================================================================= *)
Section RwLogical.
Variables E D : encryption -> bytes -> bytes -> bytes.
Variable compress : compression -> N -> list bytes -> list bytes.
Variable decompress : compression -> bytes -> res bytes.
Variable verify : bytes -> bytes -> res bytes.
Hypothesis D_len : forall a k c, len16 c -> len16 (D a k c).
Hypothesis DE : forall a k b, len16 b -> D a k (E a k b) = b.
Hypothesis E_len : forall a k b, len16 b -> len16 (E a k b).
Hypothesis compress_law : forall c lvl ws, decompress c (concat (compress c lvl ws)) = Ok (concat ws).
Hypothesis compress_det : forall c lvl (ws ws' : list bytes), concat ws = concat ws' ->
  concat (compress c lvl ws) = concat (compress c lvl ws').
(* WriteOptions of a rebuilt block: codec, cipher and mode of the old header, level lvl, and a FRESH cipher context
   (salt and IV come from the random number generator: the random tape is this parameter) *)
Variable lvl : N.
Variable ctx : cctx.
Hypothesis ctx_strict : strict_ctx ctx.
Variable pw : bytes.
Hypothesis ctx_pw : wf_ctx verify ctx pw.
Variable rb : normal_entry -> list N.
Variable srb : solid_entry -> list N.
Variables keep pwb : bool.

Notation read_entries_x := (read_entries_x E D decompress verify).
Notation read_entry_x := (read_entry_x E D decompress verify).
Notation x_items := (x_items E D decompress verify pw rb srb).
Notation x_item := (x_item E D decompress verify pw rb srb).

(* s.entries(password): SolidEntry::entries run to its end *)
Definition expand_p (s : solid_entry) : res (list normal_entry) :=
  do (ns, f) <- decode_solid E D decompress verify s pw (srb s);
  match f with FinOk => Ok ns | FinErr k => Err k | FinPanic => Panic end.
Notation rebuild_p := (rebuild_pipeline E compress lvl ctx).
Notation rw := (rw_items expand_p rebuild_p keep pwb).
Notation flat_p := (flat expand_p).

Lemma x_item_solid s : x_item (RSolid s) = do ns <- expand_p s; read_entries_x pw rb ns.
Proof.
  unfold AppendContainerFacts.x_item, expand_p.
  destruct (decode_solid E D decompress verify s pw (srb s)) as [[ns f]| |]; cbn [bind]; try reflexivity.
  destruct f; reflexivity.
Qed.

Lemma read_entries_x_app a : forall b xa xb, read_entries_x pw rb a = Ok xa -> read_entries_x pw rb b = Ok xb ->
  read_entries_x pw rb (a ++ b) = Ok (xa ++ xb).
Proof.
  induction a as [|n a IH]; intros b xa xb Ha Hb; cbn [CreateTransportFacts.read_entries_x app] in *.
  - injection Ha as <-. exact Hb.
  - destruct (read_entry_x pw rb n) as [x| |]; cbn [bind] in *; try discriminate Ha.
    destruct (read_entries_x pw rb a) as [y| |]; cbn [bind] in *; try discriminate Ha. injection Ha as <-.
    rewrite (IH b y xb eq_refl Hb). reflexivity.
Qed.

Lemma read_entries_x_split a : forall b o, read_entries_x pw rb (a ++ b) = Ok o ->
  exists xa xb, read_entries_x pw rb a = Ok xa /\ read_entries_x pw rb b = Ok xb /\ o = xa ++ xb /\ length xa = length a.
Proof.
  induction a as [|n a IH]; intros b o H; cbn [CreateTransportFacts.read_entries_x app] in *.
  - exists [], o. auto.
  - destruct (read_entry_x pw rb n) as [x| |]; cbn [bind] in *; try discriminate H.
    destruct (read_entries_x pw rb (a ++ b)) as [y| |] eqn:Ey; cbn [bind] in *; try discriminate H. injection H as <-.
    destruct (IH b y Ey) as (xa & xb & -> & Hb & -> & L). exists (x :: xa), xb. cbn [bind length]. rewrite L. auto.
Qed.

(* the decoded view of an archive's items is the decoded view of the entries the transformer sees *)
Lemma x_flat : forall es old, x_items es = Ok old ->
  exists ns, flat_p es = Ok ns /\ read_entries_x pw rb ns = Ok old.
Proof.
  induction es as [|x es IH]; intros old H; cbn [AppendContainerFacts.x_items flat] in *.
  - injection H as <-. exists []. auto.
  - destruct (x_item x) as [xa| |] eqn:Ex; cbn [bind] in H; try discriminate H.
    destruct (x_items es) as [xb| |] eqn:Exs; cbn [bind] in H; try discriminate H. injection H as <-.
    destruct (IH xb eq_refl) as (t & Ft & Rt). rewrite Ft. destruct x as [n|s].
    + cbn [bind]. exists (n :: t). split; [reflexivity|]. change (n :: t) with ([n] ++ t).
      apply read_entries_x_app; [exact Ex|exact Rt].
    + rewrite x_item_solid in Ex. destruct (expand_p s) as [inner| |]; cbn [bind] in *; try discriminate Ex.
      exists (inner ++ t). split; [reflexivity|]. apply read_entries_x_app; assumption.
Qed.

Lemma flat_x : forall es ns old, flat_p es = Ok ns -> read_entries_x pw rb ns = Ok old -> x_items es = Ok old.
Proof.
  induction es as [|x es IH]; intros ns old F R; cbn [AppendContainerFacts.x_items flat] in *.
  - injection F as <-. exact R.
  - destruct x as [n|s].
    + destruct (flat_p es) as [t| |] eqn:Ft; cbn [bind] in F; try discriminate F. injection F as <-.
      change (n :: t) with ([n] ++ t) in R. destruct (read_entries_x_split [n] t old R) as (xa & xb & Ra & Rb & -> & _).
      cbn [AppendContainerFacts.x_item]. rewrite Ra. cbn [bind]. rewrite (IH t xb eq_refl Rb). reflexivity.
    + rewrite x_item_solid. destruct (expand_p s) as [inner| |]; cbn [bind] in *; try discriminate F.
      destruct (flat_p es) as [t| |] eqn:Ft; cbn [bind] in F; try discriminate F. injection F as <-.
      destruct (read_entries_x_split inner t old R) as (xa & xb & Ra & Rb & -> & _).
      rewrite Ra. cbn [bind]. rewrite (IH t xb eq_refl Rb). reflexivity.
Qed.

Lemma read_entries_x_sel : forall ns old flags, Forall (drained rb) ns -> read_entries_x pw rb ns = Ok old ->
  read_entries_x pw rb (map normalize (sel ns flags)) = Ok (sel old flags).
Proof.
  induction ns as [|n ns IH]; intros old flags Hd H; cbn [CreateTransportFacts.read_entries_x] in H.
  - injection H as <-. destruct flags; reflexivity.
  - inversion Hd as [|? ? [D1 D2] Hd']; subst.
    destruct (read_entry_x pw rb n) as [x| |] eqn:Ex; cbn [bind] in H; try discriminate H.
    destruct (read_entries_x pw rb ns) as [xs| |] eqn:Exs; cbn [bind] in H; try discriminate H. injection H as <-.
    destruct flags as [|f fl]; [reflexivity|]. cbn [sel]. rewrite map_app.
    apply read_entries_x_app; [|exact (IH xs fl Hd' eq_refl)].
    destruct f; [|reflexivity]. cbn [map CreateTransportFacts.read_entries_x].
    rewrite (read_entry_x_normalize E D decompress verify pw rb n D1 D2), Ex. reflexivity.
Qed.

(* what the input must be like: a block can be opened, and its inner entries are writable (for a block without
   compression and encryption that follows from `writable` of the block, C14_solid_inner_writable; for the others
   it is a property of the content the recogniser cannot see) *)
Definition block_ok (x : read_entry) : Prop :=
  match x with
  | RSolid s => locked pwb s = false /\ forall inner, expand_p s = Ok inner -> Forall writable_normal inner
  | RNormal _ => True
  end.
(* the buffer sizes chosen for a solid entry read its data to the end *)
Definition srb_drains (x : read_entry) : Prop :=
  match x with RSolid s => drains (so_data s) (srb s) | RNormal _ => True end.

(* the block SolidEntryBuilder builds from kept entries expands to them (without their empty data chunks) *)
Lemma rebuilt_expands s k : Forall writable_normal k ->
  drains (so_data (rebuild_p s k)) (srb (rebuild_p s k)) -> expand_p (rebuild_p s k) = Ok (map normalize k).
Proof.
  intros Wk Dr. unfold expand_p.
  set (s' := rebuild_p s k) in *.
  set (m := S (N.to_nat (len (plain compress (cfg_of lvl s) (solid_writes k)) + len (concat (so_data s'))))).
  assert (P0 : Forall (fun n => 0 < n) (repeat 1 m)) by (apply Forall_forall; intros x Hx; apply repeat_spec in Hx; subst; lia).
  assert (L0 : len (repeat 1 m) = N.of_nat m) by (unfold len; rewrite repeat_length; reflexivity).
  rewrite (solid_same_decode E D decompress verify s' s' pw (srb s') (repeat 1 m)).
  - unfold s', rebuild_pipeline.
    rewrite (solid_builder_roundtrip E D compress decompress verify D_len DE E_len compress_law compress_det
               (cfg_of lvl s) ctx pw (so_extra s) k (repeat 1 m)); [reflexivity|exact ctx_pw| | |exact P0|].
    + eapply Forall_impl; [|exact Wk]. intros n Hn. apply (writable_wf_fits n Hn).
    + eapply Forall_impl; [|exact Wk]. intros n Hn. apply (writable_wf_fits n Hn).
    + unfold covers. rewrite L0. unfold m. lia.
  - repeat split.
  - exact Dr.
  - split; [exact P0|]. rewrite L0. unfold m. lia.
Qed.

(* `rw_logical`: the run succeeds, what it writes is writable (hence the archive written from it is accepted and
   reads back), and decodes to exactly the selected logical entries, in order *)
Theorem rw_logical : forall es flags ns old,
  Forall writable es -> Forall block_ok es -> flat_p es = Ok ns -> read_entries_x pw rb ns = Ok old ->
  Forall (drained rb) ns ->
  exists es', rw es flags = Ok es' /\ Forall writable es' /\
    (Forall srb_drains es' -> x_items (map normalize_entry es') = Ok (sel old flags)).
Proof.
  induction es as [|x es IH]; intros flags ns old W B F R Dn.
  - cbn [flat] in F. injection F as <-. cbn in R. injection R as <-. exists []. split; [reflexivity|]. split; [constructor|].
    intros _. destruct flags; reflexivity.
  - inversion W as [|? ? Wx W']; subst. inversion B as [|? ? Bx B']; subst. destruct x as [n|s]; cbn [flat rw_items] in *.
    + destruct (flat_p es) as [t| |] eqn:Ft; cbn [bind] in F; try discriminate F. injection F as <-.
      change (n :: t) with ([n] ++ t) in R. destruct (read_entries_x_split [n] t old R) as (xa & xb & Ra & Rb & -> & La).
      inversion Dn as [|? ? Dn0 Dn']; subst.
      destruct (IH (skipn 1 flags) t xb W' B' eq_refl Rb Dn') as (r' & RW & Wr & XR).
      rewrite RW. cbn [bind]. eexists. split; [reflexivity|]. split.
      * apply Forall_app. split; [|exact Wr]. apply Forall_forall. intros y Hy. apply in_map_iff in Hy.
        destruct Hy as (n' & <- & Hn'). apply sel_In in Hn'. destruct Hn' as [<-|[]]. exact Wx.
      * intros SD. apply Forall_app in SD. destruct SD as [_ SD]. rewrite map_app.
        rewrite (sel_app xa xb), La. apply (x_items_app E D decompress verify); [|exact (XR SD)].
        rewrite map_map. cbn [normalize_entry]. rewrite <- map_map with (g := RNormal) (f := normalize).
        apply (x_items_normals E D decompress verify). apply read_entries_x_sel; [constructor; [exact Dn0|constructor]|exact Ra].
    + destruct Bx as [Lk Bi]. rewrite Lk.
      destruct (expand_p s) as [inner| |] eqn:Ex; cbn [bind] in F |- *; try discriminate F.
      destruct (flat_p es) as [t| |] eqn:Ft; cbn [bind] in F; try discriminate F. injection F as <-.
      destruct (read_entries_x_split inner t old R) as (xa & xb & Ra & Rb & -> & La).
      apply Forall_app in Dn. destruct Dn as [Dni Dnt].
      destruct (IH (skipn (length inner) flags) t xb W' B' eq_refl Rb Dnt) as (r' & RW & Wr & XR).
      rewrite RW. cbn [bind]. eexists. split; [reflexivity|].
      pose proof (Forall_sel _ inner flags (Bi inner eq_refl)) as Wk.
      assert (XK : read_entries_x pw rb (map normalize (sel inner flags)) = Ok (sel xa flags)) by (apply read_entries_x_sel; assumption).
      split.
      * apply Forall_app. split; [|exact Wr]. destruct keep.
        -- constructor; [|constructor]. cbn [writable] in *. destruct Wx as (_ & _ & _ & EX & _).
           unfold rebuild_pipeline. apply (rebuild_solid_writable E compress E_len); assumption.
        -- apply Forall_forall. intros y Hy. apply in_map_iff in Hy. destruct Hy as (n' & <- & Hn').
           rewrite Forall_forall in Wk. exact (Wk n' Hn').
      * intros SD. apply Forall_app in SD. destruct SD as [SD1 SD2]. rewrite map_app.
        rewrite (sel_app xa xb), La. apply (x_items_app E D decompress verify); [|exact (XR SD2)].
        destruct keep.
        -- inversion SD1 as [|? ? SD0 _]; subst. cbn [srb_drains] in SD0.
           cbn [map normalize_entry AppendContainerFacts.x_items]. rewrite x_item_solid.
           rewrite (rebuilt_expands s _ Wk SD0). cbn [bind]. rewrite XK. cbn [bind]. rewrite app_nil_r. reflexivity.
        -- rewrite map_map. cbn [normalize_entry]. rewrite <- map_map with (g := RNormal) (f := normalize).
           apply (x_items_normals E D decompress verify). exact XK.
Qed.

(* ---- the archive written from what a run yields ---------------------------------------------------------------- *)
Lemma written_reads es' : Forall writable es' ->
  wf_archive (write_raw_archive 0 (map ser_entry es')) = true /\
  read_archive (write_raw_archive 0 (map ser_entry es')) = Ok (map normalize_entry es').
Proof.
  intros W. destruct (writer_wf es' W) as (WA & SD). split; [exact WA|].
  apply strict_agrees in SD. unfold read_archive. rewrite SD. reflexivity.
Qed.

Lemma wf_read_writable b es : wf_archive b = true -> read_archive b = Ok es -> Forall writable es.
Proof.
  intros WA RA. destruct (wf_archive_read b WA) as (es0 & SD & En & _).
  unfold read_archive in RA. rewrite En in RA. cbn [bind] in RA. injection RA as <-.
  exact (proj2 writable_exact _ _ SD).
Qed.

Notation xlogical := (xlogical E D decompress verify pw rb srb).
Notation logical := (logical E D decompress verify pw rb srb).

(* the policies rb / srb on the input: every entry the transformer sees is read to its end *)
Definition input_ok (es : list read_entry) : Prop :=
  Forall block_ok es /\ forall ns, flat_p es = Ok ns -> Forall (drained rb) ns.

(* ================================================================================================= *)
(* 4. delete, archives with solid blocks, both strategies                                              *)
(* ================================================================================================= *)
Variables hdr_tok content_tok : normal_entry -> bytes.
Notation run_delete := (run_edit hdr_tok content_tok expand_p rebuild_p keep pwb Transform.CDelete).

Lemma sel_kept sl : forall ns old, read_entries_x pw rb ns = Ok old ->
  sel old (map (kept sl) ns) = filter (fun x => negb (sl (e_name x))) old.
Proof.
  induction ns as [|n ns IH]; intros old H; cbn [CreateTransportFacts.read_entries_x] in H.
  - injection H as <-. reflexivity.
  - destruct (read_entry_x pw rb n) as [x| |] eqn:Ex; cbn [bind] in H; try discriminate H.
    destruct (read_entries_x pw rb ns) as [xs| |] eqn:Exs; cbn [bind] in H; try discriminate H. injection H as <-.
    cbn [map sel filter]. rewrite (IH xs eq_refl). unfold kept. rewrite (read_x_name E D decompress verify _ _ _ _ Ex).
    destruct (sl (f_name (n_hdr n))); reflexivity.
Qed.

Theorem delete_solid_logical nf sl b es old :
  wf_archive b = true -> read_archive b = Ok es -> input_ok es -> xlogical b = Ok old ->
  exists b' es', run_delete nf sl b = Ok b' /\ b' = write_raw_archive 0 (map ser_entry es') /\
    Forall writable es' /\ wf_archive b' = true /\
    (Forall srb_drains es' -> xlogical b' = Ok (filter (fun x => negb (sl (e_name x))) old)).
Proof.
  intros WA RA [B Dn] XL. pose proof (wf_read_writable b es WA RA) as W.
  unfold AppendContainerFacts.xlogical in XL. rewrite RA in XL. cbn [bind] in XL.
  destruct (x_flat es old XL) as (ns & F & R).
  destruct (rw_logical es (map (kept sl) ns) ns old W B F R (Dn ns F)) as (es' & RW & W' & X).
  destruct (written_reads es' W') as (WA' & RA').
  exists (write_raw_archive 0 (map ser_entry es')), es'. split; [|split; [reflexivity|split; [exact W'|split; [exact WA'|]]]].
  - unfold run_edit. cbn [Transform.needs_files andb Transform.eff_sel]. change (read_all b) with (read_archive b). rewrite RA. cbn [bind].
    rewrite (edit_delete_rw expand_p rebuild_p keep pwb hdr_tok content_tok sl es ns F []), app_nil_r, RW. reflexivity.
  - intros SD. unfold AppendContainerFacts.xlogical. rewrite RA'. cbn [bind]. rewrite (X SD). f_equal. apply sel_kept. exact R.
Qed.

(* the bridge: abs (file after delete) = Update.delete matched (abs file), solid blocks or not, either strategy *)
Theorem delete_solid_abs nf matched b es a :
  wf_archive b = true -> read_archive b = Ok es -> input_ok es -> logical b = Ok a ->
  exists b' es', run_delete nf (fun p => Update.mem p matched) b = Ok b' /\ b' = write_raw_archive 0 (map ser_entry es') /\
    Forall writable es' /\ wf_archive b' = true /\
    (Forall srb_drains es' -> logical b' = Ok (Update.delete matched a)) /\
    Update.step a (Update.ODelete matched) = Ok (Update.delete matched a).
Proof.
  intros WA RA IO L. unfold AppendContainerFacts.logical in L.
  destruct (xlogical b) as [old| |] eqn:XL; cbn [bind] in L; try discriminate L. injection L as <-.
  destruct (delete_solid_logical nf (fun p => Update.mem p matched) b es old WA RA IO XL) as (b' & es' & RE & Eb & W' & WA' & X).
  exists b', es'. split; [exact RE|]. split; [exact Eb|]. split; [exact W'|]. split; [exact WA'|]. split; [|reflexivity].
  intros SD. unfold AppendContainerFacts.logical. rewrite (X SD). cbn [bind].
  rewrite (abs_delete (fun p => Update.mem p matched)). reflexivity.
Qed.

(* ================================================================================================= *)
(* 5. update                                                                                           *)
(* ================================================================================================= *)
Lemma read_view : forall ns old, read_entries_x pw rb ns = Ok old -> Forall2 same_view (map hview ns) (map abs old).
Proof.
  induction ns as [|n ns IH]; intros old H; cbn [CreateTransportFacts.read_entries_x] in H.
  - injection H as <-. constructor.
  - destruct (read_entry_x pw rb n) as [x| |] eqn:Ex; cbn [bind] in H; try discriminate H.
    destruct (read_entries_x pw rb ns) as [xs| |] eqn:Exs; cbn [bind] in H; try discriminate H. injection H as <-.
    cbn [map]. constructor; [|exact (IH xs eq_refl)].
    unfold CreateTransportFacts.read_entry_x in Ex. destruct (decode_normal E D decompress verify n pw (rb n)); cbn [bind] in Ex; try discriminate Ex.
    injection Ex as <-. split; reflexivity.
Qed.

Notation update_file := (update_bytes expand_p rebuild_p keep pwb).
Notation build_job := (build_job E compress).

(* `update_container`: the file abstracts to a; the logical command succeeds with a'; the jobs are what create_entry
   builds for the nodes the pass hands on (the refreshed ones in archive order, then the targets not met).  The
   archive update writes is of the written form and abstracts to a' *)
Theorem update_container kd kt excl cond walk b es a a' jobs new :
  wf_archive b = true -> read_archive b = Ok es -> input_ok es -> logical b = Ok a ->
  Update.update_cmd kd kt excl cond a walk = Ok a' ->
  let targets := Update.update_targets kd walk in
  let r := Update.update_pass excl cond a targets [] in
  map abs new = map (Update.fresh kt) (snd (fst r) ++ snd r) ->
  Forall2 carries jobs new -> Forall (wf_job E compress verify pw) jobs -> Forall (fun e => e_kind e <= 3) new ->
  (forall j, In j jobs -> reads_to_end E compress rb j) ->
  Forall writable_normal (map build_job jobs) ->
  exists b' es', update_file excl cond targets (new_raws E compress jobs) b = Ok b' /\
    b' = write_raw_archive 0 (map ser_entry (es' ++ map RNormal (map build_job jobs))) /\
    rw es (Update.pass_flags excl cond a targets []) = Ok es' /\
    Forall writable (es' ++ map RNormal (map build_job jobs)) /\ wf_archive b' = true /\
    (Forall srb_drains es' -> logical b' = Ok a').
Proof.
  intros WA RA [B Dn] L UC targets r Cn Hc Hw Hk Hr Wj.
  pose proof (wf_read_writable b es WA RA) as W.
  unfold AppendContainerFacts.logical in L. destruct (xlogical b) as [old| |] eqn:XL; cbn [bind] in L; try discriminate L. injection L as <-.
  unfold AppendContainerFacts.xlogical in XL. rewrite RA in XL. cbn [bind] in XL.
  destruct (x_flat es old XL) as (ns & F & R).
  destruct (pass_view excl cond _ _ (read_view ns old R) targets []) as (PF & _ & _).
  destruct (rw_logical es (Update.pass_flags excl cond (map abs old) targets []) ns old W B F R (Dn ns F)) as (es' & RW & W' & X).
  assert (WW : Forall writable (es' ++ map RNormal (map build_job jobs))).
  { apply Forall_app. split; [exact W'|]. apply Forall_forall. intros y Hy. apply in_map_iff in Hy. destruct Hy as (n & <- & Hn).
    rewrite Forall_forall in Wj. exact (Wj n Hn). }
  destruct (written_reads _ WW) as (WA' & RA').
  exists (write_raw_archive 0 (map ser_entry (es' ++ map RNormal (map build_job jobs)))), es'.
  split; [|split; [reflexivity|split; [exact RW|split; [exact WW|split; [exact WA'|]]]]].
  - unfold update_bytes. rewrite RA. cbn [bind]. rewrite F. cbn [bind]. rewrite PF, RW. cbn [bind].
    rewrite map_app. unfold new_raws. rewrite (map_map RNormal ser_entry). reflexivity.
  - intros SD. unfold AppendContainerFacts.logical, AppendContainerFacts.xlogical. rewrite RA'. cbn [bind]. rewrite map_app.
    rewrite (x_items_app E D decompress verify pw rb srb _ _ _ new (X SD)).
    + cbn [bind]. f_equal. rewrite map_app, <- sel_map, sel_select, UpdateFacts.select_pass_flags.
      rewrite (UpdateFacts.update_cmd_ok kd kt excl cond (map abs old) walk a' UC). cbv zeta. fold targets. fold r. rewrite Cn. reflexivity.
    + rewrite map_map. cbn [normalize_entry]. rewrite <- map_map with (g := RNormal) (f := normalize).
      apply (x_items_normals E D decompress verify).
      replace (map normalize (map build_job jobs)) with (map build_job jobs).
      * apply (read_all_built E D compress decompress verify D_len DE E_len compress_law); assumption.
      * rewrite map_map. apply map_ext_in. intros j Hj. rewrite Forall_forall in Hw. destruct (Hw j Hj) as (_ & Hcx & _).
        symmetry. apply (normalize_build E D compress verify D_len DE E_len _ _ pw). exact Hcx.
Qed.

(* the four C11 statements about update, on files: what stays, what is re-created, exactly once, no duplicate names *)
Corollary update_container_props kd kt excl cond walk b es a a' jobs new :
  wf_archive b = true -> read_archive b = Ok es -> input_ok es -> logical b = Ok a ->
  Update.update_cmd kd kt excl cond a walk = Ok a' ->
  let targets := Update.update_targets kd walk in
  let r := Update.update_pass excl cond a targets [] in
  map abs new = map (Update.fresh kt) (snd (fst r) ++ snd r) ->
  Forall2 carries jobs new -> Forall (wf_job E compress verify pw) jobs -> Forall (fun e => e_kind e <= 3) new ->
  (forall j, In j jobs -> reads_to_end E compress rb j) ->
  Forall writable_normal (map build_job jobs) ->
  exists b' es', update_file excl cond targets (new_raws E compress jobs) b = Ok b' /\ wf_archive b' = true /\
    rw es (Update.pass_flags excl cond a targets []) = Ok es' /\
    (Forall srb_drains es' ->
       logical b' = Ok a' /\
       filter (UpdateFacts.unnamed targets) a' = filter (UpdateFacts.unnamed targets) a /\
       (NoDup (Update.names a) ->
          a' = filter (UpdateFacts.stays excl cond targets) a
               ++ map (Update.fresh kt) (flat_map (UpdateFacts.job excl cond targets) a)
               ++ map (Update.fresh kt) (filter (UpdateFacts.not_in a) targets)) /\
       (NoDup (Update.names a) -> NoDup (Update.names a')) /\
       (excl = [] -> cond = 0 -> forall n, In n targets ->
          filter (fun e => bytes_eqb (Update.e_path e) (Update.node_name n)) a' = [Update.fresh kt n])).
Proof.
  intros WA RA IO L UC targets r Cn Hc Hw Hk Hr Wj.
  destruct (update_container kd kt excl cond walk b es a a' jobs new WA RA IO L UC Cn Hc Hw Hk Hr Wj)
    as (b' & es' & UF & _ & RW & _ & WA' & X).
  exists b', es'. split; [exact UF|]. split; [exact WA'|]. split; [exact RW|]. intros SD. split; [exact (X SD)|].
  split; [exact (UpdateFacts.update_keeps_others_targets kd kt excl cond a walk a' UC)|].
  split; [intros ND; exact (UpdateFacts.update_spec kd kt excl cond a walk a' ND UC)|].
  split; [intros ND; exact (UpdateFacts.update_nodup kd kt excl cond a walk a' ND UC)|].
  intros -> -> n Hn. exact (UpdateFacts.update_exactly_once_targets kd kt a walk a' n UC Hn).
Qed.

(* ================================================================================================= *)
(* 6. histories over Update.step on files of the written form                                          *)
(* ================================================================================================= *)
(* the written form: the archive the writer produces from writable entries (everything create, append, update and
   delete write: C14), abstracting to a *)
Definition Inv (b : bytes) (a : Update.archive) : Prop :=
  exists xs, b = write_raw_archive 0 (map ser_entry xs) /\ Forall writable xs /\ logical b = Ok a.

(* the jobs create_entry runs: they carry the logical entries `new`, are within the format's ranges, are read to
   their end by rb, and build writable entries (C14_build_normal_writable) *)
Definition jobs_ok (jobs : list job) (new : list xentry) : Prop :=
  Forall2 carries jobs new /\ Forall (wf_job E compress verify pw) jobs /\ Forall (fun e => e_kind e <= 3) new /\
  (forall j, In j jobs -> reads_to_end E compress rb j) /\ Forall writable_normal (map build_job jobs).

Lemma new_items_logical jobs new : jobs_ok jobs new ->
  x_items (map normalize_entry (map RNormal (map build_job jobs))) = Ok new.
Proof.
  intros (Hc & Hw & Hk & Hr & _). rewrite map_map. cbn [normalize_entry]. rewrite <- map_map with (g := RNormal) (f := normalize).
  apply (x_items_normals E D decompress verify).
  replace (map normalize (map build_job jobs)) with (map build_job jobs).
  - apply (read_all_built E D compress decompress verify D_len DE E_len compress_law); assumption.
  - rewrite map_map. apply map_ext_in. intros j Hj. rewrite Forall_forall in Hw. destruct (Hw j Hj) as (_ & Hcx & _).
    symmetry. apply (normalize_build E D compress verify D_len DE E_len _ _ pw). exact Hcx.
Qed.

Lemma jobs_writable jobs new : jobs_ok jobs new -> Forall writable (map RNormal (map build_job jobs)).
Proof.
  intros (_ & _ & _ & _ & Wj). apply Forall_forall. intros y Hy. apply in_map_iff in Hy. destruct Hy as (n & <- & Hn).
  rewrite Forall_forall in Wj. exact (Wj n Hn).
Qed.

Lemma inv_items b a xs : b = write_raw_archive 0 (map ser_entry xs) -> Forall writable xs -> logical b = Ok a ->
  wf_archive b = true /\ read_archive b = Ok (map normalize_entry xs) /\
  exists old, x_items (map normalize_entry xs) = Ok old /\ a = map abs old.
Proof.
  intros -> W L. destruct (written_reads xs W) as (WA & RA). split; [exact WA|]. split; [exact RA|].
  unfold AppendContainerFacts.logical, AppendContainerFacts.xlogical in L. rewrite RA in L. cbn [bind] in L.
  destruct (x_items (map normalize_entry xs)) as [old| |]; cbn [bind] in L; try discriminate L. injection L as <-.
  exists old. auto.
Qed.

Lemma inv_of_items xs old : Forall writable xs -> x_items (map normalize_entry xs) = Ok old ->
  Inv (write_raw_archive 0 (map ser_entry xs)) (map abs old).
Proof.
  intros W X. exists xs. split; [reflexivity|]. split; [exact W|]. destruct (written_reads xs W) as (_ & RA).
  unfold AppendContainerFacts.logical, AppendContainerFacts.xlogical. rewrite RA. cbn [bind]. rewrite X. reflexivity.
Qed.

(* the output of a rewriting command is read with buffers that drain its solid blocks *)
Definition out_drains (b' : bytes) : Prop := exists rs, read_archive b' = Ok rs /\ Forall srb_drains rs.

Lemma out_drains_items es' : Forall writable es' -> out_drains (write_raw_archive 0 (map ser_entry es')) -> Forall srb_drains es'.
Proof.
  intros W (rs & RA & SD). destruct (written_reads es' W) as (_ & RA'). rewrite RA' in RA. injection RA as <-.
  apply Forall_forall. intros x Hx. rewrite Forall_forall in SD. specialize (SD (normalize_entry x) (in_map _ _ _ Hx)).
  destruct x; exact SD.
Qed.

(* one command on a file b that abstracts to a: a command that fails leaves the file alone (C12); split / concat of
   the parts do not change the content; create writes a new archive; append writes in place; update and delete
   write a new archive through run_transform_entry with the strategy `keep` *)
Inductive fstep (b : bytes) (a : Update.archive) : Update.op -> bytes -> Prop :=
  | fs_fail o : (forall a', Update.step a o <> Ok a') -> fstep b a o b
  | fs_nop : fstep b a Update.ONop b
  | fs_create kd kt walk jobs new :
      jobs_ok jobs new -> carries_nodes kd kt walk new ->
      Update.step a (Update.OCreate kd kt walk) = Ok (map abs new) ->
      fstep b a (Update.OCreate kd kt walk) (write_archive (map build_job jobs))
  | fs_append kd kt walk jobs new b' nxt a' :
      jobs_ok jobs new -> carries_nodes kd kt walk new -> Update.step a (Update.OAppend kd kt walk) = Ok a' ->
      append_at b (new_raws E compress jobs) = Ok (b', nxt) ->
      fstep b a (Update.OAppend kd kt walk) b'
  | fs_delete matched nf es b' :
      read_archive b = Ok es -> input_ok es ->
      run_delete nf (fun p => Update.mem p matched) b = Ok b' -> out_drains b' ->
      fstep b a (Update.ODelete matched) b'
  | fs_update kd kt excl cond walk jobs new es b' a' :
      read_archive b = Ok es -> input_ok es -> jobs_ok jobs new ->
      Update.step a (Update.OUpdate kd kt excl cond walk) = Ok a' ->
      map abs new = map (Update.fresh kt)
        (snd (fst (Update.update_pass excl cond a (Update.update_targets kd walk) [])) ++
         snd (Update.update_pass excl cond a (Update.update_targets kd walk) [])) ->
      update_file excl cond (Update.update_targets kd walk) (new_raws E compress jobs) b = Ok b' -> out_drains b' ->
      fstep b a (Update.OUpdate kd kt excl cond walk) b'.

Theorem fstep_inv b a o b' : Inv b a -> fstep b a o b' -> Inv b' (Update.after a o).
Proof.
  intros (xs & Eb & W & L) St. destruct (inv_items b a xs Eb W L) as (WA & RA & old & X & Ea).
  destruct St as [o NF| |kd kt walk jobs new J Cn S|kd kt walk jobs new b' nxt a' J Cn S AP|matched nf es b' RA' IO RE OD
                 |kd kt excl cond walk jobs new es b' a' RA' IO J S Cn UF OD].
  - unfold Update.after. destruct (Update.step a o) as [a'| |] eqn:S; [exfalso; exact (NF a' eq_refl)| |]; exists xs; auto.
  - exists xs. auto.
  - unfold Update.after. rewrite S. unfold write_archive. rewrite <- (map_map RNormal ser_entry).
    apply inv_of_items; [exact (jobs_writable jobs new J)|exact (new_items_logical jobs new J)].
  - unfold Update.after. rewrite S. cbn [Update.step] in S. apply UpdateFacts.append_cmd_spec in S. subst a'.
    destruct (append_written_wf xs (map RNormal (map build_job jobs)) W (jobs_writable jobs new J)) as (AW & _ & _).
    assert (EQ : map ser_entry (map RNormal (map build_job jobs)) = new_raws E compress jobs) by (unfold new_raws; rewrite (map_map RNormal ser_entry); reflexivity).
    rewrite EQ, <- Eb in AW.
    rewrite AW in AP. injection AP as <- _. rewrite <- Cn, Ea, <- map_app.
    apply inv_of_items; [apply Forall_app; split; [exact W|exact (jobs_writable jobs new J)]|].
    rewrite map_app. apply (x_items_app E D decompress verify); [exact X|exact (new_items_logical jobs new J)].
  - rewrite RA in RA'. injection RA' as <-.
    destruct (delete_solid_abs nf matched b _ a WA RA IO L) as (b1 & es' & RE1 & Eb1 & W1 & WA1 & X1 & S1).
    rewrite RE in RE1. injection RE1 as <-. unfold Update.after. rewrite S1.
    exists es'. split; [exact Eb1|]. split; [exact W1|]. apply X1. apply (out_drains_items es' W1). rewrite <- Eb1. exact OD.
  - rewrite RA in RA'. injection RA' as <-. unfold Update.after. rewrite S. cbn [Update.step] in S.
    destruct J as (Hc & Hw & Hk & Hr & Wj).
    destruct (update_container kd kt excl cond walk b _ a a' jobs new WA RA IO L S Cn Hc Hw Hk Hr Wj)
      as (b1 & es' & UF1 & Eb1 & _ & W1 & WA1 & X1). cbv zeta in UF1.
    rewrite UF in UF1. injection UF1 as <-.
    exists (es' ++ map RNormal (map build_job jobs)). split; [exact Eb1|]. split; [exact W1|]. apply X1.
    assert (SD : Forall srb_drains (es' ++ map RNormal (map build_job jobs))) by (apply (out_drains_items _ W1); rewrite <- Eb1; exact OD).
    apply Forall_app in SD. apply SD.
Qed.

Inductive fhist : bytes -> Update.archive -> list Update.op -> bytes -> Prop :=
  | fh_nil b a : fhist b a [] b
  | fh_cons b a o b1 ops b2 : fstep b a o b1 -> fhist b1 (Update.after a o) ops b2 -> fhist b a (o :: ops) b2.

(* `file_history`: any interleaving of create, append, update, delete, re-splitting and failing commands carried out
   on files: the file at the end is of the written form and abstracts to Update.final — so C11_history_invariant
   (no name is held twice) is a statement about the file *)
Theorem file_history : forall ops b a b', Inv b a -> fhist b a ops b' ->
  Inv b' (Update.final a ops) /\
  (NoDup (Update.names a) -> UpdateFacts.hist_ok a ops ->
   exists a', logical b' = Ok a' /\ a' = Update.final a ops /\ NoDup (Update.names a')).
Proof.
  induction ops as [|o ops IH]; intros b a b' I H; inversion H; subst.
  - split; [exact I|]. intros ND _. destruct I as (xs & _ & _ & L). exists a. auto.
  - match goal with S : fstep _ _ _ _, R : fhist _ _ _ _ |- _ => pose proof (fstep_inv _ _ _ _ I S) as I1; destruct (IH _ _ _ I1 R) as (I2 & _) end.
    cbn [Update.final fold_left]. split; [exact I2|]. intros ND HO. destruct I2 as (xs & _ & _ & L).
    eexists. split; [exact L|]. split; [reflexivity|]. exact (UpdateFacts.history_invariant (o :: ops) a ND HO).
Qed.

End RwLogical.

(* ================================================================================================= *)
(* 7. entries that stay keep their bytes (solid-free written archives)                                 *)
(* ================================================================================================= *)
Lemma rw_normals expand rebuild keep pwb : forall ns flags,
  rw_items expand rebuild keep pwb (map RNormal ns) flags = Ok (map RNormal (sel ns flags)).
Proof.
  induction ns as [|n ns IH]; intros flags; [reflexivity|]. cbn [map rw_items]. rewrite IH. cbn [bind].
  destruct flags as [|f fl]; [cbn [sel skipn map app]; destruct ns; reflexivity|]. cbn [sel skipn]. rewrite app_nil_r, <- map_app. destruct f; reflexivity.
Qed.

Lemma flat_normals expand : forall ns, flat expand (map RNormal ns) = Ok ns.
Proof. induction ns as [|n ns IH]; [reflexivity|]. cbn [map flat]. rewrite IH. reflexivity. Qed.

(* the archive update writes from an archive written from writable file entries ns0: the writer's archive of the
   chunk lists of the entries that stay — the SAME chunk lists, byte for byte, as in the input — followed by the
   re-created and new entries; whatever the strategy *)
Theorem update_bytes_written expand rebuild keep pwb excl cond targets news ns0 : Forall writable_normal ns0 ->
  update_bytes expand rebuild keep pwb excl cond targets news (write_raw_archive 0 (map ser_normal ns0)) =
  Ok (write_raw_archive 0 (sel (map ser_normal ns0) (Update.pass_flags excl cond (map hview ns0) targets []) ++ news)).
Proof.
  intros W. assert (WR : Forall writable (map RNormal ns0)).
  { apply Forall_forall. intros y Hy. apply in_map_iff in Hy. destruct Hy as (n & <- & Hn). rewrite Forall_forall in W. exact (W n Hn). }
  assert (EQ : map ser_entry (map RNormal ns0) = map ser_normal ns0) by (rewrite map_map; reflexivity).
  destruct (writer_wf _ WR) as (_ & SD). apply strict_agrees in SD. rewrite EQ in SD.
  unfold update_bytes, read_archive. rewrite SD. cbn [bind]. rewrite map_map. cbn [normalize_entry].
  rewrite <- map_map with (g := RNormal) (f := normalize). rewrite flat_normals. cbn [bind]. rewrite rw_normals. cbn [bind].
  rewrite !map_map. cbn [ser_entry]. do 3 f_equal.
  change (fun x : normal_entry => hview (normalize x)) with hview.
  change (fun x : normal_entry => ser_normal x) with ser_normal.
  rewrite <- sel_map, map_map. f_equal. apply map_ext. intros n. apply ser_normalize.
Qed.

(* ================================================================================================= *)
(* 8. examples, evaluated in the kernel                                                                *)
(* ================================================================================================= *)
(* a compressor that hands on single bytes: it meets compress_small (no identity compressor does); the example
   configurations store (CNo), so the archives do not depend on it *)
Definition px_compress (_ : compression) (_ : N) (ws : list bytes) : list bytes := map (fun b => [b]) (concat ws).
Definition px_decompress (_ : compression) (b : bytes) : res bytes := Ok b.

Lemma concat_singletons (l : bytes) : concat (map (fun b => [b]) l) = l.
Proof. induction l as [|b l IH]; [reflexivity|]. cbn [map concat app]. rewrite IH. reflexivity. Qed.

Lemma px_laws :
  (forall c lvl ws, px_decompress c (concat (px_compress c lvl ws)) = Ok (concat ws)) /\
  (forall c lvl (ws ws' : list bytes), concat ws = concat ws' -> concat (px_compress c lvl ws) = concat (px_compress c lvl ws')) /\
  compress_small px_compress.
Proof.
  split; [intros c lvl ws; unfold px_decompress, px_compress; rewrite concat_singletons; reflexivity|].
  split; [intros c lvl ws ws' H; unfold px_compress; rewrite H; reflexivity|].
  intros c lvl ws. unfold px_compress. apply Forall_forall. intros p Hp. apply in_map_iff in Hp. destruct Hp as (b & <- & _).
  unfold small. vm_compute. reflexivity.
Qed.

Notation ux_build := (build_job real_E_of px_compress).
Notation ux_expand := (expand_p real_E_of real_D_of px_decompress tx_verify tx_pw tx_srb).
Notation ux_rebuild := (rebuild_pipeline real_E_of px_compress 0 tx_ctx).
Notation ux_logical := (logical real_E_of real_D_of px_decompress tx_verify tx_pw tx_rb2 tx_srb).
Notation ux_xlogical := (xlogical real_E_of real_D_of px_decompress tx_verify tx_pw tx_rb2 tx_srb).

(* the archive of CreateTransportFacts: a directory d, the file d/a.txt (AES-256-CBC), the link d/l *)
Definition ux_arch : bytes := write_archive (map ux_build tx_jobs).
Definition ux_tree : list xentry := create_from_tree tx_c tx_order tx_tree.
(* d/a.txt has changed on disk; it is named as ./d/a.txt on the command line *)
Definition ux_node : Update.node := Update.mkN (lit "./d/a.txt") 0 (lit "refreshed content") 1800000000500000000.
Definition ux_new : xentry := mk_xentry (lit "d/a.txt") 0 (lit "refreshed content") None (Some 1800000000) [].
Definition ux_job : job :=
  {| j_cfg := tx_cfg; j_ctx := tx_ctx; j_spec := xspec tx_aux ux_new; j_wcuts := [lit "refreshed "; lit "content"] |}.
Definition ux_after : Update.archive :=
  filter (fun e => negb (bytes_eqb (Update.e_path e) (lit "d/a.txt"))) (map abs ux_tree) ++ [abs ux_new].

Ltac writable_tac :=
  match goal with |- writable_normal ?b => let e := fresh "e" in set (e := b); vm_compute in e; subst e end;
  cbv [writable_normal phsf_ok opt_all n_hdr n_phsf n_extra n_data n_meta n_xattrs f_major f_minor f_name f_enc f_mode
       m_raw_size m_compressed m_ctime m_mtime m_atime m_perm wf_perm wf_xattr];
  repeat (apply Forall_cons || apply Forall_nil || match goal with |- _ /\ _ => split end);
  try (vm_compute; reflexivity); try (vm_compute; discriminate); try exact I.

(* `update` refreshes one of three entries: the directory and the link keep their place (and their bytes), the
   refreshed file moves behind them with the disk's content *)
Example update_ex :
  ux_logical ux_arch = Ok (map abs ux_tree) /\
  Update.update_cmd false true [] 0 (map abs ux_tree) [ux_node] = Ok ux_after /\
  Update.pass_flags [] 0 (map abs ux_tree) [ux_node] [] = [true; false; true] /\
  exists b', update_bytes ux_expand ux_rebuild true true [] 0 [ux_node] (new_raws real_E_of px_compress [ux_job]) ux_arch = Ok b' /\
    b' = write_raw_archive 0 (sel (map ser_normal (map ux_build tx_jobs)) [true; false; true] ++ [ser_normal (ux_build ux_job)]) /\
    wf_archive b' = true /\ ux_logical b' = Ok ux_after /\
    map Update.e_path ux_after = [lit "d"; lit "d/l"; lit "d/a.txt"].
Proof.
  split; [vm_compute; reflexivity|]. split; [vm_compute; reflexivity|]. split; [vm_compute; reflexivity|].
  eexists. split; [vm_compute; reflexivity|]. split; [vm_compute; reflexivity|]. split; [vm_compute; reflexivity|].
  split; vm_compute; reflexivity.
Qed.

(* the premises of update_container / update_container_props for that run *)
Example update_premises_ex :
  strict_ctx tx_ctx /\ wf_ctx tx_verify tx_ctx tx_pw /\ wf_archive ux_arch = true /\
  read_archive ux_arch = Ok (map RNormal (map ux_build tx_jobs)) /\
  input_ok real_E_of real_D_of px_decompress tx_verify tx_pw tx_rb2 tx_srb true (map RNormal (map ux_build tx_jobs)) /\
  map abs [ux_new] = map (Update.fresh true)
    (snd (fst (Update.update_pass [] 0 (map abs ux_tree) [ux_node] [])) ++ snd (Update.update_pass [] 0 (map abs ux_tree) [ux_node] [])) /\
  jobs_ok real_E_of px_compress tx_verify tx_pw tx_rb2 [ux_job] [ux_new].
Proof.
  split; [repeat split; vm_compute; reflexivity|]. split; [repeat split; vm_compute; reflexivity|].
  split; [vm_compute; reflexivity|]. split; [vm_compute; reflexivity|]. split.
  { split.
    - apply Forall_forall. intros x Hx. apply in_map_iff in Hx. destruct Hx as (n & <- & _). exact I.
    - intros ns F. rewrite flat_normals in F. injection F as <-.
      match goal with |- Forall _ ?l => set (l0 := l); vm_compute in l0; subst l0 end.
      repeat (apply Forall_cons; [split; (split; [unfold tx_rb2; cbn [repeat]; repeat constructor|vm_compute; reflexivity])|]).
      apply Forall_nil. }
  split; [vm_compute; reflexivity|].
  split; [constructor; [exists tx_aux; reflexivity|constructor]|].
  split; [constructor; [one_job|constructor]|].
  split; [constructor; [vm_compute; discriminate|constructor]|].
  split.
  - intros j [<-|[]]. split; [unfold tx_rb2; cbn [repeat]; repeat constructor|vm_compute; reflexivity].
  - cbn [map]. constructor; [writable_tac|constructor].
Qed.

(* delete inside a solid block: the archive holds the three entries inside a stored solid block and again as normal
   entries; d/a.txt is deleted in both places.  --keep-solid: the block is rebuilt around the two entries left;
   --unsolid: they are written as normal entries *)
Definition ux_solid : solid_entry := build_solid real_E_of px_compress store_cfg tx_ctx [] (solid_writes (map ux_build tx_jobs)).
Definition ux_solid_arch : bytes := write_archive_entries (RSolid ux_solid :: map RNormal (map ux_build tx_jobs)).
Definition ux_left : list xentry := filter (fun x => negb (Update.mem (e_name x) [lit "d/a.txt"])) (ux_tree ++ ux_tree).

Example delete_solid_ex :
  wf_archive ux_solid_arch = true /\ ux_xlogical ux_solid_arch = Ok (ux_tree ++ ux_tree) /\ length ux_left = 4%nat /\
  (exists b' s n1 n2, run_edit (fun _ => []) (fun _ => []) ux_expand ux_rebuild true true Transform.CDelete 1
                    (fun p => Update.mem p [lit "d/a.txt"]) ux_solid_arch = Ok b' /\
     read_archive b' = Ok [RSolid s; RNormal n1; RNormal n2] /\
     ux_expand s = Ok [ux_build (nth 0 tx_jobs ux_job); ux_build (nth 2 tx_jobs ux_job)] /\
     wf_archive b' = true /\ ux_xlogical b' = Ok ux_left) /\
  (exists b' n1 n2 n3 n4, run_edit (fun _ => []) (fun _ => []) ux_expand ux_rebuild false true Transform.CDelete 1
                    (fun p => Update.mem p [lit "d/a.txt"]) ux_solid_arch = Ok b' /\
     read_archive b' = Ok [RNormal n1; RNormal n2; RNormal n3; RNormal n4] /\
     wf_archive b' = true /\ ux_xlogical b' = Ok ux_left).
Proof.
  split; [vm_compute; reflexivity|]. split; [vm_compute; reflexivity|]. split; [reflexivity|]. split.
  - eexists _, _, _, _. split; [vm_compute; reflexivity|]. split; [vm_compute; reflexivity|].
    split; [vm_compute; reflexivity|]. split; vm_compute; reflexivity.
  - eexists _, _, _, _, _. split; [vm_compute; reflexivity|]. split; [vm_compute; reflexivity|].
    split; vm_compute; reflexivity.
Qed.

(* the premises of delete_solid_logical / delete_solid_abs for that archive: the block can be opened, its inner
   entries are writable, every entry and the block are read to their end *)
Lemma ux_solid_expands : ux_expand ux_solid = Ok (map ux_build tx_jobs).
Proof. vm_compute; reflexivity. Qed.
Lemma ux_unlocked : locked true ux_solid = false.
Proof. vm_compute; reflexivity. Qed.
Lemma ux_builds_writable : Forall writable_normal (map ux_build tx_jobs).
Proof.
  match goal with |- Forall _ ?l => set (l0 := l); vm_compute in l0; subst l0 end.
  repeat (apply Forall_cons; [writable_tac|]). apply Forall_nil.
Qed.
Lemma ux_builds_drained : Forall (drained tx_rb2) (map ux_build tx_jobs).
Proof.
  match goal with |- Forall _ ?l => set (l0 := l); vm_compute in l0; subst l0 end.
  repeat (apply Forall_cons; [split; (split; [unfold tx_rb2; cbn [repeat]; repeat constructor|vm_compute; reflexivity])|]).
  apply Forall_nil.
Qed.
Lemma ux_read_solid_arch : read_archive ux_solid_arch = Ok (RSolid ux_solid :: map RNormal (map ux_build tx_jobs)).
Proof. vm_compute; reflexivity. Qed.
Lemma ux_srb_drains :
  srb_drains tx_srb (RSolid ux_solid) /\
  srb_drains tx_srb (RSolid (ux_rebuild ux_solid [ux_build (nth 0 tx_jobs ux_job); ux_build (nth 2 tx_jobs ux_job)])).
Proof.
  unfold srb_drains, drains, tx_srb.
  split; (split; [apply Forall_forall; intros x Hx; apply repeat_spec in Hx; subst x; reflexivity|vm_compute; reflexivity]).
Qed.

Lemma flat_solid_cons expand s r :
  flat expand (RSolid s :: r) = bind (expand s) (fun inner => bind (flat expand r) (fun t => Ok (inner ++ t))).
Proof. reflexivity. Qed.
Lemma bind_Ok {A B} (x : A) (f : A -> res B) : bind (Ok x) f = f x.
Proof. reflexivity. Qed.

(* (rewriting with equations, not cbn: a conversion that unfolds `bind` would make the kernel decode the block) *)
Example delete_solid_premises_ex :
  read_archive ux_solid_arch = Ok (RSolid ux_solid :: map RNormal (map ux_build tx_jobs)) /\
  input_ok real_E_of real_D_of px_decompress tx_verify tx_pw tx_rb2 tx_srb true (RSolid ux_solid :: map RNormal (map ux_build tx_jobs)) /\
  srb_drains tx_srb (RSolid ux_solid) /\
  srb_drains tx_srb (RSolid (ux_rebuild ux_solid [ux_build (nth 0 tx_jobs ux_job); ux_build (nth 2 tx_jobs ux_job)])).
Proof.
  split; [exact ux_read_solid_arch|]. split; [|exact ux_srb_drains]. split.
  - constructor.
    + split; [exact ux_unlocked|]. intros inner H. rewrite ux_solid_expands in H.
      assert (Ei : inner = map ux_build tx_jobs) by congruence. rewrite Ei. exact ux_builds_writable.
    + apply Forall_forall. intros x Hx. apply in_map_iff in Hx. destruct Hx as (n & <- & _). exact I.
  - intros ns F. rewrite flat_solid_cons, ux_solid_expands, bind_Ok, flat_normals, bind_Ok in F. cbv beta in F.
    assert (En : ns = map ux_build tx_jobs ++ map ux_build tx_jobs) by congruence. rewrite En.
    apply Forall_app. split; exact ux_builds_drained.
Qed.
