(* KdfFacts.v — facts about the key-derivation plumbing of Kdf.v (C16, C08).
   Outside these statements, as premises or not at all: that the KDFs do not collide, that
   AES/Camellia under another key do not reproduce a plaintext, that cipher output reveals
   nothing, that ChaCha20 seeded from OS entropy does not repeat. *)
From PNA Require Import Base Codec Chunk Archive Entry Kdf.
Require Import ZArith ZifyN ZifyNat ZifyBool.

Lemma firstn_salt_len (tape : bytes) :
  (SALT_LEN + IV_LEN <= length tape)%nat -> length (firstn SALT_LEN tape) = SALT_LEN.
Proof. intro L. rewrite firstn_length. unfold SALT_LEN, IV_LEN in *. lia. Qed.

Section Facts.
  Variable key : Type.
  Variable kdf : bytes -> option N -> list (bytes * bytes) -> bytes -> bytes -> key.
  Variable kdf_valid : bytes -> option N -> list (bytes * bytes) -> bytes -> option bytes -> bool.
  Variable alg_supported : bytes -> bool.
  Variable phc_print : phc -> bytes.
  Variable phc_parse : bytes -> option phc.
  Variable decrypt : key -> bytes -> bytes -> res bytes.

  (* the PHC codec round-trips the records a writer prints: a salt of SALT_LEN bytes, parameters the KDF
     crates accept (the PHC format has length limits: not every number, not every salt can be printed) *)
  Hypothesis phc_round_trip : forall h salt,
    length salt = SALT_LEN ->
    kdf_valid (alg_name h) (alg_version h) (alg_params h) salt None = true ->
    phc_parse (phc_print (writer_record h salt None)) = Some (writer_record h salt None).
  (* the reader dispatches on the algorithm names the writer records *)
  Hypothesis writer_algs_supported : forall h, alg_supported (alg_name h) = true.

  Notation writer_context := (writer_context key kdf kdf_valid phc_print).
  Notation reader_key := (reader_key key kdf kdf_valid alg_supported phc_parse).
  Notation decode_guard := (decode_guard key kdf kdf_valid alg_supported phc_parse).
  Notation decode_open := (decode_open key kdf kdf_valid alg_supported phc_parse).
  Notation decode := (decode key kdf kdf_valid alg_supported phc_parse decrypt).
  Notation write_all := (write_all key kdf kdf_valid phc_print).
  Notation contexts_n := (contexts_n key kdf kdf_valid phc_print).

  Lemma writer_context_inv m h pw tape c t' :
    writer_context m h pw tape = Ok (c, t') ->
    let salt := firstn SALT_LEN tape in
    (SALT_LEN + IV_LEN <= length tape)%nat /\
    length salt = SALT_LEN /\
    kdf_valid (alg_name h) (alg_version h) (alg_params h) salt None = true /\
    ctx_phsf c = phc_print (writer_record h salt None) /\
    ctx_iv c = firstn IV_LEN (skipn SALT_LEN tape) /\
    ctx_key c = kdf (alg_name h) (alg_version h) (alg_params h) salt pw /\
    ctx_mode c = m /\
    ctx_segment c = firstn (SALT_LEN + IV_LEN) tape /\
    t' = skipn (SALT_LEN + IV_LEN) tape.
  Proof.
    unfold Kdf.writer_context. cbn [ph_alg ph_version ph_params writer_record].
    destruct (Nat.ltb (length tape) (SALT_LEN + IV_LEN)) eqn:L; [discriminate|].
    destruct (kdf_valid (alg_name h) (alg_version h) (alg_params h) (firstn SALT_LEN tape) None) eqn:V; cbn [negb]; [|discriminate].
    intro H; inversion H; subst. apply Nat.ltb_ge in L.
    pose proof (firstn_salt_len tape L) as SL.
    cbn [ctx_phsf ctx_iv ctx_key ctx_mode ctx_segment]. repeat split; auto.
  Qed.

  (* C16: the recorded values are sufficient — for every algorithm, parameter and salt the writer records *)
  Theorem right_password_reads m h pw tape c t' :
    writer_context m h pw tape = Ok (c, t') ->
    reader_key (ctx_phsf c) pw = Ok (ctx_key c).
  Proof.
    intro W. destruct (writer_context_inv _ _ _ _ _ _ W) as (_ & SL & V & P & _ & K & _).
    unfold Kdf.reader_key. rewrite P, (phc_round_trip _ _ SL V). cbn [ph_alg ph_salt ph_version ph_params ph_hash writer_record].
    rewrite writer_algs_supported, V, K. reflexivity.
  Qed.

  Theorem no_password_fails enc s : encrypted_b enc = true -> decode_guard enc (Some s) None = Err InvalidInput.
  Proof. destruct enc; cbn; intros; try discriminate; reflexivity. Qed.

  Theorem no_phsf_fails enc pw : encrypted_b enc = true -> decode_guard enc None pw = Err InvalidData.
  Proof. destruct enc; cbn; intros; try discriminate; reflexivity. Qed.

  Theorem no_password_decode_fails enc m s stream :
    encrypted_b enc = true -> decode enc m (Some s) None stream = Err InvalidInput.
  Proof. intro E. unfold Kdf.decode, Kdf.decode_open. rewrite (no_password_fails _ _ E). reflexivity. Qed.

  Theorem no_phsf_decode_fails enc m pw stream :
    encrypted_b enc = true -> decode enc m None pw stream = Err InvalidData.
  Proof. intro E. unfold Kdf.decode, Kdf.decode_open. rewrite (no_phsf_fails _ _ E). reflexivity. Qed.

  (* the password reaches the KDF whole: no truncation, trimming or normalisation, and nothing
     else of the result depends on it *)
  Theorem password_used_whole phsf pw k :
    reader_key phsf pw = Ok k ->
    exists p salt, phc_parse phsf = Some p /\ ph_salt p = Some salt /\
                   k = kdf (ph_alg p) (ph_version p) (ph_params p) salt pw /\
                   forall pw', reader_key phsf pw' = Ok (kdf (ph_alg p) (ph_version p) (ph_params p) salt pw').
  Proof.
    unfold Kdf.reader_key. destruct (phc_parse phsf) as [p|]; [|discriminate].
    destruct (alg_supported (ph_alg p)); cbn [negb]; [|discriminate].
    destruct (ph_salt p) as [salt|] eqn:S; [|discriminate].
    destruct (kdf_valid (ph_alg p) (ph_version p) (ph_params p) salt); cbn [negb]; [|discriminate].
    intro H; inversion H; subst. exists p, salt. split; [reflexivity|]. split; [exact S|]. split; reflexivity.
  Qed.

  (* the right password decodes: what the writer encrypted under its context comes back *)
  Theorem right_password_decodes enc m h pw tape c t' ct content :
    encrypted_b enc = true ->
    writer_context m h pw tape = Ok (c, t') ->
    (m = MCbc -> (16 <= length ct)%nat) ->
    decrypt (ctx_key c) (ctx_iv c) ct = Ok content ->
    decode enc m (Some (ctx_phsf c)) (Some pw) (ctx_iv c ++ ct) = Ok content.
  Proof.
    intros E W L D. pose proof (right_password_reads _ _ _ _ _ _ W) as R.
    destruct (writer_context_inv _ _ _ _ _ _ W) as (LT & _ & _ & _ & IV & _).
    assert (length (ctx_iv c) = IV_LEN) as LI.
    { rewrite IV, firstn_length, skipn_length. unfold SALT_LEN, IV_LEN in *. lia. }
    unfold Kdf.decode, Kdf.decode_open, Kdf.decode_guard.
    destruct enc; [discriminate| |]; rewrite R; cbn [bind];
      unfold take; rewrite app_length, LI;
      (replace (Nat.leb IV_LEN (IV_LEN + length ct)) with true by (symmetry; apply Nat.leb_le; lia));
      rewrite firstn_app, skipn_app, <- LI, Nat.sub_diag, firstn_all, skipn_all; cbn [firstn skipn app bind];
      rewrite app_nil_r; destruct m; cbn [bind];
      try (specialize (L eq_refl); replace (Nat.leb 16 (length ct)) with true by (symmetry; apply Nat.leb_le; lia); cbn [bind]);
      exact D.
  Qed.

  (* the negative half, relative to its two named premises *)
  Theorem wrong_password_partial enc m h pw pw' tape c t' ct content :
    writer_context m h pw tape = Ok (c, t') ->
    (* premise 1 (kdf_no_collision): the KDF does not collide on the pair for the recorded values *)
    (let salt := firstn SALT_LEN tape in
     kdf (alg_name h) (alg_version h) (alg_params h) salt pw' <> kdf (alg_name h) (alg_version h) (alg_params h) salt pw) ->
    (* premise 2 (cipher_distinguishes): under any other key this ciphertext does not decrypt to the content *)
    (forall k', k' <> ctx_key c -> decrypt k' (ctx_iv c) ct <> Ok content) ->
    encrypted_b enc = true ->
    decode enc m (Some (ctx_phsf c)) (Some pw') (ctx_iv c ++ ct) <> Ok content.
  Proof.
    intros W NC CD E.
    destruct (writer_context_inv _ _ _ _ _ _ W) as (LT & SL & V & P & IV & K & _).
    assert (reader_key (ctx_phsf c) pw' = Ok (kdf (alg_name h) (alg_version h) (alg_params h) (firstn SALT_LEN tape) pw')) as R.
    { unfold Kdf.reader_key. rewrite P, (phc_round_trip _ _ SL V). cbn [ph_alg ph_salt ph_version ph_params ph_hash writer_record].
      rewrite writer_algs_supported, V. reflexivity. }
    assert (length (ctx_iv c) = IV_LEN) as LI.
    { rewrite IV, firstn_length, skipn_length. unfold SALT_LEN, IV_LEN in *. lia. }
    unfold Kdf.decode, Kdf.decode_open, Kdf.decode_guard.
    destruct enc; [discriminate| |]; rewrite R; cbn [bind];
      unfold take; rewrite app_length, LI;
      (replace (Nat.leb IV_LEN (IV_LEN + length ct)) with true by (symmetry; apply Nat.leb_le; lia));
      rewrite firstn_app, skipn_app, <- LI, Nat.sub_diag, firstn_all, skipn_all; cbn [firstn skipn app bind];
      rewrite app_nil_r; destruct m; cbn [bind];
      try (destruct (Nat.leb 16 (length ct)); cbn [bind]; [|discriminate]);
      apply CD; rewrite K; exact NC.
  Qed.

End Facts.

(* ---- C08 -------------------------------------------------------------------------------- *)
Section Fresh.
  Variable key : Type.
  Variable kdf : bytes -> option N -> list (bytes * bytes) -> bytes -> bytes -> key.
  Variable kdf_valid : bytes -> option N -> list (bytes * bytes) -> bytes -> option bytes -> bool.
  Variable phc_print : phc -> bytes.
  Notation writer_context := (writer_context key kdf kdf_valid phc_print).
  Notation write_all := (write_all key kdf kdf_valid phc_print).
  Notation contexts_n := (contexts_n key kdf kdf_valid phc_print).

  (* what is written as PHSF parses back to a record WITHOUT hash: the key is not in the archive *)
  Theorem phsf_has_no_hash (phc_parse : bytes -> option phc) m h pw tape c t' :
    (forall h salt, length salt = SALT_LEN ->
       kdf_valid (alg_name h) (alg_version h) (alg_params h) salt None = true ->
       phc_parse (phc_print (writer_record h salt None)) = Some (writer_record h salt None)) ->
    writer_context m h pw tape = Ok (c, t') ->
    exists p, phc_parse (ctx_phsf c) = Some p /\ ph_hash p = None.
  Proof.
    intros RT W. destruct (writer_context_inv _ _ _ _ _ _ _ _ _ _ W) as (_ & SL & V & P & _).
    rewrite P, (RT _ _ SL V). eexists; split; reflexivity.
  Qed.

  (* spans of the tape: consecutive pieces *)
  Fixpoint spans (cs : list (ctx key)) (off : nat) : list (nat * nat) :=
    match cs with
    | [] => []
    | c :: r => (off, length (ctx_segment c)) :: spans r (off + length (ctx_segment c))
    end.
  Definition disjoint (a b : nat * nat) : Prop := (fst a + snd a <= fst b \/ fst b + snd b <= fst a)%nat.
  Fixpoint pairwise_disjoint (l : list (nat * nat)) : Prop :=
    match l with
    | [] => True
    | a :: r => Forall (disjoint a) r /\ pairwise_disjoint r
    end.
  Definition piece (tape : bytes) (s : nat * nat) : bytes := firstn (snd s) (skipn (fst s) tape).

  Lemma spans_after cs : forall off, Forall (fun s => (off <= fst s)%nat) (spans cs off).
  Proof.
    induction cs as [|c r IH]; intro off; cbn; constructor; [cbn; lia|].
    eapply Forall_impl; [|apply IH]. cbn; intros; lia.
  Qed.
  Lemma spans_disjoint cs : forall off, pairwise_disjoint (spans cs off).
  Proof.
    induction cs as [|c r IH]; intro off; cbn; [exact I|]. split; [|apply IH].
    eapply Forall_impl; [|apply spans_after]. intros s H. left. cbn. exact H.
  Qed.

  Lemma contexts_n_tape n m h pw : forall tape cs t',
    contexts_n n m h pw tape = Ok (cs, t') ->
    tape = concat (map ctx_segment cs) ++ t' /\
    Forall (fun c => length (ctx_segment c) = (SALT_LEN + IV_LEN)%nat /\
                     exists salt, ctx_segment c = salt ++ ctx_iv c /\ length salt = SALT_LEN /\
                                  ctx_phsf c = phc_print (writer_record h salt None)) cs.
  Proof.
    induction n as [|n IH]; intros tape cs t'; cbn [Kdf.contexts_n].
    - intro H; inversion H; subst. split; [reflexivity|constructor].
    - destruct (writer_context m h pw tape) as [[c t]| |] eqn:W; cbn [bind]; try discriminate.
      destruct (contexts_n n m h pw t) as [[cs' t'']| |] eqn:R; cbn [bind]; try discriminate.
      intro H; inversion H; subst.
      destruct (writer_context_inv _ _ _ _ _ _ _ _ _ _ W) as (LT & _ & _ & P & IV & _ & _ & SEG & T).
      destruct (IH _ _ _ R) as (E & F). split.
      + cbn [map concat]. rewrite <- app_assoc, <- E, SEG, T. symmetry; apply firstn_skipn.
      + constructor; [|exact F]. split.
        * rewrite SEG, firstn_length. lia.
        * exists (firstn SALT_LEN tape). split; [|split].
          -- rewrite SEG, IV. unfold SALT_LEN, IV_LEN in *.
             rewrite <- (firstn_skipn 16 (firstn (16 + 16) tape)) at 1.
             rewrite firstn_firstn. replace (Nat.min 16 (16 + 16)) with 16%nat by reflexivity.
             f_equal. rewrite skipn_firstn_comm. reflexivity.
          -- rewrite firstn_length. unfold SALT_LEN, IV_LEN in *. lia.
          -- exact P.
  Qed.

  (* every entry / solid stream consumes its own segment of the random tape: the segments are
     consecutive pieces of the tape, pairwise disjoint, each holding that context's salt and IV *)
  Theorem fresh_draws k enc m h pw n tape cs t' :
    write_all k enc m h pw n tape = Ok (cs, t') ->
    pairwise_disjoint (spans cs 0) /\
    tape = concat (map ctx_segment cs) ++ t' /\
    Forall (fun c => exists salt, ctx_segment c = salt ++ ctx_iv c /\ length salt = SALT_LEN /\
                                  ctx_phsf c = phc_print (writer_record h salt None)) cs.
  Proof.
    intro W. split; [apply spans_disjoint|].
    unfold Kdf.write_all in W.
    assert (forall n', contexts_n n' m h pw tape = Ok (cs, t') ->
            tape = concat (map ctx_segment cs) ++ t' /\
            Forall (fun c => exists salt, ctx_segment c = salt ++ ctx_iv c /\ length salt = SALT_LEN /\
                                  ctx_phsf c = phc_print (writer_record h salt None)) cs) as G.
    { intros n' H. destruct (contexts_n_tape _ _ _ _ _ _ _ H) as (E & F). split; [exact E|].
      eapply Forall_impl; [|exact F]. cbn. intros c (_ & X). exact X. }
    destruct enc; [inversion W; subst; split; [reflexivity|constructor]| |]; eapply G; exact W.
  Qed.

  (* ---- the archive bytes are a function of header fields, PHSF, IV and ciphertext only --- *)
  Variable cipher : key -> bytes -> bytes -> list bytes.     (* compress+encrypt, cut into data chunks *)
  Definition encrypted_entry (hdr : fhed) (meta : metadata) (xs : list xattr) (c : ctx key) (pt : bytes) : normal_entry :=
    {| n_hdr := hdr; n_phsf := Some (ctx_phsf c); n_extra := [];
       n_data := ctx_iv c :: cipher (ctx_key c) (ctx_iv c) pt; n_meta := meta; n_xattrs := xs |}.
  Definition encrypted_archive (hdr : fhed) (meta : metadata) (xs : list xattr) (c : ctx key) (pt : bytes) : bytes :=
    write_raw_archive 0 [ser_normal (encrypted_entry hdr meta xs c pt)].

  Theorem output_factors_through_ciphertext hdr meta xs c1 c2 pt1 pt2 :
    ctx_phsf c1 = ctx_phsf c2 -> ctx_iv c1 = ctx_iv c2 ->
    cipher (ctx_key c1) (ctx_iv c1) pt1 = cipher (ctx_key c2) (ctx_iv c2) pt2 ->
    encrypted_archive hdr meta xs c1 pt1 = encrypted_archive hdr meta xs c2 pt2.
  Proof.
    intros P I C. unfold encrypted_archive, encrypted_entry. rewrite C, P, I. reflexivity.
  Qed.
End Fresh.

(* ---- the premises are met: the executable stand-ins on concrete writer contexts -------------- *)
Definition ex_tape : bytes := map (fun n => n2b (N.of_nat n)) (seq 1 40).
Definition is_none {A} (o : option A) : bool := match o with None => true | Some _ => false end.
Definition ex_check (m : cipher_mode) (h : hash_alg) (expect : bytes) : bool :=
  match writer_context_x m h (lit "pw") ex_tape with
  | Ok (c, t) =>
    bytes_eqb (ctx_phsf c) expect
    && match reader_key_x (ctx_phsf c) (lit "pw") with Ok k => bytes_eqb k (ctx_key c) | _ => false end
    && match reader_key_x (ctx_phsf c) (lit "pw ") with Ok k => negb (bytes_eqb k (ctx_key c)) | _ => false end
    && match phc_parse_x (ctx_phsf c) with
       | Some p => is_none (ph_hash p) && bytes_eqb (phc_print_x p) (ctx_phsf c)
                   && match ph_salt p with Some s => bytes_eqb s (firstn 16 ex_tape) | None => false end
       | None => false
       end
    && bytes_eqb (ctx_iv c) (firstn 16 (skipn 16 ex_tape))
    && bytes_eqb t (skipn 32 ex_tape)
  | _ => false
  end.
Example ex_context_argon2 :
  ex_check MCtr (Argon2Id (Some 1) (Some 8) (Some 1)) (lit "$argon2id$v=19$m=8,t=1,p=1$AQIDBAUGBwgJCgsMDQ4PEA") = true.
Proof. vm_compute. reflexivity. Qed.
Example ex_context_pbkdf2 :
  ex_check MCbc (Pbkdf2Sha256 None) (lit "$pbkdf2-sha256$i=600000,l=32$AQIDBAUGBwgJCgsMDQ4PEA") = true.
Proof. vm_compute. reflexivity. Qed.
Example ex_guard :
  decode_guard_x EAes None (Some (lit "pw")) = Err InvalidData /\
  decode_guard_x EAes (Some (lit "$pbkdf2-sha256$i=1,l=32$AQIDBAUGBwgJCgsMDQ4PEA")) None = Err InvalidInput /\
  decode_guard_x ECamellia (Some (lit "$scrypt$ln=1$AQIDBAUGBwgJCgsMDQ4PEA")) (Some (lit "pw")) = Err Unsupported.
Proof. vm_compute. repeat split. Qed.
Example ex_fresh :
  match write_all_x PerEntry EAes MCbc (Pbkdf2Sha256 (Some 1)) (lit "pw") 2 (ex_tape ++ ex_tape) with
  | Ok ([c1; c2], t) => negb (bytes_eqb (ctx_iv c1) (ctx_iv c2)) && negb (bytes_eqb (ctx_phsf c1) (ctx_phsf c2))
                        && Nat.eqb (length t) 16
  | _ => false
  end = true.
Proof. vm_compute. reflexivity. Qed.
