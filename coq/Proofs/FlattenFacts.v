(* FlattenFacts.v — facts about Model/Flatten.v: FlattenReader is a byte-stream reader over the
   concatenation of its chunks (flatten_read_spec and corollaries: what is delivered does not
   depend on where the chunks are cut), FlattenWriter loses nothing, slice::chunks. *)
From PNA Require Import Base Flatten BaseFacts.
Require Import ZArith ZifyN ZifyNat ZifyBool Lia.
Open Scope N_scope.

(* ---- ftake / fdrop ------------------------------------------------------------------------- *)
Lemma ftake_firstn {A} n (l : list A) : ftake n l = firstn (N.to_nat n) l.
Proof.
  unfold ftake, len. destruct (N.leb_spec (N.of_nat (length l)) n) as [H|H]; [|reflexivity].
  rewrite firstn_all2; [reflexivity | lia].
Qed.
Lemma fdrop_skipn {A} n (l : list A) : fdrop n l = skipn (N.to_nat n) l.
Proof.
  unfold fdrop, len. destruct (N.leb_spec (N.of_nat (length l)) n) as [H|H]; [|reflexivity].
  rewrite skipn_all2; [reflexivity | lia].
Qed.
Lemma ftake_fdrop {A} n (l : list A) : ftake n l ++ fdrop n l = l.
Proof. rewrite ftake_firstn, fdrop_skipn. apply firstn_skipn. Qed.
Lemma len_ftake {A} n (l : list A) : len (ftake n l) = N.min n (len l).
Proof. rewrite ftake_firstn. unfold len. rewrite firstn_length. lia. Qed.
Lemma len_fdrop {A} n (l : list A) : len (fdrop n l) = len l - n.
Proof. rewrite fdrop_skipn. unfold len. rewrite skipn_length. lia. Qed.
Lemma ftake_all {A} n (l : list A) : len l <= n -> ftake n l = l.
Proof. intros H. rewrite ftake_firstn. apply firstn_all2. unfold len in H. lia. Qed.
Lemma fdrop_all {A} n (l : list A) : len l <= n -> fdrop n l = [].
Proof. intros H. rewrite fdrop_skipn. apply skipn_all2. unfold len in H. lia. Qed.
Lemma ftake_0 {A} (l : list A) : ftake 0 l = [].
Proof. rewrite ftake_firstn. reflexivity. Qed.
Lemma fdrop_0 {A} (l : list A) : fdrop 0 l = l.
Proof. rewrite fdrop_skipn. reflexivity. Qed.
Lemma ftake_nil {A} n : ftake n (@nil A) = [].
Proof. rewrite ftake_firstn. apply firstn_nil. Qed.
Lemma fdrop_nil {A} n : fdrop n (@nil A) = [].
Proof. rewrite fdrop_skipn. apply skipn_nil. Qed.
Lemma ftake_app_le {A} n (a b : list A) : n <= len a -> ftake n (a ++ b) = ftake n a.
Proof.
  intros H. rewrite !ftake_firstn, firstn_app. unfold len in H.
  replace (N.to_nat n - length a)%nat with 0%nat by lia. cbn [firstn]. apply app_nil_r.
Qed.
Lemma fdrop_app_le {A} n (a b : list A) : n <= len a -> fdrop n (a ++ b) = fdrop n a ++ b.
Proof.
  intros H. rewrite !fdrop_skipn, skipn_app. unfold len in H.
  replace (N.to_nat n - length a)%nat with 0%nat by lia. reflexivity.
Qed.
Lemma ftake_app_ge {A} n (a b : list A) : len a <= n -> ftake n (a ++ b) = a ++ ftake (n - len a) b.
Proof.
  intros H. rewrite !ftake_firstn, firstn_app. unfold len in *.
  rewrite firstn_all2 by lia. f_equal. f_equal. lia.
Qed.
Lemma fdrop_app_ge {A} n (a b : list A) : len a <= n -> fdrop n (a ++ b) = fdrop (n - len a) b.
Proof.
  intros H. rewrite !fdrop_skipn, skipn_app. unfold len in *.
  rewrite skipn_all2 by lia. cbn [app]. f_equal. lia.
Qed.
Lemma ftake_cons_pos {A} n (x : A) l : 0 < n -> ftake n (x :: l) = x :: ftake (n - 1) l.
Proof.
  intros H. rewrite !ftake_firstn. replace (N.to_nat n) with (S (N.to_nat (n - 1))) by lia. reflexivity.
Qed.

(* ---- slice::chunks --------------------------------------------------------------------------- *)
Lemma chunks_fuel_enough {A} (n : nat) : forall f1 f2 (l : list A),
  (0 < n)%nat -> (length l <= f1)%nat -> (length l <= f2)%nat -> chunks_fuel f1 n l = chunks_fuel f2 n l.
Proof.
  induction f1 as [|f1 IH]; intros f2 l Hn H1 H2.
  - destruct l; [|cbn in H1; lia]. destruct f2; reflexivity.
  - destruct l as [|x l]; [destruct f2; reflexivity|].
    destruct f2 as [|f2]; [cbn in H2; lia|].
    cbn [chunks_fuel]. f_equal.
    apply IH; [assumption| |]; rewrite skipn_length; cbn [length] in *; lia.
Qed.
Lemma chunks_nil {A} n : chunks n (@nil A) = [].
Proof. reflexivity. Qed.
Lemma chunks_step {A} (n : nat) (l : list A) :
  (0 < n)%nat -> l <> [] -> chunks n l = firstn n l :: chunks n (skipn n l).
Proof.
  intros Hn Hl. unfold chunks. destruct l as [|x l]; [congruence|].
  cbn [length chunks_fuel]. f_equal.
  apply chunks_fuel_enough; [assumption| |lia]. rewrite skipn_length. cbn [length]. lia.
Qed.
Lemma chunks_app_block {A} (n : nat) (a l : list A) :
  (0 < n)%nat -> length a = n -> chunks n (a ++ l) = a :: chunks n l.
Proof.
  intros Hn Ha. rewrite chunks_step; [|assumption|destruct a; [cbn in Ha; lia|discriminate]].
  rewrite firstn_app, skipn_app, Ha, Nat.sub_diag. cbn [firstn skipn].
  rewrite app_nil_r, <- Ha, firstn_all, skipn_all. reflexivity.
Qed.
Lemma chunks_concat_blocks {A} (n : nat) (bs : list (list A)) (t : list A) :
  (0 < n)%nat -> Forall (fun b => length b = n) bs -> chunks n (concat bs ++ t) = bs ++ chunks n t.
Proof.
  intros Hn H. induction H as [|b bs Hb _ IH]; [reflexivity|].
  cbn [concat]. rewrite <- app_assoc, chunks_app_block by assumption. cbn [app]. f_equal. exact IH.
Qed.
Lemma chunks_small {A} (n : nat) (t : list A) : t <> [] -> (length t <= n)%nat -> chunks n t = [t].
Proof.
  intros Ht Hl. assert (0 < n)%nat by (destruct t; [congruence|cbn in Hl; lia]).
  rewrite chunks_step by assumption. rewrite firstn_all2, skipn_all2 by lia. reflexivity.
Qed.
Lemma concat_chunks_fuel {A} (n : nat) : forall f (l : list A), (0 < n)%nat -> (length l <= f)%nat ->
  concat (chunks_fuel f n l) = l.
Proof.
  induction f as [|f IH]; intros l Hn Hl.
  - destruct l; [reflexivity|cbn in Hl; lia].
  - destruct l as [|x l]; [reflexivity|]. cbn [chunks_fuel concat].
    rewrite IH; [apply firstn_skipn|assumption|]. rewrite skipn_length. cbn [length] in *. lia.
Qed.
Lemma concat_chunks {A} (n : nat) (l : list A) : (0 < n)%nat -> concat (chunks n l) = l.
Proof. intros. apply concat_chunks_fuel; [assumption|lia]. Qed.
Lemma chunks_fuel_pieces {A} (n : nat) : forall f (l : list A), (0 < n)%nat ->
  Forall (fun p => p <> [] /\ (length p <= n)%nat) (chunks_fuel f n l).
Proof.
  induction f as [|f IH]; intros l Hn; [constructor|].
  destruct l as [|x l]; [constructor|]. cbn [chunks_fuel]. constructor; [|apply IH; assumption].
  split; [destruct n; [lia|discriminate]|]. rewrite firstn_length. lia.
Qed.

(* FlattenWriter<N>::write loses nothing, returns the length, pushes non-empty pieces of at most N *)
Theorem flatten_write_spec (n : nat) s d s' ps c : (0 < n)%nat -> flatten_write n s d = (s', ps, c) ->
  s' = s ++ ps /\ concat ps = d /\ c = len d /\ Forall (fun p => p <> [] /\ (length p <= n)%nat) ps.
Proof.
  intros Hn H. unfold flatten_write in H. inversion H; subst. repeat split.
  - apply concat_chunks; assumption.
  - apply chunks_fuel_pieces; assumption.
Qed.

(* ---- FlattenReader::read ------------------------------------------------------------------------ *)
Lemma flat_read_nz_spec : forall s n s' out, 0 < n -> flat_read_nz s n = (s', out) ->
  concat s = out ++ concat s' /\ len out <= n /\ (out = [] -> concat s = []).
Proof.
  induction s as [|c r IH]; intros n s' out Hn H; cbn [flat_read_nz] in H.
  - inversion H; subst. cbn. repeat split; try lia; auto.
  - destruct c as [|x c'].
    + cbn [concat app]. apply IH; assumption.
    + inversion H; subst. cbn [concat]. rewrite app_assoc, ftake_fdrop. repeat split.
      * rewrite len_ftake. lia.
      * rewrite ftake_cons_pos by assumption. discriminate.
Qed.

(* one read: delivers a prefix of the remaining stream, at most n bytes, and nothing only when
   the buffer is empty or the stream is exhausted; the new state holds exactly the rest *)
Theorem flat_read_spec : forall s n s' out, flat_read s n = (s', out) ->
  concat s = out ++ concat s' /\ len out <= n /\ (0 < n -> out = [] -> concat s = []).
Proof.
  intros s n s' out H. unfold flat_read in H. destruct (N.eqb_spec n 0) as [->|Hn].
  - inversion H; subst. cbn. repeat split; try lia; auto.
  - destruct (flat_read_nz_spec s n s' out) as (A & B & C); [lia|assumption|]. auto.
Qed.

(* a zero-length read consumes nothing (fix 74f4ac4c) *)
Lemma flat_read_zero s : flat_read s 0 = (s, []).
Proof. reflexivity. Qed.

(* one read never crosses a chunk boundary: it is cut out of the first non-empty chunk *)
Lemma flat_read_within_chunk : forall s n s' out, flat_read s n = (s', out) -> out <> [] ->
  exists pre c r, s = pre ++ c :: r /\ concat pre = [] /\ out = ftake n c /\ s' = fdrop n c :: r.
Proof.
  intros s n s' out H Ho. unfold flat_read in H. destruct (N.eqb n 0); [inversion H; congruence|].
  revert s' out H Ho. induction s as [|c r IH]; intros s' out H Ho; cbn [flat_read_nz] in H.
  - inversion H; congruence.
  - destruct c as [|x c'].
    + destruct (IH _ _ H Ho) as (pre & c & r' & -> & Hp & -> & ->).
      exists ([] :: pre), c, r'. repeat split; assumption.
    + inversion H; subst. exists [], (x :: c'), r. repeat split.
Qed.

(* a sequence of reads *)
Theorem flat_reads_prefix : forall ns s,
  (exists rest, concat s = concat (flat_reads s ns) ++ rest) /\
  Forall2 (fun out n => len out <= n) (flat_reads s ns) ns.
Proof.
  induction ns as [|n r IH]; intros s; cbn [flat_reads].
  - split; [exists (concat s); reflexivity|constructor].
  - destruct (flat_read s n) as [s' out] eqn:E. destruct (flat_read_spec _ _ _ _ E) as (A & B & _).
    destruct (IH s') as ((rest & Hr) & F). split.
    + exists rest. cbn [concat]. rewrite A, Hr, app_assoc. reflexivity.
    + constructor; assumption.
Qed.

(* with positive buffer sizes: once a read has returned nothing, everything has been delivered *)
Theorem flat_reads_complete : forall ns s, Forall (fun n => 0 < n) ns ->
  In [] (flat_reads s ns) -> concat (flat_reads s ns) = concat s.
Proof.
  induction ns as [|n r IH]; intros s Hp Hin; cbn [flat_reads] in *; [contradiction|].
  inversion Hp as [|? ? Hn Hr]; subst.
  destruct (flat_read s n) as [s' out] eqn:E. destruct (flat_read_spec _ _ _ _ E) as (A & B & C).
  cbn [concat]. destruct Hin as [Ho|Hin].
  - subst out. specialize (C Hn eq_refl). rewrite C in A. symmetry in A. cbn [app] in A.
    destruct (proj1 (flat_reads_prefix r s')) as (rest & Hrest). rewrite A in Hrest.
    symmetry in Hrest. apply app_eq_nil in Hrest. rewrite (proj1 Hrest), C. reflexivity.
  - rewrite (IH s' Hr Hin). symmetry. exact A.
Qed.

(* (i) flatten_read_spec: for every chunk list and every sequence of positive buffer sizes the
   reads concatenate to a prefix of the concatenated chunks, each read fits its buffer, and an
   empty read means the whole concatenation has been delivered *)
Theorem flatten_read_spec : forall chunks ns, Forall (fun n => 0 < n) ns ->
  (exists rest, concat chunks = concat (flat_reads chunks ns) ++ rest) /\
  Forall2 (fun out n => len out <= n) (flat_reads chunks ns) ns /\
  (In [] (flat_reads chunks ns) -> concat (flat_reads chunks ns) = concat chunks).
Proof.
  intros chunks ns Hp. destruct (flat_reads_prefix ns chunks) as (A & B).
  split; [exact A|]. split; [exact B|]. apply flat_reads_complete; assumption.
Qed.

(* hence: what a caller that reads until an empty read obtains depends only on the
   concatenation of the chunks, never on where they are cut or on the buffer sizes *)
Corollary flatten_read_cut_indep : forall c1 c2 ns1 ns2, concat c1 = concat c2 ->
  Forall (fun n => 0 < n) ns1 -> Forall (fun n => 0 < n) ns2 ->
  In [] (flat_reads c1 ns1) -> In [] (flat_reads c2 ns2) ->
  concat (flat_reads c1 ns1) = concat (flat_reads c2 ns2).
Proof.
  intros. rewrite !flat_reads_complete by assumption. assumption.
Qed.
