(* AppendContainerFacts.v — C11 at the container (byte) level: `pna append` as the code does it
   (cli/src/command/append.rs: open the archive, for a multipart archive walk seek_to_end / read_next_archive
   to the last part, seek to its end marker, write the new entries over the old end marker, write a new
   end marker; the file is written in place and never truncated) on ANY file the reader accepts, not only
   on archives the writer of this crate produced:
     1. raw level      the file after the append reads back as old raw entries ++ new ones, every byte in
                       front of the old end marker is unchanged (append_container_raw);
     2. entry level    Archive::entries() gives the old entries followed by the new ones;
     3. logical level  decoded with the password and any draining read-buffer policy: logical b' =
                       logical b ++ the entries the jobs carry (solid blocks expanded);
     4. multipart      the walk to the last part; only that part file changes, the chain reads old ++ new;
     5. bridge         the logical view forgets to Update.archive: abs (after append) = Update.append (abs before) new,
                       so C11_append_spec / C11_append_cmd_spec / C11_history_invariant speak about archive files.
   A file may end with chunks of an entry that was never closed (no FEND / SEND before AEND): the reader keeps
   them in its buffer, and the first appended entry is then read glued behind them.  The theorems state this
   exactly (`glue`), the corollaries take the premise `r_buf = []`, which every written archive meets.
   stdlib only, no axioms. *)
From PNA Require Import Base Crc32 Name Codec Chunk Archive Entry Flatten Cbc Ctr Pipeline Aes Camellia
  BaseFacts NameFacts CodecFacts Crc32Facts ChunkFacts ArchiveFacts EntryFacts OffsetFacts PartsFacts
  CbcFacts PipelineFacts AesFacts CamelliaFacts.
From PNA Require Import Fs Extract CreateTransportFacts.
From PNA Require Update UpdateFacts ArchiveRun.
Require Import ZArith ZifyN ZifyNat ZifyBool.
Open Scope N_scope.

(* ================================================================================================= *)
(* 0. the operation                                                                                    *)
(* ================================================================================================= *)
(* append.rs on one file: read_header, seek_to_end, add_entry of every new entry, finalize; written in place *)
Definition append_at (b : bytes) (news : list (list chunk)) : res (bytes * bool) :=
  do (_, r) <- read_header rds b;
  do (off, nxt) <- seek_loop (S (length r)) r 0 false;
  Ok (ArchiveRun.overwrite b (28 + N.to_nat off) (concat (map (fun e => fst (add_chunks e)) news) ++ finalize), nxt).

(* it is ArchiveRun.append_raw (the definition run against Archive::seek_to_end / add_entry / finalize by the
   `append` correspondence cases) with the new entries given directly instead of through a donor archive *)
Lemma append_raw_is_append_at base donor news st : raw_entries rds donor = Ok (news, FinOk, st) ->
  ArchiveRun.append_raw base donor = append_at base news.
Proof.
  intros H. unfold ArchiveRun.append_raw, append_at.
  destruct (read_header rds base) as [[h r]| |]; cbn [bind]; try reflexivity.
  destruct (seek_loop (S (length r)) r 0 false) as [[off nxt]| |]; cbn [bind]; try reflexivity.
  rewrite H. reflexivity.
Qed.

(* ANXT chunks set the reader's flag and are not part of any entry *)
Definition strip (cs : list chunk) : list chunk := filter (fun c => negb (ty_is c ANXT)) cs.

(* what the reader makes of new entries written behind an open (never closed) entry `buf` *)
Definition glue (buf : list chunk) (news : list (list chunk)) : list (list chunk) :=
  match news with [] => [] | n :: ns => (buf ++ n) :: ns end.
Definition left_open (buf : list chunk) (news : list (list chunk)) : list chunk :=
  match news with [] => buf | _ => [] end.

Lemma glue_nil news : glue [] news = news.
Proof. destruct news; reflexivity. Qed.
Lemma left_open_nil news : left_open [] news = [].
Proof. destruct news; reflexivity. Qed.

Lemma strip_app a b : strip (a ++ b) = strip a ++ strip b.
Proof. apply filter_app. Qed.

Lemma strip_id cs : has_anxt cs = false -> strip cs = cs.
Proof.
  induction cs as [|c cs IH]; [reflexivity|]. cbn [has_anxt existsb strip filter]. intros H.
  apply orb_false_iff in H. destruct H as [H1 H2]. rewrite H1. cbn [negb]. f_equal. apply IH. exact H2.
Qed.

Lemma scan_new buf news : Forall wf_entry news -> scan buf (concat news) = (glue buf news, left_open buf news).
Proof.
  intros H. destruct H as [|n ns Hn Hns]; [reflexivity|]. cbn [concat glue left_open].
  rewrite scan_entry by exact Hn. rewrite scan_entries by exact Hns. reflexivity.
Qed.

(* ================================================================================================= *)
(* 1. the reader on ANY run of chunks up to the first AEND                                             *)
(* ================================================================================================= *)
Lemma anxt_item_gen c R buf nxt h : wf_chunk c -> ty_is c ANXT = true ->
  next_raw_item rds (st (ser_chunk c ++ R) buf nxt h) = next_raw_item rds (st R buf true h).
Proof.
  intros Hc Ht. unfold next_raw_item, st. cbn [r_rest r_buf r_next r_hdr next_item_loop].
  rewrite read_chunk_ser by exact Hc. cbn [bind].
  rewrite (ty_eq_neq c ANXT FEND Ht), (ty_eq_neq c ANXT SEND Ht), Ht by reflexivity. cbn [orb].
  rewrite (next_item_loop_fuel rds read_chunk_shorter read_chunk_no_panic _ (S (length R))); [reflexivity| |lia].
  rewrite app_length. pose proof (ser_chunk_length_ge c). lia.
Qed.

Lemma aend_item_gen a R buf nxt h : wf_chunk a -> ty_is a AEND = true ->
  next_raw_item rds (st (ser_chunk a ++ R) buf nxt h) = Ok (None, st R buf nxt h).
Proof.
  intros Hc Ht. unfold next_raw_item, st. cbn [r_rest r_buf r_next r_hdr next_item_loop].
  rewrite read_chunk_ser by exact Hc. cbn [bind].
  rewrite (ty_eq_neq a AEND FEND Ht), (ty_eq_neq a AEND SEND Ht), (ty_eq_neq a AEND ANXT Ht), Ht by reflexivity.
  reflexivity.
Qed.

(* chunks cs (none of them AEND), an AEND chunk, anything: the iteration ends Ok, the entries are the chunks other
   than ANXT cut behind every FEND / SEND, the open entry stays in the buffer, the flag records an ANXT *)
Lemma loop_gen a junk h : wf_chunk a -> ty_is a AEND = true ->
  forall cs buf nxt fuel, Forall wf_chunk cs -> Forall (fun c => ty_is c AEND = false) cs ->
  (length (ser_chunks cs ++ ser_chunk a ++ junk) < fuel)%nat ->
  raw_entries_loop rds fuel (st (ser_chunks cs ++ ser_chunk a ++ junk) buf nxt h) =
  (fst (scan buf (strip cs)), FinOk, st junk (snd (scan buf (strip cs))) (nxt || has_anxt cs) h).
Proof.
  intros Ha Hta. induction cs as [|c cs IH]; intros buf nxt fuel Hw Hn Hf.
  - rewrite ser_chunks_nil in *. cbn [app] in *. destruct fuel as [|fuel]; [lia|]. cbn [raw_entries_loop].
    rewrite aend_item_gen by assumption. cbn [strip filter scan fst snd has_anxt existsb]. rewrite orb_false_r. reflexivity.
  - inversion Hw as [|? ? Hwc Hw']; subst. inversion Hn as [|? ? Hnc Hn']; subst.
    rewrite ser_chunks_cons, <- app_assoc in *. rewrite app_length in Hf.
    pose proof (ser_chunk_length_ge c) as Lc. cbn [has_anxt existsb strip filter]. fold (has_anxt cs). fold (strip cs).
    destruct (ty_is c ANXT) eqn:Ex; cbn [negb].
    + apply (loop_transfer_ok _ _ _ _ _ (anxt_item_gen c _ buf nxt h Hwc Ex)).
      rewrite IH by (try assumption; lia). cbn [orb]. rewrite orb_true_r. reflexivity.
    + cbn [orb]. destruct (is_end c) eqn:He.
      * destruct fuel as [|fuel]; [lia|]. cbn [raw_entries_loop]. rewrite end_chunk_item by assumption.
        rewrite IH by (try assumption; lia). rewrite scan_end by exact He. reflexivity.
      * apply (loop_transfer_ok _ _ _ _ _ (absorb_chunk c _ buf nxt h Hwc (clean_not_term c (conj Ex Hnc) He))).
        rewrite IH by (try assumption; lia). rewrite scan_plain by exact He. reflexivity.
Qed.

(* ---- the shape of a file ---------------------------------------------------------------------------- *)
Definition hdr_ok (hc : chunk) (h : ahed) : Prop :=
  wf_chunk hc /\ ty_is hc AHED = true /\ ahed_of_bytes (cdata hc) = Ok h.
(* chunks up to the first AEND, the AEND chunk, whatever follows it *)
Definition run_ok (cs : list chunk) (a : chunk) : Prop :=
  Forall wf_chunk cs /\ Forall (fun c => ty_is c AEND = false) cs /\ wf_chunk a /\ ty_is a AEND = true.

Lemma read_header_hdr hc h r : hdr_ok hc h -> read_header rds (sig ++ ser_chunk hc ++ r) = Ok (h, r).
Proof.
  intros (Hc & Ht & Hh). unfold read_header. rewrite read_sig_app. cbn [bind].
  rewrite read_chunk_ser by exact Hc. cbn [bind]. rewrite Ht. cbn [negb]. rewrite Hh. reflexivity.
Qed.

Lemma hdr_len hc h : hdr_ok hc h -> length (sig ++ ser_chunk hc) = 28%nat.
Proof.
  intros (Hc & _ & Hh). rewrite app_length, ser_chunk_length by apply Hc. apply ahed_of_bytes_len in Hh.
  rewrite Hh. reflexivity.
Qed.

Lemma read_header_shape b h r : read_header rds b = Ok (h, r) ->
  exists hc, b = sig ++ ser_chunk hc ++ r /\ hdr_ok hc h.
Proof.
  intros H. apply read_header_ok_inv in H. destruct H as (c & E & Hc & Ht & Hh & _).
  exists c. split; [exact E|]. split; [exact Hc|]. split; assumption.
Qed.

Lemma seek_run cs a tail : run_ok cs a ->
  seek_loop (S (length (ser_chunks cs ++ ser_chunk a ++ tail))) (ser_chunks cs ++ ser_chunk a ++ tail) 0 false =
  Ok (len (ser_chunks cs), has_anxt cs).
Proof.
  intros (Hw & Hn & Ha & Hta). rewrite seek_loop_run; try assumption.
  - rewrite ser_chunks_len by (apply Forall_wf_ty4; exact Hw). cbn [orb]. f_equal; f_equal; lia.
  - apply wf_chunk_ty4. exact Ha.
  - pose proof (chunks_le_bytes cs). rewrite app_length. lia.
Qed.

(* the state-level reading of a run, with the fuel raw_entries / read_parts_loop supply *)
Lemma run_read cs a tail buf nxt h fuel : run_ok cs a -> (length (ser_chunks cs ++ ser_chunk a ++ tail) < fuel)%nat ->
  raw_entries_loop rds fuel (st (ser_chunks cs ++ ser_chunk a ++ tail) buf nxt h) =
  (fst (scan buf (strip cs)), FinOk, st tail (snd (scan buf (strip cs))) (nxt || has_anxt cs) h).
Proof. intros (Hw & Hn & Ha & Hta) Hf. apply loop_gen; assumption. Qed.

(* every state from which the iteration ends Ok stands in front of such a run *)
Lemma loop_ok_run fuel s es s' : raw_entries_loop rds fuel s = (es, FinOk, s') -> (length (r_rest s) < fuel)%nat ->
  exists cs a, r_rest s = ser_chunks cs ++ ser_chunk a ++ r_rest s' /\ run_ok cs a /\
    es = fst (scan (r_buf s) (strip cs)) /\ r_buf s' = snd (scan (r_buf s) (strip cs)) /\
    r_next s' = r_next s || has_anxt cs /\ r_hdr s' = r_hdr s.
Proof.
  intros H Hf. destruct (raw_loop_ok_inv _ _ _ _ H) as (cs & a & Er & Hw & Hwa & Hn & Hta & _).
  exists cs, a. split; [exact Er|]. assert (R : run_ok cs a) by exact (conj Hw (conj Hn (conj Hwa Hta))). split; [exact R|].
  rewrite (st_eta s), Er in H. rewrite run_read in H by (try exact R; rewrite <- Er; exact Hf).
  injection H as <- <-. cbn [st r_buf r_next r_hdr]. repeat split.
Qed.

(* ---- whole files ------------------------------------------------------------------------------------------ *)
Definition file_of (hc : chunk) (cs : list chunk) (a : chunk) (tail : bytes) : bytes :=
  sig ++ ser_chunk hc ++ ser_chunks cs ++ ser_chunk a ++ tail.

Lemma file_read hc h cs a tail : hdr_ok hc h -> run_ok cs a ->
  raw_entries rds (file_of hc cs a tail) =
  Ok (fst (scan [] (strip cs)), FinOk, st tail (snd (scan [] (strip cs))) (has_anxt cs) h).
Proof.
  intros Hh Hr. unfold raw_entries, open_archive, file_of. rewrite (read_header_hdr hc h) by exact Hh. cbn [bind].
  fold (st (ser_chunks cs ++ ser_chunk a ++ tail) [] false h). rewrite run_read; [reflexivity|exact Hr|].
  rewrite !app_length. lia.
Qed.

(* `raw_entries_ok_shape`: for ALL inputs, an iteration that ends Ok has read exactly this *)
Theorem raw_entries_ok_shape b es s : raw_entries rds b = Ok (es, FinOk, s) ->
  exists hc cs a, b = file_of hc cs a (r_rest s) /\ hdr_ok hc (r_hdr s) /\ run_ok cs a /\
    es = fst (scan [] (strip cs)) /\ r_buf s = snd (scan [] (strip cs)) /\ r_next s = has_anxt cs.
Proof.
  unfold raw_entries, open_archive. destruct (read_header rds b) as [[h r]| |] eqn:E; cbn [bind]; try discriminate.
  assert (Hfuel : (length b < S (length b))%nat) by lia. revert Hfuel. generalize (S (length b)) as fuel.
  intros fuel Hfuel [= H]. apply read_header_shape in E. destruct E as (hc & Eb & Hh).
  apply loop_ok_run in H; [|cbn [r_rest]; rewrite Eb, !app_length in Hfuel; lia].
  cbn [r_rest r_buf r_next r_hdr] in H. destruct H as (cs & a & Er & R & -> & Eb' & En & Ehd).
  exists hc, cs, a. unfold file_of. rewrite <- Er, Ehd. repeat split; try assumption; apply R || apply Hh.
Qed.

(* ================================================================================================= *)
(* 2. the in-place append on one file                                                                  *)
(* ================================================================================================= *)
Lemma ser_entries_add news : concat (map (fun e => fst (add_chunks e)) news) = ser_chunks (concat news).
Proof. change (ser_entries news = ser_chunks (concat news)). apply ser_entries_concat. Qed.

Lemma finalize_len : length finalize = 12%nat.
Proof. vm_compute. reflexivity. Qed.

Lemma run_ok_aend_len a : wf_chunk a -> (12 <= length (ser_chunk a))%nat.
Proof. intros Ha. rewrite ser_chunk_length by apply Ha. lia. Qed.

(* the bytes: everything up to the old AEND, the new entries, a fresh AEND, and what the old file had beyond *)
Lemma overwrite_file hc h cs a tail news : hdr_ok hc h -> run_ok cs a ->
  let b := file_of hc cs a tail in
  let pos := (28 + N.to_nat (len (ser_chunks cs)))%nat in
  let w := concat (map (fun e => fst (add_chunks e)) news) ++ finalize in
  ArchiveRun.overwrite b pos w =
    file_of hc (cs ++ concat news) (mk AEND []) (skipn (pos + length w) b) /\
  firstn pos b = sig ++ ser_chunk hc ++ ser_chunks cs /\
  skipn pos b = ser_chunk a ++ tail /\ (pos + 12 <= length b)%nat.
Proof.
  intros Hh Hr. cbv zeta. pose proof (hdr_len hc h Hh) as L.
  assert (P : (28 + N.to_nat (len (ser_chunks cs)))%nat = length ((sig ++ ser_chunk hc) ++ ser_chunks cs)).
  { rewrite app_length, L, len_nat. reflexivity. }
  assert (Eb : file_of hc cs a tail = ((sig ++ ser_chunk hc) ++ ser_chunks cs) ++ ser_chunk a ++ tail).
  { unfold file_of. rewrite <- !app_assoc. reflexivity. }
  assert (F : firstn (28 + N.to_nat (len (ser_chunks cs))) (file_of hc cs a tail) = sig ++ ser_chunk hc ++ ser_chunks cs).
  { rewrite P, Eb, firstn_app_l, firstn_all by apply Nat.le_refl. rewrite <- !app_assoc. reflexivity. }
  split; [|split; [exact F|split]].
  - unfold ArchiveRun.overwrite. rewrite F. unfold file_of at 2.
    rewrite ser_entries_add, ser_chunks_app, <- !app_assoc. reflexivity.
  - rewrite P, Eb. apply skipn_app_exact. reflexivity.
  - rewrite Eb, P, (app_length (_ ++ _) (ser_chunk a ++ tail)), (app_length (ser_chunk a)).
    destruct Hr as (_ & _ & Ha & _). pose proof (run_ok_aend_len a Ha). lia.
Qed.

Lemma run_ok_append cs a news : run_ok cs a -> Forall wf_entry news -> run_ok (cs ++ concat news) (mk AEND []).
Proof.
  intros (Hw & Hn & _ & _) Hnews. destruct (wf_entries_chunks news Hnews) as [W N'].
  split; [apply Forall_app; split; assumption|]. split; [apply Forall_app; split; assumption|].
  split; [exact wf_chunk_aend|reflexivity].
Qed.

Lemma scan_append buf cs news : Forall wf_entry news ->
  scan buf (strip (cs ++ concat news)) =
  (fst (scan buf (strip cs)) ++ glue (snd (scan buf (strip cs))) news, left_open (snd (scan buf (strip cs))) news).
Proof.
  intros Hnews. rewrite strip_app, (strip_id (concat news)) by (apply wf_entries_no_anxt; exact Hnews).
  rewrite scan_app, scan_new by exact Hnews. reflexivity.
Qed.

Lemma has_anxt_append cs news : Forall wf_entry news -> has_anxt (cs ++ concat news) = has_anxt cs.
Proof. intros H. rewrite has_anxt_app, (wf_entries_no_anxt news H), orb_false_r. reflexivity. Qed.

(* `append_container`: b is ANY file whose raw entries read to the end marker; news any entries as add_entry
   writes them.  The position seek_to_end finds is the start of the (first) AEND chunk; the file after the
   append agrees with the old one on every byte in front of it and reads back as old ++ new *)
Theorem append_container_raw b es s news :
  raw_entries rds b = Ok (es, FinOk, s) -> Forall wf_entry news ->
  exists r off a tail,
    read_header rds b = Ok (r_hdr s, r) /\ seek_loop (S (length r)) r 0 false = Ok (off, r_next s) /\
    let pos := (28 + N.to_nat off)%nat in
    let b' := ArchiveRun.overwrite b pos (concat (map (fun e => fst (add_chunks e)) news) ++ finalize) in
    skipn pos b = ser_chunk a ++ tail /\ wf_chunk a /\ ty_is a AEND = true /\ (pos + 12 <= length b)%nat /\
    append_at b news = Ok (b', r_next s) /\
    firstn pos b' = firstn pos b /\
    exists s', raw_entries rds b' = Ok (es ++ glue (r_buf s) news, FinOk, s') /\
               r_buf s' = left_open (r_buf s) news /\ r_next s' = r_next s /\ r_hdr s' = r_hdr s.
Proof.
  intros H Hnews. destruct (raw_entries_ok_shape b es s H) as (hc & cs & a & Eb & Hh & Hr & Ees & Ebuf & Enx).
  set (tail := r_rest s) in *. set (h := r_hdr s) in *.
  exists (ser_chunks cs ++ ser_chunk a ++ tail), (len (ser_chunks cs)), a, tail.
  assert (RH : read_header rds b = Ok (h, ser_chunks cs ++ ser_chunk a ++ tail)).
  { rewrite Eb. unfold file_of. apply read_header_hdr. exact Hh. }
  assert (SK := seek_run cs a tail Hr). rewrite <- Enx in SK.
  split; [exact RH|]. split; [exact SK|]. cbv zeta.
  destruct (overwrite_file hc h cs a tail news Hh Hr) as (OW & F & SKP & LE). cbv zeta in OW, F, SKP, LE. rewrite <- Eb in *.
  split; [exact SKP|]. split; [apply Hr|]. split; [apply Hr|]. split; [exact LE|].
  split; [unfold append_at; rewrite RH; cbn [bind]; rewrite SK; reflexivity|].
  split.
  - unfold ArchiveRun.overwrite. rewrite firstn_app_l by (rewrite firstn_length; lia).
    apply firstn_all2. rewrite firstn_length. lia.
  - rewrite OW. rewrite (file_read hc h) by (try exact Hh; apply (run_ok_append cs a); assumption).
    rewrite scan_append by exact Hnews. cbn [fst snd]. rewrite <- Ees, <- Ebuf, has_anxt_append by exact Hnews.
    eexists. split; [reflexivity|]. cbn [st r_buf r_next r_hdr]. split; [reflexivity|]. split; [symmetry; exact Enx|reflexivity].
Qed.

(* the statement for files without an open entry (r_buf = []: every written archive), both readers; what is
   established for b holds again for b', so appends can be iterated *)
Theorem append_container b es s news :
  raw_entries rds b = Ok (es, FinOk, s) -> r_buf s = [] -> Forall wf_entry news ->
  exists b' pos a tail s',
    append_at b news = Ok (b', r_next s) /\
    skipn pos b = ser_chunk a ++ tail /\ ty_is a AEND = true /\ (pos + 12 <= length b)%nat /\
    firstn pos b' = firstn pos b /\
    raw_entries rds b' = Ok (es ++ news, FinOk, s') /\
    raw_entries read_chunk_slice b' = Ok (es ++ news, FinOk, s') /\
    r_buf s' = [] /\ r_next s' = r_next s /\ r_hdr s' = r_hdr s.
Proof.
  intros H Hb Hnews. destruct (append_container_raw b es s news H Hnews)
    as (r & off & a & tail & RH & SK & SKP & Ha & Hta & LE & AP & F & s' & R' & B' & N' & H').
  cbv zeta in *. rewrite Hb, glue_nil in R'. rewrite Hb, left_open_nil in B'.
  eexists _, _, a, tail, s'. split; [exact AP|]. split; [exact SKP|]. split; [exact Hta|]. split; [exact LE|].
  split; [exact F|]. split; [exact R'|]. split; [rewrite (proj1 (stream_slice_agree _)); exact R'|].
  split; [exact B'|]. split; assumption.
Qed.

(* ================================================================================================= *)
(* 3. entry level: Archive::entries()                                                                  *)
(* ================================================================================================= *)
Lemma parse_all_app es news xs : parse_all es = (xs, FinOk) ->
  parse_all (es ++ news) = (xs ++ fst (parse_all news), snd (parse_all news)).
Proof.
  revert xs. induction es as [|e es IH]; intros xs H; cbn [parse_all app] in *.
  - injection H as <-. destruct (parse_all news). reflexivity.
  - destruct (parse_entry e) as [p| |]; try discriminate H.
    destruct (parse_all es) as [ps f] eqn:E. injection H as <- ->. rewrite (IH ps eq_refl). reflexivity.
Qed.

Lemma entries_ok_inv rd b xs : entries rd b = Ok (xs, FinOk) ->
  exists es s, raw_entries rd b = Ok (es, FinOk, s) /\ parse_all es = (xs, FinOk).
Proof.
  unfold entries. destruct (raw_entries rd b) as [[[es f] s]| |]; cbn [bind]; try discriminate.
  destruct (parse_all es) as [ps pe] eqn:E. intros [= <- H]. destruct pe; try discriminate H. subst f.
  exists es, s. split; [reflexivity|exact E].
Qed.

Lemma entries_of_raw rd b es s xs : raw_entries rd b = Ok (es, FinOk, s) -> parse_all es = (xs, FinOk) ->
  entries rd b = Ok (xs, FinOk).
Proof. intros H P. unfold entries. rewrite H. cbn [bind]. rewrite P. reflexivity. Qed.

(* entries() of the file after the append: the old entries, then the new ones *)
Theorem append_container_entries b es s xs news ys :
  raw_entries rds b = Ok (es, FinOk, s) -> r_buf s = [] -> entries rds b = Ok (xs, FinOk) ->
  Forall wf_entry news -> parse_all news = (ys, FinOk) ->
  exists b' s', append_at b news = Ok (b', r_next s) /\
    entries rds b' = Ok (xs ++ ys, FinOk) /\ entries read_chunk_slice b' = Ok (xs ++ ys, FinOk) /\
    raw_entries rds b' = Ok (es ++ news, FinOk, s') /\ r_buf s' = [] /\ r_next s' = r_next s.
Proof.
  intros H Hb He Hnews Hp.
  destruct (entries_ok_inv _ _ _ He) as (es0 & s0 & H0 & P0). rewrite H in H0. injection H0 as <- <-.
  destruct (append_container b es s news H Hb Hnews) as (b' & pos & a & tail & s' & AP & _ & _ & _ & _ & R & R2 & B' & N' & _).
  assert (P : parse_all (es ++ news) = (xs ++ ys, FinOk)) by (rewrite (parse_all_app es news xs P0), Hp; reflexivity).
  exists b', s'. split; [exact AP|]. split; [exact (entries_of_raw _ _ _ _ _ R P)|].
  split; [exact (entries_of_raw _ _ _ _ _ R2 P)|]. split; [exact R|]. split; assumption.
Qed.

(* ================================================================================================= *)
(* 4. logical level: decoded entries (CreateTransportFacts.xentry: name, kind, data, mode, mtime, xattrs)  *)
(* ================================================================================================= *)
Section Logical.
Variables E D : encryption -> bytes -> bytes -> bytes.
Variable compress : compression -> N -> list bytes -> list bytes.
Variable decompress : compression -> bytes -> res bytes.
Variable verify : bytes -> bytes -> res bytes.
Hypothesis D_len : forall a k c, len16 c -> len16 (D a k c).
Hypothesis DE : forall a k b, len16 b -> D a k (E a k b) = b.
Hypothesis E_len : forall a k b, len16 b -> len16 (E a k b).
Hypothesis compress_law : forall c lvl ws, decompress c (concat (compress c lvl ws)) = Ok (concat ws).
Hypothesis compress_det : forall c lvl (ws ws' : list bytes), concat ws = concat ws' ->
  concat (compress c lvl ws) = concat (compress c lvl ws').

Notation build_job := (build_job E compress).
Notation wf_job := (wf_job E compress verify).
Notation read_entries_x := (read_entries_x E D decompress verify).
Notation reads_to_end := (reads_to_end E compress).

(* the logical content of one item of entries(): a normal entry decodes to one logical entry, a solid entry
   (SolidEntry::entries, read with the buffer sizes `srb` chooses for it) to its inner entries in order *)
Definition x_item (pw : bytes) (rb : normal_entry -> list N) (srb : solid_entry -> list N) (r : read_entry)
  : res (list xentry) :=
  match r with
  | RNormal n => read_entries_x pw rb [n]
  | RSolid s =>
    do (ns, f) <- decode_solid E D decompress verify s pw (srb s);
    match f with FinOk => read_entries_x pw rb ns | FinErr k => Err k | FinPanic => Panic end
  end.
Fixpoint x_items (pw : bytes) (rb : normal_entry -> list N) (srb : solid_entry -> list N) (rs : list read_entry)
  : res (list xentry) :=
  match rs with
  | [] => Ok []
  | r :: t => do a <- x_item pw rb srb r; do b <- x_items pw rb srb t; Ok (a ++ b)
  end.
(* the logical view of an archive file: entries() to the end marker, every item decoded *)
Definition xlogical (pw : bytes) (rb : normal_entry -> list N) (srb : solid_entry -> list N) (b : bytes)
  : res (list xentry) :=
  do rs <- read_archive b; x_items pw rb srb rs.

Lemma x_items_app pw rb srb a b xa xb : x_items pw rb srb a = Ok xa -> x_items pw rb srb b = Ok xb ->
  x_items pw rb srb (a ++ b) = Ok (xa ++ xb).
Proof.
  revert xa. induction a as [|r a IH]; intros xa Ha Hb; cbn [x_items app] in *.
  - injection Ha as <-. exact Hb.
  - destruct (x_item pw rb srb r) as [x| |]; cbn [bind] in *; try discriminate Ha.
    destruct (x_items pw rb srb a) as [y| |]; cbn [bind] in *; try discriminate Ha. injection Ha as <-.
    rewrite (IH y eq_refl Hb). cbn [bind]. rewrite app_assoc. reflexivity.
Qed.

Lemma x_items_normals pw rb srb ns xs : read_entries_x pw rb ns = Ok xs ->
  x_items pw rb srb (map RNormal ns) = Ok xs.
Proof.
  revert xs. induction ns as [|n ns IH]; intros xs H; cbn [map x_items x_item CreateTransportFacts.read_entries_x] in *.
  - exact H.
  - destruct (read_entry_x E D decompress verify pw rb n) as [x| |]; cbn [bind] in *; try discriminate H.
    destruct (read_entries_x pw rb ns) as [y| |]; cbn [bind] in *; try discriminate H. injection H as <-.
    rewrite (IH y eq_refl). reflexivity.
Qed.

Lemma read_archive_ok b rs : read_archive b = Ok rs <-> entries rds b = Ok (rs, FinOk).
Proof.
  unfold read_archive. destruct (entries rds b) as [[xs f]| |]; cbn [bind]; split; intros H; try discriminate H.
  - destruct f; try discriminate H. injection H as ->. reflexivity.
  - injection H as -> ->. reflexivity.
Qed.

(* the new entries as the pipeline builds them and add_entry writes them *)
Definition new_raws (jobs : list job) : list (list chunk) := map ser_normal (map build_job jobs).

Lemma new_raws_wf pw jobs : Forall (wf_job pw) jobs -> Forall wf_entry (new_raws jobs).
Proof.
  intros H. unfold new_raws. apply Forall_forall. intros cs Hcs. apply in_map_iff in Hcs. destruct Hcs as (e & <- & He).
  apply in_map_iff in He. destruct He as (j & <- & Hj). rewrite Forall_forall in H. destruct (H j Hj) as (Hs & Hc & Hw & Hf).
  apply (ser_normal_wf_entry compress decompress compress_law compress_det); [|exact Hf].
  apply (build_wf_normal E compress verify _ _ pw); assumption.
Qed.

Lemma new_raws_parse pw jobs : Forall (wf_job pw) jobs ->
  parse_all (new_raws jobs) = (map RNormal (map build_job jobs), FinOk).
Proof.
  intros H. unfold new_raws. rewrite parse_all_ser.
  - f_equal. rewrite <- map_map with (g := RNormal). f_equal. rewrite !map_map. apply map_ext_in. intros j Hj.
    rewrite Forall_forall in H. destruct (H j Hj) as (_ & Hc & _).
    apply (normalize_build E D compress verify D_len DE E_len _ _ pw). exact Hc.
  - apply Forall_forall. intros e He. apply in_map_iff in He. destruct He as (j & <- & Hj).
    rewrite Forall_forall in H. destruct (H j Hj) as (Hs & Hc & Hw & _). apply (build_wf_normal E compress verify _ _ pw); assumption.
Qed.

(* `append_container_logical`: the old file decodes (password pw, buffer policies rb / srb) to `old`; the jobs
   carry the logical entries `new`; every read drains its entry.  The file after the append decodes to old ++ new:
   nothing lost, nothing duplicated, order kept, and every new entry has the name, kind, bytes, mode, mtime and
   xattrs of what it was built from — for every codec / cipher configuration of the jobs *)
Theorem append_container_logical pw rb srb b es s old jobs new :
  raw_entries rds b = Ok (es, FinOk, s) -> r_buf s = [] -> xlogical pw rb srb b = Ok old ->
  Forall2 carries jobs new -> Forall (wf_job pw) jobs -> Forall (fun e => e_kind e <= 3) new ->
  (forall j, In j jobs -> reads_to_end rb j) ->
  exists b' s' xs, append_at b (new_raws jobs) = Ok (b', r_next s) /\
    xlogical pw rb srb b' = Ok (old ++ new) /\
    entries rds b = Ok (xs, FinOk) /\ entries rds b' = Ok (xs ++ map RNormal (map build_job jobs), FinOk) /\
    raw_entries rds b' = Ok (es ++ new_raws jobs, FinOk, s') /\ r_buf s' = [] /\ r_next s' = r_next s.
Proof.
  intros H Hb Hold Hc Hw Hk Hr. unfold xlogical in Hold.
  destruct (read_archive b) as [xs| |] eqn:RA; cbn [bind] in Hold; try discriminate Hold. apply read_archive_ok in RA.
  destruct (append_container_entries b es s xs (new_raws jobs) _ H Hb RA (new_raws_wf pw jobs Hw) (new_raws_parse pw jobs Hw))
    as (b' & s' & AP & En & _ & R & B' & N').
  exists b', s', xs. split; [exact AP|]. split; [|split; [exact RA|split; [exact En|split; [exact R|split; assumption]]]].
  unfold xlogical. apply read_archive_ok in En. rewrite En. cbn [bind].
  apply x_items_app; [exact Hold|]. apply x_items_normals.
  apply (read_all_built E D compress decompress verify D_len DE E_len compress_law); assumption.
Qed.

(* ================================================================================================= *)
(* 5. the bridge to Model/Update.v                                                                      *)
(* ================================================================================================= *)
(* Update.entry keeps the four fields the commands of that area look at *)
Definition abs (x : xentry) : Update.entry :=
  Update.mkE (e_name x) (e_kind x) (e_data x) (e_mtime x).
(* the abstraction function: an archive FILE as an Update.archive *)
Definition logical (pw : bytes) (rb : normal_entry -> list N) (srb : solid_entry -> list N) (b : bytes)
  : res Update.archive :=
  do xs <- xlogical pw rb srb b; Ok (map abs xs).

(* abs (after append) = Update.append (abs before) (map abs new) *)
Theorem append_container_abs pw rb srb b es s a jobs new :
  raw_entries rds b = Ok (es, FinOk, s) -> r_buf s = [] -> logical pw rb srb b = Ok a ->
  Forall2 carries jobs new -> Forall (wf_job pw) jobs -> Forall (fun e => e_kind e <= 3) new ->
  (forall j, In j jobs -> reads_to_end rb j) ->
  exists b' s', append_at b (new_raws jobs) = Ok (b', r_next s) /\
    logical pw rb srb b' = Ok (Update.append a (map abs new)) /\
    raw_entries rds b' = Ok (es ++ new_raws jobs, FinOk, s') /\ r_buf s' = [] /\ r_next s' = r_next s.
Proof.
  intros H Hb Ha Hc Hw Hk Hr. unfold logical in Ha.
  destruct (xlogical pw rb srb b) as [old| |] eqn:XL; cbn [bind] in Ha; try discriminate Ha. injection Ha as <-.
  destruct (append_container_logical pw rb srb b es s old jobs new H Hb XL Hc Hw Hk Hr)
    as (b' & s' & xs & AP & XL' & _ & _ & R & B' & N').
  exists b', s'. split; [exact AP|]. split; [|split; [exact R|split; assumption]].
  unfold logical. rewrite XL'. cbn [bind]. unfold Update.append. rewrite map_app. reflexivity.
Qed.

(* the command: the jobs carry what create_entry builds for the walked nodes that collect_items keeps *)
Definition carries_nodes (kd kt : bool) (walk : list Update.node) (new : list xentry) : Prop :=
  map abs new = map (Update.fresh kt) (filter (Update.wanted kd) walk).

(* one OAppend step of a history of Model/Update.v, on the file: if the logical command succeeds, the in-place
   append turns a file that abstracts to `a` into a file that abstracts to the command's result *)
Theorem append_container_step pw rb srb b es s a kd kt walk a' jobs new :
  raw_entries rds b = Ok (es, FinOk, s) -> r_buf s = [] -> logical pw rb srb b = Ok a ->
  Update.step a (Update.OAppend kd kt walk) = Ok a' -> carries_nodes kd kt walk new ->
  Forall2 carries jobs new -> Forall (wf_job pw) jobs -> Forall (fun e => e_kind e <= 3) new ->
  (forall j, In j jobs -> reads_to_end rb j) ->
  exists b' s', append_at b (new_raws jobs) = Ok (b', r_next s) /\
    logical pw rb srb b' = Ok a' /\ a' = Update.after a (Update.OAppend kd kt walk) /\
    a' = a ++ map abs new /\
    raw_entries rds b' = Ok (es ++ new_raws jobs, FinOk, s') /\ r_buf s' = [] /\ r_next s' = r_next s.
Proof.
  intros H Hb Ha St Cn Hc Hw Hk Hr.
  destruct (append_container_abs pw rb srb b es s a jobs new H Hb Ha Hc Hw Hk Hr) as (b' & s' & AP & L & R & B' & N').
  assert (Ea : a' = a ++ map abs new).
  { cbn [Update.step] in St. rewrite (UpdateFacts.append_cmd_spec kd kt a walk a' St). rewrite Cn. reflexivity. }
  exists b', s'. split; [exact AP|]. split; [rewrite Ea; exact L|]. split; [unfold Update.after; rewrite St; reflexivity|].
  split; [exact Ea|]. split; [exact R|split; assumption].
Qed.

End Logical.

(* ================================================================================================= *)
(* 6. multipart: the walk to the last part (append.rs:110-124)                                         *)
(* ================================================================================================= *)
(* seek_to_end; while the part announced a successor, open the next file with read_next_archive (number check)
   and seek again; the entries and the end marker go into the part at which the walk stops; no other file is
   opened for writing.  `h` = header of the current part, `r` = its bytes behind the header *)
Fixpoint append_walk (h : ahed) (cur r : bytes) (rest : list bytes) (news : list (list chunk)) : res (list bytes) :=
  do (off, nxt) <- seek_loop (S (length r)) r 0 false;
  if nxt then
    match rest with
    | [] => Err NotFound                                   (* File::open of the part that is not there *)
    | p :: ps =>
      do (h', r') <- read_header rds p;
      if N.ltb (a_number h + 1) (2 ^ 32) && N.eqb (a_number h + 1) (a_number h')
      then do out <- append_walk h' p r' ps news; Ok (cur :: out)
      else Err InvalidData
    end
  else Ok (ArchiveRun.overwrite cur (28 + N.to_nat off) (concat (map (fun e => fst (add_chunks e)) news) ++ finalize) :: rest).
Definition append_parts (parts : list bytes) (news : list (list chunk)) : res (list bytes) :=
  match parts with
  | [] => Err NotFound
  | p :: ps => do (h, r) <- read_header rds p; append_walk h p r ps news
  end.

(* on a single file it is append_at *)
Lemma append_parts_single b news : append_parts [b] news =
  do (b', nxt) <- append_at b news; if nxt then Err NotFound else Ok [b'].
Proof.
  unfold append_parts, append_at. destruct (read_header rds b) as [[h r]| |]; cbn [bind]; try reflexivity.
  cbn [append_walk]. destruct (seek_loop (S (length r)) r 0 false) as [[off nxt]| |]; cbn [bind]; try reflexivity;
  destruct nxt; reflexivity.
Qed.

(* read_parts_loop, also reporting the entry left open at the end (the reader's buffer) *)
Fixpoint rpl_b (s : rstate) (parts : list bytes) (cur_fuel : nat) : list (list chunk) * fin * list chunk :=
  let '(es, e, s') := raw_entries_loop rds cur_fuel s in
  match e with
  | FinOk =>
    if r_next s' then
      match parts with
      | [] => (es, FinErr NotFound, r_buf s')
      | p :: ps =>
        match read_next_archive rds s' p with
        | Ok s2 => let '(es2, e2, b2) := rpl_b s2 ps (fo p) in (es ++ es2, e2, b2)
        | Err k => (es, FinErr k, r_buf s')
        | Panic => (es, FinPanic, r_buf s')
        end
      end
    else (es, FinOk, r_buf s')
  | _ => (es, e, r_buf s')
  end.
Definition read_parts_b (parts : list bytes) : res (list (list chunk) * fin * list chunk) :=
  match parts with
  | [] => Err NotFound
  | p :: ps => do s <- open_archive rds [] p; Ok (rpl_b s ps (fo p))
  end.

Lemma rpl_b_fst : forall parts s cur, fst (rpl_b s parts cur) = read_parts_loop rds s fo parts cur.
Proof.
  induction parts as [|p ps IH]; intros s cur; cbn [rpl_b read_parts_loop];
    destruct (raw_entries_loop rds cur s) as [[es e] s']; destruct e; try reflexivity;
    destruct (r_next s'); try reflexivity.
  destruct (read_next_archive rds s' p) as [s2| |]; try reflexivity.
  rewrite <- IH. destruct (rpl_b s2 ps (fo p)) as [[es2 e2] b2]. reflexivity.
Qed.

(* read_parts is read_parts_b without the buffer *)
Lemma read_parts_b_fst parts x : read_parts_b parts = Ok x -> read_parts rds parts = Ok (fst x).
Proof.
  destruct parts as [|p ps]; cbn [read_parts_b read_parts]; [discriminate|].
  destruct (open_archive rds [] p) as [s| |]; cbn [bind]; try discriminate. intros [= <-]. rewrite rpl_b_fst. reflexivity.
Qed.
Lemma read_parts_has_b parts es f : read_parts rds parts = Ok (es, f) -> exists buf, read_parts_b parts = Ok (es, f, buf).
Proof.
  destruct parts as [|p ps]; cbn [read_parts_b read_parts]; [discriminate|].
  destruct (open_archive rds [] p) as [s| |]; cbn [bind]; try discriminate. intros [= H]. rewrite <- rpl_b_fst in H.
  destruct (rpl_b s ps (fo p)) as [[es' f'] buf]. cbn [fst] in H. injection H as -> ->. exists buf. reflexivity.
Qed.

(* the chain after the walk: the parts in front of the one written, that part, the parts behind it; the part
   written is changed from the start of its AEND chunk on, and nowhere else *)
Notation new_bytes news := (concat (map (fun e => fst (add_chunks e)) news) ++ finalize).
Definition one_part_rewritten (news : list (list chunk)) (parts out : list bytes) : Prop :=
  exists pre p post pos a tail,
    parts = pre ++ p :: post /\ out = pre ++ ArchiveRun.overwrite p pos (new_bytes news) :: post /\
    skipn pos p = ser_chunk a ++ tail /\ ty_is a AEND = true /\ (pos + 12 <= length p)%nat /\
    firstn pos (ArchiveRun.overwrite p pos (new_bytes news)) = firstn pos p.

Lemma overwrite_prefix b pos w : (pos <= length b)%nat -> firstn pos (ArchiveRun.overwrite b pos w) = firstn pos b.
Proof.
  intros H. unfold ArchiveRun.overwrite. rewrite firstn_app_l by (rewrite firstn_length; lia).
  apply firstn_all2. rewrite firstn_length. lia.
Qed.

Lemma rpl_b_last s parts cur es s' : raw_entries_loop rds cur s = (es, FinOk, s') -> r_next s' = false ->
  rpl_b s parts cur = (es, FinOk, r_buf s').
Proof. intros H Hn. destruct parts; cbn [rpl_b]; rewrite H, Hn; reflexivity. Qed.

Lemma rpl_b_next s p ps cur es s' s2 : raw_entries_loop rds cur s = (es, FinOk, s') -> r_next s' = true ->
  read_next_archive rds s' p = Ok s2 ->
  rpl_b s (p :: ps) cur = (es ++ fst (fst (rpl_b s2 ps (fo p))), snd (fst (rpl_b s2 ps (fo p))), snd (rpl_b s2 ps (fo p))).
Proof. intros H Hn H2. cbn [rpl_b]. rewrite H, Hn, H2. destruct (rpl_b s2 ps (S (length p))) as [[a b] c]. reflexivity. Qed.

Lemma next_hdr s hc h r : hdr_ok hc h ->
  (N.ltb (a_number (r_hdr s) + 1) (2 ^ 32) && N.eqb (a_number (r_hdr s) + 1) (a_number h)) = true ->
  read_next_archive rds s (sig ++ ser_chunk hc ++ r) = Ok (st r (r_buf s) false h).
Proof.
  intros Hh Hc. unfold read_next_archive, open_archive. rewrite (read_header_hdr hc h) by exact Hh. cbn [bind r_hdr].
  rewrite Hc. reflexivity.
Qed.

Lemma walk_ok news : Forall wf_entry news -> forall rest hc h r buf fuel es fbuf,
  hdr_ok hc h -> (length r < fuel)%nat ->
  rpl_b (st r buf false h) rest fuel = (es, FinOk, fbuf) ->
  exists out, append_walk h (sig ++ ser_chunk hc ++ r) r rest news = Ok out /\
    one_part_rewritten news ((sig ++ ser_chunk hc ++ r) :: rest) out /\
    exists r' tl, out = (sig ++ ser_chunk hc ++ r') :: tl /\
      forall fuel', (length r' < fuel')%nat ->
        rpl_b (st r' buf false h) tl fuel' = (es ++ glue fbuf news, FinOk, left_open fbuf news).
Proof.
  intros Hnews. induction rest as [|p ps IH]; intros hc h r buf fuel es fbuf Hh Hf H.
  all: destruct (raw_entries_loop rds fuel (st r buf false h)) as [[es0 e] s'] eqn:E0.
  all: assert (Ee : e = FinOk) by (cbn [rpl_b] in H; rewrite E0 in H; destruct e; try (injection H as _ H _; discriminate H); reflexivity).
  all: subst e; destruct (loop_ok_run _ _ _ _ E0 Hf) as (cs & a & Er & R & Ees & Ebuf & Enx & Ehd);
       cbn [st r_rest r_buf r_next r_hdr orb] in Er, Ees, Ebuf, Enx, Ehd; set (tail := r_rest s') in *.
  all: assert (SK := seek_run cs a tail R); rewrite <- Er in SK.
  all: destruct (has_anxt cs) eqn:Hx.
  - (* a successor is announced and there is no further file: the read did not end Ok *)
    cbn [rpl_b] in H. rewrite E0, Enx in H. discriminate H.
  - (* the only part left is the last one *)
    rewrite (rpl_b_last _ _ _ _ _ E0 Enx) in H. injection H as <- <-.
    cbn [append_walk]. rewrite SK. cbn [bind].
    destruct (overwrite_file hc h cs a tail news Hh R) as (OW & F & SKP & LE). cbv zeta in OW, F, SKP, LE.
    unfold file_of in OW at 1, F, SKP, LE. rewrite <- Er in OW, F, SKP, LE.
    eexists. split; [reflexivity|]. split.
    + exists [], (sig ++ ser_chunk hc ++ r), [], (28 + N.to_nat (len (ser_chunks cs)))%nat, a, tail.
      split; [reflexivity|]. split; [reflexivity|]. split; [exact SKP|]. split; [apply R|]. split; [exact LE|].
      apply overwrite_prefix. lia.
    + rewrite OW. unfold file_of. eexists _, []. split; [reflexivity|]. intros fuel' Hf'.
      pose proof (run_ok_append cs a news R Hnews) as R'.
      rewrite (rpl_b_last _ _ _ _ _ (run_read _ _ _ buf false h fuel' R' Hf')).
      * rewrite scan_append by exact Hnews. cbn [fst snd st r_buf]. rewrite <- Ees, <- Ebuf. reflexivity.
      * cbn [st r_next orb]. rewrite has_anxt_append by exact Hnews. exact Hx.
  - (* a successor is announced: the walk and the reader both go on to the next file *)
    cbn [rpl_b] in H. rewrite E0, Enx in H.
    destruct (read_next_archive rds s' p) as [s2| |] eqn:E2; try discriminate H.
    destruct (rpl_b s2 ps (fo p)) as [[es2 e2] b2] eqn:E3. injection H as <- -> ->.
    pose proof E2 as E2'. unfold read_next_archive, open_archive in E2.
    destruct (read_header rds p) as [[h2 r2]| |] eqn:E4; cbn [bind r_hdr] in E2; try discriminate E2.
    rewrite Ehd in E2.
    destruct (N.ltb (a_number h + 1) (2 ^ 32) && N.eqb (a_number h + 1) (a_number h2)) eqn:Ec; [|discriminate E2].
    injection E2 as <-. destruct (read_header_shape _ _ _ E4) as (hc2 & Ep & Hh2).
    fold (st r2 (r_buf s') false h2) in E3.
    destruct (IH hc2 h2 r2 (r_buf s') (fo p) es2 fbuf Hh2) as (out2 & AW2 & OPR2 & r2' & tl2 & Eout2 & RD2);
      [rewrite Ep, !app_length; lia|exact E3|].
    cbn [append_walk]. rewrite SK. cbn [bind]. rewrite E4. cbn [bind]. rewrite Ec.
    rewrite <- Ep in AW2, OPR2. rewrite AW2. cbn [bind]. eexists. split; [reflexivity|]. split.
    + destruct OPR2 as (pre & q & post & pos & a2 & tail2 & E1 & E2 & P3 & P4 & P5 & P6).
      exists ((sig ++ ser_chunk hc ++ r) :: pre), q, post, pos, a2, tail2. cbn [app]. rewrite <- E1, <- E2.
      split; [reflexivity|]. split; [reflexivity|]. split; [exact P3|]. split; [exact P4|]. split; [exact P5|exact P6].
    + exists r, out2. split; [reflexivity|]. intros fuel' Hf'. rewrite Eout2.
      assert (E0' : raw_entries_loop rds fuel' (st r buf false h) = (es0, FinOk, s')).
      { rewrite Er. rewrite run_read by (try exact R; rewrite <- Er; exact Hf').
        rewrite <- Ees, <- Ebuf, Hx. cbn [orb]. rewrite (st_eta s'), Ebuf, Enx, Ehd. reflexivity. }
      assert (NX : read_next_archive rds s' (sig ++ ser_chunk hc2 ++ r2') = Ok (st r2' (r_buf s') false h2)).
      { apply next_hdr; [exact Hh2|]. rewrite Ehd. exact Ec. }
      rewrite (rpl_b_next _ _ _ _ _ _ _ E0' Enx NX). rewrite RD2 by (rewrite !app_length; lia).
      cbn [fst snd]. rewrite app_assoc. reflexivity.
  - (* the reader stops here: so does the walk, whatever files follow *)
    rewrite (rpl_b_last _ _ _ _ _ E0 Enx) in H. injection H as <- <-.
    cbn [append_walk]. rewrite SK. cbn [bind].
    destruct (overwrite_file hc h cs a tail news Hh R) as (OW & F & SKP & LE). cbv zeta in OW, F, SKP, LE.
    unfold file_of in OW at 1, F, SKP, LE. rewrite <- Er in OW, F, SKP, LE.
    eexists. split; [reflexivity|]. split.
    + exists [], (sig ++ ser_chunk hc ++ r), (p :: ps), (28 + N.to_nat (len (ser_chunks cs)))%nat, a, tail.
      split; [reflexivity|]. split; [reflexivity|]. split; [exact SKP|]. split; [apply R|]. split; [exact LE|].
      apply overwrite_prefix. lia.
    + rewrite OW. unfold file_of. eexists _, (p :: ps). split; [reflexivity|]. intros fuel' Hf'.
      pose proof (run_ok_append cs a news R Hnews) as R'.
      rewrite (rpl_b_last _ _ _ _ _ (run_read _ _ _ buf false h fuel' R' Hf')).
      * rewrite scan_append by exact Hnews. cbn [fst snd st r_buf]. rewrite <- Ees, <- Ebuf. reflexivity.
      * cbn [st r_next orb]. rewrite has_anxt_append by exact Hnews. exact Hx.
Qed.

(* `append_multipart`: a chain of part files that reads to the end marker; the walk ends at the part at which the
   reader ends, only that file changes (from its AEND chunk on), and the chain then reads as old ++ new *)
Theorem append_multipart_raw parts es buf news :
  read_parts_b parts = Ok (es, FinOk, buf) -> Forall wf_entry news ->
  exists out, append_parts parts news = Ok out /\ one_part_rewritten news parts out /\
    read_parts_b out = Ok (es ++ glue buf news, FinOk, left_open buf news).
Proof.
  intros H Hnews. destruct parts as [|p ps]; [discriminate H|]. cbn [read_parts_b] in H. unfold open_archive in H.
  destruct (read_header rds p) as [[h r]| |] eqn:E; cbn [bind] in H; try discriminate H. injection H as H.
  destruct (read_header_shape _ _ _ E) as (hc & Ep & Hh). fold (st r [] false h) in H.
  destruct (walk_ok news Hnews ps hc h r [] (fo p) es buf Hh) as (out & AW & OPR & r' & tl & Eout & RD);
    [rewrite Ep, !app_length; lia|exact H|].
  exists out. split; [|split].
  - cbn [append_parts]. rewrite E. cbn [bind]. rewrite Ep at 1. exact AW.
  - rewrite Ep at 1. exact OPR.
  - rewrite Eout. cbn [read_parts_b]. unfold open_archive. rewrite (read_header_hdr hc h) by exact Hh. cbn [bind].
    fold (st r' [] false h). rewrite RD by (rewrite !app_length; lia). reflexivity.
Qed.

Theorem append_multipart parts es news :
  read_parts_b parts = Ok (es, FinOk, []) -> Forall wf_entry news ->
  exists out, append_parts parts news = Ok out /\ one_part_rewritten news parts out /\
    read_parts rds parts = Ok (es, FinOk) /\
    read_parts rds out = Ok (es ++ news, FinOk) /\ read_parts read_chunk_slice out = Ok (es ++ news, FinOk) /\
    read_parts_b out = Ok (es ++ news, FinOk, []).
Proof.
  intros H Hnews. destruct (append_multipart_raw parts es [] news H Hnews) as (out & AP & OPR & RD).
  rewrite glue_nil, left_open_nil in RD. exists out. split; [exact AP|]. split; [exact OPR|].
  split; [exact (read_parts_b_fst _ _ H)|]. split; [exact (read_parts_b_fst _ _ RD)|].
  split; [rewrite stream_slice_agree_parts; exact (read_parts_b_fst _ _ RD)|exact RD].
Qed.

(* ================================================================================================= *)
(* 7. the premises are met: concrete files                                                             *)
(* ================================================================================================= *)
(* the two-entry archive of ArchiveFacts (a file entry with a private chunk, a solid entry), number 7 *)
Example append_container_ex :
  exists s, raw_entries rds ex_arch = Ok ([ex_e1; ex_e2], FinOk, s) /\ r_buf s = [] /\ Forall wf_entry [ex_e2; ex_e1] /\
    append_at ex_arch [ex_e2; ex_e1] = Ok (write_raw_archive 7 [ex_e1; ex_e2; ex_e2; ex_e1], false).
Proof.
  eexists. split; [vm_compute; reflexivity|]. split; [reflexivity|]. split; [|vm_compute; reflexivity].
  pose proof ex_wf as W. inversion W as [|? ? W1 W']; subst. inversion W' as [|? ? W2 _]; subst. repeat constructor; assumption.
Qed.

(* a foreign layout: 40 bytes of another file behind the end marker, an ANXT chunk in front of the first entry.
   The append shorter than the old tail leaves the rest of it behind the new end marker; the file reads old ++ new *)
Definition ex_foreign : bytes :=
  write_header 3 ++ ser_chunks (mk ANXT [] :: ex_e1) ++ finalize ++ ser_chunks ex_e1.
Example append_foreign_ex :
  exists s, raw_entries rds ex_foreign = Ok ([ex_e1], FinOk, s) /\ r_buf s = [] /\ r_next s = true /\
    append_at ex_foreign [ex_e2] =
      Ok (write_header 3 ++ ser_chunks (mk ANXT [] :: ex_e1) ++ ser_chunks ex_e2 ++ finalize ++ skipn 40 (ser_chunks ex_e1), true) /\
    exists s', raw_entries rds (write_header 3 ++ ser_chunks (mk ANXT [] :: ex_e1) ++ ser_chunks ex_e2 ++ finalize ++ skipn 40 (ser_chunks ex_e1))
               = Ok ([ex_e1; ex_e2], FinOk, s').
Proof.
  eexists. split; [vm_compute; reflexivity|]. split; [reflexivity|]. split; [reflexivity|]. split; [vm_compute; reflexivity|].
  eexists. vm_compute. reflexivity.
Qed.

(* a file that ends inside an entry (no FEND before the end marker): the reader keeps the open chunks, and the
   first appended entry is read glued behind them — `glue` in append_container_raw is what happens *)
Definition ex_open : bytes := write_header 0 ++ ser_chunks (ex_e2 ++ [mk FHED (lit "hdr3"); mk FDAT [x01]]) ++ finalize.
Example append_open_entry_ex :
  exists s, raw_entries rds ex_open = Ok ([ex_e2], FinOk, s) /\ r_buf s = [mk FHED (lit "hdr3"); mk FDAT [x01]] /\
    exists b' s', append_at ex_open [ex_e1; ex_e2] = Ok (b', false) /\
      raw_entries rds b' = Ok ([ex_e2; [mk FHED (lit "hdr3"); mk FDAT [x01]] ++ ex_e1; ex_e2], FinOk, s') /\ r_buf s' = [].
Proof.
  eexists. split; [vm_compute; reflexivity|]. split; [reflexivity|]. eexists _, _.
  split; [vm_compute; reflexivity|]. split; [vm_compute; reflexivity|reflexivity].
Qed.

(* the three-part chain of PartsFacts (an entry straddles both boundaries): the walk ends in part 2, parts 0 and 1
   are the files they were, the chain reads as the three old entries and the new one *)
Example append_multipart_ex :
  read_parts_b exp_chain = Ok ([exp_e1; exp_e2; exp_e3], FinOk, []) /\ Forall wf_entry [exp_e1] /\
  exists out, append_parts exp_chain [exp_e1] = Ok out /\ firstn 2 out = firstn 2 exp_chain /\ length out = 3%nat /\
    read_parts rds out = Ok ([exp_e1; exp_e2; exp_e3; exp_e1], FinOk).
Proof.
  split; [vm_compute; reflexivity|]. split; [destruct exp_wf as (_ & W & _); inversion W; subst; constructor; [assumption|constructor]|].
  eexists. split; [vm_compute; reflexivity|]. split; [vm_compute; reflexivity|]. split; [reflexivity|vm_compute; reflexivity].
Qed.

(* the logical theorems: the tree of CreateTransportFacts (a directory, a file with an xattr, a symbolic link)
   through AES-256-CBC, every content written in two calls and read with buffers of 7, 16 and 1 bytes; the same
   jobs are appended to the archive they produced *)
Definition tx_arch : bytes := write_archive (map (build_job real_E_of tx_compress) tx_jobs).
Example append_logical_premises :
  exists es s, raw_entries rds tx_arch = Ok (es, FinOk, s) /\ r_buf s = [] /\
    xlogical real_E_of real_D_of tx_decompress tx_verify tx_pw tx_rb (fun _ => []) tx_arch = Ok (create_from_tree tx_c tx_order tx_tree) /\
    Forall2 carries tx_jobs (create_from_tree tx_c tx_order tx_tree) /\
    Forall (wf_job real_E_of tx_compress tx_verify tx_pw) tx_jobs /\
    Forall (fun e => e_kind e <= 3) (create_from_tree tx_c tx_order tx_tree) /\
    (forall j, In j tx_jobs -> reads_to_end real_E_of tx_compress tx_rb j) /\
    (forall c lvl ws, tx_decompress c (concat (tx_compress c lvl ws)) = Ok (concat ws)) /\
    (forall c lvl (ws ws' : list bytes), concat ws = concat ws' -> concat (tx_compress c lvl ws) = concat (tx_compress c lvl ws')).
Proof.
  destruct transport_premises as (P1 & P2 & P3 & P4 & _).
  eexists _, _. split; [vm_compute; reflexivity|]. split; [reflexivity|]. split; [vm_compute; reflexivity|].
  split; [exact P1|]. split; [exact P2|]. split; [repeat (apply Forall_cons; [vm_compute; discriminate|]); apply Forall_nil|]. split; [exact P3|]. split; [exact P4|].
  intros c lvl ws ws' H. exact H.
Qed.
