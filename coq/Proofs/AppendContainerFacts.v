(* AppendContainerFacts.v — C11 at the container (byte) level: `pna append` as the code does it
   (cli/src/command/append.rs: open the archive, for a multipart archive walk seek_to_end / read_next_archive
   to the last part, seek to its end marker, write the new entries over the old end marker, write a new
   end marker; the file is written in place and never truncated) on ANY file the reader accepts, not only
   on archives the writer of this crate produced:
     1. raw level      the file after the append reads back as old raw entries ++ new ones, every byte in
                       front of the old end marker is unchanged (append_container_raw);
     2. entry level    Archive::entries() gives the old entries followed by the new ones;
     3. logical level  decoded with the password and any draining read-buffer policy: logical b' =
                       logical b ++ the entries the jobs carry (solid blocks expanded);
     4. multipart      the walk to the last part; only that part file changes, the chain reads old ++ new;
     5. bridge         the logical view forgets to Update.archive: abs (after append) = Update.append (abs before) new,
                       so C11_append_spec / C11_append_cmd_spec / C11_history_invariant speak about archive files.
   A file may end with chunks of an entry that was never closed (no FEND / SEND before AEND): the reader keeps
   them in its buffer, and the first appended entry is then read glued behind them.  The theorems state this
   exactly (`glue`), the corollaries take the premise `r_buf = []`, which every written archive meets.
   stdlib only, no axioms. *)
From PNA Require Import Base Crc32 Name Codec Chunk Archive Entry Flatten Cbc Ctr Pipeline Aes Camellia
  BaseFacts NameFacts CodecFacts Crc32Facts ChunkFacts ArchiveFacts EntryFacts OffsetFacts PartsFacts
  CbcFacts PipelineFacts AesFacts CamelliaFacts.
From PNA Require Import Fs Extract CreateTransportFacts.
From PNA Require Update UpdateFacts ArchiveRun.
Require Import ZArith ZifyN ZifyNat ZifyBool.
Open Scope N_scope.

(* ================================================================================================= *)
(* 0. the operation                                                                                    *)
(* ================================================================================================= *)
(* append.rs on one file: read_header, seek_to_end, add_entry of every new entry, finalize; written in place *)
Definition append_at (b : bytes) (news : list (list chunk)) : res (bytes * bool) :=
  do (_, r) <- read_header rds b;
  do (off, nxt) <- seek_loop (S (length r)) r 0 false;
  Ok (ArchiveRun.overwrite b (28 + N.to_nat off) (concat (map (fun e => fst (add_chunks e)) news) ++ finalize), nxt).

(* it is ArchiveRun.append_raw (the definition run against Archive::seek_to_end / add_entry / finalize by the
   `append` correspondence cases) with the new entries given directly instead of through a donor archive *)
Lemma append_raw_is_append_at base donor news st : raw_entries rds donor = Ok (news, FinOk, st) ->
  ArchiveRun.append_raw base donor = append_at base news.
Proof.
  intros H. unfold ArchiveRun.append_raw, append_at.
  destruct (read_header rds base) as [[h r]| |]; cbn [bind]; try reflexivity.
  destruct (seek_loop (S (length r)) r 0 false) as [[off nxt]| |]; cbn [bind]; try reflexivity.
  rewrite H. reflexivity.
Qed.

(* ANXT chunks set the reader's flag and are not part of any entry *)
Definition strip (cs : list chunk) : list chunk := filter (fun c => negb (ty_is c ANXT)) cs.

(* what the reader makes of new entries written behind an open (never closed) entry `buf` *)
Definition glue (buf : list chunk) (news : list (list chunk)) : list (list chunk) :=
  match news with [] => [] | n :: ns => (buf ++ n) :: ns end.
Definition left_open (buf : list chunk) (news : list (list chunk)) : list chunk :=
  match news with [] => buf | _ => [] end.

Lemma glue_nil news : glue [] news = news.
Proof. destruct news; reflexivity. Qed.
Lemma left_open_nil news : left_open [] news = [].
Proof. destruct news; reflexivity. Qed.

Lemma strip_app a b : strip (a ++ b) = strip a ++ strip b.
Proof. apply filter_app. Qed.

Lemma strip_id cs : has_anxt cs = false -> strip cs = cs.
Proof.
  induction cs as [|c cs IH]; [reflexivity|]. cbn [has_anxt existsb strip filter]. intros H.
  apply orb_false_iff in H. destruct H as [H1 H2]. rewrite H1. cbn [negb]. f_equal. apply IH. exact H2.
Qed.

Lemma scan_new buf news : Forall wf_entry news -> scan buf (concat news) = (glue buf news, left_open buf news).
Proof.
  intros H. destruct H as [|n ns Hn Hns]; [reflexivity|]. cbn [concat glue left_open].
  rewrite scan_entry by exact Hn. rewrite scan_entries by exact Hns. reflexivity.
Qed.

(* ================================================================================================= *)
(* 1. the reader on ANY run of chunks up to the first AEND                                             *)
(* ================================================================================================= *)
Lemma anxt_item_gen c R buf nxt h : wf_chunk c -> ty_is c ANXT = true ->
  next_raw_item rds (st (ser_chunk c ++ R) buf nxt h) = next_raw_item rds (st R buf true h).
Proof.
  intros Hc Ht. unfold next_raw_item, st. cbn [r_rest r_buf r_next r_hdr next_item_loop].
  rewrite read_chunk_ser by exact Hc. cbn [bind].
  rewrite (ty_eq_neq c ANXT FEND Ht), (ty_eq_neq c ANXT SEND Ht), Ht by reflexivity. cbn [orb].
  rewrite (next_item_loop_fuel rds read_chunk_shorter read_chunk_no_panic _ (S (length R))); [reflexivity| |lia].
  rewrite app_length. pose proof (ser_chunk_length_ge c). lia.
Qed.

Lemma aend_item_gen a R buf nxt h : wf_chunk a -> ty_is a AEND = true ->
  next_raw_item rds (st (ser_chunk a ++ R) buf nxt h) = Ok (None, st R buf nxt h).
Proof.
  intros Hc Ht. unfold next_raw_item, st. cbn [r_rest r_buf r_next r_hdr next_item_loop].
  rewrite read_chunk_ser by exact Hc. cbn [bind].
  rewrite (ty_eq_neq a AEND FEND Ht), (ty_eq_neq a AEND SEND Ht), (ty_eq_neq a AEND ANXT Ht), Ht by reflexivity.
  reflexivity.
Qed.

(* chunks cs (none of them AEND), an AEND chunk, anything: the iteration ends Ok, the entries are the chunks other
   than ANXT cut behind every FEND / SEND, the open entry stays in the buffer, the flag records an ANXT *)
Lemma loop_gen a junk h : wf_chunk a -> ty_is a AEND = true ->
  forall cs buf nxt fuel, Forall wf_chunk cs -> Forall (fun c => ty_is c AEND = false) cs ->
  (length (ser_chunks cs ++ ser_chunk a ++ junk) < fuel)%nat ->
  raw_entries_loop rds fuel (st (ser_chunks cs ++ ser_chunk a ++ junk) buf nxt h) =
  (fst (scan buf (strip cs)), FinOk, st junk (snd (scan buf (strip cs))) (nxt || has_anxt cs) h).
Proof.
  intros Ha Hta. induction cs as [|c cs IH]; intros buf nxt fuel Hw Hn Hf.
  - rewrite ser_chunks_nil in *. cbn [app] in *. destruct fuel as [|fuel]; [lia|]. cbn [raw_entries_loop].
    rewrite aend_item_gen by assumption. cbn [strip filter scan fst snd has_anxt existsb]. rewrite orb_false_r. reflexivity.
  - inversion Hw as [|? ? Hwc Hw']; subst. inversion Hn as [|? ? Hnc Hn']; subst.
    rewrite ser_chunks_cons, <- app_assoc in *. rewrite app_length in Hf.
    pose proof (ser_chunk_length_ge c) as Lc. cbn [has_anxt existsb strip filter]. fold (has_anxt cs). fold (strip cs).
    destruct (ty_is c ANXT) eqn:Ex; cbn [negb].
    + apply (loop_transfer_ok _ _ _ _ _ (anxt_item_gen c _ buf nxt h Hwc Ex)).
      rewrite IH by (try assumption; lia). cbn [orb]. rewrite orb_true_r. reflexivity.
    + cbn [orb]. destruct (is_end c) eqn:He.
      * destruct fuel as [|fuel]; [lia|]. cbn [raw_entries_loop]. rewrite end_chunk_item by assumption.
        rewrite IH by (try assumption; lia). rewrite scan_end by exact He. reflexivity.
      * apply (loop_transfer_ok _ _ _ _ _ (absorb_chunk c _ buf nxt h Hwc (clean_not_term c (conj Ex Hnc) He))).
        rewrite IH by (try assumption; lia). rewrite scan_plain by exact He. reflexivity.
Qed.

(* ---- the shape of a file ---------------------------------------------------------------------------- *)
Definition hdr_ok (hc : chunk) (h : ahed) : Prop :=
  wf_chunk hc /\ ty_is hc AHED = true /\ ahed_of_bytes (cdata hc) = Ok h.
(* chunks up to the first AEND, the AEND chunk, whatever follows it *)
Definition run_ok (cs : list chunk) (a : chunk) : Prop :=
  Forall wf_chunk cs /\ Forall (fun c => ty_is c AEND = false) cs /\ wf_chunk a /\ ty_is a AEND = true.

Lemma read_header_hdr hc h r : hdr_ok hc h -> read_header rds (sig ++ ser_chunk hc ++ r) = Ok (h, r).
Proof.
  intros (Hc & Ht & Hh). unfold read_header. rewrite read_sig_app. cbn [bind].
  rewrite read_chunk_ser by exact Hc. cbn [bind]. rewrite Ht. cbn [negb]. rewrite Hh. reflexivity.
Qed.

Lemma hdr_len hc h : hdr_ok hc h -> length (sig ++ ser_chunk hc) = 28%nat.
Proof.
  intros (Hc & _ & Hh). rewrite app_length, ser_chunk_length by apply Hc. apply ahed_of_bytes_len in Hh.
  rewrite Hh. reflexivity.
Qed.

Lemma read_header_shape b h r : read_header rds b = Ok (h, r) ->
  exists hc, b = sig ++ ser_chunk hc ++ r /\ hdr_ok hc h.
Proof.
  intros H. apply read_header_ok_inv in H. destruct H as (c & E & Hc & Ht & Hh & _).
  exists c. split; [exact E|]. split; [exact Hc|]. split; assumption.
Qed.

Lemma seek_run cs a tail : run_ok cs a ->
  seek_loop (S (length (ser_chunks cs ++ ser_chunk a ++ tail))) (ser_chunks cs ++ ser_chunk a ++ tail) 0 false =
  Ok (len (ser_chunks cs), has_anxt cs).
Proof.
  intros (Hw & Hn & Ha & Hta). rewrite seek_loop_run; try assumption.
  - rewrite ser_chunks_len by (apply Forall_wf_ty4; exact Hw). cbn [orb]. f_equal; f_equal; lia.
  - apply wf_chunk_ty4. exact Ha.
  - pose proof (chunks_le_bytes cs). rewrite app_length. lia.
Qed.

(* the state-level reading of a run, with the fuel raw_entries / read_parts_loop supply *)
Lemma run_read cs a tail buf nxt h fuel : run_ok cs a -> (length (ser_chunks cs ++ ser_chunk a ++ tail) < fuel)%nat ->
  raw_entries_loop rds fuel (st (ser_chunks cs ++ ser_chunk a ++ tail) buf nxt h) =
  (fst (scan buf (strip cs)), FinOk, st tail (snd (scan buf (strip cs))) (nxt || has_anxt cs) h).
Proof. intros (Hw & Hn & Ha & Hta) Hf. apply loop_gen; assumption. Qed.

(* every state from which the iteration ends Ok stands in front of such a run *)
Lemma loop_ok_run fuel s es s' : raw_entries_loop rds fuel s = (es, FinOk, s') -> (length (r_rest s) < fuel)%nat ->
  exists cs a, r_rest s = ser_chunks cs ++ ser_chunk a ++ r_rest s' /\ run_ok cs a /\
    es = fst (scan (r_buf s) (strip cs)) /\ r_buf s' = snd (scan (r_buf s) (strip cs)) /\
    r_next s' = r_next s || has_anxt cs /\ r_hdr s' = r_hdr s.
Proof.
  intros H Hf. destruct (raw_loop_ok_inv _ _ _ _ H) as (cs & a & Er & Hw & Hwa & Hn & Hta & _).
  exists cs, a. split; [exact Er|]. assert (R : run_ok cs a) by exact (conj Hw (conj Hn (conj Hwa Hta))). split; [exact R|].
  rewrite (st_eta s), Er in H. rewrite run_read in H by (try exact R; rewrite <- Er; exact Hf).
  injection H as <- <-. cbn [st r_buf r_next r_hdr]. repeat split.
Qed.

(* ---- whole files ------------------------------------------------------------------------------------------ *)
Definition file_of (hc : chunk) (cs : list chunk) (a : chunk) (tail : bytes) : bytes :=
  sig ++ ser_chunk hc ++ ser_chunks cs ++ ser_chunk a ++ tail.

Lemma file_read hc h cs a tail : hdr_ok hc h -> run_ok cs a ->
  raw_entries rds (file_of hc cs a tail) =
  Ok (fst (scan [] (strip cs)), FinOk, st tail (snd (scan [] (strip cs))) (has_anxt cs) h).
Proof.
  intros Hh Hr. unfold raw_entries, open_archive, file_of. rewrite (read_header_hdr hc h) by exact Hh. cbn [bind].
  fold (st (ser_chunks cs ++ ser_chunk a ++ tail) [] false h). rewrite run_read; [reflexivity|exact Hr|].
  rewrite !app_length. lia.
Qed.

(* `raw_entries_ok_shape`: for ALL inputs, an iteration that ends Ok has read exactly this *)
Theorem raw_entries_ok_shape b es s : raw_entries rds b = Ok (es, FinOk, s) ->
  exists hc cs a, b = file_of hc cs a (r_rest s) /\ hdr_ok hc (r_hdr s) /\ run_ok cs a /\
    es = fst (scan [] (strip cs)) /\ r_buf s = snd (scan [] (strip cs)) /\ r_next s = has_anxt cs.
Proof.
  unfold raw_entries, open_archive. destruct (read_header rds b) as [[h r]| |] eqn:E; cbn [bind]; try discriminate.
  assert (Hfuel : (length b < S (length b))%nat) by lia. revert Hfuel. generalize (S (length b)) as fuel.
  intros fuel Hfuel [= H]. apply read_header_shape in E. destruct E as (hc & Eb & Hh).
  apply loop_ok_run in H; [|cbn [r_rest]; rewrite Eb, !app_length in Hfuel; lia].
  cbn [r_rest r_buf r_next r_hdr] in H. destruct H as (cs & a & Er & R & -> & Eb' & En & Ehd).
  exists hc, cs, a. unfold file_of. rewrite <- Er, Ehd. repeat split; try assumption; apply R || apply Hh.
Qed.

(* ================================================================================================= *)
(* 2. the in-place append on one file                                                                  *)
(* ================================================================================================= *)
Lemma ser_entries_add news : concat (map (fun e => fst (add_chunks e)) news) = ser_chunks (concat news).
Proof. change (ser_entries news = ser_chunks (concat news)). apply ser_entries_concat. Qed.

Lemma finalize_len : length finalize = 12%nat.
Proof. vm_compute. reflexivity. Qed.

Lemma run_ok_aend_len a : wf_chunk a -> (12 <= length (ser_chunk a))%nat.
Proof. intros Ha. rewrite ser_chunk_length by apply Ha. lia. Qed.

(* the bytes: everything up to the old AEND, the new entries, a fresh AEND, and what the old file had beyond *)
Lemma overwrite_file hc h cs a tail news : hdr_ok hc h -> run_ok cs a ->
  let b := file_of hc cs a tail in
  let pos := (28 + N.to_nat (len (ser_chunks cs)))%nat in
  let w := concat (map (fun e => fst (add_chunks e)) news) ++ finalize in
  ArchiveRun.overwrite b pos w =
    file_of hc (cs ++ concat news) (mk AEND []) (skipn (pos + length w) b) /\
  firstn pos b = sig ++ ser_chunk hc ++ ser_chunks cs /\
  skipn pos b = ser_chunk a ++ tail /\ (pos + 12 <= length b)%nat.
Proof.
  intros Hh Hr. cbv zeta. pose proof (hdr_len hc h Hh) as L.
  assert (P : (28 + N.to_nat (len (ser_chunks cs)))%nat = length ((sig ++ ser_chunk hc) ++ ser_chunks cs)).
  { rewrite app_length, L, len_nat. reflexivity. }
  assert (Eb : file_of hc cs a tail = ((sig ++ ser_chunk hc) ++ ser_chunks cs) ++ ser_chunk a ++ tail).
  { unfold file_of. rewrite <- !app_assoc. reflexivity. }
  assert (F : firstn (28 + N.to_nat (len (ser_chunks cs))) (file_of hc cs a tail) = sig ++ ser_chunk hc ++ ser_chunks cs).
  { rewrite P, Eb, firstn_app_l, firstn_all by apply Nat.le_refl. rewrite <- !app_assoc. reflexivity. }
  split; [|split; [exact F|split]].
  - unfold ArchiveRun.overwrite. rewrite F. unfold file_of at 2.
    rewrite ser_entries_add, ser_chunks_app, <- !app_assoc. reflexivity.
  - rewrite P, Eb. apply skipn_app_exact. reflexivity.
  - rewrite Eb, P, (app_length (_ ++ _) (ser_chunk a ++ tail)), (app_length (ser_chunk a)).
    destruct Hr as (_ & _ & Ha & _). pose proof (run_ok_aend_len a Ha). lia.
Qed.

Lemma run_ok_append cs a news : run_ok cs a -> Forall wf_entry news -> run_ok (cs ++ concat news) (mk AEND []).
Proof.
  intros (Hw & Hn & _ & _) Hnews. destruct (wf_entries_chunks news Hnews) as [W N'].
  split; [apply Forall_app; split; assumption|]. split; [apply Forall_app; split; assumption|].
  split; [exact wf_chunk_aend|reflexivity].
Qed.

Lemma scan_append buf cs news : Forall wf_entry news ->
  scan buf (strip (cs ++ concat news)) =
  (fst (scan buf (strip cs)) ++ glue (snd (scan buf (strip cs))) news, left_open (snd (scan buf (strip cs))) news).
Proof.
  intros Hnews. rewrite strip_app, (strip_id (concat news)) by (apply wf_entries_no_anxt; exact Hnews).
  rewrite scan_app, scan_new by exact Hnews. reflexivity.
Qed.

Lemma has_anxt_append cs news : Forall wf_entry news -> has_anxt (cs ++ concat news) = has_anxt cs.
Proof. intros H. rewrite has_anxt_app, (wf_entries_no_anxt news H), orb_false_r. reflexivity. Qed.

(* `append_container`: b is ANY file whose raw entries read to the end marker; news any entries as add_entry
   writes them.  The position seek_to_end finds is the start of the (first) AEND chunk; the file after the
   append agrees with the old one on every byte in front of it and reads back as old ++ new *)
Theorem append_container_raw b es s news :
  raw_entries rds b = Ok (es, FinOk, s) -> Forall wf_entry news ->
  exists r off a tail,
    read_header rds b = Ok (r_hdr s, r) /\ seek_loop (S (length r)) r 0 false = Ok (off, r_next s) /\
    let pos := (28 + N.to_nat off)%nat in
    let b' := ArchiveRun.overwrite b pos (concat (map (fun e => fst (add_chunks e)) news) ++ finalize) in
    skipn pos b = ser_chunk a ++ tail /\ wf_chunk a /\ ty_is a AEND = true /\ (pos + 12 <= length b)%nat /\
    append_at b news = Ok (b', r_next s) /\
    firstn pos b' = firstn pos b /\
    exists s', raw_entries rds b' = Ok (es ++ glue (r_buf s) news, FinOk, s') /\
               r_buf s' = left_open (r_buf s) news /\ r_next s' = r_next s /\ r_hdr s' = r_hdr s.
Proof.
  intros H Hnews. destruct (raw_entries_ok_shape b es s H) as (hc & cs & a & Eb & Hh & Hr & Ees & Ebuf & Enx).
  set (tail := r_rest s) in *. set (h := r_hdr s) in *.
  exists (ser_chunks cs ++ ser_chunk a ++ tail), (len (ser_chunks cs)), a, tail.
  assert (RH : read_header rds b = Ok (h, ser_chunks cs ++ ser_chunk a ++ tail)).
  { rewrite Eb. unfold file_of. apply read_header_hdr. exact Hh. }
  assert (SK := seek_run cs a tail Hr). rewrite <- Enx in SK.
  split; [exact RH|]. split; [exact SK|]. cbv zeta.
  destruct (overwrite_file hc h cs a tail news Hh Hr) as (OW & F & SKP & LE). cbv zeta in OW, F, SKP, LE. rewrite <- Eb in *.
  split; [exact SKP|]. split; [apply Hr|]. split; [apply Hr|]. split; [exact LE|].
  split; [unfold append_at; rewrite RH; cbn [bind]; rewrite SK; reflexivity|].
  split.
  - unfold ArchiveRun.overwrite. rewrite firstn_app_l by (rewrite firstn_length; lia).
    apply firstn_all2. rewrite firstn_length. lia.
  - rewrite OW. rewrite (file_read hc h) by (try exact Hh; apply (run_ok_append cs a); assumption).
    rewrite scan_append by exact Hnews. cbn [fst snd]. rewrite <- Ees, <- Ebuf, has_anxt_append by exact Hnews.
    eexists. split; [reflexivity|]. cbn [st r_buf r_next r_hdr]. split; [reflexivity|]. split; [symmetry; exact Enx|reflexivity].
Qed.

(* the statement for files without an open entry (r_buf = []: every written archive), both readers; what is
   established for b holds again for b', so appends can be iterated *)
Theorem append_container b es s news :
  raw_entries rds b = Ok (es, FinOk, s) -> r_buf s = [] -> Forall wf_entry news ->
  exists b' pos a tail s',
    append_at b news = Ok (b', r_next s) /\
    skipn pos b = ser_chunk a ++ tail /\ ty_is a AEND = true /\ (pos + 12 <= length b)%nat /\
    firstn pos b' = firstn pos b /\
    raw_entries rds b' = Ok (es ++ news, FinOk, s') /\
    raw_entries read_chunk_slice b' = Ok (es ++ news, FinOk, s') /\
    r_buf s' = [] /\ r_next s' = r_next s /\ r_hdr s' = r_hdr s.
Proof.
  intros H Hb Hnews. destruct (append_container_raw b es s news H Hnews)
    as (r & off & a & tail & RH & SK & SKP & Ha & Hta & LE & AP & F & s' & R' & B' & N' & H').
  cbv zeta in *. rewrite Hb, glue_nil in R'. rewrite Hb, left_open_nil in B'.
  eexists _, _, a, tail, s'. split; [exact AP|]. split; [exact SKP|]. split; [exact Hta|]. split; [exact LE|].
  split; [exact F|]. split; [exact R'|]. split; [rewrite (proj1 (stream_slice_agree _)); exact R'|].
  split; [exact B'|]. split; assumption.
Qed.

(* ================================================================================================= *)
(* 3. entry level: Archive::entries()                                                                  *)
(* ================================================================================================= *)
Lemma parse_all_app es news xs : parse_all es = (xs, FinOk) ->
  parse_all (es ++ news) = (xs ++ fst (parse_all news), snd (parse_all news)).
Proof.
  revert xs. induction es as [|e es IH]; intros xs H; cbn [parse_all app] in *.
  - injection H as <-. destruct (parse_all news). reflexivity.
  - destruct (parse_entry e) as [p| |]; try discriminate H.
    destruct (parse_all es) as [ps f] eqn:E. injection H as <- ->. rewrite (IH ps eq_refl). reflexivity.
Qed.

Lemma entries_ok_inv rd b xs : entries rd b = Ok (xs, FinOk) ->
  exists es s, raw_entries rd b = Ok (es, FinOk, s) /\ parse_all es = (xs, FinOk).
Proof.
  unfold entries. destruct (raw_entries rd b) as [[[es f] s]| |]; cbn [bind]; try discriminate.
  destruct (parse_all es) as [ps pe] eqn:E. intros [= <- H]. destruct pe; try discriminate H. subst f.
  exists es, s. split; [reflexivity|exact E].
Qed.

Lemma entries_of_raw rd b es s xs : raw_entries rd b = Ok (es, FinOk, s) -> parse_all es = (xs, FinOk) ->
  entries rd b = Ok (xs, FinOk).
Proof. intros H P. unfold entries. rewrite H. cbn [bind]. rewrite P. reflexivity. Qed.

(* entries() of the file after the append: the old entries, then the new ones *)
Theorem append_container_entries b es s xs news ys :
  raw_entries rds b = Ok (es, FinOk, s) -> r_buf s = [] -> entries rds b = Ok (xs, FinOk) ->
  Forall wf_entry news -> parse_all news = (ys, FinOk) ->
  exists b' s', append_at b news = Ok (b', r_next s) /\
    entries rds b' = Ok (xs ++ ys, FinOk) /\ entries read_chunk_slice b' = Ok (xs ++ ys, FinOk) /\
    raw_entries rds b' = Ok (es ++ news, FinOk, s') /\ r_buf s' = [] /\ r_next s' = r_next s.
Proof.
  intros H Hb He Hnews Hp.
  destruct (entries_ok_inv _ _ _ He) as (es0 & s0 & H0 & P0). rewrite H in H0. injection H0 as <- <-.
  destruct (append_container b es s news H Hb Hnews) as (b' & pos & a & tail & s' & AP & _ & _ & _ & _ & R & R2 & B' & N' & _).
  assert (P : parse_all (es ++ news) = (xs ++ ys, FinOk)) by (rewrite (parse_all_app es news xs P0), Hp; reflexivity).
  exists b', s'. split; [exact AP|]. split; [exact (entries_of_raw _ _ _ _ _ R P)|].
  split; [exact (entries_of_raw _ _ _ _ _ R2 P)|]. split; [exact R|]. split; assumption.
Qed.

(* ================================================================================================= *)
(* 4. logical level: decoded entries (CreateTransportFacts.xentry: name, kind, data, mode, mtime, xattrs)  *)
(* ================================================================================================= *)
Section Logical.
Variables E D : encryption -> bytes -> bytes -> bytes.
Variable compress : compression -> N -> list bytes -> list bytes.
Variable decompress : compression -> bytes -> res bytes.
Variable verify : bytes -> bytes -> res bytes.
Hypothesis D_len : forall a k c, len16 c -> len16 (D a k c).
Hypothesis DE : forall a k b, len16 b -> D a k (E a k b) = b.
Hypothesis E_len : forall a k b, len16 b -> len16 (E a k b).
Hypothesis compress_law : forall c lvl ws, decompress c (concat (compress c lvl ws)) = Ok (concat ws).
Hypothesis compress_det : forall c lvl (ws ws' : list bytes), concat ws = concat ws' ->
  concat (compress c lvl ws) = concat (compress c lvl ws').

Notation build_job := (build_job E compress).
Notation wf_job := (wf_job E compress verify).
Notation read_entries_x := (read_entries_x E D decompress verify).
Notation reads_to_end := (reads_to_end E compress).

(* the logical content of one item of entries(): a normal entry decodes to one logical entry, a solid entry
   (SolidEntry::entries, read with the buffer sizes `srb` chooses for it) to its inner entries in order *)
Definition x_item (pw : bytes) (rb : normal_entry -> list N) (srb : solid_entry -> list N) (r : read_entry)
  : res (list xentry) :=
  match r with
  | RNormal n => read_entries_x pw rb [n]
  | RSolid s =>
    do (ns, f) <- decode_solid E D decompress verify s pw (srb s);
    match f with FinOk => read_entries_x pw rb ns | FinErr k => Err k | FinPanic => Panic end
  end.
Fixpoint x_items (pw : bytes) (rb : normal_entry -> list N) (srb : solid_entry -> list N) (rs : list read_entry)
  : res (list xentry) :=
  match rs with
  | [] => Ok []
  | r :: t => do a <- x_item pw rb srb r; do b <- x_items pw rb srb t; Ok (a ++ b)
  end.
(* the logical view of an archive file: entries() to the end marker, every item decoded *)
Definition xlogical (pw : bytes) (rb : normal_entry -> list N) (srb : solid_entry -> list N) (b : bytes)
  : res (list xentry) :=
  do rs <- read_archive b; x_items pw rb srb rs.

Lemma x_items_app pw rb srb a b xa xb : x_items pw rb srb a = Ok xa -> x_items pw rb srb b = Ok xb ->
  x_items pw rb srb (a ++ b) = Ok (xa ++ xb).
Proof.
  revert xa. induction a as [|r a IH]; intros xa Ha Hb; cbn [x_items app] in *.
  - injection Ha as <-. exact Hb.
  - destruct (x_item pw rb srb r) as [x| |]; cbn [bind] in *; try discriminate Ha.
    destruct (x_items pw rb srb a) as [y| |]; cbn [bind] in *; try discriminate Ha. injection Ha as <-.
    rewrite (IH y eq_refl Hb). cbn [bind]. rewrite app_assoc. reflexivity.
Qed.

Lemma x_items_normals pw rb srb ns xs : read_entries_x pw rb ns = Ok xs ->
  x_items pw rb srb (map RNormal ns) = Ok xs.
Proof.
  revert xs. induction ns as [|n ns IH]; intros xs H; cbn [map x_items x_item CreateTransportFacts.read_entries_x] in *.
  - exact H.
  - destruct (read_entry_x E D decompress verify pw rb n) as [x| |]; cbn [bind] in *; try discriminate H.
    destruct (read_entries_x pw rb ns) as [y| |]; cbn [bind] in *; try discriminate H. injection H as <-.
    rewrite (IH y eq_refl). reflexivity.
Qed.

Lemma read_archive_ok b rs : read_archive b = Ok rs <-> entries rds b = Ok (rs, FinOk).
Proof.
  unfold read_archive. destruct (entries rds b) as [[xs f]| |]; cbn [bind]; split; intros H; try discriminate H.
  - destruct f; try discriminate H. injection H as ->. reflexivity.
  - injection H as -> ->. reflexivity.
Qed.

(* the new entries as the pipeline builds them and add_entry writes them *)
Definition new_raws (jobs : list job) : list (list chunk) := map ser_normal (map build_job jobs).

Lemma new_raws_wf pw jobs : Forall (wf_job pw) jobs -> Forall wf_entry (new_raws jobs).
Proof.
  intros H. unfold new_raws. apply Forall_forall. intros cs Hcs. apply in_map_iff in Hcs. destruct Hcs as (e & <- & He).
  apply in_map_iff in He. destruct He as (j & <- & Hj). rewrite Forall_forall in H. destruct (H j Hj) as (Hs & Hc & Hw & Hf).
  apply (ser_normal_wf_entry compress decompress compress_law compress_det); [|exact Hf].
  apply (build_wf_normal E compress verify _ _ pw); assumption.
Qed.

Lemma new_raws_parse pw jobs : Forall (wf_job pw) jobs ->
  parse_all (new_raws jobs) = (map RNormal (map build_job jobs), FinOk).
Proof.
  intros H. unfold new_raws. rewrite parse_all_ser.
  - f_equal. rewrite <- map_map with (g := RNormal). f_equal. rewrite !map_map. apply map_ext_in. intros j Hj.
    rewrite Forall_forall in H. destruct (H j Hj) as (_ & Hc & _).
    apply (normalize_build E D compress verify D_len DE E_len _ _ pw). exact Hc.
  - apply Forall_forall. intros e He. apply in_map_iff in He. destruct He as (j & <- & Hj).
    rewrite Forall_forall in H. destruct (H j Hj) as (Hs & Hc & Hw & _). apply (build_wf_normal E compress verify _ _ pw); assumption.
Qed.

(* `append_container_logical`: the old file decodes (password pw, buffer policies rb / srb) to `old`; the jobs
   carry the logical entries `new`; every read drains its entry.  The file after the append decodes to old ++ new:
   nothing lost, nothing duplicated, order kept, and every new entry has the name, kind, bytes, mode, mtime and
   xattrs of what it was built from — for every codec / cipher configuration of the jobs *)
Theorem append_container_logical pw rb srb b es s old jobs new :
  raw_entries rds b = Ok (es, FinOk, s) -> r_buf s = [] -> xlogical pw rb srb b = Ok old ->
  Forall2 carries jobs new -> Forall (wf_job pw) jobs -> Forall (fun e => e_kind e <= 3) new ->
  (forall j, In j jobs -> reads_to_end rb j) ->
  exists b' s' xs, append_at b (new_raws jobs) = Ok (b', r_next s) /\
    xlogical pw rb srb b' = Ok (old ++ new) /\
    entries rds b = Ok (xs, FinOk) /\ entries rds b' = Ok (xs ++ map RNormal (map build_job jobs), FinOk) /\
    raw_entries rds b' = Ok (es ++ new_raws jobs, FinOk, s') /\ r_buf s' = [] /\ r_next s' = r_next s.
Proof.
  intros H Hb Hold Hc Hw Hk Hr. unfold xlogical in Hold.
  destruct (read_archive b) as [xs| |] eqn:RA; cbn [bind] in Hold; try discriminate Hold. apply read_archive_ok in RA.
  destruct (append_container_entries b es s xs (new_raws jobs) _ H Hb RA (new_raws_wf pw jobs Hw) (new_raws_parse pw jobs Hw))
    as (b' & s' & AP & En & _ & R & B' & N').
  exists b', s', xs. split; [exact AP|]. split; [|split; [exact RA|split; [exact En|split; [exact R|split; assumption]]]].
  unfold xlogical. apply read_archive_ok in En. rewrite En. cbn [bind].
  apply x_items_app; [exact Hold|]. apply x_items_normals.
  apply (read_all_built E D compress decompress verify D_len DE E_len compress_law); assumption.
Qed.

(* ================================================================================================= *)
(* 5. the bridge to Model/Update.v                                                                      *)
(* ================================================================================================= *)
(* Update.entry keeps the four fields the commands of that area look at *)
Definition abs (x : xentry) : Update.entry :=
  Update.mkE (e_name x) (e_kind x) (e_data x) (e_mtime x).
(* the abstraction function: an archive FILE as an Update.archive *)
Definition logical (pw : bytes) (rb : normal_entry -> list N) (srb : solid_entry -> list N) (b : bytes)
  : res Update.archive :=
  do xs <- xlogical pw rb srb b; Ok (map abs xs).

(* abs (after append) = Update.append (abs before) (map abs new) *)
Theorem append_container_abs pw rb srb b es s a jobs new :
  raw_entries rds b = Ok (es, FinOk, s) -> r_buf s = [] -> logical pw rb srb b = Ok a ->
  Forall2 carries jobs new -> Forall (wf_job pw) jobs -> Forall (fun e => e_kind e <= 3) new ->
  (forall j, In j jobs -> reads_to_end rb j) ->
  exists b' s', append_at b (new_raws jobs) = Ok (b', r_next s) /\
    logical pw rb srb b' = Ok (Update.append a (map abs new)) /\
    raw_entries rds b' = Ok (es ++ new_raws jobs, FinOk, s') /\ r_buf s' = [] /\ r_next s' = r_next s.
Proof.
  intros H Hb Ha Hc Hw Hk Hr. unfold logical in Ha.
  destruct (xlogical pw rb srb b) as [old| |] eqn:XL; cbn [bind] in Ha; try discriminate Ha. injection Ha as <-.
  destruct (append_container_logical pw rb srb b es s old jobs new H Hb XL Hc Hw Hk Hr)
    as (b' & s' & xs & AP & XL' & _ & _ & R & B' & N').
  exists b', s'. split; [exact AP|]. split; [|split; [exact R|split; assumption]].
  unfold logical. rewrite XL'. cbn [bind]. unfold Update.append. rewrite map_app. reflexivity.
Qed.

(* the command: the jobs carry what create_entry builds for the walked nodes that collect_items keeps (since
   4cfc8ff5 one per entry name: Update.update_targets) *)
Definition carries_nodes (kd kt : bool) (walk : list Update.node) (new : list xentry) : Prop :=
  map abs new = map (Update.fresh kt) (Update.update_targets kd walk).

(* one OAppend step of a history of Model/Update.v, on the file: if the logical command succeeds, the in-place
   append turns a file that abstracts to `a` into a file that abstracts to the command's result *)
Theorem append_container_step pw rb srb b es s a kd kt walk a' jobs new :
  raw_entries rds b = Ok (es, FinOk, s) -> r_buf s = [] -> logical pw rb srb b = Ok a ->
  Update.step a (Update.OAppend kd kt walk) = Ok a' -> carries_nodes kd kt walk new ->
  Forall2 carries jobs new -> Forall (wf_job pw) jobs -> Forall (fun e => e_kind e <= 3) new ->
  (forall j, In j jobs -> reads_to_end rb j) ->
  exists b' s', append_at b (new_raws jobs) = Ok (b', r_next s) /\
    logical pw rb srb b' = Ok a' /\ a' = Update.after a (Update.OAppend kd kt walk) /\
    a' = a ++ map abs new /\
    raw_entries rds b' = Ok (es ++ new_raws jobs, FinOk, s') /\ r_buf s' = [] /\ r_next s' = r_next s.
Proof.
  intros H Hb Ha St Cn Hc Hw Hk Hr.
  destruct (append_container_abs pw rb srb b es s a jobs new H Hb Ha Hc Hw Hk Hr) as (b' & s' & AP & L & R & B' & N').
  assert (Ea : a' = a ++ map abs new).
  { cbn [Update.step] in St. rewrite (UpdateFacts.append_cmd_spec kd kt a walk a' St). rewrite Cn. reflexivity. }
  exists b', s'. split; [exact AP|]. split; [rewrite Ea; exact L|]. split; [unfold Update.after; rewrite St; reflexivity|].
  split; [exact Ea|]. split; [exact R|split; assumption].
Qed.

(* ... and with it the invariant of C11_history_invariant: appending names not yet archived to a FILE whose decoded
   entries have distinct names gives a FILE whose decoded entries have distinct names *)
Theorem append_container_history pw rb srb b es s a kd kt walk a' jobs new :
  raw_entries rds b = Ok (es, FinOk, s) -> r_buf s = [] -> logical pw rb srb b = Ok a ->
  Update.step a (Update.OAppend kd kt walk) = Ok a' -> carries_nodes kd kt walk new ->
  Forall2 carries jobs new -> Forall (wf_job pw) jobs -> Forall (fun e => e_kind e <= 3) new ->
  (forall j, In j jobs -> reads_to_end rb j) ->
  NoDup (Update.names a) -> UpdateFacts.hist_ok a [Update.OAppend kd kt walk] ->
  exists b' s', append_at b (new_raws jobs) = Ok (b', r_next s) /\
    logical pw rb srb b' = Ok (Update.final a [Update.OAppend kd kt walk]) /\
    NoDup (Update.names (Update.final a [Update.OAppend kd kt walk])) /\
    raw_entries rds b' = Ok (es ++ new_raws jobs, FinOk, s') /\ r_buf s' = [] /\ r_next s' = r_next s.
Proof.
  intros H Hb Ha St Cn Hc Hw Hk Hr ND HO.
  destruct (append_container_step pw rb srb b es s a kd kt walk a' jobs new H Hb Ha St Cn Hc Hw Hk Hr)
    as (b' & s' & AP & L & Ea & _ & R & B' & N').
  exists b', s'. split; [exact AP|]. cbn [Update.final fold_left]. rewrite <- Ea.
  split; [exact L|]. split; [|split; [exact R|split; assumption]].
  rewrite Ea. apply UpdateFacts.step_nodup; [exact ND|apply HO].
Qed.

End Logical.

(* ================================================================================================= *)
(* 6. multipart: the walk to the last part (append.rs:110-124)                                         *)
(* ================================================================================================= *)
(* seek_to_end; while the part announced a successor, open the next file with read_next_archive (number check)
   and seek again; the entries and the end marker go into the part at which the walk stops; no other file is
   opened for writing.  `h` = header of the current part, `r` = its bytes behind the header *)
Fixpoint append_walk (h : ahed) (cur r : bytes) (rest : list bytes) (news : list (list chunk)) : res (list bytes) :=
  do (off, nxt) <- seek_loop (S (length r)) r 0 false;
  if nxt then
    match rest with
    | [] => Err NotFound                                   (* File::open of the part that is not there *)
    | p :: ps =>
      do (h', r') <- read_header rds p;
      if N.ltb (a_number h + 1) (2 ^ 32) && N.eqb (a_number h + 1) (a_number h')
      then do out <- append_walk h' p r' ps news; Ok (cur :: out)
      else Err InvalidData
    end
  else Ok (ArchiveRun.overwrite cur (28 + N.to_nat off) (concat (map (fun e => fst (add_chunks e)) news) ++ finalize) :: rest).
Definition append_parts (parts : list bytes) (news : list (list chunk)) : res (list bytes) :=
  match parts with
  | [] => Err NotFound
  | p :: ps => do (h, r) <- read_header rds p; append_walk h p r ps news
  end.

(* on a single file it is append_at *)
Lemma append_parts_single b news : append_parts [b] news =
  do (b', nxt) <- append_at b news; if nxt then Err NotFound else Ok [b'].
Proof.
  unfold append_parts, append_at. destruct (read_header rds b) as [[h r]| |]; cbn [bind]; try reflexivity.
  cbn [append_walk]. destruct (seek_loop (S (length r)) r 0 false) as [[off nxt]| |]; cbn [bind]; try reflexivity;
  destruct nxt; reflexivity.
Qed.

(* read_parts_loop, also reporting the entry left open at the end (the reader's buffer) *)
Fixpoint rpl_b (s : rstate) (parts : list bytes) (cur_fuel : nat) : list (list chunk) * fin * list chunk :=
  let '(es, e, s') := raw_entries_loop rds cur_fuel s in
  match e with
  | FinOk =>
    if r_next s' then
      match parts with
      | [] => (es, FinErr NotFound, r_buf s')
      | p :: ps =>
        match read_next_archive rds s' p with
        | Ok s2 => let '(es2, e2, b2) := rpl_b s2 ps (fo p) in (es ++ es2, e2, b2)
        | Err k => (es, FinErr k, r_buf s')
        | Panic => (es, FinPanic, r_buf s')
        end
      end
    else (es, FinOk, r_buf s')
  | _ => (es, e, r_buf s')
  end.
Definition read_parts_b (parts : list bytes) : res (list (list chunk) * fin * list chunk) :=
  match parts with
  | [] => Err NotFound
  | p :: ps => do s <- open_archive rds [] p; Ok (rpl_b s ps (fo p))
  end.

Lemma rpl_b_fst : forall parts s cur, fst (rpl_b s parts cur) = read_parts_loop rds s fo parts cur.
Proof.
  induction parts as [|p ps IH]; intros s cur; cbn [rpl_b read_parts_loop];
    destruct (raw_entries_loop rds cur s) as [[es e] s']; destruct e; try reflexivity;
    destruct (r_next s'); try reflexivity.
  destruct (read_next_archive rds s' p) as [s2| |]; try reflexivity.
  rewrite <- IH. destruct (rpl_b s2 ps (fo p)) as [[es2 e2] b2]. reflexivity.
Qed.

(* read_parts is read_parts_b without the buffer *)
Lemma read_parts_b_fst parts x : read_parts_b parts = Ok x -> read_parts rds parts = Ok (fst x).
Proof.
  destruct parts as [|p ps]; cbn [read_parts_b read_parts]; [discriminate|].
  destruct (open_archive rds [] p) as [s| |]; cbn [bind]; try discriminate. intros [= <-]. rewrite rpl_b_fst. reflexivity.
Qed.
Lemma read_parts_has_b parts es f : read_parts rds parts = Ok (es, f) -> exists buf, read_parts_b parts = Ok (es, f, buf).
Proof.
  destruct parts as [|p ps]; cbn [read_parts_b read_parts]; [discriminate|].
  destruct (open_archive rds [] p) as [s| |]; cbn [bind]; try discriminate. intros [= H]. rewrite <- rpl_b_fst in H.
  destruct (rpl_b s ps (fo p)) as [[es' f'] buf]. cbn [fst] in H. injection H as -> ->. exists buf. reflexivity.
Qed.

(* the chain after the walk: the parts in front of the one written, that part, the parts behind it; the part
   written is changed from the start of its AEND chunk on, and nowhere else *)
Notation new_bytes news := (concat (map (fun e => fst (add_chunks e)) news) ++ finalize).
Definition one_part_rewritten (news : list (list chunk)) (parts out : list bytes) : Prop :=
  exists pre p post pos a tail,
    parts = pre ++ p :: post /\ out = pre ++ ArchiveRun.overwrite p pos (new_bytes news) :: post /\
    skipn pos p = ser_chunk a ++ tail /\ ty_is a AEND = true /\ (pos + 12 <= length p)%nat /\
    firstn pos (ArchiveRun.overwrite p pos (new_bytes news)) = firstn pos p.

Lemma overwrite_prefix b pos w : (pos <= length b)%nat -> firstn pos (ArchiveRun.overwrite b pos w) = firstn pos b.
Proof.
  intros H. unfold ArchiveRun.overwrite. rewrite firstn_app_l by (rewrite firstn_length; lia).
  apply firstn_all2. rewrite firstn_length. lia.
Qed.

Lemma rpl_b_last s parts cur es s' : raw_entries_loop rds cur s = (es, FinOk, s') -> r_next s' = false ->
  rpl_b s parts cur = (es, FinOk, r_buf s').
Proof. intros H Hn. destruct parts; cbn [rpl_b]; rewrite H, Hn; reflexivity. Qed.

Lemma rpl_b_next s p ps cur es s' s2 : raw_entries_loop rds cur s = (es, FinOk, s') -> r_next s' = true ->
  read_next_archive rds s' p = Ok s2 ->
  rpl_b s (p :: ps) cur = (es ++ fst (fst (rpl_b s2 ps (fo p))), snd (fst (rpl_b s2 ps (fo p))), snd (rpl_b s2 ps (fo p))).
Proof. intros H Hn H2. cbn [rpl_b]. rewrite H, Hn, H2. destruct (rpl_b s2 ps (S (length p))) as [[a b] c]. reflexivity. Qed.

Lemma next_hdr s hc h r : hdr_ok hc h ->
  (N.ltb (a_number (r_hdr s) + 1) (2 ^ 32) && N.eqb (a_number (r_hdr s) + 1) (a_number h)) = true ->
  read_next_archive rds s (sig ++ ser_chunk hc ++ r) = Ok (st r (r_buf s) false h).
Proof.
  intros Hh Hc. unfold read_next_archive, open_archive. rewrite (read_header_hdr hc h) by exact Hh. cbn [bind r_hdr].
  rewrite Hc. reflexivity.
Qed.

Lemma walk_ok news : Forall wf_entry news -> forall rest hc h r buf fuel es fbuf,
  hdr_ok hc h -> (length r < fuel)%nat ->
  rpl_b (st r buf false h) rest fuel = (es, FinOk, fbuf) ->
  exists out, append_walk h (sig ++ ser_chunk hc ++ r) r rest news = Ok out /\
    one_part_rewritten news ((sig ++ ser_chunk hc ++ r) :: rest) out /\
    exists r' tl, out = (sig ++ ser_chunk hc ++ r') :: tl /\
      forall fuel', (length r' < fuel')%nat ->
        rpl_b (st r' buf false h) tl fuel' = (es ++ glue fbuf news, FinOk, left_open fbuf news).
Proof.
  intros Hnews. induction rest as [|p ps IH]; intros hc h r buf fuel es fbuf Hh Hf H.
  all: destruct (raw_entries_loop rds fuel (st r buf false h)) as [[es0 e] s'] eqn:E0.
  all: assert (Ee : e = FinOk) by (cbn [rpl_b] in H; rewrite E0 in H; destruct e; try (injection H as _ H _; discriminate H); reflexivity).
  all: subst e; destruct (loop_ok_run _ _ _ _ E0 Hf) as (cs & a & Er & R & Ees & Ebuf & Enx & Ehd);
       cbn [st r_rest r_buf r_next r_hdr orb] in Er, Ees, Ebuf, Enx, Ehd; set (tail := r_rest s') in *.
  all: assert (SK := seek_run cs a tail R); rewrite <- Er in SK.
  all: destruct (has_anxt cs) eqn:Hx.
  - (* a successor is announced and there is no further file: the read did not end Ok *)
    cbn [rpl_b] in H. rewrite E0, Enx in H. discriminate H.
  - (* the only part left is the last one *)
    rewrite (rpl_b_last _ _ _ _ _ E0 Enx) in H. injection H as <- <-.
    cbn [append_walk]. rewrite SK. cbn [bind].
    destruct (overwrite_file hc h cs a tail news Hh R) as (OW & F & SKP & LE). cbv zeta in OW, F, SKP, LE.
    unfold file_of in OW at 1, F, SKP, LE. rewrite <- Er in OW, F, SKP, LE.
    eexists. split; [reflexivity|]. split.
    + exists [], (sig ++ ser_chunk hc ++ r), [], (28 + N.to_nat (len (ser_chunks cs)))%nat, a, tail.
      split; [reflexivity|]. split; [reflexivity|]. split; [exact SKP|]. split; [apply R|]. split; [exact LE|].
      apply overwrite_prefix. lia.
    + rewrite OW. unfold file_of. eexists _, []. split; [reflexivity|]. intros fuel' Hf'.
      pose proof (run_ok_append cs a news R Hnews) as R'.
      rewrite (rpl_b_last _ _ _ _ _ (run_read _ _ _ buf false h fuel' R' Hf')).
      * rewrite scan_append by exact Hnews. cbn [fst snd st r_buf]. rewrite <- Ees, <- Ebuf. reflexivity.
      * cbn [st r_next orb]. rewrite has_anxt_append by exact Hnews. exact Hx.
  - (* a successor is announced: the walk and the reader both go on to the next file *)
    cbn [rpl_b] in H. rewrite E0, Enx in H.
    destruct (read_next_archive rds s' p) as [s2| |] eqn:E2; try discriminate H.
    destruct (rpl_b s2 ps (fo p)) as [[es2 e2] b2] eqn:E3. injection H as <- -> ->.
    pose proof E2 as E2'. unfold read_next_archive, open_archive in E2.
    destruct (read_header rds p) as [[h2 r2]| |] eqn:E4; cbn [bind r_hdr] in E2; try discriminate E2.
    rewrite Ehd in E2.
    destruct (N.ltb (a_number h + 1) (2 ^ 32) && N.eqb (a_number h + 1) (a_number h2)) eqn:Ec; [|discriminate E2].
    injection E2 as <-. destruct (read_header_shape _ _ _ E4) as (hc2 & Ep & Hh2).
    fold (st r2 (r_buf s') false h2) in E3.
    destruct (IH hc2 h2 r2 (r_buf s') (fo p) es2 fbuf Hh2) as (out2 & AW2 & OPR2 & r2' & tl2 & Eout2 & RD2);
      [rewrite Ep, !app_length; lia|exact E3|].
    cbn [append_walk]. rewrite SK. cbn [bind]. rewrite E4. cbn [bind]. rewrite Ec.
    rewrite <- Ep in AW2, OPR2. rewrite AW2. cbn [bind]. eexists. split; [reflexivity|]. split.
    + destruct OPR2 as (pre & q & post & pos & a2 & tail2 & E1 & E2 & P3 & P4 & P5 & P6).
      exists ((sig ++ ser_chunk hc ++ r) :: pre), q, post, pos, a2, tail2. cbn [app]. rewrite <- E1, <- E2.
      split; [reflexivity|]. split; [reflexivity|]. split; [exact P3|]. split; [exact P4|]. split; [exact P5|exact P6].
    + exists r, out2. split; [reflexivity|]. intros fuel' Hf'. rewrite Eout2.
      assert (E0' : raw_entries_loop rds fuel' (st r buf false h) = (es0, FinOk, s')).
      { rewrite Er. rewrite run_read by (try exact R; rewrite <- Er; exact Hf').
        rewrite <- Ees, <- Ebuf, Hx. cbn [orb]. rewrite (st_eta s'), Ebuf, Enx, Ehd. reflexivity. }
      assert (NX : read_next_archive rds s' (sig ++ ser_chunk hc2 ++ r2') = Ok (st r2' (r_buf s') false h2)).
      { apply next_hdr; [exact Hh2|]. rewrite Ehd. exact Ec. }
      rewrite (rpl_b_next _ _ _ _ _ _ _ E0' Enx NX). rewrite RD2 by (rewrite !app_length; lia).
      cbn [fst snd]. rewrite app_assoc. reflexivity.
  - (* the reader stops here: so does the walk, whatever files follow *)
    rewrite (rpl_b_last _ _ _ _ _ E0 Enx) in H. injection H as <- <-.
    cbn [append_walk]. rewrite SK. cbn [bind].
    destruct (overwrite_file hc h cs a tail news Hh R) as (OW & F & SKP & LE). cbv zeta in OW, F, SKP, LE.
    unfold file_of in OW at 1, F, SKP, LE. rewrite <- Er in OW, F, SKP, LE.
    eexists. split; [reflexivity|]. split.
    + exists [], (sig ++ ser_chunk hc ++ r), (p :: ps), (28 + N.to_nat (len (ser_chunks cs)))%nat, a, tail.
      split; [reflexivity|]. split; [reflexivity|]. split; [exact SKP|]. split; [apply R|]. split; [exact LE|].
      apply overwrite_prefix. lia.
    + rewrite OW. unfold file_of. eexists _, (p :: ps). split; [reflexivity|]. intros fuel' Hf'.
      pose proof (run_ok_append cs a news R Hnews) as R'.
      rewrite (rpl_b_last _ _ _ _ _ (run_read _ _ _ buf false h fuel' R' Hf')).
      * rewrite scan_append by exact Hnews. cbn [fst snd st r_buf]. rewrite <- Ees, <- Ebuf. reflexivity.
      * cbn [st r_next orb]. rewrite has_anxt_append by exact Hnews. exact Hx.
Qed.

(* `append_multipart`: a chain of part files that reads to the end marker; the walk ends at the part at which the
   reader ends, only that file changes (from its AEND chunk on), and the chain then reads as old ++ new *)
Theorem append_multipart_raw parts es buf news :
  read_parts_b parts = Ok (es, FinOk, buf) -> Forall wf_entry news ->
  exists out, append_parts parts news = Ok out /\ one_part_rewritten news parts out /\
    read_parts_b out = Ok (es ++ glue buf news, FinOk, left_open buf news).
Proof.
  intros H Hnews. destruct parts as [|p ps]; [discriminate H|]. cbn [read_parts_b] in H. unfold open_archive in H.
  destruct (read_header rds p) as [[h r]| |] eqn:E; cbn [bind] in H; try discriminate H. injection H as H.
  destruct (read_header_shape _ _ _ E) as (hc & Ep & Hh). fold (st r [] false h) in H.
  destruct (walk_ok news Hnews ps hc h r [] (fo p) es buf Hh) as (out & AW & OPR & r' & tl & Eout & RD);
    [rewrite Ep, !app_length; lia|exact H|].
  exists out. split; [|split].
  - cbn [append_parts]. rewrite E. cbn [bind]. rewrite Ep at 1. exact AW.
  - rewrite Ep at 1. exact OPR.
  - rewrite Eout. cbn [read_parts_b]. unfold open_archive. rewrite (read_header_hdr hc h) by exact Hh. cbn [bind].
    fold (st r' [] false h). rewrite RD by (rewrite !app_length; lia). reflexivity.
Qed.

Theorem append_multipart parts es news :
  read_parts_b parts = Ok (es, FinOk, []) -> Forall wf_entry news ->
  exists out, append_parts parts news = Ok out /\ one_part_rewritten news parts out /\
    read_parts rds parts = Ok (es, FinOk) /\
    read_parts rds out = Ok (es ++ news, FinOk) /\ read_parts read_chunk_slice out = Ok (es ++ news, FinOk) /\
    read_parts_b out = Ok (es ++ news, FinOk, []).
Proof.
  intros H Hnews. destruct (append_multipart_raw parts es [] news H Hnews) as (out & AP & OPR & RD).
  rewrite glue_nil, left_open_nil in RD. exists out. split; [exact AP|]. split; [exact OPR|].
  split; [exact (read_parts_b_fst _ _ H)|]. split; [exact (read_parts_b_fst _ _ RD)|].
  split; [rewrite stream_slice_agree_parts; exact (read_parts_b_fst _ _ RD)|exact RD].
Qed.

(* ---- chains the split writer lays out (PartsFacts.chain: header k, entry chunks, ANXT + AEND except in the last
   part; cuts between chunks, entries may straddle parts) ------------------------------------------------------- *)
Lemma clean_no_anxt b : clean b -> has_anxt b = false.
Proof.
  induction 1 as [|c b [Hc _] _ IH]; [reflexivity|]. cbn [has_anxt existsb]. rewrite Hc. exact IH.
Qed.

Lemma body_run_last b : body_ok b -> run_ok b (mk AEND []).
Proof.
  intros [Hw Hc]. split; [exact Hw|]. split; [eapply Forall_impl; [|exact Hc]; intros c H; apply H|].
  split; [exact wf_chunk_aend|reflexivity].
Qed.

Lemma body_run_nl b : body_ok b -> run_ok (b ++ [mk ANXT []]) (mk AEND []) /\ has_anxt (b ++ [mk ANXT []]) = true.
Proof.
  intros [Hw Hc]. destruct marker_flags as (_ & _ & _ & _ & E2 & W). split.
  - split; [apply Forall_app; split; [exact Hw|constructor; [exact W|constructor]]|].
    split; [|split; [exact wf_chunk_aend|reflexivity]].
    apply Forall_app. split; [eapply Forall_impl; [|exact Hc]; intros c H; apply H|constructor; [reflexivity|constructor]].
  - rewrite has_anxt_app. cbn [has_anxt existsb]. rewrite E2, orb_true_r. reflexivity.
Qed.

Lemma hdr_ok_written num : num < 2 ^ 32 -> hdr_ok (hdr_chunk num) (mk_hdr num).
Proof.
  intros Hn. split; [apply wf_chunk_hdr|]. split; [reflexivity|].
  unfold hdr_chunk. cbn [mk cdata]. apply ahed_inv. unfold wf_ahed; cbn; repeat split; lia || exact Hn.
Qed.

Lemma part_bytes_file num b last :
  part_bytes num b last = sig ++ ser_chunk (hdr_chunk num) ++ ser_chunks (b ++ markers last).
Proof. unfold part_bytes. rewrite write_header_eq, <- app_assoc. reflexivity. Qed.

(* the walk over a written chain: the last body is extended, byte for byte the chain the writer lays out for it *)
Lemma walk_chain news : forall pre b n0, Forall body_ok (pre ++ [b]) -> n0 + len pre < 2 ^ 32 ->
  forall b0 bodies, b0 :: bodies = pre ++ [b] ->
  append_walk (mk_hdr n0) (part_bytes n0 b0 (is_nil bodies)) (ser_chunks (b0 ++ markers (is_nil bodies)))
              (chain (n0 + 1) bodies) news
  = Ok (chain n0 (pre ++ [b ++ concat news])).
Proof.
  induction pre as [|p pre IH]; intros b n0 Hb Hn b0 bodies E; cbn [app] in E; injection E as -> ->.
  - (* the last part *)
    inversion Hb as [|? ? Hb0 _]; subst. cbn [app chain is_nil markers append_walk].
    pose proof (body_run_last b Hb0) as R. rewrite ser_chunks_snoc.
    rewrite <- (app_nil_r (ser_chunk (mk AEND []))) at 1 2. rewrite (seek_run b (mk AEND []) [] R).
    rewrite (clean_no_anxt b (proj2 Hb0)). cbn [bind]. f_equal. f_equal.
    change (len []) with 0 in Hn. rewrite N.add_0_r in Hn.
    destruct (overwrite_file (hdr_chunk n0) (mk_hdr n0) b (mk AEND []) [] news (hdr_ok_written n0 Hn) R) as (OW & _ & _ & LE).
    cbv zeta in OW, LE. unfold file_of in OW at 1, LE. rewrite app_nil_r in OW, LE.
    rewrite part_bytes_file. cbn [markers]. rewrite ser_chunks_snoc. rewrite OW.
    rewrite skipn_all2.
    + unfold file_of. rewrite part_bytes_file. cbn [markers]. rewrite ser_chunks_snoc, app_nil_r. reflexivity.
    + unfold file_of. rewrite app_assoc, app_length, (hdr_len _ _ (hdr_ok_written n0 Hn)), !app_length.
      change (ser_chunk (mk AEND [])) with finalize. rewrite finalize_len, len_nat. cbn [length]. lia.
  - (* a part that announces its successor *)
    inversion Hb as [|? ? Hb0 Hb']; subst. rewrite len_cons in Hn.
    destruct (pre ++ [b]) as [|b1 rest] eqn:E1; [destruct pre; discriminate E1|].
    cbn [is_nil markers chain append_walk].
    destruct (body_run_nl p Hb0) as (R & HX).
    replace (ser_chunks (p ++ [mk ANXT []; mk AEND []])) with (ser_chunks (p ++ [mk ANXT []]) ++ ser_chunk (mk AEND []) ++ [])
      by (rewrite app_nil_r, <- ser_chunks_snoc, <- app_assoc; reflexivity).
    rewrite (seek_run _ _ [] R), HX. cbn [bind].
    rewrite part_bytes_file at 1. rewrite (read_header_hdr _ (mk_hdr (n0 + 1))) by (apply hdr_ok_written; lia).
    cbn [bind mk_hdr a_number]. destruct (N.ltb_spec (n0 + 1) (2 ^ 32)); [|lia]. rewrite N.eqb_refl. cbn [andb].
    rewrite (IH b (n0 + 1) ltac:(rewrite E1; exact Hb') ltac:(lia) b1 rest (eq_sym E1)). cbn [bind].
    cbn [app chain]. destruct (pre ++ [b ++ concat news]) as [|b2 rest2] eqn:E2; [destruct pre; discriminate E2|].
    cbn [is_nil]. reflexivity.
Qed.

(* `append_written_chain`: for every chain of the split writer the walk ends in the last part and the result is the
   chain of the same bodies with the new entries' chunks behind the last one; it reads back as old ++ new *)
Theorem append_written_chain es pre b n0 news : Forall wf_entry es -> concat (pre ++ [b]) = concat es ->
  n0 + len pre < 2 ^ 32 -> Forall wf_entry news ->
  read_parts rds (chain n0 (pre ++ [b])) = Ok (es, FinOk) /\
  append_parts (chain n0 (pre ++ [b])) news = Ok (chain n0 (pre ++ [b ++ concat news])) /\
  read_parts rds (chain n0 (pre ++ [b ++ concat news])) = Ok (es ++ news, FinOk) /\
  read_parts read_chunk_slice (chain n0 (pre ++ [b ++ concat news])) = Ok (es ++ news, FinOk).
Proof.
  intros Hw E Hn Hnews. pose proof (body_ok_of_entries es (pre ++ [b]) Hw E) as Hb.
  assert (E' : concat (pre ++ [b ++ concat news]) = concat (es ++ news)).
  { rewrite !concat_app in *. cbn [concat] in *. rewrite !app_nil_r in *. rewrite app_assoc, E. reflexivity. }
  assert (Hw' : Forall wf_entry (es ++ news)) by (apply Forall_app; split; assumption).
  assert (R' := chain_read_entries (es ++ news) pre (b ++ concat news) n0 Hw' E' Hn).
  split; [apply chain_read_entries; assumption|]. split; [|split; [exact R'|rewrite stream_slice_agree_parts; exact R']].
  destruct (pre ++ [b]) as [|b0 bodies] eqn:E0; [destruct pre; discriminate E0|].
  cbn [chain append_parts]. rewrite part_bytes_file at 1.
  assert (N0 : n0 < 2 ^ 32) by lia.
  rewrite (read_header_hdr _ (mk_hdr n0)) by (apply hdr_ok_written; exact N0). cbn [bind].
  rewrite <- E0 in Hb. exact (walk_chain news pre b n0 Hb Hn b0 bodies (eq_sym E0)).
Qed.

(* ---- the logical view of a part chain --------------------------------------------------------------------------- *)
Section LogicalParts.
Variables E D : encryption -> bytes -> bytes -> bytes.
Variable compress : compression -> N -> list bytes -> list bytes.
Variable decompress : compression -> bytes -> res bytes.
Variable verify : bytes -> bytes -> res bytes.
Hypothesis D_len : forall a k c, len16 c -> len16 (D a k c).
Hypothesis DE : forall a k b, len16 b -> D a k (E a k b) = b.
Hypothesis E_len : forall a k b, len16 b -> len16 (E a k b).
Hypothesis compress_law : forall c lvl ws, decompress c (concat (compress c lvl ws)) = Ok (concat ws).
Hypothesis compress_det : forall c lvl (ws ws' : list bytes), concat ws = concat ws' ->
  concat (compress c lvl ws) = concat (compress c lvl ws').

(* entries() chained over the parts (read_next_archive), run to the end marker of the last part *)
Definition read_archive_parts (parts : list bytes) : res (list read_entry) :=
  do (raws, f) <- read_parts rds parts;
  match f with
  | FinOk => let (ps, pe) := parse_all raws in match pe with FinOk => Ok ps | FinErr k => Err k | FinPanic => Panic end
  | FinErr k => Err k
  | FinPanic => Panic
  end.
Definition xlogical_parts (pw : bytes) (rb : normal_entry -> list N) (srb : solid_entry -> list N) (parts : list bytes)
  : res (list xentry) :=
  do rs <- read_archive_parts parts; x_items E D decompress verify pw rb srb rs.
Definition logical_parts (pw : bytes) (rb : normal_entry -> list N) (srb : solid_entry -> list N) (parts : list bytes)
  : res Update.archive :=
  do xs <- xlogical_parts pw rb srb parts; Ok (map abs xs).

Theorem append_multipart_logical pw rb srb parts es old jobs new :
  read_parts_b parts = Ok (es, FinOk, []) -> xlogical_parts pw rb srb parts = Ok old ->
  Forall2 carries jobs new -> Forall (wf_job E compress verify pw) jobs -> Forall (fun e => e_kind e <= 3) new ->
  (forall j, In j jobs -> reads_to_end E compress rb j) ->
  exists out, append_parts parts (new_raws E compress jobs) = Ok out /\
    one_part_rewritten (new_raws E compress jobs) parts out /\
    xlogical_parts pw rb srb out = Ok (old ++ new) /\
    logical_parts pw rb srb out = Ok (Update.append (map abs old) (map abs new)) /\
    read_parts_b out = Ok (es ++ new_raws E compress jobs, FinOk, []).
Proof.
  intros H XL Hc Hw Hk Hr.
  pose proof (new_raws_wf E compress decompress verify compress_law compress_det pw jobs Hw) as Wn.
  pose proof (new_raws_parse E D compress verify D_len DE E_len pw jobs Hw) as Pn.
  destruct (append_multipart parts es _ H Wn) as (out & AP & OPR & R0 & R1 & _ & RB).
  exists out. split; [exact AP|]. split; [exact OPR|].
  unfold xlogical_parts, read_archive_parts in XL. rewrite R0 in XL. cbn [bind] in XL.
  destruct (parse_all es) as [xs pe] eqn:P0. destruct pe; cbn [bind] in XL; try discriminate XL.
  assert (X : xlogical_parts pw rb srb out = Ok (old ++ new)).
  { unfold xlogical_parts, read_archive_parts. rewrite R1. cbn [bind].
    rewrite (parse_all_app es _ xs P0), Pn. cbn [fst snd bind].
    apply x_items_app; [exact XL|]. apply x_items_normals.
    apply (read_all_built E D compress decompress verify D_len DE E_len compress_law); assumption. }
  split; [exact X|]. split; [|exact RB].
  unfold logical_parts. rewrite X. cbn [bind]. unfold Update.append. rewrite map_app. reflexivity.
Qed.
End LogicalParts.

(* ================================================================================================= *)
(* 7. the premises are met: concrete files                                                             *)
(* ================================================================================================= *)
(* the two-entry archive of ArchiveFacts (a file entry with a private chunk, a solid entry), number 7 *)
Example append_container_ex :
  exists s, raw_entries rds ex_arch = Ok ([ex_e1; ex_e2], FinOk, s) /\ r_buf s = [] /\ Forall wf_entry [ex_e2; ex_e1] /\
    append_at ex_arch [ex_e2; ex_e1] = Ok (write_raw_archive 7 [ex_e1; ex_e2; ex_e2; ex_e1], false).
Proof.
  eexists. split; [vm_compute; reflexivity|]. split; [reflexivity|]. split; [|vm_compute; reflexivity].
  pose proof ex_wf as W. inversion W as [|? ? W1 W']; subst. inversion W' as [|? ? W2 _]; subst. repeat constructor; assumption.
Qed.

(* a foreign layout: 40 bytes of another file behind the end marker, an ANXT chunk in front of the first entry.
   The append shorter than the old tail leaves the rest of it behind the new end marker; the file reads old ++ new *)
Definition ex_foreign : bytes :=
  write_header 3 ++ ser_chunks (mk ANXT [] :: ex_e1) ++ finalize ++ ser_chunks ex_e1.
Example append_foreign_ex :
  exists s, raw_entries rds ex_foreign = Ok ([ex_e1], FinOk, s) /\ r_buf s = [] /\ r_next s = true /\
    append_at ex_foreign [ex_e2] =
      Ok (write_header 3 ++ ser_chunks (mk ANXT [] :: ex_e1) ++ ser_chunks ex_e2 ++ finalize ++ skipn 40 (ser_chunks ex_e1), true) /\
    exists s', raw_entries rds (write_header 3 ++ ser_chunks (mk ANXT [] :: ex_e1) ++ ser_chunks ex_e2 ++ finalize ++ skipn 40 (ser_chunks ex_e1))
               = Ok ([ex_e1; ex_e2], FinOk, s').
Proof.
  eexists. split; [vm_compute; reflexivity|]. split; [reflexivity|]. split; [reflexivity|]. split; [vm_compute; reflexivity|].
  eexists. vm_compute. reflexivity.
Qed.

(* a file that ends inside an entry (no FEND before the end marker): the reader keeps the open chunks, and the
   first appended entry is read glued behind them — `glue` in append_container_raw is what happens *)
Definition ex_open : bytes := write_header 0 ++ ser_chunks (ex_e2 ++ [mk FHED (lit "hdr3"); mk FDAT [x01]]) ++ finalize.
Example append_open_entry_ex :
  exists s, raw_entries rds ex_open = Ok ([ex_e2], FinOk, s) /\ r_buf s = [mk FHED (lit "hdr3"); mk FDAT [x01]] /\
    exists b' s', append_at ex_open [ex_e1; ex_e2] = Ok (b', false) /\
      raw_entries rds b' = Ok ([ex_e2; [mk FHED (lit "hdr3"); mk FDAT [x01]] ++ ex_e1; ex_e2], FinOk, s') /\ r_buf s' = [].
Proof.
  eexists. split; [vm_compute; reflexivity|]. split; [reflexivity|]. eexists _, _.
  split; [vm_compute; reflexivity|]. split; [vm_compute; reflexivity|reflexivity].
Qed.

(* the three-part chain of PartsFacts (an entry straddles both boundaries): the walk ends in part 2, parts 0 and 1
   are the files they were, the chain reads as the three old entries and the new one *)
Example append_multipart_ex :
  read_parts_b exp_chain = Ok ([exp_e1; exp_e2; exp_e3], FinOk, []) /\ Forall wf_entry [exp_e1] /\
  exists out, append_parts exp_chain [exp_e1] = Ok out /\ firstn 2 out = firstn 2 exp_chain /\ length out = 3%nat /\
    read_parts rds out = Ok ([exp_e1; exp_e2; exp_e3; exp_e1], FinOk).
Proof.
  split; [vm_compute; reflexivity|]. split; [destruct exp_wf as (_ & W & _); inversion W; subst; constructor; [assumption|constructor]|].
  eexists. split; [vm_compute; reflexivity|]. split; [vm_compute; reflexivity|]. split; [reflexivity|vm_compute; reflexivity].
Qed.

(* the logical theorems: the tree of CreateTransportFacts (a directory, a file with an xattr, a symbolic link)
   through AES-256-CBC, every content written in two calls and read with buffers of 7, 16 and 1 bytes; the same
   jobs are appended to the archive they produced *)
Definition tx_arch : bytes := write_archive (map (build_job real_E_of tx_compress) tx_jobs).
Example append_logical_premises :
  exists es s, raw_entries rds tx_arch = Ok (es, FinOk, s) /\ r_buf s = [] /\
    xlogical real_E_of real_D_of tx_decompress tx_verify tx_pw tx_rb (fun _ => []) tx_arch = Ok (create_from_tree tx_c tx_order tx_tree) /\
    Forall2 carries tx_jobs (create_from_tree tx_c tx_order tx_tree) /\
    Forall (wf_job real_E_of tx_compress tx_verify tx_pw) tx_jobs /\
    Forall (fun e => e_kind e <= 3) (create_from_tree tx_c tx_order tx_tree) /\
    (forall j, In j tx_jobs -> reads_to_end real_E_of tx_compress tx_rb j) /\
    (forall c lvl ws, tx_decompress c (concat (tx_compress c lvl ws)) = Ok (concat ws)) /\
    (forall c lvl (ws ws' : list bytes), concat ws = concat ws' -> concat (tx_compress c lvl ws) = concat (tx_compress c lvl ws')).
Proof.
  destruct transport_premises as (P1 & P2 & P3 & P4 & _).
  eexists _, _. split; [vm_compute; reflexivity|]. split; [reflexivity|]. split; [vm_compute; reflexivity|].
  split; [exact P1|]. split; [exact P2|]. split; [repeat (apply Forall_cons; [vm_compute; discriminate|]); apply Forall_nil|]. split; [exact P3|]. split; [exact P4|].
  intros c lvl ws ws' H. exact H.
Qed.

(* ================================================================================================= *)
(* 8. delete on the bytes of an archive without solid blocks (bridge to Update.delete)                 *)
(* ================================================================================================= *)
(* `pna delete` = run_transform_entry with the delete transformer: WfTransformFacts.run_edit ... CDelete (read every
   entry with entries(), drop the selected ones, write the others with add_entry into a new archive).  Stated for
   archives the strict recogniser accepts (Wf.wf_archive: everything the writers of this crate produce — the writer
   must be able to re-serialise what it read) whose items are all normal entries (no solid block; with --unsolid
   / --keep-solid the inner entries go through `expand` / `rebuild`, which are parameters there). *)
From PNA Require Wf WfFacts WfWriterFacts WfAgreeFacts WfRewriteFacts RecutFacts WfTransformFacts Transform.

(* an archive written with add_entry of chunk lists that each end in FEND / SEND leaves no entry open *)
Definition closed_raw (r : list chunk) : Prop := exists body last, r = body ++ [last] /\ is_end last = true.

Lemma scan_closed : forall raws buf, Forall closed_raw raws -> snd (scan buf (concat raws)) = left_open buf raws.
Proof.
  induction raws as [|r raws IH]; intros buf H; [reflexivity|]. inversion H as [|? ? (body & last & -> & He) H']; subst.
  cbn [concat left_open]. rewrite scan_app. cbn [snd]. rewrite scan_app. cbn [snd].
  rewrite scan_end by exact He. cbn [snd scan]. rewrite IH by exact H'. destruct raws; reflexivity.
Qed.

Lemma written_closed num raws : num < 2 ^ 32 -> Forall wf_chunk (concat raws) ->
  Forall (fun c => ty_is c AEND = false) (concat raws) -> Forall closed_raw raws ->
  exists es s, raw_entries rds (write_raw_archive num raws) = Ok (es, FinOk, s) /\ r_buf s = [] /\
               r_next s = has_anxt (concat raws).
Proof.
  intros Hn Hw Ha Hc.
  assert (R : run_ok (concat raws) (mk AEND [])) by (split; [exact Hw|split; [exact Ha|split; [exact wf_chunk_aend|reflexivity]]]).
  pose proof (file_read (hdr_chunk num) (mk_hdr num) (concat raws) (mk AEND []) [] (hdr_ok_written num Hn) R) as F.
  unfold file_of in F. rewrite app_nil_r in F.
  replace (sig ++ ser_chunk (hdr_chunk num) ++ ser_chunks (concat raws) ++ ser_chunk (mk AEND []))
    with (write_raw_archive num raws) in F
    by (rewrite write_raw_archive_eq, write_header_eq, ser_entries_concat, <- !app_assoc; reflexivity).
  eexists _, _. split; [exact F|]. cbn [st r_buf r_next]. split; [|reflexivity].
  (* ANXT chunks are dropped: the remaining chunks still end every raw entry *)
  assert (G : forall raws buf, Forall closed_raw raws -> snd (scan buf (strip (concat raws))) = left_open buf raws).
  { clear. induction raws as [|r raws IH]; intros buf H; [reflexivity|]. inversion H as [|? ? (body & last & -> & He) H']; subst.
    cbn [concat left_open]. rewrite !strip_app. cbn [strip filter].
    replace (ty_is last ANXT) with false.
    - cbn [negb]. fold (strip (concat raws)). rewrite scan_app. cbn [snd]. rewrite scan_app. cbn [snd].
      rewrite scan_end by exact He. cbn [snd scan]. rewrite IH by exact H'. destruct raws; reflexivity.
    - symmetry. unfold is_end in He. apply orb_true_iff in He.
      destruct He as [He|He]; [apply (ty_eq_neq last FEND ANXT He)|apply (ty_eq_neq last SEND ANXT He)]; reflexivity. }
  rewrite G by exact Hc. apply left_open_nil.
Qed.

Lemma no_anxt_has l : Forall (fun c => ty_is c ANXT = false) l -> has_anxt l = false.
Proof. induction 1 as [|c l Hc _ IH]; [reflexivity|]. cbn [has_anxt existsb]. rewrite Hc. exact IH. Qed.

Lemma ser_normal_closed n : closed_raw (ser_normal n).
Proof. unfold ser_normal. cbv zeta. eexists _, (mk FEND []). split; [rewrite !app_assoc; reflexivity|reflexivity]. Qed.

(* the append on an archive the writer produced from ANY chunk lists without archive markers: exactly the archive of
   the extended list (C18_append_in_place without the premise that the chunk lists are single well-formed entries) *)
Lemma append_at_written num raws news : num < 2 ^ 32 -> Forall wf_chunk (concat raws) ->
  Forall (fun c => ty_is c AEND = false) (concat raws) ->
  append_at (write_raw_archive num raws) news = Ok (write_raw_archive num (raws ++ news), has_anxt (concat raws)).
Proof.
  intros Hn Hw Ha.
  assert (R : run_ok (concat raws) (mk AEND [])) by (split; [exact Hw|split; [exact Ha|split; [exact wf_chunk_aend|reflexivity]]]).
  assert (EW : forall l, write_raw_archive num l = file_of (hdr_chunk num) (concat l) (mk AEND []) []).
  { intros l. unfold file_of. rewrite app_nil_r, write_raw_archive_eq, write_header_eq, ser_entries_concat, <- !app_assoc. reflexivity. }
  pose proof (hdr_ok_written num Hn) as Hh.
  unfold append_at. rewrite (EW raws). unfold file_of at 1. rewrite (read_header_hdr _ _ _ Hh). cbn [bind].
  rewrite (seek_run _ _ [] R). cbn [bind]. f_equal. f_equal.
  destruct (overwrite_file (hdr_chunk num) (mk_hdr num) (concat raws) (mk AEND []) [] news Hh R) as (OW & _ & _ & _).
  cbv zeta in OW. rewrite OW, EW, concat_app. f_equal. apply skipn_all2.
  unfold file_of. rewrite app_assoc, app_length, (hdr_len _ _ Hh), !app_length.
  change (ser_chunk (mk AEND [])) with finalize. rewrite finalize_len, len_nat. cbn [length]. lia.
Qed.

(* archives written from writable entries (Wf: what the strict recogniser accepts, C14) stay such under append: the
   form `write_raw_archive 0 (map ser_entry xs)` with writable xs is kept by append and by delete, so the
   premises of the delete theorems hold along a history of appends and deletes *)
Theorem append_written_wf es new : Forall WfWriterFacts.writable es -> Forall WfWriterFacts.writable new ->
  append_at (write_raw_archive 0 (map ser_entry es)) (map ser_entry new)
    = Ok (write_raw_archive 0 (map ser_entry (es ++ new)), false) /\
  Wf.wf_archive (write_raw_archive 0 (map ser_entry (es ++ new))) = true /\
  read_archive (write_raw_archive 0 (map ser_entry (es ++ new))) = Ok (map normalize_entry (es ++ new)).
Proof.
  intros We Wn. pose proof (WfWriterFacts.written_body_chunks _ We) as BC.
  rewrite append_at_written; [|reflexivity| |].
  - rewrite no_anxt_has by (eapply Forall_impl; [|exact BC]; intros c Hc; apply Hc). rewrite <- map_app.
    split; [reflexivity|].
    destruct (WfWriterFacts.writer_wf (es ++ new)) as (WA & SD); [apply Forall_app; split; assumption|].
    split; [exact WA|]. apply WfAgreeFacts.strict_agrees in SD. unfold read_archive. rewrite SD. reflexivity.
  - eapply Forall_impl; [|exact BC]. intros c Hc. apply Hc.
  - eapply Forall_impl; [|exact BC]. intros c Hc. apply Hc.
Qed.

Section Delete.
Variables E D : encryption -> bytes -> bytes -> bytes.
Variable decompress : compression -> bytes -> res bytes.
Variable verify : bytes -> bytes -> res bytes.
Variables hdr_tok content_tok : normal_entry -> bytes.
Variable expand : solid_entry -> res (list normal_entry).
Variable rebuild : solid_entry -> list normal_entry -> solid_entry.

Notation run_edit := (WfTransformFacts.run_edit hdr_tok content_tok expand rebuild).
Notation edit_archive := (WfTransformFacts.edit_archive hdr_tok content_tok expand rebuild).
Notation lview := (WfTransformFacts.lview hdr_tok content_tok).
Notation read_entries_x := (read_entries_x E D decompress verify).
Notation read_entry_x := (read_entry_x E D decompress verify).

Definition kept (sel : bytes -> bool) (n : normal_entry) : bool := negb (sel (f_name (n_hdr n))).

Lemma reentry_lview e : WfTransformFacts.reentry e (lview e) = e.
Proof. destruct e as [h p x d m xs]. destruct m. reflexivity. Qed.

Lemma edit_delete_normals keep pw sel : forall ns,
  edit_archive keep pw Transform.CDelete sel (map RNormal ns) = Ok (map RNormal (filter (kept sel) ns)).
Proof.
  induction ns as [|n ns IH]; [reflexivity|].
  cbn [map WfTransformFacts.edit_archive WfTransformFacts.edit_item]. rewrite IH.
  unfold WfTransformFacts.edit_entry, Transform.cmd_transformer. cbn [Transform.selects_all orb filter].
  change (Transform.le_name (lview n)) with (f_name (n_hdr n)). unfold kept.
  destruct (sel (f_name (n_hdr n))); cbn [Transform.cmd_entry bind option_map negb app map]; [reflexivity|].
  rewrite reentry_lview. reflexivity.
Qed.

(* entry level: the archive delete writes holds exactly the entries not selected, in order *)
Theorem delete_container_entries keep pw nf sel b ns :
  Wf.wf_archive b = true -> read_archive b = Ok (map RNormal ns) ->
  let b' := write_raw_archive 0 (map ser_normal (filter (kept sel) ns)) in
  run_edit keep pw Transform.CDelete nf sel b = Ok b' /\ Wf.wf_archive b' = true /\
  read_archive b' = Ok (map RNormal (map normalize (filter (kept sel) ns))) /\
  exists es' s', raw_entries rds b' = Ok (es', FinOk, s') /\ r_buf s' = [] /\ r_next s' = false.
Proof.
  intros WA RA. cbv zeta.
  destruct (WfAgreeFacts.wf_archive_read b WA) as (es & SD & En & _).
  assert (Ees : es = map RNormal ns).
  { unfold read_archive in RA. rewrite En in RA. cbn [bind] in RA. injection RA as ->. reflexivity. }
  subst es. pose proof (proj2 WfRewriteFacts.writable_exact _ _ SD) as W.
  assert (W' : Forall WfWriterFacts.writable (map RNormal (filter (kept sel) ns))).
  { apply Forall_forall. intros x Hx. apply in_map_iff in Hx. destruct Hx as (n & <- & Hn). apply filter_In in Hn.
    rewrite Forall_forall in W. apply W. apply in_map. apply Hn. }
  assert (EM : forall l, map ser_entry (map RNormal l) = map ser_normal l) by (intros l; rewrite map_map; reflexivity).
  destruct (WfWriterFacts.writer_wf _ W') as (WA' & SD'). rewrite EM in WA', SD'.
  split; [|split; [exact WA'|split]].
  - unfold WfTransformFacts.run_edit. cbn [Transform.needs_files andb].
    change (WfTransformFacts.read_all b) with (read_archive b). rewrite RA. cbn [bind].
    rewrite edit_delete_normals. cbn [bind]. rewrite EM. reflexivity.
  - apply WfAgreeFacts.strict_agrees in SD'. unfold read_archive. rewrite SD'. cbn [bind].
    rewrite !map_map. reflexivity.
  - pose proof (WfWriterFacts.written_body_chunks _ W') as BC. rewrite EM in BC.
    destruct (written_closed 0 (map ser_normal (filter (kept sel) ns))) as (es' & s' & R & B & N'); [reflexivity| | | |].
    + eapply Forall_impl; [|exact BC]. intros c Hc. apply Hc.
    + eapply Forall_impl; [|exact BC]. intros c Hc. apply Hc.
    + apply Forall_forall. intros r Hr. apply in_map_iff in Hr. destruct Hr as (n & <- & _). apply ser_normal_closed.
    + exists es', s'. split; [exact R|]. split; [exact B|]. rewrite N'.
      apply no_anxt_has. eapply Forall_impl; [|exact BC]. intros c Hc. apply Hc.
Qed.

Lemma concat_cut_data (l : list bytes) : concat (cut_data l) = concat l.
Proof. apply PiecesFacts.cutN_concat, PiecesFacts.CMAX_pos. Qed.
Lemma concat_filter_nonempty (l : list bytes) : concat (filter nonempty l) = concat l.
Proof. induction l as [|d l IH]; [reflexivity|]. destruct d; cbn [filter nonempty concat app]; [exact IH|]. rewrite IH. reflexivity. Qed.

(* re-serialising drops empty data chunks and cuts payloads of 2^32 bytes or more: the entry decodes alike *)
Lemma read_entry_x_normalize pw rb n : RecutFacts.drains (n_data n) (rb n) -> RecutFacts.drains (n_data n) (rb (normalize n)) ->
  read_entry_x pw rb (normalize n) = read_entry_x pw rb n.
Proof.
  intros D1 D2. unfold CreateTransportFacts.read_entry_x.
  rewrite (RecutFacts.normal_same_decode E D decompress verify (normalize n) n pw (rb (normalize n)) (rb n)).
  - reflexivity.
  - unfold RecutFacts.normal_same, normalize. cbn [n_hdr n_phsf n_extra n_data n_meta n_xattrs].
    rewrite concat_cut_data. repeat split.
  - unfold normalize. cbn [n_data]. apply (RecutFacts.drains_concat (n_data n)); [symmetry; apply concat_cut_data|exact D2].
  - exact D1.
Qed.

Definition drained (rb : normal_entry -> list N) (n : normal_entry) : Prop :=
  RecutFacts.drains (n_data n) (rb n) /\ RecutFacts.drains (n_data n) (rb (normalize n)).

Lemma read_x_name pw rb n x : read_entry_x pw rb n = Ok x -> e_name x = f_name (n_hdr n).
Proof.
  unfold CreateTransportFacts.read_entry_x. destruct (decode_normal E D decompress verify n pw (rb n)); cbn [bind]; try discriminate.
  intros [= <-]. reflexivity.
Qed.

Lemma read_entries_x_delete pw rb sel : forall ns old, Forall (drained rb) ns -> read_entries_x pw rb ns = Ok old ->
  read_entries_x pw rb (map normalize (filter (kept sel) ns)) = Ok (filter (fun x => negb (sel (e_name x))) old).
Proof.
  induction ns as [|n ns IH]; intros old Hd H; cbn [CreateTransportFacts.read_entries_x filter map] in *.
  - injection H as <-. reflexivity.
  - inversion Hd as [|? ? [D1 D2] Hd']; subst.
    destruct (read_entry_x pw rb n) as [x| |] eqn:Ex; cbn [bind] in H; try discriminate H.
    destruct (read_entries_x pw rb ns) as [xs| |] eqn:Exs; cbn [bind] in H; try discriminate H. injection H as <-.
    cbn [filter]. rewrite (read_x_name _ _ _ _ Ex). unfold kept at 1.
    destruct (sel (f_name (n_hdr n))); cbn [negb map CreateTransportFacts.read_entries_x]; [exact (IH xs Hd' eq_refl)|].
    rewrite (read_entry_x_normalize pw rb n D1 D2), Ex. cbn [bind]. rewrite (IH xs Hd' eq_refl). reflexivity.
Qed.

(* `delete_container`: decoded with the password and draining buffers, the archive delete writes holds exactly the
   logical entries whose name is not selected, unchanged and in order *)
Theorem delete_container_logical keep pw' nf sel pw rb srb b ns old :
  Wf.wf_archive b = true -> read_archive b = Ok (map RNormal ns) -> Forall (drained rb) ns ->
  xlogical E D decompress verify pw rb srb b = Ok old ->
  exists b', run_edit keep pw' Transform.CDelete nf sel b = Ok b' /\ Wf.wf_archive b' = true /\
    xlogical E D decompress verify pw rb srb b' = Ok (filter (fun x => negb (sel (e_name x))) old) /\
    exists es' s', raw_entries rds b' = Ok (es', FinOk, s') /\ r_buf s' = [] /\ r_next s' = false.
Proof.
  intros WA RA Hd XL. destruct (delete_container_entries keep pw' nf sel b ns WA RA) as (RE & WA' & RA' & RW). cbv zeta in *.
  eexists. split; [exact RE|]. split; [exact WA'|]. split; [|exact RW]. unfold xlogical in *. rewrite RA' . rewrite RA in XL. cbn [bind] in *.
  apply x_items_normals.
  assert (XN : forall l o, x_items E D decompress verify pw rb srb (map RNormal l) = Ok o -> read_entries_x pw rb l = Ok o).
  { induction l as [|n l IHl]; intros o; cbn [map x_items x_item CreateTransportFacts.read_entries_x]; [auto|].
    destruct (read_entry_x pw rb n) as [x| |]; cbn [bind]; try discriminate.
    destruct (x_items E D decompress verify pw rb srb (map RNormal l)) as [y| |] eqn:Ey; cbn [bind]; try discriminate.
    intros [= <-]. rewrite (IHl y eq_refl). reflexivity. }
  apply read_entries_x_delete; [exact Hd|]. apply XN. exact XL.
Qed.

Lemma abs_delete sel old :
  map abs (filter (fun x => negb (sel (e_name x))) old) = Update.delete_by sel (map abs old).
Proof.
  unfold Update.delete_by. induction old as [|x old IH]; [reflexivity|]. cbn [filter map].
  change (Update.e_path (abs x)) with (e_name x). destruct (sel (e_name x)); cbn [negb map]; rewrite IH; reflexivity.
Qed.

(* the bridge: abs (file after delete) = Update.delete matched (abs file) *)
Theorem delete_container_abs keep pw' nf matched pw rb srb b ns a :
  Wf.wf_archive b = true -> read_archive b = Ok (map RNormal ns) -> Forall (drained rb) ns ->
  logical E D decompress verify pw rb srb b = Ok a ->
  exists b', run_edit keep pw' Transform.CDelete nf (fun p => Update.mem p matched) b = Ok b' /\ Wf.wf_archive b' = true /\
    logical E D decompress verify pw rb srb b' = Ok (Update.delete matched a) /\
    Update.step a (Update.ODelete matched) = Ok (Update.delete matched a) /\
    exists es' s', raw_entries rds b' = Ok (es', FinOk, s') /\ r_buf s' = [] /\ r_next s' = false.
Proof.
  intros WA RA Hd L. unfold logical in L.
  destruct (xlogical E D decompress verify pw rb srb b) as [old| |] eqn:XL; cbn [bind] in L; try discriminate L. injection L as <-.
  destruct (delete_container_logical keep pw' nf (fun p => Update.mem p matched) pw rb srb b ns old WA RA Hd XL) as (b' & RE & WA' & XL' & RW).
  exists b'. split; [exact RE|]. split; [exact WA'|]. split; [|split; [reflexivity|exact RW]].
  unfold logical. rewrite XL'. cbn [bind]. rewrite (abs_delete (fun p => Update.mem p matched)). reflexivity.
Qed.
End Delete.

(* ---- premises of the solid and the delete statements ------------------------------------------------------------ *)
Definition tx_rb2 (_ : normal_entry) : list N := repeat 16 100.
Definition tx_srb (_ : solid_entry) : list N := repeat 64 2000.
(* the same three entries once inside a stored solid block (they are AES-encrypted inside it) and once as normal entries *)
Definition tx_solid : solid_entry :=
  build_solid real_E_of tx_compress store_cfg tx_ctx [] (solid_writes (map (build_job real_E_of tx_compress) tx_jobs)).
Definition tx_solid_arch : bytes :=
  write_archive_entries (RSolid tx_solid :: map RNormal (map (build_job real_E_of tx_compress) tx_jobs)).

Example append_logical_solid_premises :
  exists es s, raw_entries rds tx_solid_arch = Ok (es, FinOk, s) /\ r_buf s = [] /\ length es = 4%nat /\
    xlogical real_E_of real_D_of tx_decompress tx_verify tx_pw tx_rb tx_srb tx_solid_arch
      = Ok (create_from_tree tx_c tx_order tx_tree ++ create_from_tree tx_c tx_order tx_tree).
Proof. eexists _, _. split; [vm_compute; reflexivity|]. split; [reflexivity|]. split; [reflexivity|vm_compute; reflexivity]. Qed.

Example delete_premises :
  Wf.wf_archive tx_arch = true /\ read_archive tx_arch = Ok (map RNormal (map (build_job real_E_of tx_compress) tx_jobs)) /\
  Forall (drained tx_rb2) (map (build_job real_E_of tx_compress) tx_jobs) /\
  xlogical real_E_of real_D_of tx_decompress tx_verify tx_pw tx_rb2 tx_srb tx_arch = Ok (create_from_tree tx_c tx_order tx_tree) /\
  exists b', WfTransformFacts.run_edit (fun _ => []) (fun _ => []) (fun _ => Ok []) (fun s _ => s) false false Transform.CDelete 1
               (fun p => Update.mem p [lit "d/a.txt"]) tx_arch = Ok b' /\
    xlogical real_E_of real_D_of tx_decompress tx_verify tx_pw tx_rb2 tx_srb b'
      = Ok (filter (fun x => negb (Update.mem (e_name x) [lit "d/a.txt"])) (create_from_tree tx_c tx_order tx_tree)) /\
    length (filter (fun x => negb (Update.mem (e_name x) [lit "d/a.txt"])) (create_from_tree tx_c tx_order tx_tree)) = 2%nat.
Proof.
  split; [vm_compute; reflexivity|]. split; [vm_compute; reflexivity|]. split.
  { set (l := map _ tx_jobs). vm_compute in l. subst l.
    repeat (apply Forall_cons; [split; (split; [unfold tx_rb2; cbn [repeat]; repeat constructor|vm_compute; reflexivity])|]).
    apply Forall_nil. }
  split; [vm_compute; reflexivity|]. eexists. split; [vm_compute; reflexivity|]. split; vm_compute; reflexivity.
Qed.
