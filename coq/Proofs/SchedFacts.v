(* SchedFacts.v — facts about Model/Sched.v (C19).
     per_item_scope_ordered   every complete execution of `for i: scope { spawn (send (build i)) }` leaves
                              `map build items` in the channel — whatever the interleaving, since at most one task
                              is ever in flight (each scope joins before the next item is submitted)
     one_scope_unordered      `scope { for i: spawn (send (build i)) }` has an execution that delivers [b; a]
     single_scope_ordered_too ... and one that delivers [a; b]: it is the same program with MORE behaviours
     extract_order_indep      creations for distinct paths commute (any permutation gives the same file system,
                              node by node), and the hard links applied afterwards see the same sources
     hardlink_first_differs   a hard link applied before its source is created does not: "hard links last" matters
   Outside the proof: rayon's scheduler and scope_fifo's join, the mpsc channel, the kernel.  The tie to the
   code is the observed program shape (props/C19.py: one observed order per command under adversarial timing). *)
From PNA Require Import Base BaseFacts Overwrite OverwriteFacts Sched.
Require Import Coq.Sorting.Permutation.

Section SchedFacts.
Context {I E : Type}.
Variable build : I -> E.

Notation cfg := (@Build_config I E).

(* one forced step: the execution cannot stop here (not terminal) and exactly one step is enabled *)
Ltac forced H :=
  let Hin := fresh "Hin" in let Hr := fresh "Hr" in let Ht := fresh "Ht" in
  inversion H as [? | ? ? ? ? ? Hin Hr]; subst; clear H;
  [ match goal with Ht : terminal _ = true |- _ => cbn in Ht; discriminate Ht end
  | cbn in Hin; destruct Hin as [Hin | []]; inversion Hin; subst; clear Hin ].

Lemma per_item_runs : forall (items : list I) ch tr c,
  run build (cfg [(per_item items, [])] ch) tr c -> terminal c = true -> runs tr = items.
Proof.
  induction items as [|i rest IH]; intros ch tr c H Ht.
  - (* nothing left: no step is enabled *)
    inversion H as [? | ? ? ? ? ? Hin Hr]; subst; [reflexivity|]. cbn in Hin. contradiction.
  - cbn [per_item map] in H.
    forced H.          (* open the scope *)
    forced Hr.         (* submit the item *)
    forced Hr0.        (* the only thing that can happen: the task runs *)
    forced Hr.         (* the scope is left *)
    cbn [runs]. f_equal. eapply IH; eassumption.
Qed.

Theorem per_item_scope_ordered : forall items tr,
  exec build (per_item items) tr -> channel build tr = map build items.
Proof.
  intros items tr [c [H Ht]]. unfold channel. f_equal. eapply per_item_runs; eassumption.
Qed.

(* the channel component of the configuration is the same thing *)
Lemma run_chan : forall c tr c', run build c tr c' -> chan c' = chan c ++ channel build tr.
Proof.
  intros c tr c' H. induction H as [c | c e c1 tr c2 Hin Hr IH].
  - unfold channel. cbn. now rewrite app_nil_r.
  - rewrite IH. clear IH Hr. unfold enabled in Hin. apply in_app_or in Hin. destruct Hin as [Hin|Hin].
    + unfold main_steps in Hin. destruct (frames c) as [|[[|[i|b] r] infl] fs]; try contradiction.
      * destruct infl; [|contradiction]. destruct fs; [contradiction|].
        destruct Hin as [Heq|[]]. inversion Heq; subst. reflexivity.
      * destruct Hin as [Heq|[]]. inversion Heq; subst. reflexivity.
      * destruct Hin as [Heq|[]]. inversion Heq; subst. reflexivity.
    + unfold task_steps in Hin. revert Hin. generalize (@nil (frame (I := I))) as pre. generalize (frames c) as fs.
      induction fs as [|[body infl] r IHf]; intros pre Hin; [contradiction|].
      cbn [task_steps_from] in Hin. apply in_app_or in Hin. destruct Hin as [Hin|Hin].
      * apply in_map_iff in Hin. destruct Hin as [[j rest] [Heq _]]. inversion Heq; subst.
        unfold channel. cbn. now rewrite <- app_assoc.
      * eapply IHf. exact Hin.
Qed.

Lemma one_scope_unordered : forall a b : I,
  exists tr, exec build (single_scope [a; b]) tr /\ channel build tr = [build b; build a].
Proof.
  intros a b. exists [EvOpen; EvSubmit a; EvSubmit b; EvRun b; EvRun a; EvClose]. split; [|reflexivity].
  eexists. split.
  - eapply run_cons; [cbn; left; reflexivity|].
    eapply run_cons; [cbn; left; reflexivity|].
    eapply run_cons; [cbn; left; reflexivity|].
    eapply run_cons; [cbn; right; left; reflexivity|].
    eapply run_cons; [cbn; left; reflexivity|].
    eapply run_cons; [cbn; left; reflexivity|].
    apply run_nil.
  - reflexivity.
Qed.
Lemma single_scope_ordered_too : forall a b : I,
  exists tr, exec build (single_scope [a; b]) tr /\ channel build tr = [build a; build b].
Proof.
  intros a b. exists [EvOpen; EvSubmit a; EvRun a; EvSubmit b; EvRun b; EvClose]. split; [|reflexivity].
  eexists. split.
  - eapply run_cons; [cbn; left; reflexivity|].
    eapply run_cons; [cbn; left; reflexivity|].
    eapply run_cons; [cbn; right; left; reflexivity|].
    eapply run_cons; [cbn; left; reflexivity|].
    eapply run_cons; [cbn; left; reflexivity|].
    eapply run_cons; [cbn; left; reflexivity|].
    apply run_nil.
  - reflexivity.
Qed.
(* the premise of per_item_scope_ordered is met: the per-item program does have a complete execution *)
Lemma per_item_exec_example : forall a b : I,
  exec build (per_item [a; b]) [EvOpen; EvSubmit a; EvRun a; EvClose; EvOpen; EvSubmit b; EvRun b; EvClose].
Proof.
  intros a b. eexists. split.
  - repeat (eapply run_cons; [cbn; left; reflexivity|]). apply run_nil.
  - reflexivity.
Qed.
End SchedFacts.

(* the executable exploration agrees: one order for per_item, all six for a single scope over three items *)
Lemma all_orders_per_item_4 : all_orders PerItem 4 = [[0; 1; 2; 3]].
Proof. vm_compute. reflexivity. Qed.
Lemma all_orders_single_3 : length (all_orders SingleScope 3) = 6%nat.
Proof. vm_compute. reflexivity. Qed.

(* ---- extraction: creations for distinct paths commute ----------------------------------------- *)
Fixpoint find_creation (cs : list creation) (q : path) : option obj :=
  match cs with
  | [] => None
  | (p, o) :: r => match find_creation r q with Some x => Some x | None => if path_eqb p q then Some o else None end
  end.

Lemma node_fold_creations cs : forall s q, q <> [] ->
  node (fold_left apply_creation cs s) q =
  match find_creation cs q with Some o => Some o | None => node s q end.
Proof.
  induction cs as [|[p o] r IH]; intros s q Hq; [reflexivity|].
  cbn [fold_left find_creation]. rewrite IH by assumption.
  destruct (find_creation r q); [reflexivity|].
  unfold apply_creation. cbn [fst snd].
  destruct (path_eqb p q) eqn:E.
  - apply path_eqb_eq in E. subst p. now apply node_put_same.
  - apply node_put_other. intros ->. now rewrite path_eqb_refl in E.
Qed.

Lemma find_creation_in cs : forall q o, NoDup (map fst cs) ->
  (find_creation cs q = Some o <-> In (q, o) cs).
Proof.
  induction cs as [|[p o'] r IH]; intros q o Hnd; cbn [find_creation]; [split; [discriminate | contradiction]|].
  cbn [map fst] in Hnd. inversion Hnd as [|? ? Hnotin Hnd']; subst.
  split.
  - destruct (find_creation r q) eqn:Ef.
    + intro H. injection H as ->. right. now apply IH.
    + destruct (path_eqb p q) eqn:E; [|discriminate].
      intro H. injection H as ->. apply path_eqb_eq in E. subst. now left.
  - intros [Heq|Hin].
    + injection Heq as -> ->.
      destruct (find_creation r q) eqn:Ef.
      * apply IH in Ef; [|assumption]. exfalso. apply Hnotin. apply in_map_iff. now exists (q, o0).
      * now rewrite path_eqb_refl.
    + pose proof Hin as Hin'. apply IH in Hin; [|assumption]. now rewrite Hin.
Qed.

Lemma find_creation_perm cs cs' q : Permutation cs cs' -> NoDup (map fst cs) ->
  find_creation cs q = find_creation cs' q.
Proof.
  intros Hp Hnd.
  assert (Hnd' : NoDup (map fst cs')) by (eapply Permutation_NoDup; [apply Permutation_map; exact Hp | exact Hnd]).
  destruct (find_creation cs q) as [o|] eqn:E.
  - apply find_creation_in in E; [|assumption]. symmetry. apply find_creation_in; [assumption|].
    eapply Permutation_in; eassumption.
  - destruct (find_creation cs' q) as [o|] eqn:E'; [|reflexivity].
    apply find_creation_in in E'; [|assumption].
    apply Permutation_sym in Hp. pose proof (Permutation_in _ Hp E') as Hin.
    apply find_creation_in in Hin; [|assumption]. rewrite Hin in E. discriminate.
Qed.

Definition same_nodes (s s' : fs) : Prop := forall q, node s q = node s' q.

Lemma creations_perm s cs cs' : Permutation cs cs' -> NoDup (map fst cs) ->
  same_nodes (fold_left apply_creation cs s) (fold_left apply_creation cs' s).
Proof.
  intros Hp Hnd q. destruct q as [|c q]; [reflexivity|].
  rewrite !node_fold_creations by discriminate. now rewrite (find_creation_perm cs cs' _ Hp Hnd).
Qed.

Lemma apply_link_same s s' l : same_nodes s s' -> same_nodes (apply_link s l) (apply_link s' l).
Proof.
  intros H q. unfold apply_link. rewrite <- (H (snd l)). destruct (node s (snd l)) as [o|]; [|apply H].
  destruct q as [|c q]; [reflexivity|].
  destruct (path_eqb (fst l) (c :: q)) eqn:E.
  - apply path_eqb_eq in E. rewrite <- E.
    destruct (fst l) eqn:El; [discriminate|]. rewrite !node_put_same by discriminate. reflexivity.
  - assert (fst l <> c :: q) by (intros Heq; rewrite Heq, path_eqb_refl in E; discriminate).
    rewrite !node_put_other by assumption. apply H.
Qed.
Lemma links_same ls : forall s s', same_nodes s s' -> same_nodes (fold_left apply_link ls s) (fold_left apply_link ls s').
Proof.
  induction ls as [|l r IH]; intros s s' H; [exact H|].
  cbn [fold_left]. apply IH. now apply apply_link_same.
Qed.

Theorem extract_order_indep : forall s cs cs' ls,
  Permutation cs cs' -> NoDup (map fst cs) ->
  forall q, node (extract_fs s cs ls) q = node (extract_fs s cs' ls) q.
Proof.
  intros s cs cs' ls Hp Hnd. unfold extract_fs. apply links_same. now apply creations_perm.
Qed.

(* premises are satisfiable and the statement is not about empty lists *)
Example extract_order_example :
  let a := ([lit "x"; lit "slow.bin"], File (lit "big")) in
  let b := ([lit "x"; lit "tiny0"], File (lit "t")) in
  let c := ([lit "x"; lit "sym"], Symlink [lit "tiny0"]) in
  let ls := [([lit "x"; lit "hl_first"], [lit "x"; lit "slow.bin"])] in
  Permutation [a; b; c] [c; a; b] /\ NoDup (map fst [a; b; c]) /\
  node (extract_fs [] [a; b; c] ls) [lit "x"; lit "hl_first"] = Some (File (lit "big")) /\
  node (extract_fs [] [c; a; b] ls) [lit "x"; lit "hl_first"] = Some (File (lit "big")).
Proof.
  cbv zeta. split; [|split; [|split]].
  - apply Permutation_sym. apply (Permutation_cons_app [_; _] []). apply Permutation_refl.
  - cbn [map fst]. repeat constructor; cbn [In]; intros H; repeat (destruct H as [H|H]; [discriminate H|]); exact H.
  - vm_compute. reflexivity.
  - vm_compute. reflexivity.
Qed.

(* "hard links last" is needed: applied before its source exists, the link is not made *)
Lemma hardlink_first_differs :
  let src := ([lit "slow.bin"], File (lit "big")) in
  let l := ([lit "hl"], [lit "slow.bin"]) in
  node (apply_creation (apply_link [] l) src) [lit "hl"] = None /\
  node (extract_fs [] [src] [l]) [lit "hl"] = Some (File (lit "big")).
Proof. vm_compute. split; reflexivity. Qed.
