(* NameFacts.v — facts about Model/Name.v (entry-name sanitisation) and about the
   split/join pair of Base.v that it is built from.  Used by C15 (FHED codec) and C09. *)
From PNA Require Import Base Name BaseFacts.
Require Import ZArith ZifyN ZifyNat ZifyBool.
Open Scope N_scope.

(* ---- fields / join ---------------------------------------------------------------- *)
Section Fields.
Variable sep : byte.

Lemma split_on_acc l : forall cur,
  split_on sep l cur = (rev cur ++ hd [] (split_on sep l [])) :: tl (split_on sep l []).
Proof.
  induction l as [|b l IH]; intros cur.
  - cbn [split_on rev hd tl]. rewrite app_nil_r. reflexivity.
  - cbn [split_on]. destruct (byte_eqb b sep).
    + cbn [rev hd tl]. rewrite app_nil_r. reflexivity.
    + rewrite (IH (b :: cur)), (IH [b]). cbn [rev hd tl app]. rewrite <- app_assoc. reflexivity.
Qed.

Lemma fields_nil : fields sep [] = [[]].
Proof. reflexivity. Qed.

Lemma fields_cons_sep l : fields sep (sep :: l) = [] :: fields sep l.
Proof. unfold fields. cbn [split_on]. rewrite byte_eqb_refl. reflexivity. Qed.

Lemma fields_cons_other b l : b <> sep ->
  fields sep (b :: l) = (b :: hd [] (fields sep l)) :: tl (fields sep l).
Proof.
  intros H. unfold fields. cbn [split_on].
  destruct (byte_eqb b sep) eqn:E; [apply byte_eqb_eq in E; contradiction|].
  rewrite split_on_acc. reflexivity.
Qed.

Lemma fields_not_nil l : fields sep l <> [].
Proof. unfold fields. rewrite split_on_acc. discriminate. Qed.

Lemma fields_app_nosep x : forall l, ~ In sep x -> fields sep (x ++ sep :: l) = x :: fields sep l.
Proof.
  induction x as [|b x IH]; intros l H.
  - apply fields_cons_sep.
  - cbn [app]. rewrite fields_cons_other by (intros ->; apply H; left; reflexivity).
    rewrite IH by (intros H'; apply H; right; exact H'). reflexivity.
Qed.

Lemma fields_nosep x : ~ In sep x -> fields sep x = [x].
Proof.
  induction x as [|b x IH]; intros H; [reflexivity|].
  rewrite fields_cons_other by (intros ->; apply H; left; reflexivity).
  rewrite IH by (intros H'; apply H; right; exact H'). reflexivity.
Qed.

(* A1: splitting a joined list of separator-free segments gives the segments back *)
Lemma fields_join segs : Forall (fun c => ~ In sep c) segs -> segs <> [] ->
  fields sep (join [sep] segs) = segs.
Proof.
  induction segs as [|x segs IH]; intros HF Hne; [contradiction|].
  inversion HF as [|? ? Hx HF']; subst.
  destruct segs as [|y segs].
  - cbn [join]. apply fields_nosep. exact Hx.
  - change (join [sep] (x :: y :: segs)) with (x ++ sep :: join [sep] (y :: segs)).
    rewrite fields_app_nosep by exact Hx. rewrite IH by (assumption || discriminate). reflexivity.
Qed.

Lemma fields_join_nil : fields sep (join [sep] []) = [[]].
Proof. reflexivity. Qed.

(* the other direction: joining the fields gives the string back, for every string *)
Lemma join_cons x segs : segs <> [] -> join [sep] (x :: segs) = x ++ sep :: join [sep] segs.
Proof. destruct segs; [contradiction|reflexivity]. Qed.

Lemma join_fields l : join [sep] (fields sep l) = l.
Proof.
  induction l as [|b l IH]; [reflexivity|].
  destruct (byte_eqb b sep) eqn:E.
  - apply byte_eqb_eq in E. subst b. rewrite fields_cons_sep.
    rewrite join_cons by apply fields_not_nil. rewrite IH. reflexivity.
  - assert (Hb : b <> sep) by (intros ->; rewrite byte_eqb_refl in E; discriminate).
    rewrite fields_cons_other by exact Hb.
    pose proof (fields_not_nil l) as Hn. destruct (fields sep l) as [|h t]; [contradiction|].
    cbn [hd tl]. destruct t as [|h' t].
    + cbn [join] in *. rewrite IH. reflexivity.
    + change (join [sep] ((b :: h) :: h' :: t)) with (b :: (h ++ sep :: join [sep] (h' :: t))).
      change (join [sep] (h :: h' :: t)) with (h ++ sep :: join [sep] (h' :: t)) in IH.
      rewrite IH. reflexivity.
Qed.

Lemma fields_no_sep l : Forall (fun c => ~ In sep c) (fields sep l).
Proof.
  induction l as [|b l IH]; [repeat constructor; intros []|].
  destruct (byte_eqb b sep) eqn:E.
  - apply byte_eqb_eq in E. subst b. rewrite fields_cons_sep. constructor; [intros []|exact IH].
  - assert (Hb : b <> sep) by (intros ->; rewrite byte_eqb_refl in E; discriminate).
    rewrite fields_cons_other by exact Hb.
    pose proof (fields_not_nil l) as Hn. destruct (fields sep l) as [|h t]; [contradiction|].
    cbn [hd tl]. inversion IH as [|? ? Hh Ht]; subst. constructor; [|exact Ht].
    intros [H|H]; [exact (Hb H)|exact (Hh H)].
Qed.

Lemma join_nil_iff segs : Forall (fun c => c <> []) segs -> join [sep] segs = [] -> segs = [].
Proof.
  intros HF. destruct segs as [|x segs]; [reflexivity|].
  inversion HF as [|? ? Hx _]; subst. destruct x as [|b x]; [contradiction|].
  destruct segs; cbn [join app]; discriminate.
Qed.
End Fields.

(* ---- normal components ------------------------------------------------------------------ *)
(* a path component that Path::components classifies as Normal *)
Definition normal_component (c : bytes) : Prop :=
  c <> [] /\ c <> [dot] /\ c <> [dot; dot] /\ ~ In slash c.

(* the components of a stored name: the empty name has none *)
Definition components (n : bytes) : list bytes :=
  match n with [] => [] | _ => segments n end.

Lemma normal_seg_true c : normal_seg c = true <-> c <> [] /\ c <> [dot] /\ c <> [dot; dot].
Proof.
  unfold normal_seg, is_dot, is_dotdot. rewrite !andb_true_iff, !negb_true_iff.
  rewrite <- !not_true_iff_false, !bytes_eqb_eq.
  split.
  - intros [[H1 H2] H3]. repeat split; try assumption. intros ->. apply H1. reflexivity.
  - intros (H1 & H2 & H3). repeat split; try assumption. destruct c; [contradiction|discriminate].
Qed.

(* A2 *)
Lemma sanitize_components s : Forall normal_component (filter normal_seg (segments s)).
Proof.
  apply Forall_forall. intros c Hc. apply filter_In in Hc. destruct Hc as [Hin Hn].
  apply normal_seg_true in Hn. destruct Hn as (H1 & H2 & H3).
  repeat split; try assumption.
  pose proof (fields_no_sep slash s) as HF. rewrite Forall_forall in HF. apply HF. exact Hin.
Qed.

Lemma filter_all {A} (f : A -> bool) l : Forall (fun x => f x = true) l -> filter f l = l.
Proof.
  induction 1 as [|x l Hx _ IH]; [reflexivity|]. cbn [filter]. rewrite Hx, IH. reflexivity.
Qed.

Lemma normal_component_seg c : normal_component c -> normal_seg c = true.
Proof. intros (H1 & H2 & H3 & _). apply normal_seg_true. auto. Qed.

(* the components of the sanitised name are exactly the Normal segments of the input *)
Lemma sanitize_segments s : filter normal_seg (segments s) <> [] ->
  segments (sanitize_name s) = filter normal_seg (segments s).
Proof.
  intros Hne. unfold sanitize_name, segments at 1. apply fields_join; [|exact Hne].
  eapply Forall_impl; [|apply sanitize_components]. intros c (_ & _ & _ & H). exact H.
Qed.

Lemma sanitize_nil_iff s : sanitize_name s = [] <-> filter normal_seg (segments s) = [].
Proof.
  split.
  - apply join_nil_iff. eapply Forall_impl; [|apply sanitize_components]. intros c (H & _). exact H.
  - unfold sanitize_name. intros ->. reflexivity.
Qed.

Lemma sanitize_components_eq s : components (sanitize_name s) = filter normal_seg (segments s).
Proof.
  unfold components. destruct (sanitize_name s) as [|b n] eqn:E.
  - apply sanitize_nil_iff in E. symmetry. exact E.
  - rewrite <- E. apply sanitize_segments. intros H. apply sanitize_nil_iff in H. congruence.
Qed.

(* A3 *)
Lemma sanitize_idem s : sanitize_name (sanitize_name s) = sanitize_name s.
Proof.
  destruct (filter normal_seg (segments s)) as [|c r] eqn:E.
  - apply sanitize_nil_iff in E. rewrite E. reflexivity.
  - unfold sanitize_name at 1. rewrite sanitize_segments by (rewrite E; discriminate).
    rewrite filter_all; [reflexivity|].
    eapply Forall_impl; [|apply sanitize_components]. apply normal_component_seg.
Qed.

Lemma sanitize_no_root s : has_root (sanitize_name s) = false.
Proof.
  unfold sanitize_name. pose proof (sanitize_components s) as HF.
  destruct (filter normal_seg (segments s)) as [|c r]; [reflexivity|].
  inversion HF as [|? ? (H1 & _ & _ & H4) _]; subst.
  destruct c as [|b c]; [contradiction|].
  assert (Hb : byte_eqb b slash = false).
  { destruct (byte_eqb b slash) eqn:E; [|reflexivity]. apply byte_eqb_eq in E. subst b.
    exfalso. apply H4. left. reflexivity. }
  destruct r; cbn [join app has_root]; exact Hb.
Qed.

(* A4: the sanitised name consists only of Normal components, has no root, and is a fixed point *)
Theorem sanitize_safe : forall s,
  let n := sanitize_name s in
  Forall normal_component (components n) /\ has_root n = false /\ sanitize_name n = n.
Proof.
  intros s n. subst n. repeat split.
  - rewrite sanitize_components_eq. apply sanitize_components.
  - apply sanitize_no_root.
  - apply sanitize_idem.
Qed.

(* the same without the auxiliary `components`: a non-empty sanitised name split at "/" *)
Lemma sanitize_safe_segments s : sanitize_name s <> [] ->
  Forall normal_component (segments (sanitize_name s)).
Proof.
  intros H. pose proof (sanitize_components_eq s) as E. unfold components in E.
  destruct (sanitize_name s) eqn:E'; [contradiction|]. rewrite E. apply sanitize_components.
Qed.

(* A5 *)
Corollary sanitize_no_dotdot s c : In c (components (sanitize_name s)) ->
  c <> [dot; dot] /\ c <> [dot] /\ c <> [] /\ ~ In slash c.
Proof.
  intros H. destruct (sanitize_safe s) as (HF & _ & _). rewrite Forall_forall in HF.
  destruct (HF c H) as (H1 & H2 & H3 & H4). auto.
Qed.

(* a name that is already made of Normal components is left alone *)
Lemma sanitize_fixed segs : Forall normal_component segs ->
  sanitize_name (join [slash] segs) = join [slash] segs.
Proof.
  intros HF. destruct segs as [|c r]; [reflexivity|].
  unfold sanitize_name, segments. rewrite fields_join.
  - rewrite filter_all; [reflexivity|]. eapply Forall_impl; [|exact HF]. apply normal_component_seg.
  - eapply Forall_impl; [|exact HF]. intros ? (_ & _ & _ & H). exact H.
  - discriminate.
Qed.

Example sanitize_ex1 : sanitize_name (lit "/a/./b//../c.d/") = lit "a/b/c.d".
Proof. vm_compute. reflexivity. Qed.
Example sanitize_ex2 : sanitize_name (lit "../..") = [].
Proof. vm_compute. reflexivity. Qed.
Example fields_join_ex : fields slash (join [slash] [lit "a"; lit ".."; []; lit "b"]) = [lit "a"; lit ".."; []; lit "b"].
Proof. vm_compute. reflexivity. Qed.

(* ---- UTF-8 validity and "/" --------------------------------------------------------------- *)
(* one decoding step of the well-formedness table: the rest after one well-formed character *)
Definition utf8_head (l : bytes) : option bytes :=
  match l with
  | [] => None
  | a :: r =>
    let x := b2n a in
    if N.leb x 0x7F then Some r
    else if in_range 0xC2 0xDF a then
      match r with b :: r' => if in_range 0x80 0xBF b then Some r' else None | _ => None end
    else if N.eqb x 0xE0 then
      match r with b :: c :: r' => if in_range 0xA0 0xBF b && in_range 0x80 0xBF c then Some r' else None | _ => None end
    else if in_range 0xE1 0xEC a || in_range 0xEE 0xEF a then
      match r with b :: c :: r' => if in_range 0x80 0xBF b && in_range 0x80 0xBF c then Some r' else None | _ => None end
    else if N.eqb x 0xED then
      match r with b :: c :: r' => if in_range 0x80 0x9F b && in_range 0x80 0xBF c then Some r' else None | _ => None end
    else if N.eqb x 0xF0 then
      match r with b :: c :: d :: r' => if in_range 0x90 0xBF b && in_range 0x80 0xBF c && in_range 0x80 0xBF d then Some r' else None | _ => None end
    else if in_range 0xF1 0xF3 a then
      match r with b :: c :: d :: r' => if in_range 0x80 0xBF b && in_range 0x80 0xBF c && in_range 0x80 0xBF d then Some r' else None | _ => None end
    else if N.eqb x 0xF4 then
      match r with b :: c :: d :: r' => if in_range 0x80 0x8F b && in_range 0x80 0xBF c && in_range 0x80 0xBF d then Some r' else None | _ => None end
    else None
  end.

Ltac brk_if :=
  repeat match goal with
  | |- context [if ?c then _ else _] => destruct c eqn:?; cbv iota
  end.

Lemma utf8_fuel_step f a r :
  utf8_valid_fuel (S f) (a :: r) =
  match utf8_head (a :: r) with Some r' => utf8_valid_fuel f r' | None => false end.
Proof.
  cbn [utf8_valid_fuel utf8_head]. cbv zeta.
  destruct r as [|b [|c [|d r']]]; brk_if; cbn [andb]; try reflexivity.
Qed.

Ltac brk_hyp H :=
  repeat match type of H with
  | context [if ?c then _ else _] => destruct c eqn:?; cbv iota in H
  end.

Lemma utf8_head_shorter l r' : utf8_head l = Some r' -> (length r' < length l)%nat.
Proof.
  destruct l as [|a r]; [discriminate|]. cbn [utf8_head]. cbv zeta. intros H.
  destruct r as [|b [|c [|d r'']]]; brk_hyp H; try discriminate; injection H as <-; cbn [length]; lia.
Qed.

Lemma utf8_head_app x z r' : utf8_head x = Some r' -> utf8_head (x ++ z) = Some (r' ++ z).
Proof.
  destruct x as [|a r]; [discriminate|]. cbn [utf8_head app]. cbv zeta. intros H.
  destruct r as [|b [|c [|d r'']]]; cbn [app]; brk_hyp H; try discriminate; injection H as <-; reflexivity.
Qed.

Lemma ascii_not_cont lo hi b : b2n b <= 0x7F -> 0x80 <= lo -> in_range lo hi b = false.
Proof. intros H1 H2. unfold in_range. apply andb_false_iff. left. apply N.leb_gt. lia. Qed.

Lemma utf8_head_ascii b y : b2n b <= 0x7F -> utf8_head (b :: y) = Some y.
Proof. intros H. cbn [utf8_head]. cbv zeta. apply N.leb_le in H. rewrite H. reflexivity. Qed.

Lemma utf8_head_none_app x b y : x <> [] -> b2n b <= 0x7F -> utf8_head x = None ->
  utf8_head (x ++ b :: y) = None.
Proof.
  intros Hx Hb. destruct x as [|a r]; [contradiction|]. cbn [utf8_head app]. cbv zeta. intros H.
  destruct r as [|c [|d [|e r'']]]; cbn [app]; brk_hyp H; try discriminate; try reflexivity;
    rewrite ?(ascii_not_cont 0x80 0xBF b), ?(ascii_not_cont 0xA0 0xBF b), ?(ascii_not_cont 0x80 0x9F b),
            ?(ascii_not_cont 0x90 0xBF b), ?(ascii_not_cont 0x80 0x8F b) by (assumption || lia);
    rewrite ?andb_false_r; cbn [andb]; try reflexivity;
    destruct y as [|y1 [|y2 y]]; reflexivity.
Qed.

Lemma utf8_fuel_indep f : forall g l, (length l <= f)%nat -> (length l <= g)%nat ->
  utf8_valid_fuel f l = utf8_valid_fuel g l.
Proof.
  induction f as [|f IH]; intros g l Hf Hg.
  - destruct l; [|cbn [length] in Hf; lia]. destruct g; reflexivity.
  - destruct l as [|a r]; [destruct g; reflexivity|].
    destruct g as [|g]; [cbn [length] in Hg; lia|].
    rewrite !utf8_fuel_step. destruct (utf8_head (a :: r)) as [r'|] eqn:E; [|reflexivity].
    apply utf8_head_shorter in E. cbn [length] in *. apply IH; lia.
Qed.

Lemma utf8_valid_nil : utf8_valid [] = true.
Proof. reflexivity. Qed.

Lemma utf8_valid_step a r :
  utf8_valid (a :: r) = match utf8_head (a :: r) with Some r' => utf8_valid r' | None => false end.
Proof.
  unfold utf8_valid. rewrite utf8_fuel_step.
  destruct (utf8_head (a :: r)) as [r'|] eqn:E; [|reflexivity].
  apply utf8_head_shorter in E. cbn [length] in *. apply utf8_fuel_indep; lia.
Qed.

(* an ASCII byte is always a character boundary *)
Lemma utf8_valid_split_ascii b : b2n b <= 0x7F -> forall x y,
  utf8_valid (x ++ b :: y) = utf8_valid x && utf8_valid y.
Proof.
  intros Hb x y. remember (length x) as n eqn:Hn.
  assert (Hle : (length x <= n)%nat) by lia. clear Hn. revert x Hle.
  induction n as [|n IH]; intros x Hle.
  - destruct x; [|cbn [length] in Hle; lia]. cbn [app].
    rewrite utf8_valid_step, utf8_head_ascii by exact Hb. reflexivity.
  - destruct x as [|a r].
    + cbn [app]. rewrite utf8_valid_step, utf8_head_ascii by exact Hb. reflexivity.
    + rewrite (utf8_valid_step a r). change ((a :: r) ++ b :: y) with (a :: (r ++ b :: y)).
      rewrite utf8_valid_step. change (a :: (r ++ b :: y)) with ((a :: r) ++ b :: y).
      destruct (utf8_head (a :: r)) as [r'|] eqn:E.
      * rewrite (utf8_head_app _ _ _ E). apply IH.
        apply utf8_head_shorter in E. cbn [length] in *. lia.
      * rewrite utf8_head_none_app by (discriminate || assumption). reflexivity.
Qed.

Lemma slash_ascii : b2n slash <= 0x7F.
Proof. vm_compute. discriminate. Qed.

Lemma utf8_valid_join segs : utf8_valid (join [slash] segs) = forallb utf8_valid segs.
Proof.
  induction segs as [|x segs IH]; [reflexivity|].
  destruct segs as [|y segs].
  - cbn [join forallb]. rewrite andb_true_r. reflexivity.
  - change (join [slash] (x :: y :: segs)) with (x ++ slash :: join [slash] (y :: segs)).
    rewrite utf8_valid_split_ascii by exact slash_ascii. rewrite IH. reflexivity.
Qed.

Lemma utf8_valid_segments s : utf8_valid s = forallb utf8_valid (segments s).
Proof. rewrite <- (join_fields slash s) at 1. apply utf8_valid_join. Qed.

Lemma forallb_filter {A} (p f : A -> bool) l : forallb p l = true -> forallb p (filter f l) = true.
Proof.
  induction l as [|x l IH]; [reflexivity|]. cbn [forallb filter]. rewrite andb_true_iff. intros [Hx Hl].
  destruct (f x); [cbn [forallb]; rewrite Hx|]; auto.
Qed.

(* sanitising keeps UTF-8 validity: "/" is ASCII, so every component of a valid string is valid *)
Lemma utf8_valid_sanitize s : utf8_valid s = true -> utf8_valid (sanitize_name s) = true.
Proof.
  rewrite (utf8_valid_segments s). intros H. unfold sanitize_name. rewrite utf8_valid_join.
  apply forallb_filter. exact H.
Qed.

Lemma name_of_bytes_ok s n : name_of_bytes s = Ok n ->
  utf8_valid n = true /\ sanitize_name n = n /\ n = sanitize_name s.
Proof.
  unfold name_of_bytes. destruct (utf8_valid s) eqn:E; [|discriminate]. intros [= <-].
  split; [apply utf8_valid_sanitize; exact E|]. split; [apply sanitize_idem|reflexivity].
Qed.

Lemma name_of_bytes_fixed n : utf8_valid n = true -> sanitize_name n = n -> name_of_bytes n = Ok n.
Proof. intros H1 H2. unfold name_of_bytes. rewrite H1, H2. reflexivity. Qed.

Example utf8_sanitize_ex :
  let s := lit "/caf" ++ [xc3; xa9] ++ lit "/../x" in
  utf8_valid s = true /\ sanitize_name s = lit "caf" ++ [xc3; xa9] ++ lit "/x".
Proof. vm_compute. split; reflexivity. Qed.
